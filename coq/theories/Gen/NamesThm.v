(* Gen/NamesThm.v -- theorems about the identifier mangling model (Gen/Names.v). *)
From Coq Require Import List String Ascii NArith Bool Lia.
Import ListNotations.
From IT Require Import Gen.Names.

(* ---------- facts about single characters (case analysis over the 256 bytes) ---------- *)
Ltac bytes c := destruct c as [[] [] [] [] [] [] [] []]; vm_compute; intros; try reflexivity; try discriminate; auto.

Lemma us_is_us : is_us us = true. Proof. reflexivity. Qed.
Lemma us_ident_char : is_ident_char us = true. Proof. reflexivity. Qed.
Lemma us_ident_start : is_ident_start us = true. Proof. reflexivity. Qed.
Lemma start_is_char : forall c, is_ident_start c = true -> is_ident_char c = true. Proof. intro c; bytes c. Qed.
Lemma upper_char : forall c, is_ident_char c = true -> is_ident_char (upper c) = true. Proof. intro c; bytes c. Qed.
Lemma upper_start : forall c, is_ident_start c = true -> is_ident_start (upper c) = true. Proof. intro c; bytes c. Qed.
Lemma lower_char : forall c, is_ident_char c = true -> is_ident_char (lower c) = true. Proof. intro c; bytes c. Qed.
Lemma lower_start : forall c, is_ident_start c = true -> is_ident_start (lower c) = true. Proof. intro c; bytes c. Qed.
Lemma upper_not_us : forall c, is_us c = false -> Ascii.eqb (upper c) us = false. Proof. intro c; bytes c. Qed.
Lemma lower_not_us : forall c, is_upper c = true -> Ascii.eqb (lower c) us = false. Proof. intro c; bytes c. Qed.
Lemma is_us_eqb : forall c, is_us c = Ascii.eqb c us. Proof. intro c; bytes c. Qed.
Lemma lower_upper : forall c, is_lower c = true -> lower (upper c) = c. Proof. intro c; bytes c. Qed.
Lemma lower_upper_is_upper : forall c, is_lower c = true -> is_upper (upper c) = true. Proof. intro c; bytes c. Qed.
Lemma lower_upper_not_us : forall c, is_lower c = true -> is_us (upper c) = false. Proof. intro c; bytes c. Qed.
Lemma lower_not_upper : forall c, is_lower c = true -> is_upper c = false. Proof. intro c; bytes c. Qed.
Lemma digit_not_upper : forall c, is_digit c = true -> is_upper c = false. Proof. intro c; bytes c. Qed.
Lemma ident_char_ascii : forall c, is_ident_char c = true -> is_ascii c = true. Proof. intro c; bytes c. Qed.

Definition all_ic (l : chars) : bool := forallb is_ident_char l.

Lemma shape_all_ic : forall l, ident_shape l = true -> all_ic l = true.
Proof.
  intros [|c r]; simpl; [discriminate|]. intro H. apply andb_prop in H. destruct H as [H1 H2].
  unfold all_ic. simpl. rewrite (start_is_char c H1). exact H2.
Qed.

(* a legal identifier is pure ASCII: the domain on which the byte model and the Rust `chars()` code coincide *)
Lemma legal_is_ascii : forall l, legal_ident l = true -> forallb is_ascii l = true.
Proof.
  intros l H. unfold legal_ident in H. apply andb_prop in H. destruct H as [H _].
  apply shape_all_ic in H. unfold all_ic in H. rewrite forallb_forall in *. intros x Hx. apply ident_char_ascii. auto.
Qed.

Lemma chars_eqb_refl : forall a, chars_eqb a a = true.
Proof. induction a; simpl; auto. rewrite Ascii.eqb_refl. exact IHa. Qed.

Lemma chars_eqb_eq : forall a b, chars_eqb a b = true <-> a = b.
Proof.
  induction a; destruct b; simpl; split; intro H; try discriminate; auto.
  - apply andb_prop in H. destruct H as [H1 H2]. apply Ascii.eqb_eq in H1. apply IHa in H2. congruence.
  - inversion H; subst. rewrite Ascii.eqb_refl. apply chars_eqb_refl.
Qed.

(* ---------- the split/map/concat definition is the one-pass automaton ---------- *)
Lemma camel_split_aut_both : forall l,
  List.concat (map word_camel (split_us l)) = camel_aut true l /\
  match split_us l with w :: ws => (w ++ List.concat (map word_camel ws))%list | [] => [] end = camel_aut false l.
Proof.
  induction l as [|c r [IH1 IH2]]; simpl.
  - split; reflexivity.
  - destruct (is_us c) eqn:U; simpl.
    + rewrite IH1. split; reflexivity.
    + destruct (split_us r) as [|w ws]; simpl in *.
      * rewrite <- IH2. split; reflexivity.
      * rewrite <- IH2. split; reflexivity.
Qed.

Lemma camel_split_aut : forall input, to_upper_camel_case input = camel_aut true (strip_raw input).
Proof. intro. unfold to_upper_camel_case. apply camel_split_aut_both. Qed.

(* ---------- script_field never panics on a legal name and returns a legal identifier ---------- *)
Lemma camel_aut_all_ic : forall l ws, all_ic l = true -> all_ic (camel_aut ws l) = true.
Proof.
  unfold all_ic. induction l as [|c r IH]; intros ws H; simpl in *.
  - destruct ws; reflexivity.
  - apply andb_prop in H. destruct H as [Hc Hr].
    destruct (is_us c), ws; simpl; rewrite ?us_ident_char, ?(upper_char c Hc), ?Hc; simpl; apply IH; exact Hr.
Qed.

Lemma camel_aut_true_nonempty : forall l, camel_aut true l <> [].
Proof. intros [|c r]; simpl; [discriminate|]. destruct (is_us c); discriminate. Qed.

Lemma camel_aut_legal : forall l, legal_ident l = true -> legal_ident (camel_aut true l) = true.
Proof.
  intros [|c r] H; unfold legal_ident in *; simpl in H; [discriminate|].
  apply andb_prop in H. destruct H as [H _]. apply andb_prop in H. destruct H as [Hc Hr].
  simpl. destruct (is_us c) eqn:U.
  - simpl. fold (all_ic (camel_aut true r)). rewrite (camel_aut_all_ic r true Hr). simpl.
    destruct (camel_aut true r) eqn:E; [exfalso; exact (camel_aut_true_nonempty r E)|].
    reflexivity.
  - simpl. rewrite (upper_start c Hc). fold (all_ic (camel_aut false r)). rewrite (camel_aut_all_ic r false Hr). simpl.
    rewrite (upper_not_us c U). reflexivity.
Qed.

Lemma legal_shape : forall l, legal_ident l = true -> ident_shape l = true.
Proof. intros l H. unfold legal_ident in H. apply andb_prop in H. tauto. Qed.

Theorem script_field_total : forall name, legal_input name = true ->
  exists o, script_field name = Ok o /\ legal_ident o = true.
Proof.
  intros name H. unfold script_field. rewrite camel_split_aut. unfold legal_input in H.
  pose proof (camel_aut_legal _ H) as L. exists (camel_aut true (strip_raw name)). split; [|exact L].
  unfold fmt_ident. rewrite (legal_shape _ L). reflexivity.
Qed.

(* ---------- injectivity of the variant-name mangling on lower_snake_case names ---------- *)
Lemma uncamel_aut : forall l,
  (snake_class_from true l = true -> uncamel false (camel_aut true l) = us :: l) /\
  (snake_class_from false l = true -> uncamel false (camel_aut false l) = l).
Proof.
  induction l as [|c r [IHA IHC]]; simpl.
  - split; intros _; reflexivity.
  - destruct (is_us c) eqn:U.
    + assert (c = us) by (rewrite is_us_eqb in U; apply Ascii.eqb_eq in U; exact U). subst c.
      split; intro H; simpl; rewrite ?us_is_us; rewrite (IHA H); reflexivity.
    + destruct (is_lower c) eqn:L.
      * split; intro H; simpl.
        -- rewrite (lower_upper_not_us c L), (lower_upper_is_upper c L), (lower_upper c L), (IHC H). reflexivity.
        -- rewrite U, (lower_not_upper c L), (IHC H). reflexivity.
      * destruct (is_digit c) eqn:D; simpl.
        -- split; intro H; [discriminate|]. simpl. rewrite U, (digit_not_upper c D), (IHC H). reflexivity.
        -- split; intro H; discriminate.
Qed.

Lemma uncamel_cons : forall first c r, uncamel first (c :: r) =
  if is_us c then (if first then uncamel false r else us :: uncamel false r)
  else if is_upper c then (if first then lower c :: uncamel false r else us :: lower c :: uncamel false r)
  else c :: uncamel false r.
Proof. reflexivity. Qed.

Lemma uncamel_camel : forall l, snake_class l = true -> uncamel true (camel_aut true l) = l.
Proof.
  intros [|c r] H; [reflexivity|]. unfold snake_class in H. simpl in *.
  destruct (is_us c) eqn:U.
  - assert (c = us) by (rewrite is_us_eqb in U; apply Ascii.eqb_eq in U; exact U). subst c.
    rewrite uncamel_cons, us_is_us. exact (proj1 (uncamel_aut r) H).
  - destruct (is_lower c) eqn:L.
    + rewrite uncamel_cons. rewrite (lower_upper_not_us c L), (lower_upper_is_upper c L), (lower_upper c L), (proj2 (uncamel_aut r) H). reflexivity.
    + destruct (is_digit c); discriminate.
Qed.

(* a snake_class name never starts with the raw prefix "r#" *)
Lemma snake_class_strip_raw : forall l, snake_class l = true -> strip_raw l = l.
Proof.
  intros [|a [|b r]] H; try reflexivity. simpl.
  destruct (Ascii.eqb a "r"%char) eqn:A; [|reflexivity]. destruct (Ascii.eqb b "#"%char) eqn:B; [|reflexivity].
  apply Ascii.eqb_eq in A. apply Ascii.eqb_eq in B. subst. vm_compute in H. discriminate.
Qed.

Lemma snake_class_all_ic : forall l ws, snake_class_from ws l = true -> all_ic l = true.
Proof.
  unfold all_ic. induction l as [|c r IH]; intros ws H; simpl in *; [reflexivity|].
  destruct (is_us c) eqn:U.
  - assert (is_ident_char c = true) as -> by (unfold is_ident_char; rewrite U; apply orb_true_r). simpl. eapply IH; eauto.
  - destruct (is_lower c) eqn:L.
    + assert (is_ident_char c = true) as -> by (unfold is_ident_char, is_alpha; rewrite L; reflexivity). simpl. eapply IH; eauto.
    + destruct (is_digit c) eqn:D; [|discriminate]. apply andb_prop in H. destruct H as [_ H].
      assert (is_ident_char c = true) as -> by (unfold is_ident_char; rewrite D; rewrite orb_true_r; reflexivity). simpl. eapply IH; eauto.
Qed.

Theorem script_field_injective_on_snake_class : forall a b,
  snake_class a = true -> snake_class b = true -> script_field a = script_field b -> a = b.
Proof.
  intros a b Ha Hb E. unfold script_field in E. rewrite !camel_split_aut in E.
  rewrite (snake_class_strip_raw a Ha), (snake_class_strip_raw b Hb) in E.
  unfold fmt_ident in E.
  destruct (ident_shape (camel_aut true a)) eqn:Sa; destruct (ident_shape (camel_aut true b)) eqn:Sb; try discriminate.
  - inversion E as [E']. rewrite <- (uncamel_camel a Ha), <- (uncamel_camel b Hb), E'. reflexivity.
  - (* both would panic: impossible to conclude a = b from that alone, but camel_aut true never yields a non-identifier on this class *)
    exfalso. clear E Sb Hb b.
    pose proof (snake_class_all_ic a true Ha) as H.
    pose proof (camel_aut_all_ic a true H) as K.
    destruct a as [|c r].
    + vm_compute in Sa. discriminate.
    + unfold snake_class in Ha. simpl in Ha, Sa, K. destruct (is_us c) eqn:U.
      * simpl in Sa. unfold all_ic in K. simpl in K. rewrite K in Sa. discriminate.
      * destruct (is_lower c) eqn:L.
        -- simpl in Sa. unfold all_ic in K. simpl in K. apply andb_prop in K. destruct K as [_ K]. rewrite K in Sa.
           assert (is_ident_start (upper c) = true) as X by (apply upper_start; unfold is_ident_start, is_alpha; rewrite L; reflexivity).
           rewrite X in Sa. discriminate.
        -- destruct (is_digit c); discriminate.
Qed.

(* the full-strength statement (injective on all legal names) is false: two witnesses.
   "a_b"/"a_B": the case of a letter after '_' is forgotten; "a_1"/"a1": a '_' before a digit is forgotten. *)
Theorem script_field_injective_refuted :
  exists a b, legal_input a = true /\ legal_input b = true /\ a <> b /\ script_field a = script_field b.
Proof. exists (s2l "a_b"), (s2l "a_B"). vm_compute. repeat split; try reflexivity. discriminate. Qed.

Theorem script_field_injective_refuted_lowercase :
  exists a b, legal_input a = true /\ legal_input b = true /\ a <> b /\ script_field a = script_field b.
Proof. exists (s2l "a_1"), (s2l "a1"). vm_compute. repeat split; try reflexivity. discriminate. Qed.

Example snake_class_nontrivial : snake_class (s2l "_get__value2_") = true /\ legal_input (s2l "_get__value2_") = true.
Proof. split; reflexivity. Qed.
Example script_field_ex : script_field_s "_get__value2_" = Some "_Get_Value2_"%string.
Proof. reflexivity. Qed.
Example script_field_raw_ex : script_field_s "r#type" = Some "Type"%string /\ legal_input_s "r#type" = true.
Proof. split; reflexivity. Qed.

(* ---------- family_field_name ---------- *)
Lemma snake_from_all_ic : forall l first, all_ic l = true -> all_ic (snake_from first l) = true.
Proof.
  unfold all_ic. induction l as [|c r IH]; intros first H; simpl in *; [reflexivity|].
  apply andb_prop in H. destruct H as [Hc Hr].
  destruct (is_upper c), first; simpl; rewrite ?us_ident_char, ?(lower_char c Hc), ?Hc; simpl; apply IH; exact Hr.
Qed.

Lemma snake_from_nonempty : forall l first, l <> [] -> snake_from first l <> [].
Proof. intros [|c r] first H; [congruence|]. simpl. destruct (is_upper c), first; discriminate. Qed.

Theorem family_field_name_total : forall name, legal_ident name = true ->
  exists o, family_field_name name = Ok o /\ legal_ident o = true.
Proof.
  intros name H. unfold family_field_name, to_lower_snake_case.
  assert (legal_ident (snake_from true name) = true) as L.
  { destruct name as [|c r]; unfold legal_ident in *; simpl in H; [discriminate|].
    apply andb_prop in H. destruct H as [H N]. apply andb_prop in H. destruct H as [Hc Hr].
    simpl. destruct (is_upper c) eqn:U; simpl.
    - rewrite (lower_start c Hc). fold (all_ic (snake_from false r)). rewrite (snake_from_all_ic r false Hr).
      rewrite (lower_not_us c U). reflexivity.
    - rewrite Hc. fold (all_ic (snake_from false r)). rewrite (snake_from_all_ic r false Hr). simpl.
      destruct r as [|d r'].
      + simpl in *. exact N.
      + pose proof (snake_from_nonempty (d :: r') false ltac:(discriminate)) as NE.
        destruct (snake_from false (d :: r')); [congruence|]. rewrite andb_false_r. reflexivity. }
  exists (snake_from true name). split; [|exact L]. unfold fmt_ident. rewrite (legal_shape _ L). reflexivity.
Qed.

Example family_field_name_ex : family_field_name_s "UserFamX" = Some "user_fam_x"%string. Proof. reflexivity. Qed.

(* ---------- combined_ident ---------- *)
Lemma join2_legal : forall a y, legal_ident a = true -> legal_ident y = true -> legal_ident (join2 a y) = true.
Proof.
  intros a y Ha Hy. pose proof (shape_all_ic _ (legal_shape _ Ha)) as Aa. pose proof (shape_all_ic _ (legal_shape _ Hy)) as Ay.
  apply legal_shape in Ha. destruct a as [|c r]; [discriminate|]. unfold legal_ident, join2. simpl in *.
  apply andb_prop in Ha. destruct Ha as [Hc Hr]. rewrite Hc. rewrite forallb_app. rewrite Hr. simpl.
  unfold all_ic in Ay. rewrite Ay. simpl.
  destruct r; simpl; rewrite andb_false_r; reflexivity.
Qed.

(* '#' is not an identifier character, so a legal (non-raw) identifier has no `r#` prefix to lose *)
Lemma strip_raw_legal : forall l, legal_ident l = true -> strip_raw l = l.
Proof.
  intros l H. pose proof (shape_all_ic _ (legal_shape _ H)) as A. destruct l as [|r [|h rest]]; try reflexivity.
  unfold strip_raw. destruct (Ascii.eqb r "r"%char && Ascii.eqb h "#"%char) eqn:E; [|reflexivity].
  apply andb_prop in E. destruct E as [_ E]. apply Ascii.eqb_eq in E. subst h.
  unfold all_ic in A. simpl in A. rewrite andb_false_r in A. discriminate.
Qed.

Lemma legal_ident_input : forall l, legal_ident l = true -> legal_input l = true.
Proof. intros l H. unfold legal_input. rewrite (strip_raw_legal _ H). exact H. Qed.

Lemma combined_fold_ok : forall r a, legal_ident a = true -> Forall (fun y => legal_input y = true) r ->
  exists o, fold_left (fun acc y => match acc with Ok a => fmt_ident (join2 (strip_raw a) (strip_raw y)) | e => e end) r (Ok a) = Ok o
            /\ legal_ident o = true.
Proof.
  induction r as [|y r IH]; intros a Ha F; simpl.
  - exists a. auto.
  - inversion F; subst. rewrite (strip_raw_legal _ Ha).
    pose proof (join2_legal a (strip_raw y) Ha H1) as L. unfold fmt_ident at 2. rewrite (legal_shape _ L). apply IH; auto.
Qed.

(* totality over the whole identifier language, raw identifiers included: never a panic, never the internal error *)
Theorem combined_ident_total : forall ids, ids <> [] -> Forall (fun y => legal_input y = true) ids ->
  exists o, combined_ident ids = Ok o /\ legal_input o = true.
Proof.
  intros [|x [|y r]] N F; [congruence| |].
  - inversion F; subst. exists x. split; [reflexivity|assumption].
  - inversion F as [|? ? Hx F']; subst. inversion F' as [|? ? Hy F'']; subst.
    unfold combined_ident. cbn [fold_left].
    pose proof (join2_legal (strip_raw x) (strip_raw y) Hx Hy) as L. unfold fmt_ident at 2. rewrite (legal_shape _ L).
    destruct (combined_fold_ok r _ L F'') as [o [E Lo]]. exists o. split; [exact E|apply legal_ident_input; exact Lo].
Qed.

(* two or more identifiers always give a non-raw identifier *)
Theorem combined_ident_plain : forall x y r, Forall (fun y => legal_input y = true) (x :: y :: r) ->
  exists o, combined_ident (x :: y :: r) = Ok o /\ legal_ident o = true.
Proof.
  intros x y r F. inversion F as [|? ? Hx F']; subst. inversion F' as [|? ? Hy F'']; subst.
  unfold combined_ident. cbn [fold_left].
  pose proof (join2_legal (strip_raw x) (strip_raw y) Hx Hy) as L. unfold fmt_ident at 2. rewrite (legal_shape _ L).
  exact (combined_fold_ok r _ L F'').
Qed.

(* the only way to the "Internal Error" abort of combined_ident is the empty container *)
Theorem combined_ident_internal_error_iff_empty : forall ids, Forall (fun y => legal_input y = true) ids ->
  (combined_ident ids = InternalError <-> ids = []).
Proof.
  intros ids F. split.
  - intro E. destruct ids as [|x r]; [reflexivity|]. destruct (combined_ident_total (x :: r) ltac:(discriminate) F) as [o [E' _]]. congruence.
  - intros ->. reflexivity.
Qed.

(* the code before the fix panicked on a raw identifier in any position but the first *)
Theorem combined_ident_old_panics_on_raw :
  exists ids, Forall (fun y => legal_input y = true) ids /\ combined_ident_old ids = Panic /\ exists o, combined_ident ids = Ok o.
Proof. exists [s2l "a"; s2l "r#type"]. split; [repeat constructor|]. split; [reflexivity|]. eexists. reflexivity. Qed.

(* flattening a destructuring pattern into one field name is not injective either *)
Theorem combined_ident_injective_refuted :
  exists i j, Forall (fun y => legal_ident y = true) i /\ Forall (fun y => legal_ident y = true) j /\ i <> j /\ combined_ident i = combined_ident j.
Proof.
  exists [s2l "a_b"; s2l "c"], [s2l "a"; s2l "b_c"]. repeat split.
  - repeat constructor.
  - repeat constructor.
  - discriminate.
Qed.

Example combined_ident_ex : combined_ident_s ["a"; "b"; "__"]%string = Some "a_b___"%string. Proof. reflexivity. Qed.
Example combined_ident_raw_ex : combined_ident_s ["r#type"; "r#match"; "c"]%string = Some "type_match_c"%string
                                /\ combined_ident_s ["r#type"]%string = Some "r#type"%string. Proof. split; reflexivity. Qed.

(* ---------- no duplicate enum variants for lower_snake_case method names ---------- *)
Theorem script_variants_nodup : forall names, Forall (fun n => snake_class n = true) names -> NoDup names ->
  NoDup (map script_field names).
Proof.
  induction names as [|a r IH]; intros F N; simpl; [constructor|].
  inversion F; subst. inversion N; subst. constructor; [|apply IH; auto].
  intro Hin. apply in_map_iff in Hin. destruct Hin as [b [E Hb]].
  assert (snake_class b = true) as Sb by (rewrite Forall_forall in H2; apply H2; exact Hb).
  pose proof (script_field_injective_on_snake_class b a Sb H1 E). subst. contradiction.
Qed.

(* ---------- the variant-collision check of get_methods: distinct variants OR a diagnostic naming both methods ---------- *)
Lemma find_first_some : forall f seen n, find_first f seen = Some n -> In (n, f) seen.
Proof.
  induction seen as [|[m g] r IH]; intros n H; simpl in *; [discriminate|].
  destruct (chars_eqb g f) eqn:E.
  - apply chars_eqb_eq in E. inversion H; subst. left. reflexivity.
  - right. apply IH. exact H.
Qed.

Lemma find_first_none : forall f seen, find_first f seen = None -> ~ In f (map snd seen).
Proof.
  induction seen as [|[m g] r IH]; intros H; simpl in *; [tauto|].
  destruct (chars_eqb g f) eqn:E; [discriminate|]. intros [K|K].
  - subst. rewrite chars_eqb_refl in E. discriminate.
  - exact (IH H K).
Qed.

Lemma NoDup_snoc : forall (A : Type) (l : list A) x, NoDup l -> ~ In x l -> NoDup (l ++ [x]).
Proof.
  induction l as [|a l IH]; intros x N H; simpl.
  - constructor; [tauto|constructor].
  - inversion N; subst. constructor.
    + rewrite in_app_iff. simpl. intros [K|[K|[]]]; [contradiction|]. subst. apply H. left. reflexivity.
    + apply IH; auto. intro K. apply H. right. exact K.
Qed.

Lemma check_variants_spec : forall names seen,
  Forall (fun n => legal_input n = true) names -> NoDup (map snd seen) ->
  (forall n f, In (n, f) seen -> script_field n = Ok f) ->
  match check_variants seen names with
  | VOk vs => NoDup vs /\ map Ok vs = (map Ok (map snd seen) ++ map script_field names)%list
  | VDiag a b => exists l1 l2, names = (l1 ++ b :: l2)%list /\ (In a (map fst seen) \/ In a l1) /\ script_field a = script_field b
  | VPanic => False
  end.
Proof.
  induction names as [|a r IH]; intros seen F N Hs; simpl.
  - rewrite app_nil_r. split; auto.
  - inversion F; subst. destruct (script_field_total a H1) as [o [E _]]. rewrite E.
    destruct (find_first o seen) as [c|] eqn:FF.
    + exists [], r. apply find_first_some in FF. repeat split.
      * left. apply in_map_iff. exists (c, o). split; auto.
      * rewrite (Hs c o FF). symmetry. exact E.
    + assert (NoDup (map snd (seen ++ [(a, o)]))) as N'.
      { rewrite map_app. simpl. apply NoDup_snoc; auto. apply find_first_none. exact FF. }
      assert (forall n f, In (n, f) (seen ++ [(a, o)]) -> script_field n = Ok f) as Hs'.
      { intros n f K. apply in_app_or in K. destruct K as [K|[K|[]]]; [auto|]. inversion K; subst. exact E. }
      specialize (IH (seen ++ [(a, o)]) H2 N' Hs').
      destruct (check_variants (seen ++ [(a, o)]) r) as [vs|x y|].
      * destruct IH as [ND M]. split; [exact ND|]. rewrite M, !map_app. simpl. rewrite <- app_assoc. reflexivity.
      * destruct IH as [l1 [l2 [Er [K S]]]]. exists (a :: l1), l2. subst r. repeat split; auto.
        rewrite map_app in K. simpl in K. destruct K as [K|K].
        -- apply in_app_or in K. destruct K as [K|[K|[]]]; [left; exact K|]. right. left. exact K.
        -- right. right. exact K.
      * exact IH.
Qed.

(* on legal method names: a duplicate-free list of variants (one per method, in order), or a diagnostic naming two methods of
   the list, the first strictly before the second, that are mangled to the same variant; never a panic *)
Theorem script_variants_nodup_or_diag : forall names, Forall (fun n => legal_input n = true) names ->
  match script_variants names with
  | VOk vs => NoDup vs /\ map Ok vs = map script_field names
  | VDiag a b => exists l1 l2, names = (l1 ++ b :: l2)%list /\ In a l1 /\ script_field a = script_field b
  | VPanic => False
  end.
Proof.
  intros names F. pose proof (check_variants_spec names [] F (NoDup_nil _) (fun n f K => match K with end)) as S.
  unfold script_variants. destruct (check_variants [] names) as [vs|a b|]; simpl in S; auto.
  destruct S as [l1 [l2 [E [[[]|K] Q]]]]. exists l1, l2. auto.
Qed.

(* ... and the diagnostic is never raised against distinct lower_snake_case names *)
Theorem script_variants_ok_on_snake_class : forall names,
  Forall (fun n => legal_input n = true) names -> Forall (fun n => snake_class n = true) names -> NoDup names ->
  exists vs, script_variants names = VOk vs /\ NoDup vs.
Proof.
  intros names L S N. pose proof (script_variants_nodup_or_diag names L) as H.
  destruct (script_variants names) as [vs|a b|]; [exists vs; tauto| |contradiction].
  exfalso. destruct H as [l1 [l2 [E [Ia Q]]]]. subst names. rewrite Forall_forall in S.
  assert (a = b).
  { apply script_field_injective_on_snake_class; auto; apply S; rewrite in_app_iff; [left; exact Ia | right; left; reflexivity]. }
  subst a. apply NoDup_remove_2 in N. apply N. rewrite in_app_iff. left. exact Ia.
Qed.

Example script_variants_diag_ex : script_variants_s ["get"; "a_b"; "put"; "a_B"]%string = inr ("a_b", "a_B")%string.
Proof. reflexivity. Qed.
Example script_variants_ok_ex : script_variants_s ["get"; "a_b"; "a__b"]%string = inl (Some ["Get"; "AB"; "A_B"]%string).
Proof. reflexivity. Qed.
