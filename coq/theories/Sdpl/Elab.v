(* Name resolution of the SDPL-IR and elaboration into the runtime model of Runtime/Actor.v.
   Capture of a user parameter by a generated binder (or the converse) is computed here. *)
From Coq Require Import List String NArith Arith Bool.
Import ListNotations.
From IT Require Import Sdpl.IR Runtime.Actor.
Open Scope string_scope.

Definition unbound : nat := 999.   (* an index no argument list reaches *)

Fixpoint index_of (x : string) (l : list string) : nat :=
  match l with [] => unbound | y :: t => if String.eqb x y then 0 else S (index_of x t) end.
Definition mem (x : string) (l : list string) : bool := existsb (String.eqb x) l.
Fixpoint nodup_str (l : list string) : bool :=
  match l with [] => true | x :: t => negb (mem x t) && nodup_str t end.
Definition src_eqb (a b : src) : bool :=
  match a, b with SVar x, SVar y => String.eqb x y | SSelfField x, SSelfField y => String.eqb x y | _, _ => false end.
Definition is_var (a : src) (x : string) := src_eqb a (SVar x).

(* ---- binders of the live-method scope, innermost last ---- *)
Inductive lbind := BParam (i : nat) | BTx | BRx | BGetter (g : string) | BNone.
Definition lbind_eqb (a b : lbind) := match a, b with BParam i, BParam j => Nat.eqb i j | BTx, BTx | BRx, BRx => true | _, _ => false end.

Fixpoint resolve_pre (pre : list pre_stmt) (x : string) (acc : lbind) : lbind :=
  match pre with
  | [] => acc
  | POneshot tx rx _ _ :: t => resolve_pre t x (if String.eqb x rx then BRx else if String.eqb x tx then BTx else acc)
  | PGetter y g :: t => resolve_pre t x (if String.eqb x y then BGetter g else acc)
  end.
Definition resolve_live (params : list string) (pre : list pre_stmt) (x : string) : lbind :=
  resolve_pre pre x (let i := index_of x params in if Nat.ltb i (List.length params) then BParam i else BNone).
Definition resolve_live_src (params : list string) (pre : list pre_stmt) (e : src) : lbind :=
  match e with SVar x => resolve_live params pre x | _ => BNone end.

(* ---- binders of a direct arm: pattern fields shadow the `actor` parameter, a lock re-binding shadows both ---- *)
Inductive abind := AField (f : string) | AActorParam | ALocked | ANone.
Definition resolve_arm (direct_param : string) (binds : list string) (lk : option lock_stmt) (x : string) : abind :=
  match lk with
  | Some l => if String.eqb x (lk_binder l) then
                (* `let actor = actor.lock()`: the right-hand side is resolved without the new binder *)
                ALocked
              else if mem x binds then AField x else if String.eqb x direct_param then AActorParam else ANone
  | None => if mem x binds then AField x else if String.eqb x direct_param then AActorParam else ANone
  end.
Definition lock_on_ok (direct_param : string) (binds : list string) (lk : option lock_stmt) : bool :=
  match lk with
  | None => true
  | Some l => match lk_on l with
              | SVar x => (negb (mem x binds)) && String.eqb x direct_param
              | _ => false end
  end.

Definition call_args (c : ucall) : list src := match c with UMethod _ _ a => a | UStatic _ _ a => a | UOtherCall _ => [] end.
Definition call_name (c : ucall) : string := match c with UMethod _ m _ => m | UStatic _ m _ => m | UOtherCall _ => "" end.

(* receiver of the user call reaches the actor? (method call on the actor binder, or static call whose
   first argument is the shared actor for family-static receivers, or a plain static function) *)
Definition recv_ok (direct_param : string) (binds : list string) (lk : option lock_stmt) (c : ucall) : bool :=
  match c with
  | UMethod (SVar r) _ _ =>
      match resolve_arm direct_param binds lk r with
      | ALocked => lock_on_ok direct_param binds lk
      | AActorParam => match lk with None => true | Some _ => false end
      | _ => false end
  | UStatic _ _ (SVar a0 :: _) => match resolve_arm direct_param binds lk a0 with AActorParam => true | _ => false end
  | _ => false
  end.
(* arguments of the user call, receiver excluded *)
Definition user_args (c : ucall) : list src :=
  match c with UMethod _ _ a => a | UStatic _ _ (_ :: a) => a | _ => [] end.

Definition names_of (ps : list (string * string)) : list string := map fst ps.
Definition method_names (m : model) : list string := map lm_name (m_methods m).

Fixpoint find_arm (v : string) (arms : list arm) : option arm :=
  match arms with
  | [] => None
  | a :: t => match a with
              | ArmStruct v' _ _ | ArmClosure v' _ _ _ | ArmSkip v' => if String.eqb v v' then Some a else find_arm v t
              | ArmUnknown _ => find_arm v t end
  end.

Definition loud (o : onclosed) : bool := match o with ClosedPanic _ => true | _ => false end.
Definition loud_closed (o : onclosed) : bool := match o with ClosedPanic b => b | _ => false end.

(* one messaging method of the handle, resolved *)
Definition elab_ref (m : model) (lm : lmethod) (rb : ref_body) : rmeth :=
  let params := names_of (lm_params lm) in
  let pre := rb_pre rb in
  let has_tx := existsb (fun p => match p with POneshot _ _ _ _ => true | _ => false end) pre in
  let waits := match rb_tail rb with TWait rx _ _ => match resolve_live_src params pre rx with BRx => true | _ => false end | _ => false end in
  let send_ok := src_eqb (sd_chan (rb_send rb)) (SSelfField "sender") && is_var (sd_msg (rb_send rb)) (rb_msgvar rb) in
  let sk := match sd_kind (rb_send rb) with SendBlocking => SBlocking | _ => STry end in
  let wait_loud := match rb_tail rb with TWait _ _ o => loud o | _ => true end in
  match rb_msg rb with
  | MVariant _ v fields =>
      let fnames := map fst fields in
      (* message field j := parameter index (or unbound) *)
      let froute := map (fun f => match resolve_live_src params pre (snd f) with BParam i => i | _ => unbound end) fields in
      match find_arm v (m_arms m) with
      | Some (ArmStruct _ binds ab) =>
          let ok_recv := recv_ok (m_direct_param m) binds (ab_lock ab) (ab_call ab) in
          let aroute := map (fun a => match a with
                                      | SVar x => match resolve_arm (m_direct_param m) binds (ab_lock ab) x with
                                                  | AField f => index_of f fnames | _ => unbound end
                                      | _ => unbound end) (user_args (ab_call ab)) in
          let own := match ab_reply ab with
                     | Some (SVar tx, _) =>
                         match resolve_arm (m_direct_param m) binds (ab_lock ab) tx with
                         | AField f => match nth_error fields (index_of f fnames) with
                                       | Some (_, e) => match resolve_live_src params pre e with BTx => true | _ => false end
                                       | None => false end
                         | _ => false end
                     | _ => false end in
          {| rm_reply := has_tx && waits; rm_send := if send_ok then sk else STry;
             rm_loud_send := loud (sd_closed (rb_send rb)); rm_loud_wait := wait_loud;
             rm_fields := froute; rm_args := if ok_recv then aroute else map (fun _ => unbound) aroute;
             rm_callee := index_of (call_name (ab_call ab)) (method_names m);
             rm_reply_own := own;
             rm_loud_reply := match ab_reply ab with Some (_, o) => loud o | None => true end; rm_msg := true |}
      | _ => {| rm_reply := has_tx && waits; rm_send := STry; rm_loud_send := false; rm_loud_wait := false;
                rm_fields := froute; rm_args := []; rm_callee := unbound; rm_reply_own := false; rm_loud_reply := false; rm_msg := true |}
      end
  | MClosure _ v cparam _ ab _ =>
      (* the closure captures the live scope; its parameter plays the role of the direct parameter *)
      let ok_arm := match find_arm v (m_arms m) with
                    | Some (ArmClosure _ b (SVar a) _) => String.eqb a (m_direct_param m) && negb (String.eqb b (m_direct_param m))
                    | _ => false end in
      (* family members: `let actor = actor.lock()` inside the closure re-binds a name; the receiver must be that guard and
         the lock must be taken on the closure parameter *)
      let lkb := match ab_lock ab with Some l => lk_binder l | None => cparam end in
      let ok_recv := match ab_call ab with
                     | UMethod (SVar r) _ _ =>
                         match ab_lock ab with
                         | None => String.eqb r cparam
                         | Some l => String.eqb r (lk_binder l) && is_var (lk_on l) cparam end
                     | UStatic _ _ (SVar a0 :: _) => String.eqb a0 cparam && match ab_lock ab with None => true | Some _ => false end
                     | _ => false end in
      let aroute := map (fun a => match a with
                                  | SVar x => if String.eqb x cparam || String.eqb x lkb then unbound else
                                              match resolve_live params pre x with BParam i => i | _ => unbound end
                                  | _ => unbound end) (user_args (ab_call ab)) in
      let own := match ab_reply ab with
                 | Some (SVar tx, _) => negb (String.eqb tx cparam) && negb (String.eqb tx lkb) && match resolve_live params pre tx with BTx => true | _ => false end
                 | _ => false end in
      {| rm_reply := has_tx && waits; rm_send := if send_ok then sk else STry;
         rm_loud_send := loud (sd_closed (rb_send rb)); rm_loud_wait := wait_loud;
         rm_fields := seq 0 (List.length params); rm_args := if ok_arm && ok_recv then aroute else map (fun _ => unbound) aroute;
         rm_callee := index_of (call_name (ab_call ab)) (method_names m);
         rm_reply_own := own;
         rm_loud_reply := match ab_reply ab with Some (_, o) => loud o | None => true end; rm_msg := true |}
  | MUnknown _ => {| rm_reply := false; rm_send := STry; rm_loud_send := false; rm_loud_wait := false;
                     rm_fields := []; rm_args := []; rm_callee := unbound; rm_reply_own := false; rm_loud_reply := false; rm_msg := true |}
  end.

(* methods that do not message the actor get an inert entry so that indices stay aligned with m_methods *)
Definition inert (k : nat) : rmeth := {| rm_reply := false; rm_send := SBlocking; rm_loud_send := true; rm_loud_wait := true;
                               rm_fields := []; rm_args := []; rm_callee := k; rm_reply_own := false; rm_loud_reply := true; rm_msg := false |}.
Definition elab_method (m : model) (k : nat) (lm : lmethod) : rmeth :=
  match lm_body lm with BRef rb => elab_ref m lm rb | _ => inert k end.
Fixpoint mapi {X Y} (f : nat -> X -> Y) (k : nat) (l : list X) : list Y :=
  match l with [] => [] | x :: t => f k x :: mapi f (S k) t end.

Definition ctor_of (m : model) : option ctor_body :=
  match filter (fun lm => match lm_body lm with BCtor _ => true | _ => false end) (m_methods m) with
  | lm :: _ => match lm_body lm with BCtor c => Some c | _ => None end
  | [] => None end.
Definition cap_of (m : model) : option nat :=
  match ctor_of m with
  | Some c => match cb_chan c with Some (ChBounded n _) => Some (N.to_nat n) | _ => None end
  | None => None end.
(* the same literal as a binary number (printed by the checks; large capacities stay cheap) *)
Definition capN_of (m : model) : option N :=
  match ctor_of m with
  | Some c => match cb_chan c with Some (ChBounded n _) => Some n | _ => None end
  | None => None end.
Definition slf_bodies (m : model) : list slf_body :=
  flat_map (fun lm => match lm_body lm with BSlf b => [b] | _ => [] end) (m_methods m).
Definition guard_ok (b : slf_body) : bool :=
  match sb_guard b with Some (op, k, r) => String.eqb op "<=" && String.eqb k "1" && String.eqb r "self" | None => false end.
Definition stop_first (m : model) : bool :=
  match m_play m with
  | Some p => match pl_shape p with
              | inl sh => match pl_stop sh with
                          | Some st => stp_returns st && String.eqb (stp_scrut st) (pl_msg sh) && String.eqb (stp_send_on st) (stp_tx st)
                          | None => false end
              | inr _ => false end
  | None => false end.

(* std and tokio receivers discard their queue when dropped; an async-channel keeps it while any sender exists, there the
   generated play holds a guard that closes the channel and empties it whenever play ends (exit, return, unwinding) *)
Definition drain_guard (m : model) : bool :=
  match m_play m with
  | Some p => match pl_shape p with
              | inl sh => match pl_drain sh with
                          | Some (rx, l) => String.eqb rx (pl_rx sh)
                                            && match l, m_lib m with AsyncStd, AsyncStd | Smol, Smol => true | _, _ => false end
                          | None => false end
              | inr _ => false end
  | None => false end.

Definition elab (m : model) : rmodel :=
  {| r_cap := cap_of m;
     r_meths := mapi (elab_method m) 0 (m_methods m);
     r_clonable := mem "derive ( Clone )" (m_live_attrs m);
     r_guard := forallb guard_ok (slf_bodies m);
     r_stop_first := stop_first m;
     r_drain := match m_lib m with Std | Tokio => true | _ => drain_guard m end |}.
