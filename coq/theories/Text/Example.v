(* Text/Example.v -- model of `file::expand_macro(s)` (src/file.rs, with the fixes dup-attr and late-import applied; src/use_macro.rs with crate-alias) over a list of top-level items,
   and of the file-system footprint of `write::example_show` (src/write.rs:18-135).

   A source file is a list of items
       IImpl attrs body | IUse attrs tree | IOther attrs payload | IVerb payload   (Item::Verbatim: attributes unreachable)
   with abstract attribute arguments A, impl bodies B and payloads X.  The code generator of the
   attribute macros is the abstract function
       gen mac args (impl with the macro attributes removed) : list item
   = the items of `ActorAttributeArguments::generate_example_code` (generate_model with `show` off). *)
From Coq Require Import List String Bool Permutation Lia PeanoNat.
Import ListNotations.
From IT Require Import Text.UseMacro.
Open Scope string_scope.
Open Scope list_scope.

Definition EXAMPLE : string := "example".

Section Example.
Variables A B X : Type.

Record attr : Type := { a_path : apath; a_args : A }.

Inductive item : Type :=
| IImpl (attrs : list attr) (b : B)
| IUse (attrs : list attr) (t : utree)
| IOther (attrs : list attr) (x : X)
| IVerb (x : X).

Variable gen : string -> A -> list attr -> B -> list item.

(* UseMacro::exclude *)
Definition exclude (u : um) (attrs : list attr) : list attr := filter (fun a => negb (is_mac u (a_path a))) attrs.

(* UseMacro::exclude_self_macro *)
Definition exclude_self (u : um) (it : item) : item :=
  match it with
  | IImpl attrs b => IImpl (exclude u attrs) b
  | IUse attrs t => IUse (exclude u attrs) t
  | IOther attrs x => IOther (exclude u attrs) x
  | IVerb x => IVerb x
  end.

Definition macro_attrs (u : um) (attrs : list attr) : list attr := filter (fun a => is_mac u (a_path a)) attrs.

(* the two import states after one item (shared by the model of the code and by the specification) *)
Definition next (u ue : um) (it : item) : um * um :=
  match it with
  | IUse _ t =>
      match update u t with
      | (u', Some t1) => (u', fst (update ue t1))
      | (u', None) => (u', ue)
      end
  | _ => (u, ue)
  end.

(* for attr in &attrs.clone() { if is(attr) { .. code; if first { code.insert(0, impl); first = false }; push(code) } } *)
Fixpoint emit (mac : string) (first : bool) (stripped : list attr) (b : B) (l : list attr) : list (list item) :=
  match l with
  | [] => []
  | a :: r => ((if first then [IImpl stripped b] else []) ++ gen mac (a_args a) stripped b) :: emit mac false stripped b r
  end.

(* what one iteration of the `for item in &mut file.items` loop pushes onto `new_items_file` *)
Definition pushed (mac : string) (u ue : um) (it0 : item) : list (list item) :=
  match exclude_self ue it0 with
  | IImpl attrs b =>
      if existsb (fun a => is_mac u (a_path a)) attrs then emit mac true (exclude u attrs) b (macro_attrs u attrs)
      else [[IImpl attrs b]]
  | IUse attrs t =>
      match update u t with
      | (_, Some t1) => match update ue t1 with (_, Some t2) => [[IUse attrs t2]] | (_, None) => [] end
      | (_, None) => []
      end
  | it => [[it]]
  end.

Definition step (mac : string) (s : um * um * list (list item)) (it : item) : um * um * list (list item) :=
  match s with
  | (u, ue, acc) => let '(u', ue') := next u ue it in (u', ue', acc ++ pushed mac u ue it)
  end.

(* the `use` items of a file *)
Definition uses_of (file : list item) : list utree := flat_map (fun it => match it with IUse _ t => [t] | _ => [] end) file.

(* `for item in &file.items { if let Item::Use(u) = item { use_macro.update(u.clone()) } }`: imports may follow the impl *)
Definition prescan (mac : string) (file : list item) : um :=
  fold_left (fun u it => match it with IUse _ t => fst (update u t) | _ => u end) file (um_new mac).

(* file::expand_macro: the pre-scan, the loop, then `new_items_file.into_iter().flatten()` *)
Definition expand_macro (mac : string) (file : list item) : list item :=
  List.concat (snd (fold_left (step mac) file (prescan mac file, um_new EXAMPLE, []))).

(* file::expand_macros *)
Definition expand_macros (macs : list string) (file : list item) : list item :=
  fold_left (fun f m => expand_macro m f) macs file.

(* ---- the specification ------------------------------------------------------------------------ *)

(* what should stand in place of one item: an annotated impl once, without the macro attributes, followed by
   what each of its macro attributes generates; a `use` item without the macro imports (dropped when empty);
   anything else unchanged (minus `example` attributes) *)
Definition spec_item (mac : string) (u ue : um) (it0 : item) : list item :=
  match exclude_self ue it0 with
  | IImpl attrs b =>
      if existsb (fun a => is_mac u (a_path a)) attrs then
        IImpl (exclude u attrs) b :: flat_map (fun a => gen mac (a_args a) (exclude u attrs) b) (macro_attrs u attrs)
      else [IImpl attrs b]
  | IUse attrs t =>
      match update u t with
      | (_, Some t1) => match update ue t1 with (_, Some t2) => [IUse attrs t2] | (_, None) => [] end
      | (_, None) => []
      end
  | it => [it]
  end.

Fixpoint spec_from (mac : string) (u ue : um) (file : list item) : list item :=
  match file with
  | [] => []
  | it :: rest => spec_item mac u ue it ++ (let '(u', ue') := next u ue it in spec_from mac u' ue' rest)
  end.

Definition spec (mac : string) (file : list item) : list item := spec_from mac (prescan mac file) (um_new EXAMPLE) file.

Lemma emit_false : forall mac st b l, List.concat (emit mac false st b l) = flat_map (fun a => gen mac (a_args a) st b) l.
Proof. induction l as [|a r IH]; simpl; auto. rewrite IH. reflexivity. Qed.

Lemma pushed_spec : forall mac u ue it, List.concat (pushed mac u ue it) = spec_item mac u ue it.
Proof.
  intros mac u ue it. unfold pushed, spec_item.
  destruct (exclude_self ue it) as [attrs b | attrs t | attrs x | x]; simpl; auto.
  - destruct (existsb (fun a => is_mac u (a_path a)) attrs) eqn:E; simpl; auto.
    destruct (macro_attrs u attrs) as [|a r] eqn:M; simpl.
    + exfalso. apply existsb_exists in E. destruct E as (a & I & Ha).
      assert (In a (macro_attrs u attrs)) by (apply filter_In; auto). rewrite M in H. exact H.
    + rewrite emit_false. reflexivity.
  - destruct (update u t) as [u' [t1|]]; simpl; auto.
    destruct (update ue t1) as [ue' [t2|]]; simpl; auto.
Qed.

Lemma fold_step : forall mac file u ue acc,
  List.concat (snd (fold_left (step mac) file (u, ue, acc))) = List.concat acc ++ spec_from mac u ue file.
Proof.
  induction file as [|it rest IH]; intros u ue acc; simpl.
  - rewrite app_nil_r. reflexivity.
  - destruct (next u ue it) as [u' ue'] eqn:N. rewrite IH.
    rewrite concat_app, (pushed_spec mac u ue it), app_assoc. reflexivity.
Qed.

(* no guard any more: an impl with several attributes of the macro is emitted once, followed by the code of each *)
Theorem expand_macro_shape : forall mac file, expand_macro mac file = spec mac file.
Proof. intros mac file. unfold expand_macro, spec. rewrite fold_step. reflexivity. Qed.

(* several passes (expand(actor, family)): each pass is the specification applied to the previous result *)
Theorem expand_macros_shape : forall macs file,
  expand_macros macs file = fold_left (fun f m => spec m f) macs file.
Proof.
  induction macs as [|m ms IH]; intros file; simpl; auto.
  unfold expand_macros in *. simpl. rewrite expand_macro_shape. apply IH.
Qed.

(* ---- consequences of the shape, item by item -------------------------------------------------- *)

Definition is_impl (it : item) : bool := match it with IImpl _ _ => true | _ => false end.
Definition is_use (it : item) : bool := match it with IUse _ _ => true | _ => false end.

(* an item that is neither an impl nor a `use` is copied, alone, minus `example` attributes *)
Theorem spec_other_unchanged : forall mac u ue it, is_impl it = false -> is_use it = false ->
  spec_item mac u ue it = [exclude_self ue it].
Proof. intros mac u ue it H1 H2. unfold spec_item. destruct it; simpl in *; try discriminate; reflexivity. Qed.

(* an impl without an attribute denoting the macro is copied *)
Theorem spec_plain_impl_unchanged : forall mac u ue attrs b,
  existsb (fun a => is_mac u (a_path a)) (exclude ue attrs) = false ->
  spec_item mac u ue (IImpl attrs b) = [IImpl (exclude ue attrs) b].
Proof. intros. unfold spec_item. simpl. rewrite H. reflexivity. Qed.

(* the output of one pass is the concatenation, in source order, of the replacement of each item *)
Theorem spec_in_order : forall mac f1 f2 u ue,
  spec_from mac u ue (f1 ++ f2) =
  spec_from mac u ue f1 ++ (let '(u', ue') := fold_left (fun s it => next (fst s) (snd s) it) f1 (u, ue) in spec_from mac u' ue' f2).
Proof.
  induction f1 as [|it r IH]; intros f2 u ue; simpl; auto.
  destruct (next u ue it) as [u' ue'] eqn:N. rewrite IH, app_assoc. reflexivity.
Qed.

(* the attributes left on an expanded impl contain none that denotes the macro *)
Theorem exclude_no_macro : forall u attrs, macro_attrs u (exclude u attrs) = [].
Proof.
  intros u attrs. unfold macro_attrs, exclude. induction attrs as [|a r IH]; simpl; auto.
  destruct (is_mac u (a_path a)) eqn:E; simpl; auto. rewrite E. exact IH.
Qed.

(* ... and all the others, in order *)
Theorem exclude_keeps_others : forall u attrs,
  filter (fun a => negb (is_mac u (a_path a))) (exclude u attrs) = filter (fun a => negb (is_mac u (a_path a))) attrs.
Proof.
  intros u attrs. unfold exclude. induction attrs as [|a r IH]; simpl; auto.
  destruct (is_mac u (a_path a)) eqn:E; simpl; auto. rewrite E. simpl. rewrite IH. reflexivity.
Qed.

(* ---- recognition does not depend on the position in the file ------------------------------------- *)

Lemma uses_of_use : forall a t r, uses_of (IUse a t :: r) = t :: uses_of r.
Proof. reflexivity. Qed.
Lemma uses_of_impl : forall a b r, uses_of (IImpl a b :: r) = uses_of r.
Proof. reflexivity. Qed.
Lemma uses_of_other : forall a x r, uses_of (IOther a x :: r) = uses_of r.
Proof. reflexivity. Qed.
Lemma uses_of_verb : forall x r, uses_of (IVerb x :: r) = uses_of r.
Proof. reflexivity. Qed.

Lemma prescan_gen : forall mac file u, um_mac u = mac ->
  fold_left (fun u it => match it with IUse _ t => fst (update u t) | _ => u end) file u =
  {| um_mac := mac; um_imp := um_imp u ++ flat_map (upd_names mac) (uses_of file);
     um_alias := um_alias u ++ flat_map (aliases mac) (uses_of file) |}.
Proof.
  intros mac file. induction file as [|it r IH]; intros u M.
  - simpl. rewrite !app_nil_r. destruct u; simpl in *; subst; reflexivity.
  - destruct it as [a b | a t | a x | x]; cbn [fold_left].
    + rewrite uses_of_impl. apply IH; exact M.
    + rewrite uses_of_use, IH by (rewrite update_eq; simpl; exact M). rewrite update_eq. cbn [fst um_imp um_alias flat_map]. rewrite M, !app_assoc. reflexivity.
    + rewrite uses_of_other. apply IH; exact M.
    + rewrite uses_of_verb. apply IH; exact M.
Qed.

Lemma prescan_track : forall mac file, prescan mac file = track mac (uses_of file).
Proof. intros. unfold prescan, track. rewrite (prescan_gen mac) by reflexivity. rewrite track_gen. reflexivity. Qed.

Lemma next_state : forall mac f1 u ue, um_mac u = mac ->
  fst (fold_left (fun s it => next (fst s) (snd s) it) f1 (u, ue)) =
  {| um_mac := mac; um_imp := um_imp u ++ flat_map (upd_names mac) (uses_of f1);
     um_alias := um_alias u ++ flat_map (aliases mac) (uses_of f1) |}.
Proof.
  intros mac f1. induction f1 as [|it r IH]; intros u ue M.
  - simpl. rewrite !app_nil_r. destruct u; simpl in *; subst; reflexivity.
  - destruct it as [a b | a t | a x | x]; cbn [fold_left next fst snd].
    + rewrite uses_of_impl. apply IH; exact M.
    + rewrite uses_of_use, update_eq. destruct (snd (fsu (um_mac u) t)); rewrite IH by exact M;
        cbn [um_imp um_alias flat_map]; rewrite M, !app_assoc; reflexivity.
    + rewrite uses_of_other. apply IH; exact M.
    + rewrite uses_of_verb. apply IH; exact M.
Qed.

Lemma existsb_app_incl : forall (f : string -> bool) a b, incl b a -> existsb f (a ++ b) = existsb f a.
Proof.
  intros f a b I. rewrite existsb_app. destruct (existsb f b) eqn:E; [|apply orb_false_r].
  rewrite (existsb_seteq f b a I E). reflexivity.
Qed.

Lemma is_mac_incl : forall mac a b c d p, incl b a -> incl d c ->
  is_mac {| um_mac := mac; um_imp := a ++ b; um_alias := c ++ d |} p = is_mac {| um_mac := mac; um_imp := a; um_alias := c |} p.
Proof.
  intros mac a b c d p I J. unfold is_mac. cbn [um_mac um_imp um_alias]. destruct (lead p); auto.
  rewrite (existsb_app_incl _ a b I), (existsb_app_incl _ c d J). reflexivity.
Qed.

(* at every point of the pass the macro is recognised exactly as after ALL the `use` items of the file,
   those that follow included *)
Theorem state_constant : forall mac f1 f2 ue p,
  let u := fst (fold_left (fun s it => next (fst s) (snd s) it) f1 (prescan mac (f1 ++ f2), ue)) in
  is_mac u p = is_mac (track mac (uses_of (f1 ++ f2))) p.
Proof.
  intros mac f1 f2 ue p. simpl. rewrite prescan_track. rewrite (next_state mac) by apply track_all.
  destruct (track_all mac (uses_of (f1 ++ f2))) as [M _].
  assert (T : track mac (uses_of (f1 ++ f2)) = {| um_mac := mac; um_imp := um_imp (track mac (uses_of (f1 ++ f2)));
                                                   um_alias := um_alias (track mac (uses_of (f1 ++ f2))) |})
    by (destruct (track mac (uses_of (f1 ++ f2))); simpl in *; subst; reflexivity).
  rewrite T at 3. apply is_mac_incl.
  - unfold track. rewrite track_gen. simpl. unfold uses_of. rewrite flat_map_app', flat_map_app'.
    intros n I. apply in_or_app. left. exact I.
  - unfold track. rewrite track_gen. simpl. unfold uses_of. rewrite flat_map_app', flat_map_app'.
    intros n I. apply in_or_app. left. exact I.
Qed.

(* hence: an attribute path that denotes the macro w.r.t. all the `use` items of the file is recognised wherever the
   impl stands, crate-alias paths included (the macro is not called `interthread` or `self`: true of actor, family, example) *)
Corollary denoted_is_recognised : forall mac f1 f2 ue p,
  (mac =? INTERTHREAD) = false -> (mac =? "self") = false ->
  denotes mac (uses_of (f1 ++ f2)) p = true ->
  is_mac (fst (fold_left (fun s it => next (fst s) (snd s) it) f1 (prescan mac (f1 ++ f2), ue))) p = true.
Proof. intros mac f1 f2 ue p NI NS D. rewrite state_constant. apply is_complete; assumption. Qed.

(* the former statement, without hypothesis on the macro name but for non-alias paths only *)
Corollary denoted_is_recognised_guarded : forall mac f1 f2 ue p,
  alias_path p = false -> denotes mac (uses_of (f1 ++ f2)) p = true ->
  is_mac (fst (fold_left (fun s it => next (fst s) (snd s) it) f1 (prescan mac (f1 ++ f2), ue))) p = true.
Proof. intros mac f1 f2 ue p K D. rewrite state_constant. apply is_complete_guarded; assumption. Qed.

End Example.

Arguments IImpl {A B X}.
Arguments IUse {A B X}.
Arguments IOther {A B X}.
Arguments IVerb {A B X}.
Arguments Build_attr {A}.
Arguments a_path {A}.
Arguments a_args {A}.

(* ---- concrete instance: payloads are tags, the generator emits one tagged item per expansion ---------- *)

Definition titem : Type := item string string string.
Definition tgen (mac : string) (args : string) (attrs : list (attr string)) (b : string) : list titem :=
  [IVerb ("gen:" ++ mac ++ ":" ++ args ++ ":" ++ b)%string].

Definition t_expand (macs : list string) (file : list titem) : list titem := expand_macros string string string tgen macs file.
Definition t_spec (macs : list string) (file : list titem) : list titem :=
  fold_left (fun f m => spec string string string tgen m f) macs file.

Definition at_ (l : bool) (s : list string) (args : string) : attr string := Build_attr (ap l s) args.

Fixpoint count_impl (b : string) (l : list titem) : nat :=
  match l with
  | [] => 0
  | IImpl _ b' :: r => (if b' =? b then 1 else 0) + count_impl b r
  | _ :: r => count_impl b r
  end.

Definition has_annotated (file : list titem) (p : apath) : bool :=
  existsb (fun it => match it with IImpl attrs _ => existsb (fun a => list_eqb (segs (a_path a)) (segs p) && Bool.eqb (lead (a_path a)) (lead p)) attrs | _ => false end) file.

Definition all_uses (file : list titem) : list utree := uses_of _ _ _ file.

(* the former witnesses of F12 and of the import-tracking defects, now expanded as the property demands *)

(* #[interthread::actor(..a1)] #[interthread::actor(..a2)] impl B : the impl once, then both expansions *)
Example two_attrs_fixed :
  t_expand ["actor"] [IImpl [at_ false ["interthread"; "actor"] "a1"; at_ false ["interthread"; "actor"] "a2"] "B"]
  = [IImpl [] "B"; IVerb "gen:actor:a1:B"; IVerb "gen:actor:a2:B"].
Proof. vm_compute. reflexivity. Qed.

(* use interthread::*; #[actor] impl A  #[family] impl B  with expand(actor, family): both expanded, the glob stays *)
Example glob_both_fixed :
  t_expand ["actor"; "family"] [IUse [] (UPath "interthread" UGlob); IImpl [at_ false ["actor"] "a1"] "A"; IImpl [at_ false ["family"] "f1"] "B"]
  = [IUse [] (UPath "interthread" UGlob); IImpl [] "A"; IVerb "gen:actor:a1:A"; IImpl [] "B"; IVerb "gen:family:f1:B"].
Proof. vm_compute. reflexivity. Qed.

(* #[actor] impl A  use interthread::actor;  : expanded although the import follows *)
Example late_import_fixed :
  t_expand ["actor"] [IImpl [at_ false ["actor"] "a1"] "A"; IUse [] (UPath "interthread" (UName "actor"))]
  = [IImpl [] "A"; IVerb "gen:actor:a1:A"].
Proof. vm_compute. reflexivity. Qed.

(* use interthread::actor; use interthread::{actor as act, actor as act2};  #[actor] #[::interthread::actor] on A, #[act2] on B *)
Example reimport_abs_fixed :
  t_expand ["actor"] [IUse [] (UPath "interthread" (UName "actor")); IUse [] (UPath "interthread" (UGroup [URename "actor" "act"; URename "actor" "act2"]));
                      IImpl [at_ false ["actor"] "a1"; at_ true ["interthread"; "actor"] "a2"] "A"; IImpl [at_ false ["act2"] "a3"] "B"]
  = [IImpl [] "A"; IVerb "gen:actor:a1:A"; IVerb "gen:actor:a2:A"; IImpl [] "B"; IVerb "gen:actor:a3:B"].
Proof. vm_compute. reflexivity. Qed.

(* use interthread as it; #[it::actor] impl C : expanded, the import of the crate stays (was: crate_alias_file_refuted, same witness,
   whose last conjunct was `has_annotated (t_expand ["actor"] file) p = true`) *)
Example crate_alias_file_fixed :
  let file : list titem := [IUse [] (URename "interthread" "it"); IImpl [at_ false ["it"; "actor"] "a1"] "C"] in
  let p := ap false ["it"; "actor"] in
  denotes "actor" (all_uses file) p = true /\ alias_path p = true /\ has_annotated file p = true /\
  has_annotated (t_expand ["actor"] file) p = false /\
  t_expand ["actor"] file = [IUse [] (URename "interthread" "it"); IImpl [] "C"; IVerb "gen:actor:a1:C"].
Proof. vm_compute. repeat split. Qed.

(* #[it::actor] impl C  #[it::family] impl D  use interthread::{self as it};  with expand(actor, family): both expanded, the import follows *)
Example crate_alias_self_fixed :
  t_expand ["actor"; "family"] [IImpl [at_ false ["it"; "actor"] "a1"] "C"; IImpl [at_ false ["it"; "family"] "f1"] "D";
                                IUse [] (UPath "interthread" (UGroup [URename "self" "it"]))]
  = [IImpl [] "C"; IVerb "gen:actor:a1:C"; IImpl [] "D"; IVerb "gen:family:f1:D"; IUse [] (UPath "interthread" (UGroup [URename "self" "it"]))].
Proof. vm_compute. reflexivity. Qed.

(* actor and family on one impl, imported through a group with an alias *)
Example shape_example :
  let file : list titem :=
    [ IUse [] (UPath "std" (UName "fmt"));
      IUse [] (UPath "interthread" (UGroup [URename "actor" "act"; UName "family"; UName "example"]));
      IOther [at_ false ["example"] "e"; at_ false ["derive"] "d"] "struct S";
      IImpl [at_ false ["act"] "a1"; at_ false ["allow"] "x"; at_ false ["family"] "f1"] "S";
      IOther [] "fn tail" ] in
  t_expand ["actor"; "family"] file =
    [ IUse [] (UPath "std" (UName "fmt"));
      IOther [at_ false ["derive"] "d"] "struct S";
      IImpl [at_ false ["allow"] "x"] "S";
      IVerb "gen:family:f1:S";
      IVerb "gen:actor:a1:S";
      IOther [] "fn tail" ].
Proof. vm_compute. reflexivity. Qed.

(* printing of a tagged file, for the correspondence with the real example file *)
Definition show_apath (p : apath) : string := ((if lead p then "::" else "") ++ String.concat "::" (segs p))%string.
Definition show_attrs (l : list (attr string)) : string := String.concat "," (map (fun a => a_args a) l).
Definition show_item (it : titem) : string :=
  match it with
  | IImpl attrs b => ("impl " ++ b ++ " [" ++ show_attrs attrs ++ "]")%string
  | IUse attrs t => ("use " ++ show_tree t ++ " [" ++ show_attrs attrs ++ "]")%string
  | IOther attrs x => ("other " ++ x ++ " [" ++ show_attrs attrs ++ "]")%string
  | IVerb x => x
  end.

(* ---- file-system footprint of write::example_show ------------------------------------------------ *)

Definition path : Type := list string.        (* components *)

Inductive fs_op : Type :=
| CreateDir (p : path)
| RemoveDirAll (p : path)
| OpenTrunc (p : path)           (* OpenOptions write+truncate+create *)
| WriteAll (p : path) (content : string)
| Fsync (p : path)
| SetPerm (p : path)
| Rename (src dst : path)
| RemoveFile (p : path).

Fixpoint prefixb (d p : path) : bool :=
  match d, p with
  | [], _ => true
  | x :: d', y :: p' => (x =? y) && prefixb d' p'
  | _, _ => false
  end.

Inductive node : Type := Dir | File (content : string).
Definition fs : Type := path -> option node.

Definition apply (op : fs_op) (f : fs) : fs :=
  match op with
  | CreateDir p => fun q => if list_eqb q p then (match f q with None => Some Dir | o => o end) else f q
  | RemoveDirAll p => fun q => if prefixb p q then None else f q
  | OpenTrunc p => fun q => if list_eqb q p then Some (File "") else f q
  | WriteAll p c => fun q => if list_eqb q p then Some (File c) else f q
  | Fsync _ => f
  | SetPerm _ => f
  | Rename a b => fun q => if list_eqb q b then f a else if list_eqb q a then None else f q
  | RemoveFile p => fun q => if list_eqb q p then None else f q
  end.

Definition run_ops (ops : list fs_op) (f : fs) : fs := fold_left (fun f op => apply op f) ops f.

(* write::write(val, target): sibling temporary file, then rename *)
Definition write_ops (dir : path) (name pid content : string) : list fs_op :=
  let tmp := dir ++ [(name ++ ".inter_tmp_" ++ pid)%string] in
  let target := dir ++ [name] in
  [OpenTrunc tmp; WriteAll tmp content; Fsync tmp; SetPerm tmp; Rename tmp target].

(* write::example_show -> example_path -> example_check_get, then write_file (+ main.rs) *)
Definition example_ops (cwd : path) (dir fname pid : string) (examples_exists dir_exists want_main : bool) (code main_code : string) : list fs_op :=
  let ex := cwd ++ ["examples"] in
  let d := ex ++ [dir] in
  (if examples_exists then [] else [CreateDir ex])
  ++ (if dir_exists then [RemoveDirAll d] else [])
  ++ [CreateDir d]
  ++ write_ops d fname pid code
  ++ (if want_main then write_ops d "main.rs" pid main_code else []).

(* where an operation may change the tree *)
Definition inside (ex d : path) (q : path) : bool := list_eqb q ex || prefixb d q.

Definition op_inside (ex d : path) (op : fs_op) : bool :=
  match op with
  | CreateDir p | OpenTrunc p | WriteAll p _ | Fsync p | SetPerm p | RemoveFile p => inside ex d p
  | RemoveDirAll p => prefixb d p          (* everything below p goes: p itself must be inside d *)
  | Rename a b => inside ex d a && inside ex d b
  end.

Lemma prefixb_app : forall d s, prefixb d (d ++ s) = true.
Proof. induction d; simpl; auto. intros. rewrite String.eqb_refl. simpl. apply IHd. Qed.

Lemma prefixb_trans : forall a b c, prefixb a b = true -> prefixb b c = true -> prefixb a c = true.
Proof.
  induction a as [|x a IH]; intros b c H1 H2; simpl; auto.
  destruct b as [|y b]; simpl in H1; try discriminate. destruct c as [|z c]; simpl in H2; try discriminate.
  apply andb_true_iff in H1. destruct H1 as [E1 P1]. apply andb_true_iff in H2. destruct H2 as [E2 P2].
  apply String.eqb_eq in E1. apply String.eqb_eq in E2. subst. simpl. rewrite String.eqb_refl. simpl. eapply IH; eauto.
Qed.

Lemma list_eqb_refl : forall a, list_eqb a a = true.
Proof. intros. apply list_eqb_eq. reflexivity. Qed.

Lemma apply_outside : forall ex d op f q, op_inside ex d op = true -> inside ex d q = false -> apply op f q = f q.
Proof.
  intros ex d op f q Hin Hout. unfold inside in Hout. apply orb_false_iff in Hout. destruct Hout as [O1 O2].
  assert (NE : forall p, inside ex d p = true -> list_eqb q p = false).
  { intros p Hp. destruct (list_eqb q p) eqn:E; auto. apply list_eqb_eq in E. subst p.
    unfold inside in Hp. rewrite O1, O2 in Hp. discriminate. }
  destruct op; simpl in *; try reflexivity; try (rewrite (NE _ Hin); reflexivity).
  - destruct (prefixb p q) eqn:E; auto. rewrite (prefixb_trans _ _ _ Hin E) in O2. discriminate.
  - apply andb_true_iff in Hin. destruct Hin as [Ha Hb]. rewrite (NE _ Hb), (NE _ Ha). reflexivity.
Qed.

Lemma run_outside : forall ex d ops f q, forallb (op_inside ex d) ops = true -> inside ex d q = false -> run_ops ops f q = f q.
Proof.
  induction ops as [|op r IH]; intros f q H O; simpl; auto.
  simpl in H. apply andb_true_iff in H. destruct H as [H1 H2].
  unfold run_ops in *. simpl. rewrite IH; auto. eapply apply_outside; eauto.
Qed.

Lemma inside_sub : forall ex d s, inside ex d (d ++ s) = true.
Proof. intros. unfold inside. rewrite prefixb_app. apply orb_true_r. Qed.

Lemma write_ops_inside : forall ex d name pid c, forallb (op_inside ex d) (write_ops d name pid c) = true.
Proof. intros. unfold write_ops. simpl. rewrite !inside_sub. reflexivity. Qed.

Theorem example_ops_inside : forall cwd dir fname pid e1 e2 m code mc,
  let ex := cwd ++ ["examples"] in let d := ex ++ [dir] in
  forallb (op_inside ex d) (example_ops cwd dir fname pid e1 e2 m code mc) = true.
Proof.
  intros. unfold example_ops. fold ex. fold d. rewrite !forallb_app. rewrite write_ops_inside.
  assert (Hd : inside ex d d = true) by (rewrite <- (app_nil_r d) at 2; apply inside_sub).
  assert (He : inside ex d ex = true) by (unfold inside; rewrite list_eqb_refl; reflexivity).
  assert (Hp : prefixb d d = true) by (rewrite <- (app_nil_r d) at 2; apply prefixb_app).
  replace (forallb (op_inside ex d) (if m then write_ops d "main.rs" pid mc else [])) with true
    by (destruct m; [rewrite write_ops_inside|]; reflexivity).
  destruct e1, e2; cbn [forallb op_inside]; rewrite ?Hd, ?He, ?Hp; reflexivity.
Qed.

(* nothing outside <cwd>/examples/<dir> is created, changed or deleted; <cwd>/examples itself may be created *)
Theorem example_footprint : forall cwd dir fname pid e1 e2 m code mc (f : fs) q,
  let ex := cwd ++ ["examples"] in let d := ex ++ [dir] in
  q <> ex -> prefixb d q = false ->
  run_ops (example_ops cwd dir fname pid e1 e2 m code mc) f q = f q.
Proof.
  intros. eapply run_outside. - apply example_ops_inside. - unfold inside. fold ex d. rewrite H0.
  destruct (list_eqb q ex) eqn:E; auto. apply list_eqb_eq in E. contradiction.
Qed.

(* <cwd>/examples is only ever created as a directory, never replaced or removed *)
Theorem example_examples_dir : forall cwd dir fname pid e1 e2 m code mc (f : fs),
  let ex := cwd ++ ["examples"] in
  run_ops (example_ops cwd dir fname pid e1 e2 m code mc) f ex = match f ex with None => if e1 then None else Some Dir | o => o end.
Proof.
  intros. set (d := ex ++ [dir]).
  assert (ND : forall s, list_eqb ex (d ++ s) = false).
  { intros s. destruct (list_eqb ex (d ++ s)) eqn:E; auto. apply list_eqb_eq in E. unfold d in E.
    apply (f_equal (@List.length string)) in E. rewrite !app_length in E. simpl in E. lia. }
  assert (NP : prefixb d ex = false).
  { destruct (prefixb d ex) eqn:E; auto. exfalso.
    assert (L : forall a b, prefixb a b = true -> List.length a <= List.length b).
    { induction a; destruct b; simpl; intros; try discriminate; try lia. apply andb_true_iff in H. destruct H. apply IHa in H0. lia. }
    apply L in E. unfold d in E. rewrite app_length in E. simpl in E. lia. }
  assert (W : forall name c g, run_ops (write_ops d name pid c) g ex = g ex).
  { intros. unfold write_ops, run_ops. simpl. rewrite !ND. reflexivity. }
  unfold example_ops. fold ex. fold d. unfold run_ops. rewrite !fold_left_app. fold (run_ops).
  assert (Wm : forall g, fold_left (fun f op => apply op f) (if m then write_ops d "main.rs" pid mc else []) g ex = g ex).
  { intros. destruct m; [apply W | reflexivity]. }
  rewrite Wm. change (fold_left (fun f0 op => apply op f0) (write_ops d fname pid code)) with (run_ops (write_ops d fname pid code)).
  rewrite W. simpl. rewrite <- (app_nil_r d) at 1. rewrite ND.
  destruct e2; simpl; rewrite ?NP; destruct e1; simpl; rewrite ?list_eqb_refl; destruct (f ex); reflexivity.
Qed.

Example footprint_example :
  let f : fs := fun q => if list_eqb q ["w"; "src"; "a.rs"] then Some (File "src") else
                         if list_eqb q ["w"; "examples"; "inter"; "old.rs"] then Some (File "stale") else
                         if list_eqb q ["w"; "examples"; "other"; "keep.rs"] then Some (File "keep") else None in
  let g := run_ops (example_ops ["w"] "inter" "a.rs" "7" true true true "code" "main") f in
  g ["w"; "src"; "a.rs"] = Some (File "src") /\ g ["w"; "examples"; "other"; "keep.rs"] = Some (File "keep") /\
  g ["w"; "examples"; "inter"; "old.rs"] = None /\ g ["w"; "examples"; "inter"; "a.rs"] = Some (File "code") /\
  g ["w"; "examples"; "inter"; "main.rs"] = Some (File "main") /\ g ["w"; "examples"; "inter"; "a.rs.inter_tmp_7"] = None.
Proof. vm_compute. auto 8. Qed.
