(* C04 -- one construction, draining shutdown, single drop of the actor.  Statements only. *)
From Coq Require Import List Arith Bool Lia.
Import ListNotations.
From IT Require Import Sdpl.IR Sdpl.Elab Sdpl.Wf Runtime.Actor Runtime.ActorInv Runtime.InvDefs Runtime.InvDefs2 Runtime.InvSeq
  Runtime.Combined Runtime.InvDrain Runtime.InvStop Runtime.InvSole Runtime.Explore Runtime.InvSoleWitness Gen.Ctor.

Section C04.
Context {A V : Type} (sem : nat -> A -> list V -> option (A * V)) (sem_slf : nat -> A -> list V -> V) (dv : V).
Notation run := (run sem sem_slf dv).
Notation step := (step sem sem_slf dv).

(* a successful construction ran the user's constructor once and started one thread; the actor value is dropped by the
   loop or moved out, at most once in total, and only when the loop has ended *)
Theorem C04_once : forall (m : model), wf_C04 m = true ->
  forall a0 progs sched, let s := run (elab m) a0 progs sched in
  ctor_runs s = 1 /\ spawns s = 1 /\ drops s + moved s <= 1 /\ (alive s = true -> drops s = 0 /\ moved s = 0 /\ actor s <> None).
Proof.
  intros m _ a0 progs sched s. destruct (life_reachable sem sem_slf dv (elab m) a0 progs sched) as (L1 & L2 & L3 & L4 & _).
  fold s in L1, L2, L3, L4. split; [exact L1|split; [exact L2|split; [exact L3|]]].
  intros Al. apply L4. unfold alive in Al. destruct (exited s); [discriminate|reflexivity].
Qed.

(* it never ends earlier: the step at which the loop ends has one of four causes - every handle gone and the queue
   drained; a self-consuming call; a user method panicked; a reply failed because the caller abandoned the pending call *)
Theorem C04_exit_cause : forall (m : model), wf_C04 m = true ->
  forall s ch s', step (elab m) s ch = Some s' -> exited s = None -> forall r, exited s' = Some r ->
  ch = Ac /\
  match r with
  | ChannelClosed => senders s = 0 /\ queue s = [] /\ busy s = None /\ applied s' = applied s
  | Stopped => exists c q, queue s = MStop c :: q /\ r_stop_first (elab m) = true
  | PanickedIn c => exists k fs rm a, busy s = Some (Msg c k fs) /\ meth (elab m) k = Some rm /\ actor s = Some a
                                      /\ sem (rm_callee rm) a (route dv (rm_args rm) fs) = None
  | ReplyFailed c => slot_get (slots s) c = Some SRxDropped
  end.
Proof. intros m _. exact (exit_cause sem sem_slf dv (elab m)). Qed.

(* draining shutdown: once the last handle is gone, the actor's own steps execute every call already accepted, in order,
   then the loop ends and the actor value is dropped exactly once (unless a user method panics / a reply fails on the way) *)
Theorem C04_drain : forall (m : model), wf_C04 m = true ->
  forall s, exited s = None -> actor s <> None -> senders s = 0 -> only_calls (pending s) ->
  (forall c k fs, In (Msg c k fs) (pending s) -> exists rm, meth (elab m) k = Some rm) ->
  let s' := run_from sem sem_slf dv (elab m) s (repeat Ac (2 * length (pending s) + 1)) in
  exited s' <> None /\
  (exited s' = Some ChannelClosed ->
     applied_ids s' = applied_ids s ++ map msg_id (pending s) /\ drops s' = S (drops s) /\ actor s' = None
     /\ dropped s' = dropped s /\ queue s' = [] /\ busy s' = None).
Proof. intros m _. exact (drain sem sem_slf dv (elab m)). Qed.
(* ... and a self-consuming call ends the loop only when the handle being consumed is the only handle in existence: with the
   sole-owner guard on every self-consuming method ... *)
Theorem C04_stopped_only_by_sole_owner : forall (m : model), wf_C04 m = true -> r_guard (elab m) = true ->
  forall a0 progs sched, let s := run (elab m) a0 progs sched in
  forall s', step (elab m) s Ac = Some s' -> exited s = None -> exited s' = Some Stopped ->
  senders s = 1 /\ exists t cl, nth_error (clients s) t = Some cl /\ stopping cl = true /\ c_nh cl = 1.
Proof. intros m _ G. exact (stopped_by_sole_owner sem sem_slf dv (elab m) G). Qed.

(* ... or, without the guard, because the handle type is not Clone: the number of handles never exceeds what was created *)
Theorem C04_not_clonable_handles_never_grow : forall (m : model), wf_C04 m = true -> r_clonable (elab m) = false ->
  forall a0 progs sched, senders (run (elab m) a0 progs sched) <= list_sum (map snd progs).
Proof. intros m _ G. exact (not_clonable_senders sem sem_slf dv (elab m) G). Qed.
End C04.

(* one of the two premises is needed: a clonable handle with an unguarded self-consuming method lets the loop end while
   another handle exists (witness: two handles, client 0 consumes) *)
Theorem C04_stopped_with_other_handle_refuted :
  r_guard m_noguard = false /\ r_clonable m_noguard = true
  /\ exited s_two_handles = None /\ senders s_two_handles = 2
  /\ (exists cl, nth_error (clients s_two_handles) 0 = Some cl /\ stopping cl = true /\ c_nh cl = 1)
  /\ exists s', Actor.step sem0 sem_slf0 0 m_noguard s_two_handles Ac = Some s'
       /\ exited s' = Some Stopped /\ senders s' = 2
       /\ exists cl1, nth_error (clients s') 1 = Some cl1 /\ c_nh cl1 = 1.
Proof. exact stopped_with_other_handle_refuted. Qed.

(* construction: the user's constructor runs exactly once with the handle constructor's arguments; when a fallible
   constructor fails, its failure value is returned unchanged and no channel / thread was created; on success exactly one
   channel and one thread exist *)
Lemma cstmt_eqb_eq a b : cstmt_eqb a b = true -> a = b.
Proof. destruct a, b; cbn; congruence. Qed.
Lemma cstmts_eqb_eq a b : cstmts_eqb a b = true -> a = b.
Proof.
  revert b. induction a as [|x a IH]; intros [|y b] H; cbn in H; try discriminate; [reflexivity|].
  apply andb_prop in H. destruct H as [H1 H2]. f_equal; [apply cstmt_eqb_eq; exact H1|apply IH; exact H2].
Qed.
Theorem C04_ctor_once : forall (m : model) c, wf_C04 m = true -> actor_ctor m = Some c ->
  forall (A E : Type) (try_ : bool) (o : A + E),
  match o with
  | inl a => run_ctor try_ o (ctor_stmts c) = Built {| user_runs := 1; chans := 1; threads := 1; have_actor := Some a |}
  | inr e => try_ = true -> run_ctor try_ o (ctor_stmts c) = Failed e {| user_runs := 1; chans := 0; threads := 0; have_actor := None |}
  end.
Proof.
  intros m c W Hc A E try_ o. apply ctor_once.
  unfold wf_C04 in W. apply andb_prop in W. destruct W as [_ W]. rewrite Hc in W.
  unfold ctor_order_ok in W. apply andb_prop in W. destruct W as [W1 W2].
  split; [apply cstmts_eqb_eq; exact W1|apply cstmt_eqb_eq; exact W2].
Qed.

Print Assumptions C04_stopped_only_by_sole_owner.
Print Assumptions C04_not_clonable_handles_never_grow.
Print Assumptions C04_stopped_with_other_handle_refuted.
Print Assumptions C04_once.
Print Assumptions C04_exit_cause.
Print Assumptions C04_drain.
Print Assumptions C04_ctor_once.
