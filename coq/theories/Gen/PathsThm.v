(* Gen/PathsThm.v -- proofs about Gen/Paths.v (C12). All statements are universally quantified; the finite
   types (plib, crate, rcvr, bool) are handled by case analysis, manifests and root lists by induction. *)
From Coq Require Import List String Ascii Bool.
Import ListNotations.
From IT Require Import Gen.Paths.
Open Scope string_scope.

(* ---------- small facts ---------- *)
Lemma crate_eqb_eq : forall a b, crate_eqb a b = true <-> a = b.
Proof. intros a b; split; [destruct a, b; simpl; intro H; try reflexivity; discriminate | intros ->; destruct b; reflexivity]. Qed.

Lemma mem_In : forall c cs, mem c cs = true <-> In c cs.
Proof.
  intros c cs. unfold mem. rewrite existsb_exists. split.
  - intros [x [Hi He]]. apply crate_eqb_eq in He. subst. exact Hi.
  - intros Hi. exists c. split; [exact Hi | apply crate_eqb_eq; reflexivity].
Qed.

Lemma declared_In : forall m c, declared m c = true <-> In c (deps m ++ dev_deps m).
Proof.
  intros m c. unfold declared. rewrite orb_true_iff, !mem_In, in_app_iff. tauto.
Qed.

Lemma str_mem_In : forall s l, str_mem s l = true <-> In s l.
Proof.
  intros s l. unfold str_mem. rewrite existsb_exists. split.
  - intros [x [Hi He]]. apply String.eqb_eq in He. subst. exact Hi.
  - intros Hi. exists s. split; [exact Hi | apply String.eqb_refl].
Qed.

(* ---------- the import check ---------- *)
Lemma first_missing_accept : forall m cs, first_missing m cs = Accept <-> (forall c, In c cs -> declared m c = true).
Proof.
  intros m cs. induction cs as [|c r IH]; simpl.
  - split; [intros _ c [] | reflexivity].
  - destruct (declared m c) eqn:D.
    + rewrite IH. split.
      * intros H x [<-|Hx]; [exact D | exact (H x Hx)].
      * intros H x Hx. apply H. right. exact Hx.
    + split; [discriminate | intros H; specialize (H c (or_introl eq_refl)); congruence].
Qed.

Lemma first_missing_diag : forall m cs c, first_missing m cs = Diag c -> In c cs /\ declared m c = false.
Proof.
  intros m cs c. induction cs as [|x r IH]; simpl; [discriminate|].
  destruct (declared m x) eqn:D.
  - intros H. destruct (IH H) as [Hi Hd]. split; [right; exact Hi | exact Hd].
  - intros H. injection H as <-. split; [left; reflexivity | exact D].
Qed.

(* the check goes through exactly the documented crates of the runtime *)
Lemma check_order_documented : forall l c, In c (check_order l) <-> In c (documented l).
Proof. intros l c; destruct l; simpl; tauto. Qed.

Lemma check_sound : forall l m, channels_import l m = Accept -> forall c, In c (documented l) -> declared m c = true.
Proof.
  intros l m H c Hc. unfold channels_import in H. rewrite first_missing_accept in H.
  apply H. apply check_order_documented. exact Hc.
Qed.

Lemma check_complete : forall l m, (forall c, In c (documented l) -> declared m c = true) -> channels_import l m = Accept.
Proof.
  intros l m H. unfold channels_import. apply first_missing_accept.
  intros c Hc. apply H. apply check_order_documented. exact Hc.
Qed.

Lemma check_names : forall l m c, channels_import l m = Diag c -> In c (documented l) /\ declared m c = false.
Proof.
  intros l m c H. apply first_missing_diag in H. destruct H as [Hi Hd].
  split; [apply check_order_documented; exact Hi | exact Hd].
Qed.

Lemma check_decides : forall l m, channels_import l m = Accept \/ exists c, channels_import l m = Diag c.
Proof. intros l m. destruct (channels_import l m) as [|c]; [left; reflexivity | right; exists c; reflexivity]. Qed.

Lemma check_exact : forall l extra, channels_import l {| deps := documented l; dev_deps := extra |} = Accept
                                 /\ channels_import l {| deps := extra; dev_deps := documented l |} = Accept.
Proof.
  intros l extra. split; apply check_complete; intros c Hc; apply declared_In; simpl; apply in_or_app; [left | right]; exact Hc.
Qed.

(* the diagnostic identifies the crate; the manifest name and the path root differ only in `-` / `_` *)
Lemma diag_message_injective : forall c c', diag_message c = diag_message c' -> c = c'.
Proof. intros c c'; destruct c, c'; vm_compute; intro H; try reflexivity; discriminate. Qed.

Fixpoint underscore (s : string) : string :=
  match s with EmptyString => EmptyString | String a r => String (if Ascii.eqb a "-"%char then "_"%char else a) (underscore r) end.
Lemma root_of_name : forall c, crate_root c = underscore (crate_name c).
Proof. destruct c; reflexivity. Qed.

Lemma crate_root_injective : forall c c', crate_root c = crate_root c' -> c = c'.
Proof. intros c c'; destruct c, c'; vm_compute; intro H; try reflexivity; discriminate. Qed.

(* ---------- the path tables ---------- *)
Definition okb (l : plib) (p : path) : bool := str_mem (root p) (allowed_roots l).
Definition okl (l : plib) (ps : list path) : bool := forallb (okb l) ps.

Lemma okl_app : forall l a b, okl l (a ++ b) = okl l a && okl l b.
Proof. intros; apply forallb_app. Qed.
Lemma okl_when : forall l (c : bool) xs, okl l xs = true -> okl l (when c xs) = true.
Proof. intros l c xs H; destruct c; [exact H | reflexivity]. Qed.

Ltac leaf l o :=
  destruct l; destruct (o_rcvr o); destruct (o_bounded o); destruct (o_debut o);
  destruct (o_async_model o); destruct (o_async_generic o); reflexivity.

Lemma model_paths_ok : forall l o, okl l (model_paths l o) = true.
Proof.
  intros l o. unfold model_paths. cbv zeta.
  repeat (rewrite okl_app; apply andb_true_intro; split).
  all: try apply okl_when.
  all: leaf l o.
Qed.

Lemma family_paths_ok : forall l o, okl l (family_paths l o) = true.
Proof.
  intros l o. unfold family_paths.
  rewrite okl_app; apply andb_true_intro; split.
  all: try apply okl_when.
  all: leaf l o.
Qed.

Lemma all_paths_ok : forall family l o, okl l (all_paths family l o) = true.
Proof.
  intros family l o. unfold all_paths. rewrite okl_app. apply andb_true_intro. split.
  - apply model_paths_ok.
  - apply okl_when. apply family_paths_ok.
Qed.

Lemma allowed_split : forall l r, In r (allowed_roots l) -> In r (map crate_root (documented l)) \/ r = "std" \/ r = "core".
Proof.
  intros l r H. unfold allowed_roots in H. apply in_app_or in H. destruct H as [H|H]; [left; exact H|].
  right. simpl in H. destruct H as [H|[H|[]]]; [left | right]; symmetry; exact H.
Qed.

Lemma roots_allowed : forall family l o r, In r (roots family l o) -> In r (map crate_root (documented l)) \/ r = "std" \/ r = "core".
Proof.
  intros family l o r H. unfold roots in H. apply in_map_iff in H. destruct H as [p [Hr Hp]].
  pose proof (all_paths_ok family l o) as K. unfold okl in K. rewrite forallb_forall in K.
  specialize (K p Hp). unfold okb in K. apply str_mem_In in K. rewrite Hr in K. apply allowed_split. exact K.
Qed.

(* accepted project => every crate root the generator can emit is declared *)
Lemma accept_resolves : forall family l m o r, channels_import l m = Accept -> In r (roots family l o) ->
  r = "std" \/ r = "core" \/ exists c, crate_root c = r /\ declared m c = true.
Proof.
  intros family l m o r Ha Hr. destruct (roots_allowed family l o r Hr) as [H|[H|H]]; [|left; exact H|right; left; exact H].
  right. right. apply in_map_iff in H. destruct H as [c [Hc Hi]]. exists c. split; [exact Hc|].
  exact (check_sound l m Ha c Hi).
Qed.

(* the documented table is not over-demanding: each listed crate is referred to under some option combination *)
Definition full_opts : opts := opts_of_bools true true true RSlf true true true true true true true.
Lemma documented_needed : forall l c, In c (documented l) -> In (crate_root c) (roots false l full_opts).
Proof.
  intros l c H. apply str_mem_In.
  destruct l; simpl in H; repeat (destruct H as [<-|H]; [vm_compute; reflexivity|]); destruct H.
Qed.

(* no generated path of a non-std runtime crate is written with a leading `::` except the std lock of families;
   crates_of is sound: the projection used by the tie loses no crate *)
Lemma crates_of_In : forall rs c, In c (crates_of rs) <-> In (crate_root c) rs.
Proof.
  intros rs c. unfold crates_of. rewrite filter_In, str_mem_In. split; [tauto|].
  intros H. split; [destruct c; simpl; tauto | exact H].
Qed.

Lemma model_crates_documented : forall family l o c, In c (model_crates family l o) -> In c (documented l).
Proof.
  intros family l o c H. apply crates_of_In in H. destruct (roots_allowed family l o _ H) as [K|[K|K]].
  - apply in_map_iff in K. destruct K as [c' [E Hi]]. apply crate_root_injective in E. subst. exact Hi.
  - destruct c; discriminate.
  - destruct c; discriminate.
Qed.

(* ---------- instance premise (T-tie) ---------- *)
Lemma inst_sound : forall l own rs, inst_ok l own rs = true ->
  forall r, In r rs -> In r (map crate_root (documented l)) \/ In r base_roots \/ In r prelude_names \/ In r own.
Proof.
  intros l own rs H r Hr. unfold inst_ok in H. rewrite forallb_forall in H. specialize (H r Hr).
  unfold root_ok in H. rewrite !orb_true_iff, !str_mem_In in H. unfold allowed_roots in H. rewrite in_app_iff in H. tauto.
Qed.

(* an undeclared runtime crate can only get past an instance premise if the user named it *)
Lemma inst_no_foreign_crate : forall l own rs c, inst_ok l own rs = true -> In (crate_root c) rs ->
  In c (documented l) \/ In (crate_root c) own.
Proof.
  intros l own rs c H Hr. destruct (inst_sound l own rs H _ Hr) as [K|[K|[K|K]]].
  - left. apply in_map_iff in K. destruct K as [c' [E Hi]]. apply crate_root_injective in E. subst. exact Hi.
  - exfalso. destruct c; simpl in K; intuition discriminate.
  - exfalso. destruct c; simpl in K; intuition discriminate.
  - right. exact K.
Qed.

(* hypotheses are satisfiable *)
Example ex_accept : channels_import LSmol {| deps := [CSmol; COneshot]; dev_deps := [CAsyncChannel] |} = Accept.
Proof. reflexivity. Qed.
Example ex_diag : channels_import LAsyncStd {| deps := [COneshot]; dev_deps := [] |} = Diag CAsyncStd.
Proof. reflexivity. Qed.
Example ex_roots : roots false LTokio full_opts <> [] /\ In "tokio" (roots false LTokio full_opts).
Proof. split; [discriminate | vm_compute; tauto]. Qed.
Example ex_inst : inst_ok LStd ["A"; "AScript"] ["A"; "AScript"; "Self"; "core"; "oneshot"; "std"] = true.
Proof. reflexivity. Qed.
Example ex_inst_stray : inst_ok LTokio ["A"; "AScript"] ["A"; "AScript"; "Self"; "core"; "oneshot"; "tokio"] = false.
Proof. reflexivity. Qed.
