(* Fs/CrashThm.v -- proofs about the crash / fault model of Fs/Crash.v (C17). *)
From Coq Require Import List String NArith Bool Arith Lia.
Import ListNotations.
From IT Require Import Fs.Crash.

(* ------------------------------------------------------------------------------------------ *)
(* disk updates                                                                                 *)
(* ------------------------------------------------------------------------------------------ *)
Lemma upd_same : forall d p v, upd d p v p = v.
Proof. intros. unfold upd. rewrite String.eqb_refl. reflexivity. Qed.

Lemma upd_other : forall d p v q, q <> p -> upd d p v q = d q.
Proof. intros d p v q H. unfold upd. apply String.eqb_neq in H. rewrite H. reflexivity. Qed.

Lemma append_at_same : forall d p bs c, d p = Some c -> append_at d p bs p = Some (c ++ bs).
Proof. intros d p bs c H. unfold append_at. rewrite H. apply upd_same. Qed.

Lemma append_at_other : forall d p bs q, q <> p -> append_at d p bs q = d q.
Proof. intros d p bs q H. unfold append_at. destruct (d p); auto. apply upd_other; auto. Qed.

Lemma append_at_none : forall d p bs, d p = None -> append_at d p bs = d.
Proof. intros d p bs H. unfold append_at. rewrite H. reflexivity. Qed.

(* ------------------------------------------------------------------------------------------ *)
(* the temp path is never the target                                                            *)
(* ------------------------------------------------------------------------------------------ *)
Lemma string_length_append : forall a b : string, String.length (a ++ b) = String.length a + String.length b.
Proof. induction a; simpl; intros; auto. Qed.

Lemma tmp_of_differs : forall p sfx, sfx <> EmptyString -> tmp_of p sfx <> p.
Proof.
  intros p sfx Hs H. unfold tmp_of in H.
  assert (L : String.length (p ++ sfx) = String.length p) by (rewrite H; reflexivity).
  rewrite string_length_append in L. destruct sfx; [congruence | simpl in L; lia].
Qed.

Lemma real_tmp_differs : forall p pid, tmp_of p (real_suffix pid) <> p.
Proof. intros. apply tmp_of_differs. unfold real_suffix. simpl. discriminate. Qed.

(* ------------------------------------------------------------------------------------------ *)
(* soundness of the abstract interpretation                                                     *)
(* ------------------------------------------------------------------------------------------ *)
Section Sound.
  Variable e : env.
  Variable old : content.
  Hypothesis Hne : e_tmp e <> e_target e.

  Definition tinv (ts : tst) (d : disk) : Prop :=
    match ts with TUnk => True | TEmpty => d (e_tmp e) = Some [] | TFull => d (e_tmp e) = Some (e_new e) end.
  Definition pinv (ps : pst) (d : disk) : Prop :=
    match ps with POld => d (e_target e) = Some old | PNew => d (e_target e) = Some (e_new e) end.
  Definition inv (ts : tst) (ps : pst) (d : disk) : Prop := tinv ts d /\ pinv ps d.

  Definition old_or_new (d : disk) : Prop := d (e_target e) = Some old \/ d (e_target e) = Some (e_new e).

  Lemma inv_old_or_new : forall ts ps d, inv ts ps d -> old_or_new d.
  Proof. intros ts [] d [_ H]; [left | right]; exact H. Qed.

  Lemma inv_weaken : forall ts ps d, inv ts ps d -> inv TUnk ps d.
  Proof. intros ts ps d [_ H]. split; [exact I | exact H]. Qed.

  Lemma pinv_ext : forall ps d d', d' (e_target e) = d (e_target e) -> pinv ps d -> pinv ps d'.
  Proof. intros [] d d' H; simpl; congruence. Qed.

  Lemma tinv_ext : forall ts d d', d' (e_tmp e) = d (e_tmp e) -> tinv ts d -> tinv ts d'.
  Proof. intros [] d d' H; simpl; congruence. Qed.

  Ltac tgt_other := first [ apply upd_other; auto | apply append_at_other; auto ].

  (* success continuation *)
  Lemma xfer_ok : forall ts ps o t1 p1 t2 p2 d,
    xfer ts ps o = Some ((t1, p1), (t2, p2)) -> inv ts ps d -> enabled (inst_op e o) d = true ->
    inv t1 p1 (full_effect (inst_op e o) d).
  Proof.
    intros ts ps o t1 p1 t2 p2 d X [Ht Hp] En.
    assert (Hne' : e_target e <> e_tmp e) by congruence.
    destruct o as [[]|[]|[]|w|w|w|[] []|[]|[] []]; simpl in X; try discriminate;
      try (injection X as <- <- <- <-).
    - (* OpenTrunc Tmp *) simpl in *. unfold exists_at in En. destruct (d (e_tmp e)) eqn:E; try discriminate.
      split; simpl. apply upd_same. eapply pinv_ext; [|exact Hp]. apply upd_other; auto.
    - (* OpenCreateTrunc Tmp *) simpl. split; simpl. apply upd_same. eapply pinv_ext; [|exact Hp]. apply upd_other; auto.
    - (* Write Tmp *) simpl. split.
      + destruct ts; simpl; auto. simpl in Ht. erewrite append_at_same by eassumption. reflexivity.
      + eapply pinv_ext; [|exact Hp]. apply append_at_other; auto.
    - split; assumption.
    - split; assumption.
    - split; assumption.
    - (* Rename Tmp Target *) destruct (is_full ts) eqn:F; try discriminate. injection X as <- <- <- <-.
      destruct ts; try discriminate. simpl in Ht. simpl. rewrite Ht.
      apply String.eqb_neq in Hne. rewrite Hne. split; simpl; auto.
      rewrite upd_other by auto. apply upd_same.
    - (* Remove Tmp *) simpl. split; simpl; auto. eapply pinv_ext; [|exact Hp]. apply upd_other; auto.
    - (* Copy Target Tmp *) simpl. split; simpl; auto. destruct (d (e_target e)) eqn:E; auto.
      eapply pinv_ext; [|exact Hp]. apply upd_other; auto.
  Qed.

  (* error continuation, after any partial effect *)
  Lemma xfer_err : forall ts ps o t1 p1 t2 p2 d k,
    xfer ts ps o = Some ((t1, p1), (t2, p2)) -> inv ts ps d ->
    inv t2 p2 (partial_effect (inst_op e o) k d) /\ inv t2 p2 d.
  Proof.
    intros ts ps o t1 p1 t2 p2 d k X [Ht Hp].
    assert (Hne' : e_target e <> e_tmp e) by congruence.
    destruct o as [[]|[]|[]|w|w|w|[] []|[]|[] []]; simpl in X; try discriminate;
      try (injection X as <- <- <- <-); simpl partial_effect;
      try (split; split; simpl; auto; fail).
    - (* Write Tmp *) split; split; simpl; auto. eapply pinv_ext; [|exact Hp]. apply append_at_other; auto.
    - (* Rename *) destruct (is_full ts); try discriminate. injection X as <- <- <- <-. split; split; auto.
    - (* Copy Target Tmp *) split; split; simpl; auto. destruct k; auto. destruct (d (e_target e)); auto.
      eapply pinv_ext; [|exact Hp]. apply upd_other; auto.
  Qed.

  Section AnyOracle.
    Variable St : Type.
    Variable orc : St -> fs_op -> fault * St.

    Theorem wf_gen_sound : forall strict w ts ps s d,
      wf_gen strict ts ps w = true -> inv ts ps d ->
      let r := exec St orc e w s d in
      old_or_new (r_disk r)
      /\ (strict = true -> r_status r = RetOk -> r_disk r (e_target e) = Some (e_new e))
      /\ (strict = true -> r_status r = RetErr -> r_disk r (e_target e) = Some old)
      /\ r_status r <> Stuck.
    Proof.
      intros strict w. induction w as [| | | o ok IHok err IHerr]; intros ts ps s d W I; simpl in *.
      - (* WDone *) split; [eapply inv_old_or_new; eauto|]. repeat split; try discriminate.
        intros -> _. destruct ps; simpl in W; try discriminate. exact (proj2 I).
      - split; [eapply inv_old_or_new; eauto|]. repeat split; try discriminate.
        intros -> _. destruct ps; simpl in W; try discriminate. exact (proj2 I).
      - discriminate.
      - destruct (xfer ts ps o) as [[[t1 p1] [t2 p2]]|] eqn:X; try discriminate.
        apply andb_prop in W. destruct W as [W1 W2].
        destruct (fst (orc s (inst_op e o))) eqn:F.
        + (* FOk *) destruct (enabled (inst_op e o) d) eqn:En; simpl.
          * apply (IHok t1 p1). exact W1. eapply xfer_ok; eauto.
          * apply (IHerr t2 p2). exact W2. exact (proj2 (xfer_err _ _ _ _ _ _ _ _ 0 X I)).
        + (* FErr *) simpl. apply (IHerr t2 p2). exact W2. exact (proj1 (xfer_err _ _ _ _ _ _ _ _ k X I)).
        + (* FCrash *) simpl. split; [|repeat split; discriminate].
          eapply inv_old_or_new. exact (proj1 (xfer_err _ _ _ _ _ _ _ _ k X I)).
        + (* FOkCrash *) simpl. split; [|repeat split; discriminate].
          destruct (enabled (inst_op e o) d) eqn:En.
          * eapply inv_old_or_new. eapply xfer_ok; eauto.
          * eapply inv_old_or_new; eauto.
    Qed.

    (* ---- no stray temp file after a return ---- *)
    Definition cinv (absent : bool) (d : disk) : Prop := absent = true -> d (e_tmp e) = None.

    Lemma xfer_clean_ok : forall a o a1 a2 d,
      xfer_clean a o = Some (a1, a2) -> cinv a d -> enabled (inst_op e o) d = true ->
      cinv a1 (full_effect (inst_op e o) d).
    Proof.
      intros a o a1 a2 d X C En.
      destruct o as [[]|[]|[]|w|w|w|[] []|[]|[] []]; simpl in X; try discriminate;
        injection X as <- <-; unfold cinv in *; simpl; try discriminate; auto.
      - (* Write Tmp *) intros A. rewrite append_at_none; auto.
      - (* Rename Tmp Target *) intros _. destruct (d (e_tmp e)) eqn:E; auto.
        apply String.eqb_neq in Hne. rewrite Hne. apply upd_same.
      - (* Remove *) intros _. apply upd_same.
    Qed.

    Lemma xfer_clean_err : forall a o a1 a2 d k,
      xfer_clean a o = Some (a1, a2) -> cinv a d -> is_remove (inst_op e o) = false ->
      cinv a2 (partial_effect (inst_op e o) k d) /\ cinv a2 d.
    Proof.
      intros a o a1 a2 d k X C R.
      destruct o as [[]|[]|[]|w|w|w|[] []|[]|[] []]; simpl in X; try discriminate;
        injection X as <- <-; unfold cinv in *; simpl in *; try discriminate; auto.
      - (* Write Tmp *) split; auto. intros A. rewrite append_at_none; auto.
      - split; discriminate.
    Qed.

    Theorem wf_clean_sound : forall w a s d,
      wf_clean a w = true -> cinv a d ->
      let r := exec St orc e w s d in
      no_remove_fault (r_trace r) = true ->
      (r_status r = RetOk \/ r_status r = RetErr) -> r_disk r (e_tmp e) = None.
    Proof.
      induction w as [| | | o ok IHok err IHerr]; intros a s d W C; simpl in *.
      - intros _ _. subst a. apply C; reflexivity.
      - intros _ _. subst a. apply C; reflexivity.
      - discriminate.
      - destruct (xfer_clean a o) as [[a1 a2]|] eqn:X; try discriminate.
        apply andb_prop in W. destruct W as [W1 W2].
        destruct (fst (orc s (inst_op e o))) eqn:F.
        + destruct (enabled (inst_op e o) d) eqn:En; simpl; rewrite orb_true_r; simpl.
          * apply (IHok a1); auto. eapply xfer_clean_ok; eauto.
          * (* not enabled: fails without effect *)
            apply (IHerr a2); auto.
            destruct (is_remove (inst_op e o)) eqn:R.
            -- (* Remove of a missing temp file: it is absent *)
               destruct o as [?|?|?|?|?|?|? ?|[]|? ?]; simpl in R; try discriminate; simpl in X; try discriminate.
               injection X as <- <-. intros _. simpl in En. unfold exists_at in En.
               destruct (d (e_tmp e)); [discriminate | reflexivity].
            -- exact (proj2 (xfer_clean_err _ _ _ _ _ 0 X C R)).
        + simpl. destruct (is_remove (inst_op e o)) eqn:R; simpl.
          * intros; discriminate.
          * apply (IHerr a2); auto. exact (proj1 (xfer_clean_err _ _ _ _ _ k X C R)).
        + simpl. intros _ [H|H]; discriminate.
        + simpl. intros _ [H|H]; discriminate.
    Qed.
  End AnyOracle.
End Sound.

(* ------------------------------------------------------------------------------------------ *)
(* the property                                                                                 *)
(* ------------------------------------------------------------------------------------------ *)
(* for all old / new contents, all disks, all fault sequences (crash points, byte offsets, error returns) *)
Definition atomic_writer (w : wprog) : Prop :=
  forall (p tmp : path) (old new : content) (d : disk) (fs : list fault),
    tmp <> p -> d p = Some old ->
    let d' := r_disk (run (mkenv p tmp new) w fs d) in
    d' p = Some old \/ d' p = Some new.

(* the same against any environment at all (any state-passing oracle) *)
Definition atomic_writer_any (w : wprog) : Prop :=
  forall (St : Type) (orc : St -> fs_op -> fault * St) (s : St) (p tmp : path) (old new : content) (d : disk),
    tmp <> p -> d p = Some old ->
    let d' := r_disk (exec St orc (mkenv p tmp new) w s d) in
    d' p = Some old \/ d' p = Some new.

Theorem wf_atomic_any : forall w, wf_writer w = true -> atomic_writer_any w.
Proof.
  intros w W St orc s p tmp old new d Hne Hd.
  pose proof (wf_gen_sound (mkenv p tmp new) old Hne St orc false w TUnk POld s d W) as H.
  simpl in H. apply H. split; simpl; auto.
Qed.

Theorem wf_atomic : forall w, wf_writer w = true -> atomic_writer w.
Proof. intros w W p tmp old new d fs. apply (wf_atomic_any w W (list fault) list_orc fs). Qed.

Theorem wf_outcome_sound : forall w, wf_outcome w = true ->
  forall (St : Type) (orc : St -> fs_op -> fault * St) (s : St) (p tmp : path) (old new : content) (d : disk),
    tmp <> p -> d p = Some old ->
    let r := exec St orc (mkenv p tmp new) w s d in
    (r_status r = RetOk -> r_disk r p = Some new) /\ (r_status r = RetErr -> r_disk r p = Some old) /\ r_status r <> Stuck.
Proof.
  intros w W St orc s p tmp old new d Hne Hd.
  pose proof (wf_gen_sound (mkenv p tmp new) old Hne St orc true w TUnk POld s d W) as H.
  simpl in H. destruct H as [_ [A [B C]]]; [split; simpl; auto|]. repeat split; auto.
Qed.

Theorem wf_clean_no_stray : forall w, wf_clean true w = true ->
  forall (St : Type) (orc : St -> fs_op -> fault * St) (s : St) (p tmp : path) (new : content) (d : disk),
    tmp <> p -> d tmp = None ->
    let r := exec St orc (mkenv p tmp new) w s d in
    no_remove_fault (r_trace r) = true -> (r_status r = RetOk \/ r_status r = RetErr) -> r_disk r tmp = None.
Proof.
  intros w W St orc s p tmp new d Hne Hd.
  apply (wf_clean_sound (mkenv p tmp new) Hne St orc w true s d W). intros _. exact Hd.
Qed.

(* wf_outcome is the stronger premise *)
Lemma wf_gen_strict_weaken : forall w ts ps, wf_gen true ts ps w = true -> wf_gen false ts ps w = true.
Proof.
  induction w; simpl; intros; auto.
  destruct (xfer ts ps o) as [[[t1 p1] [t2 p2]]|]; auto.
  apply andb_prop in H. destruct H. rewrite IHw1, IHw2; auto.
Qed.

(* the writer of src/write.rs (as modelled) satisfies all three premises *)
Lemma writer_tmp_rename_wf : wf_writer writer_tmp_rename = true.  Proof. reflexivity. Qed.
Lemma writer_tmp_rename_outcome : wf_outcome writer_tmp_rename = true.  Proof. reflexivity. Qed.
Lemma writer_tmp_rename_clean : wf_clean true writer_tmp_rename = true.  Proof. reflexivity. Qed.

Theorem tmp_rename_atomic : atomic_writer writer_tmp_rename.
Proof. apply wf_atomic. reflexivity. Qed.

(* ------------------------------------------------------------------------------------------ *)
(* refutations                                                                                  *)
(* ------------------------------------------------------------------------------------------ *)
Section Refute.
  Let p : path := "p"%string.
  Let tmp : path := "t"%string.
  Let old : content := [0%N].
  Let new : content := [1%N].
  Let e := mkenv p tmp new.

  Definition bad (d : disk) : Prop := d p <> Some old /\ d p <> Some new.
  Definition start (d : disk) : Prop := d p = Some old /\ exists c, d tmp = Some c.

  Lemma partial0_keeps : forall o d, start d -> start (partial_effect (inst_op e o) 0 d).
  Proof.
    intros o d [Hp [c Ht]].
    destruct o as [w|w|w|w|w|w|a b|w|a b]; simpl; try (split; eauto; fail).
    destruct w; simpl; unfold append_at.
    - rewrite Hp. split. rewrite upd_same. rewrite app_nil_r. reflexivity.
      exists c. rewrite upd_other; auto. discriminate.
    - rewrite Ht. split. rewrite upd_other; auto. discriminate. rewrite upd_same. eauto.
  Qed.

  Lemma clobber_bad : forall o d, clobbers o = true -> start d ->
    exists f, match f with FOkCrash | FCrash _ => True | _ => False end /\
      bad (match f with
           | FCrash k => partial_effect (inst_op e o) k d
           | _ => if enabled (inst_op e o) d then full_effect (inst_op e o) d else d end).
  Proof.
    intros o d C [Hp [c Ht]].
    destruct o as [[]|[]|w|w|w|w|[] []|[]|a []]; simpl in C; try discriminate.
    - exists FOkCrash. split; auto. simpl. unfold exists_at. rewrite Hp. unfold bad. rewrite upd_same. split; discriminate.
    - exists FOkCrash. split; auto. simpl. unfold bad. rewrite upd_same. split; discriminate.
    - exists FOkCrash. split; auto. simpl. unfold exists_at. rewrite Hp.
      replace (String.eqb p tmp) with false by reflexivity. unfold bad.
      rewrite upd_same. split; discriminate.
    - exists FOkCrash. split; auto. simpl. unfold exists_at. rewrite Hp. unfold bad. rewrite upd_same. split; discriminate.
    - exists (FCrash 1). split; auto. destruct a; simpl.
      + rewrite Hp. unfold bad. rewrite upd_same. split; discriminate.
      + rewrite Ht. unfold bad. rewrite upd_same. split; discriminate.
  Qed.

  Lemma reach_err_clobber_bad : forall w d, reach_err_clobber w = true -> start d ->
    exists fs, bad (r_disk (run e w fs d)).
  Proof.
    induction w as [| | | o ok _ err IH]; simpl; intros d R S; try discriminate.
    apply orb_prop in R. destruct R as [C | R].
    - destruct (clobber_bad o d C S) as [f [Hf B]].
      exists [f]. unfold run. simpl. destruct f; try contradiction; simpl; exact B.
    - destruct (IH _ R (partial0_keeps o d S)) as [fs B].
      exists (FErr 0 :: fs). unfold run in *. simpl. exact B.
  Qed.

  Theorem reach_err_clobber_refuted : forall w, reach_err_clobber w = true -> ~ atomic_writer w.
  Proof.
    intros w R A.
    set (d := upd (disk0 p old) tmp (Some [7%N])).
    assert (S : start d). { split. reflexivity. exists [7%N]. reflexivity. }
    destruct (reach_err_clobber_bad w d R S) as [fs [B1 B2]].
    destruct (A p tmp old new d fs); [discriminate | reflexivity | |]; contradiction.
  Qed.

  (* a failed rename answered by copying the temp file over the target *)
  Theorem fallback_copy_refuted : forall ok err, ~ atomic_writer (rename_or (WOp (SCopy Tmp Target) ok err)).
  Proof.
    intros ok err A.
    specialize (A p tmp old new (disk0 p old) [FOk; FOk; FOk; FErr 0; FCrash 1]).
    destruct A as [A | A]; [discriminate | reflexivity | |]; vm_compute in A; discriminate.
  Qed.
End Refute.

(* every writer that starts by opening the target with truncate, whatever it does next *)
Theorem direct_open_refuted : forall ok err,
  ~ atomic_writer (WOp (SOpenCreateTrunc Target) ok err) /\ ~ atomic_writer (WOp (SOpenTrunc Target) ok err).
Proof. intros; split; apply reach_err_clobber_refuted; reflexivity. Qed.

(* concrete witnesses (F9): old = "HELLO WORLD", new = "hello, new world"; cut after the open -> empty file, after 5 bytes -> "hello" *)
Definition w_old : content := [72;69;76;76;79;32;87;79;82;76;68]%N.
Definition w_new : content := [104;101;108;108;111;44;32;110;101;119;32;119;111;114;108;100]%N.

Lemma direct_witness_open :
  r_disk (run (mkenv "f"%string "f.tmp"%string w_new) writer_direct [FOkCrash] (disk0 "f"%string w_old)) "f"%string = Some [].
Proof. reflexivity. Qed.

Lemma direct_witness_5 :
  r_disk (run (mkenv "f"%string "f.tmp"%string w_new) writer_direct [FOk; FCrash 5] (disk0 "f"%string w_old)) "f"%string = Some [104;101;108;108;111]%N.
Proof. reflexivity. Qed.

Lemma direct_witness_err :   (* ENOSPC after 5 bytes, clean error return *)
  let r := run (mkenv "f"%string "f.tmp"%string w_new) writer_direct [FOk; FErr 5] (disk0 "f"%string w_old) in
  r_disk r "f"%string = Some [104;101;108;108;111]%N /\ r_status r = RetErr.
Proof. split; reflexivity. Qed.

Lemma fallback_witness :
  r_disk (run (mkenv "f"%string "f.tmp"%string w_new) writer_fallback_copy [FOk; FOk; FOk; FErr 0; FCrash 4] (disk0 "f"%string w_old)) "f"%string
  = Some [104;101;108]%N.
Proof. reflexivity. Qed.

Theorem direct_refuted : ~ atomic_writer writer_direct.
Proof. apply reach_err_clobber_refuted. reflexivity. Qed.

(* ------------------------------------------------------------------------------------------ *)
(* crash prefixes of the flat operation list (DESIGN.md 4.5 / 5.17 statement)                   *)
(* ------------------------------------------------------------------------------------------ *)
Definition real_ops (p tmp : path) (new : content) : list fs_op :=
  [OpenCreateTrunc tmp; Write tmp new; Fsync tmp; Stat p; SetPerm tmp; Rename tmp p].

Lemma real_ops_spine : forall p tmp new, spine (mkenv p tmp new) writer_tmp_rename = real_ops p tmp new.
Proof. reflexivity. Qed.

Theorem crash_prefix_atomic : forall p tmp old new d i k,
  tmp <> p -> d p = Some old ->
  let d' := apply_prefix (real_ops p tmp new) (i, k) d in d' p = Some old \/ d' p = Some new.
Proof.
  intros p tmp old new d i k Hne Hd.
  assert (Hne' : p <> tmp) by congruence.
  assert (E : String.eqb tmp p = false) by (apply String.eqb_neq; auto).
  unfold real_ops.
  do 7 (try destruct i as [|i]); simpl; unfold append_at; repeat rewrite upd_same; simpl;
    repeat rewrite upd_same; try rewrite E; repeat (rewrite upd_other by auto); repeat rewrite upd_same; auto.
Qed.

Theorem crash_prefix_direct_refuted :
  exists p old new d cut, d p = Some old /\
    let d' := apply_prefix [OpenCreateTrunc p; Write p new] cut d in d' p <> Some old /\ d' p <> Some new.
Proof.
  exists "f"%string, w_old, w_new, (disk0 "f"%string w_old), (1, 5). split. reflexivity.
  vm_compute. split; discriminate.
Qed.

(* a crash-prefix run is a fault sequence: i successes, then death k bytes into the next operation *)
Lemma prefix_is_run_real : forall p tmp new d i k c, tmp <> p -> d p = Some c -> i < 6 ->
  forall q, r_disk (run (mkenv p tmp new) writer_tmp_rename (repeat FOk i ++ [FCrash k]) d) q
          = apply_prefix (real_ops p tmp new) (i, k) d q.
Proof.
  intros p tmp new d i k c Hne Hp Hi q.
  assert (Hne' : p <> tmp) by congruence.
  do 6 (try destruct i as [|i]); try lia; unfold run; simpl; unfold exists_at;
    repeat (rewrite ?upd_same, ?Hp; simpl); try reflexivity.
  all: unfold append_at; rewrite ?upd_same; simpl; rewrite ?upd_same; simpl;
       repeat (rewrite (upd_other _ tmp _ p) by auto); rewrite ?Hp; simpl; rewrite ?upd_same; simpl; try reflexivity.
Qed.

(* ------------------------------------------------------------------------------------------ *)
(* the shim policies are fault oracles: the theorems above cover every correspondence run        *)
(* ------------------------------------------------------------------------------------------ *)
Theorem run_pol_atomic : forall w, wf_writer w = true ->
  forall pl p tmp old new d, tmp <> p -> d p = Some old ->
    let d' := r_disk (run_pol (mkenv p tmp new) w pl d) in d' p = Some old \/ d' p = Some new.
Proof. intros w W pl p tmp old new d. apply (wf_atomic_any w W pstate (pol_orc pl) (ps0 pl)). Qed.

(* ------------------------------------------------------------------------------------------ *)
(* the hypotheses of the guarded theorems are satisfiable, on non-trivial runs                  *)
(* ------------------------------------------------------------------------------------------ *)
Local Open Scope string_scope.
Example ex_env := mkenv "src/lib.rs"%string (tmp_of "src/lib.rs" (real_suffix "4242")) w_new.

Example ex_wf : wf_writer writer_tmp_rename = true /\ wf_outcome writer_tmp_rename = true /\ wf_clean true writer_tmp_rename = true.
Proof. repeat split. Qed.

(* killed 7 bytes into the write: target untouched, a partial temp file is left behind *)
Example ex_killed_mid_write :
  let r := run ex_env writer_tmp_rename [FOk; FCrash 7] (disk0 "src/lib.rs" w_old) in
  project w_old w_new ex_env r = ((1, 11), (3, 7), 0)%N.
Proof. reflexivity. Qed.

(* ENOSPC 7 bytes into the write: clean error, target untouched, temp file removed *)
Example ex_enospc_mid_write :
  let r := run ex_env writer_tmp_rename [FOk; FErr 7; FOk] (disk0 "src/lib.rs" w_old) in
  project w_old w_new ex_env r = ((1, 11), (0, 0), 2)%N /\ no_remove_fault (r_trace r) = true.
Proof. split; reflexivity. Qed.

(* rename fails (EXDEV): clean error, old content, temp file removed *)
Example ex_rename_fails :
  let r := run ex_env writer_tmp_rename [FOk; FOk; FOk; FOk; FOk; FErr 0; FOk] (disk0 "src/lib.rs" w_old) in
  project w_old w_new ex_env r = ((1, 11), (0, 0), 2)%N.
Proof. reflexivity. Qed.

(* no fault: new content, no temp file *)
Example ex_no_fault :
  let r := run ex_env writer_tmp_rename [FOk; FOk; FOk; FOk; FOk; FOk] (disk0 "src/lib.rs" w_old) in
  project w_old w_new ex_env r = ((2, 16), (0, 0), 1)%N.
Proof. reflexivity. Qed.

(* the same through a shim policy: die after 7 bytes *)
Example ex_policy_cut :
  project w_old w_new ex_env
    (run_pol ex_env writer_tmp_rename (mkpol 0 0 (Some 7) true 0 0 0 false false 0 0 0) (disk0 "src/lib.rs" w_old))
  = ((1, 11), (3, 7), 0)%N.
Proof. reflexivity. Qed.

Example ex_not_wf : wf_writer writer_direct = false /\ wf_writer writer_fallback_copy = false /\ wf_writer WUnknown = false
                    /\ reach_err_clobber writer_direct = true.
Proof. repeat split. Qed.
