#!/bin/bash
# Build the framework offline from files on disk: Coq project (full .vo build) and the hook-enabled macro.
set -e
cd "$(dirname "$0")"
export CARGO_NET_OFFLINE=true
mkdir -p .cache evidence replays
( cd coq && coq_makefile -f _CoqProject -o Makefile > /dev/null && timeout 3000 make -j16 )
CARGO_TARGET_DIR=$PWD/.cache/target cargo build --offline --features verif --manifest-path /repo/Cargo.toml 2>&1 | tail -2

# warm build of the runtime probe harness (rebuilt incrementally by the checks)
CARGO_TARGET_DIR=$PWD/.cache/probe_target cargo build --offline --manifest-path harness/probe/Cargo.toml 2>&1 | tail -1
echo "setup done"
