#!/bin/bash
# re-run every claimed quick check on the clean tree (evidence must come from the unchanged tree)
cd /verif
git -C /repo diff --quiet || { echo "/repo has local modifications"; exit 1; }
for p in $(python3 -c "import json; print(' '.join(c['property_id'] for c in json.load(open('MANIFEST.json'))['checks']))"); do
  timeout 1500 ./check $p --tier quick 2>&1 | tail -1
done
python3-vt -c "
import json,jsonschema,glob
s=json.load(open('/root/.vp/EVIDENCE.schema.json'))
for c in json.load(open('/verif/MANIFEST.json'))['checks']:
    jsonschema.validate(json.load(open(c['evidence_file'])),s)
jsonschema.validate(json.load(open('/verif/MANIFEST.json')),json.load(open('/root/.vp/MANIFEST.schema.json')))
print('schemas ok')"
