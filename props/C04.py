"""C04 -- one construction, draining shutdown, single drop of the actor."""
import random, re
import rt_common, probe, gen_impl
from common import *
PID = "C04"


def configs(rng, tier):
    cs = rt_common.std_configs(rng, tier, chans=(None, 2))
    ctors = ["pub fn new() -> Self { todo!() }", "pub fn new(a: u8, b: String) -> A { todo!() }",
             "pub fn try_new(v: u8) -> Option<Self> { None }", "pub fn try_new(v: u8, w: u8) -> Result<Self, String> { todo!() }",
             "pub fn try_new(v: u8) -> std::result::Result<Self, std::io::Error> { todo!() }",
             "pub fn try_new(v: u8) -> ::std::option::Option<A> { None }", "pub fn try_new() -> core::result::Result<A, &'static str> { todo!() }"]
    for lib in gen_impl.LIBS:
        for ct in ctors:
            for ch in (None, 3):
                item = "impl A {\n %s\n pub fn inc(&mut self) {}\n pub fn get(&self) -> u8 { 0 }\n}" % ct
                cs.append({"kind": "actor", "lib": lib, "attr": gen_impl.actor_attr(lib, ch), "item": item, "nmodels": 1,
                           "label": "ctor lib=%s ch=%s %s" % (lib, ch, ct[:40]), "cfg": (lib, ch, ct)})
    # models without any message (only static methods, or every method filtered out): the constructor still starts the one actor
    for lib in gen_impl.LIBS:
        for attr_x, item in (("", "impl A {\n pub fn new(v: u8) -> Self { todo!() }\n pub fn stat(x: u8) -> u8 { x }\n}"),
                             ("exclude(inc, get)", "impl A {\n pub fn new() -> Self { todo!() }\n pub fn inc(&mut self) {}\n pub fn get(&self) -> u8 { 0 }\n}"),
                             ("", "impl A {\n pub fn try_new(v: u8) -> Result<Self, String> { todo!() }\n pub fn stat(x: u8) -> u8 { x }\n}")):
            cs.append({"kind": "actor", "lib": lib, "attr": gen_impl.actor_attr(lib, 2, extra=[attr_x] if attr_x else []), "item": item, "nmodels": 1,
                       "label": "empty-script lib=%s %s" % (lib, attr_x or item[9:40]), "cfg": (lib, "empty", attr_x, item[:40])})
    # constructor parameters named like the identifiers the generated constructor binds itself
    for lib in gen_impl.LIBS:
        for debut in (False, True):
            for ct in ("pub fn new(debut: std::time::SystemTime, v: u8) -> Self { todo!() }", "pub fn new(sender: u8, receiver: String) -> Self { todo!() }",
                       "pub fn try_new(name: String, debut: std::time::SystemTime) -> Result<Self, String> { todo!() }"):
                item = "impl A {\n %s\n pub fn inc(&mut self) {}\n pub fn get(&self) -> u8 { 0 }\n}" % ct
                cs.append({"kind": "actor", "lib": lib, "attr": gen_impl.actor_attr(lib, None, debut=debut), "item": item, "nmodels": 1,
                           "label": "ctorname lib=%s debut=%s %s" % (lib, debut, ct[:34]), "cfg": (lib, debut, ct)})
    # self-consuming methods: the loop may also end by a hand-over, which must happen for a sole owner only
    for lib in gen_impl.LIBS:
        for debut in (False, True):
            for body in ("pub fn raw(self) -> u8 { 0 }\n pub fn fin(self, x: u8) -> Option<u8> { None }",
                         "pub fn fin(self, x: u8) -> Option<u8> { None }\n pub fn raw(self) -> u8 { 0 }",
                         "pub fn fin(self, x: u8) -> Result<u8, String> { todo!() }", "pub fn raw(mut self) -> u8 { 0 }"):
                item = "impl A {\n pub fn new() -> Self { todo!() }\n pub fn inc(&mut self) {}\n %s\n}" % body
                cs.append({"kind": "actor", "lib": lib, "attr": gen_impl.actor_attr(lib, None, debut=debut), "item": item, "nmodels": 1,
                           "label": "slf lib=%s debut=%s %s" % (lib, debut, body[:18]), "cfg": (lib, debut, body)})
    return cs


def run(rep):
    rng = random.Random(rep.seed)
    rep.extra["rule"] = ("instances = real expansions over constructor shapes (Self / actor type / Option / Result under plain and qualified paths) x lib x channel; "
                         "probe = queued calls behind a parked actor, all handles dropped, then release; non-trivial = distinct (lib, channel, constructor) classes")
    def ctor_shadow(c, j):
        """a generated statement placed before the call of the user's constructor re-binds one of the constructor's own arguments"""
        try:
            mdl = c["ex"]["models"][j]
            ct = [m["body_ir"][1] for m in mdl["methods"] if m["body_ir"][0] == "BCtor"][0]
        except Exception:
            return None
        if not ct.get("user_call") or "user" not in ct.get("order", []):
            return None
        before = ct["order"][:ct["order"].index("user")]
        binders = set()
        if "debut" in before and ct.get("debut_call"):
            binders.add(ct["debut_call"][0])
        if "chan" in before and ct.get("chan_binds"):
            binders.update(ct["chan_binds"])
        hit = sorted(binders & set(a[1] for a in ct["user_call"]["args"] if a[0] == "SVar"))
        return (hit, ct["order"]) if hit else None

    def spawn_count(c, j):
        try:
            mdl = c["ex"]["models"][j]
            ct = [m["body_ir"][1] for m in mdl["methods"] if m["body_ir"][0] == "BCtor"][0]
            return len(ct.get("spawns", [])), ct.get("order"), ct.get("extra") or []
        except Exception:
            return None

    def per_model(rep, c, j, r):
        sc = spawn_count(c, j)
        if sc is not None and sc[0] != 1 and c["kind"] == "actor":
            rep.oblige(False)
            if [x for x in sc[2] if re.search(r"\b(spawn\w*|thread|Thread|task|Task|Builder|Executor|block_on)\b", str(x))]:
                # statements the translator cannot read that may start a thread / task: the count says nothing about the code (the premise is broken, a failing input is looked for on the real runtime)
                return {"_found": False, "what": "the constructor of the handle is not in the recognised form: %d spawn statement(s) recognised next to statements the translator "
                                                 "does not read (%s): `exactly one actor thread / task per handle creation` is no longer shown" % (sc[0], [str(x)[:160] for x in sc[2]][:4])}
            return {"what": "the constructor of the handle starts %d actor threads / tasks (recognised constructor statements: %s; other statements, none of which names a thread / task "
                            "API: %s): creating a handle must start exactly one, which owns the actor value until the last handle is gone" % (sc[0], sc[1], [str(x)[:120] for x in sc[2]][:4])}
        sh = ctor_shadow(c, j)
        if sh is not None:
            rep.oblige(False)
            return {"what": "the user's constructor is not called with the given arguments: the generated constructor re-binds %s before it calls `%s` "
                            "(statement order %s), so the caller's value never reaches the user's constructor" % (sh[0], "new / try_new", sh[1])}
        # C04_stopped_only_by_sole_owner / C04_not_clonable_handles_never_grow need the guard or a non-clonable handle
        if rep.oblige(r["sole"] == "true"):
            return True
        return {"what": "a self-consuming method without the sole-owner guard on a handle type that is Clone: the actor's loop can end while another handle exists "
                        "(neither premise of C04_stopped_only_by_sole_owner / C04_not_clonable_handles_never_grow holds for this expansion)",
                "model_side_search": {"scenario": "two clients hold one handle each, client 0 calls the self-consuming method, then the actor steps (Runtime/Explore.v sole_search)",
                                      "(handles before the loop ended with Stopped, handles after)": r["sole_search"]}}

    rt_common.run_runtime(rep, PID, "wf_C04",
        ["fun (A V : Type) sem sem_slf dv => @C04_once A V sem sem_slf dv {i} {w}",
         "fun (A V : Type) sem sem_slf dv => @C04_drain A V sem sem_slf dv {i} {w}",
         "fun (A V : Type) sem sem_slf dv => @C04_exit_cause A V sem sem_slf dv {i} {w}"],
        configs(rng, rep.tier),
        extra_funs=[("sole", "consume_ends_sole {i}"), ("sole_search", "sole_search (elab {i})")], per_model_check=per_model)
    runs = []
    for lib in gen_impl.LIBS:
        runs += [["lifecycle", lib, 0, "queued=4"], ["lifecycle", lib, 2, "queued=2"]]
        if rep.tier != "quick":
            runs += [["lifecycle", lib, 3, "queued=3"], ["lifecycle", lib, 1, "queued=0"], ["lifecycle", lib, 0, "queued=9"]]
    # the other way a loop ends: hand-over to a self-consuming call issued while earlier calls are still queued
    for lib in gen_impl.LIBS:
        runs += [["consume", lib, ch, "handles=1", "pending=%d" % (ch or 3)] for ch in ((0, 2) if rep.tier == "quick" else (0, 1, 2, 3))]
    # a model with a consuming method whose handles are dropped without ever calling it ends like any other
    for lib in gen_impl.LIBS:
        runs += [["consume", lib, ch, "handles=%d" % hn, "nofin=1"] + (["pending=2"] if hn == 1 else []) for ch, hn in ((0, 1), (2, 3))]
    # "starts exactly one actor thread": the constructor called when the OS refuses a new thread
    runs += [["nothread", "std", 0], ["nothread", "std", 2]]
    # the last handle dropped while an accepted call is suspended at an await point inside the user's async method
    for lib in gen_impl.LIBS[1:]:
        runs += [["napdrop", lib, 0, "ms=300", "queued=2"], ["napdrop", lib, 2, "ms=300", "queued=2"]]
        if rep.tier != "quick":
            runs += [["napdrop", lib, 1, "ms=900", "queued=1"], ["napdrop", lib, 0, "ms=1500", "queued=6"]]
    rt_common.impl_side(rep, PID, runs, lambda a, d: probe.oracle_lifecycle(d) if a[0] == "lifecycle" else probe.oracle_napdrop(d) if a[0] == "napdrop" else probe.oracle_nothread(d) if a[0] == "nothread" else probe.oracle_consume(d))


def replay(rep, path):
    return rt_common.replay_generic(rep, path)
