"""C10 -- family members share one actor under its lock, each in its own order."""
import random
import hook, inst, coqgen, gen_impl, probe, rt_common
from common import *
PID = "C10"

FAM_ITEM = """impl A {
    pub fn new(v: i8) -> Self { todo!() }
    pub fn inc(&mut self) {}
    pub fn add(&mut self, n: i8, m: u8) -> i8 { n }
    pub fn get(&self) -> i8 { 0 }
    pub fn io(&self, n: i8, s: String) -> i8 { n }
    pub fn peek(&self, mut tag: String, (mut a, b): (u8, u8)) -> u8 { 0 }
    pub fn visit(&self, f: Box<dyn Fn(&mut String) + Send>, r: &'static mut u8) {}
    pub fn stat(x: u8) -> u8 { x }
    pub fn cust(actor: &%s, x: u8) -> u8 { x }
    %s
}"""

LOCKPATH = {"std": "std::sync::", "tokio": "tokio::sync::", "async_std": "async_std::sync::"}


def configs(rng, tier):
    cs = []
    for lib in ("std", "tokio", "async_std"):
        for lock in ("", "Mutex", "RwLock"):
            lockname = lock or "RwLock"
            for debut in (False, True):
                for variant in range(2 if tier == "quick" else 5):
                    recv = "Arc<%s<Self>>" % lockname if variant % 2 == 0 else "std::sync::Arc<%s%s<Self>>" % (LOCKPATH[lib], lockname)
                    asy = "" if lib == "std" else "pub async fn asy(&self, n: i8) -> i8 { n }\n    pub async fn masy(&mut self, n: i8) {}"
                    item = FAM_ITEM % (recv, asy)
                    fam = (['lib = "%s"' % lib] if lib != "std" else []) + ([lock] if lock else []) + (["debut"] if debut else [])
                    chs = [rng.choice(["", ", channel = 2", ", channel = 0"]) for _ in range(3)]
                    mem = ['actor(first_name = "U"%s)' % chs[0], 'actor(first_name = "V"%s, include(inc, get, cust))' % chs[1]]
                    if variant >= 1:
                        mem.append('actor(first_name = "W"%s, exclude(add))' % chs[2])
                    cs.append({"kind": "family", "lib": lib, "attr": ", ".join(fam + mem), "item": item, "lock": lockname,
                               "label": "family lib=%s lock=%s debut=%s v%d" % (lib, lock or "default", debut, variant), "cfg": (lib, lock, debut, variant), "nmembers": len(mem)})
    return cs


HEADER = ("From Coq Require Import List String NArith Bool.\nImport ListNotations.\nFrom IT Require Import Sdpl.IR Sdpl.Elab Sdpl.Wf Sdpl.ElabFamily Runtime.Family.\nOpen Scope string_scope.\n")


def run(rep):
    rng = random.Random(rep.seed)
    rep.extra["rule"] = ("instances = real family expansions for lib in {std,tokio,async_std} x {default, Mutex, RwLock} x debut x 2-3 members with filters and per-member channels, "
                         "method kinds incl. family-static `actor:` receivers (short and full-path Arc spelling) and async methods; probe = contention + two-reader rendezvous on the real runtimes; "
                         "non-trivial = distinct (lib, lock, debut, variant) classes")
    nthm, problems, _ = property_theorems(PID)
    rep.checker_cmds.append("make -C coq theories/Properties/C10.vo")
    for _ in range(nthm):
        rep.oblige(not problems)
    bad = hygiene()
    rep.oblige(not bad)
    if problems or bad:
        rep.violation("theorems", {"what": "property theorem file no longer checks", "problems": problems, "hygiene": bad}, found=False)
    # the single shared instance: a lock-it-yourself method must not be able to re-seat the shared `Arc` - a mutable reference to it is refused
    rej = []
    for lib in ("std", "tokio", "async_std"):
        for lock in ("Mutex", "RwLock"):
            for recv in ("actor: &mut Arc<%s<Self>>" % lock, "actor: &mut std::sync::Arc<%s%s<Self>>" % (LOCKPATH[lib], lock)):
                item = "impl A {\n    pub fn new(v: i8) -> Self { todo!() }\n    pub fn inc(&mut self) {}\n    pub fn reseat(%s, x: u8) { }\n}" % recv
                attr = ", ".join((['lib = "%s"' % lib] if lib != "std" else []) + [lock, 'actor(first_name = "U")', 'actor(first_name = "V")'])
                rej.append((attr, item))
    res = hook.run_parallel([("family", [a, i]) for a, i in rej], tag="c10rej", shards=4)
    if res is None:
        raise Infra("receiver batch timed out")
    for (attr, item), (cls, f) in zip(rej, res):
        rep.evaluations += 1
        if not rep.oblige(cls == "DIAG"):
            rep.violation("mut_shared_receiver", {"what": "a family method with a mutable reference to the shared `Arc` is accepted (%s): it can replace the handle's `Arc`, "
                                                          "after which the members no longer address one instance under one lock" % cls,
                                                  "attr": attr, "item": item, "expected": "diagnostic (mutable references to the shared actor are not allowed)"}, found=True)
    cs = inst.expand_configs(configs(rng, rep.tier), tag="c10")
    items, owners = [], []
    for c in cs:
        rep.evaluations += 1
        rep.count("lib", c["lib"])
        rep.count("lock", c["lock"])
        if c["class"] != "TOKENS" or c["ex"] is None:
            rep.oblige(False)
            rep.violation("expansion_" + c["label"], {"what": "valid family configuration not expanded / not lexed", "class": c["class"], "attr": c["attr"], "item": c["item"], "output": c["text"][:1500]})
            continue
        try:
            term = coqgen.family(c["ex"], c["lib"])
        except Exception as e:
            rep.oblige(False)
            rep.violation("shape_" + c["label"], {"what": "family expansion not recognised: %r" % e, "attr": c["attr"], "item": c["item"]}, found=False)
            continue
        k = len(owners)
        items += [("wf_%d" % k, "wf_C10 %s f_%d" % (coqgen.s(c["lock"]), k)),
                  ("n_%d" % k, "List.length (fa_members f_%d)" % k),
                  ("modes_%d" % k, "map (map (fun fm => (fm_mode fm, fm_mut fm))) (f_members (elab_family (fa_members f_%d)))" % k)]
        owners.append((c, term))
    defs = "\n".join("Definition f_%d : family := %s." % (k, t) for k, (c, t) in enumerate(owners))
    vals = inst.coq_values("C10_inst", HEADER, items, defs=defs)
    good = []
    for k, (c, t) in enumerate(owners):
        ok = rep.oblige(vals["wf_%d" % k] == "true")
        okn = rep.oblige(vals["n_%d" % k] == str(c["nmembers"]))
        rep.nontrivial.add(c["cfg"])
        if k % 7 == 0:
            rep.sample({"config": c["label"], "attr": c["attr"], "wf_C10": vals["wf_%d" % k], "modes (mode, mutating) per member method": vals["modes_%d" % k][:300]})
        if ok and okn:
            good.append(k)
            continue
        # oracle on the real expansion: a mutating method dispatched under a non-exclusive mode is a concrete failing input
        bad_mode = "(LRead, true)" in vals["modes_%d" % k] or "(LNone, true)" in vals["modes_%d" % k]
        if c["lock"] == "RwLock" and "(LWrite, false)" in vals["modes_%d" % k]:
            bad_mode = True   # a &self method takes the write lock: two non-mutating calls can no longer be in progress simultaneously
        rep.violation("inst_" + c["label"], {"what": "family premise no longer checks: wf_C10=%s members=%s (expected %d)%s" % (
            vals["wf_%d" % k], vals["n_%d" % k], c["nmembers"], "; observed lock modes contradict the property (a &mut self method without an exclusive lock, or a &self method under the write lock of an RwLock family)" if bad_mode else ""),
            "attr": c["attr"], "item": c["item"], "modes": vals["modes_%d" % k]}, found=bad_mode)
    # kernel-checked obligations: the universal theorems instantiated at what the macro emits now
    lines = [HEADER, "From ITG Require Import C10_inst.", "From IT Require Import Properties.C10."]
    for k in good:
        c = owners[k][0]
        lines.append("Lemma f_%d_wf : wf_C10 %s f_%d = true. Proof. vm_compute. reflexivity. Qed." % (k, coqgen.s(c["lock"]), k))
        lines.append("Definition f_%d_excl := fun (A V : Type) sem => @C10_mutating_alone A V sem f_%d %s f_%d_wf." % (k, k, coqgen.s(c["lock"]), k))
        lines.append("Definition f_%d_seq := fun (A V : Type) sem => @C10_sequential A V sem f_%d %s f_%d_wf." % (k, k, coqgen.s(c["lock"]), k))
    ok, out = inst.coq_check_file("C10_oblig", "\n".join(lines) + "\n")
    for _ in good:
        rep.oblige(ok)
    if not ok:
        rep.violation("obligations", {"what": "kernel rejected family instance lemmas", "output": out[-2000:]}, found=False)
    runs = []
    for lib in ("std", "tokio", "async_std"):
        for lock in ("Mutex", "RwLock"):
            runs.append(["family", lib, 0, "lock=" + lock])
    rt_common.impl_side(rep, PID, runs, lambda a, d: probe.oracle_family(d))
    rep.assumptions += ["Mutex / RwLock of std, tokio, async_std give mutual / reader-writer exclusion (Runtime/Family.v `compatible`)",
                        "&self methods do not mutate the actor (Rust's borrow checker); the handle side of each member is the single-actor model (C01-C03)"]


def replay(rep, path):
    return rt_common.replay_generic(rep, path)
