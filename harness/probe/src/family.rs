//! Scenario 6: `#[interthread::family]` with two members R and W over one
//! shared actor, stamped for lib in {std, tokio, async_std} x {Mutex, RwLock}.

/// a call whose future is dropped after `ms` milliseconds (the caller gives up); not available on std
macro_rules! abandon_after {
    (std, $slot:expr, $h:ident, $call:expr, $ms:expr) => { let _ = (&$h, $ms); $slot.call_done(); };
    (tokio, $slot:expr, $h:ident, $call:expr, $ms:expr) => {
        spawn_client!(tokio, $slot.clone(), { let mut $h = $h; let _ = tokio::time::timeout(std::time::Duration::from_millis($ms), $call).await; });
    };
    (async_std, $slot:expr, $h:ident, $call:expr, $ms:expr) => {
        spawn_client!(async_std, $slot.clone(), { let mut $h = $h; let _ = async_std::future::timeout(std::time::Duration::from_millis($ms), $call).await; });
    };
}

macro_rules! stamp_family {
    (mod $m:ident; lib $lib:ident $libs:tt; lock $lock:ident; aw [$($aw:tt)*]) => {
        #[allow(dead_code, unused_variables, unused_mut, unused_imports)]
        pub mod $m {
            use std::sync::atomic::Ordering::SeqCst;
            use std::sync::Arc;
            use std::time::Duration;
            use $crate::support::*;

            pub struct Cell {
                rec: Arc<Rec>,
                n: i64,
            }

            impl Drop for Cell {
                fn drop(&mut self) {
                    self.rec.drops.fetch_add(1, SeqCst);
                    self.rec.push("drop".to_string());
                }
            }

            #[interthread::family(lib = $libs, $lock,
                actor(first_name = "R", include(peek, slow_read, note, mark, add)),
                actor(first_name = "W", include(bump, slow_read, slow_bump, total)),
            )]
            impl Cell {
                pub fn new(rec: Arc<Rec>) -> Self {
                    rec.ctor_runs.fetch_add(1, SeqCst);
                    Self { rec, n: 0 }
                }

                pub fn bump(&mut self, who: u32, seq: u32) {
                    let _g = self.rec.enter_writer();
                    self.n += 1;
                    self.rec.push(format!("bump:{who}:{seq}"));
                }

                pub fn peek(&self) -> i64 {
                    let _g = self.rec.enter_reader();
                    self.n
                }

                // a non-mutating fire-and-forget call with a visible effect, and a non-mutating value-returning call
                pub fn note(&self, who: u32, seq: u32) {
                    let _g = self.rec.enter_reader();
                    self.rec.push(format!("note:{who}:{seq}"));
                }

                pub fn mark(&self, who: u32) -> i64 {
                    let _g = self.rec.enter_reader();
                    self.rec.push(format!("mark:{who}"));
                    self.n
                }

                // holds the write lock for `ms` milliseconds
                pub fn slow_bump(&mut self, ms: u64) {
                    let _g = self.rec.enter_writer();
                    self.rec.push("slow_bump:start".to_string());
                    std::thread::sleep(Duration::from_millis(ms));
                    self.n += 1000;
                    self.rec.push("slow_bump:end".to_string());
                }

                // a mutating value-returning call
                pub fn add(&mut self, x: i64) -> i64 {
                    let _g = self.rec.enter_writer();
                    self.n += x;
                    self.rec.push(format!("add:{x}"));
                    self.n
                }

                pub fn total(&self) -> i64 {
                    let _g = self.rec.enter_reader();
                    self.n
                }

                pub fn slow_read(&self, who: u32) {
                    let _g = self.rec.enter_reader();
                    let ok = self.rec.rendezvous();
                    self.rec.push(format!("rendezvous:{}", if ok { "ok" } else { "timeout" }));
                }
            }

            pub fn run(p: &Params) -> Result<String, String> {
                const BUMPS: u32 = 50;
                let rec = Rec::new();
                phase("family: create");
                let fam = CellFamily::new(rec.clone());
                let CellFamily { r, w } = fam;

                phase("family: bump/peek clients");
                // clients 0,1 bump through W; clients 2,3 peek through R
                let slots: Vec<Arc<Slot>> = (0..4).map(|_| Slot::new()).collect();
                for who in 0..2u32 {
                    let wc = w.clone();
                    spawn_client!($lib, slots[who as usize].clone(), {
                        let mut wc = wc;
                        for seq in 0..BUMPS {
                            wc.bump(who, seq) $($aw)*;
                        }
                    });
                }
                let monotonic = Arc::new(std::sync::atomic::AtomicBool::new(true));
                for who in 2..4u32 {
                    let rc = r.clone();
                    let slot = slots[who as usize].clone();
                    let monotonic = monotonic.clone();
                    spawn_client!($lib, slots[who as usize].clone(), {
                        let rc = rc;
                        let mut last = 0i64;
                        for _ in 0..BUMPS {
                            let v = rc.peek() $($aw)*;
                            if v < last {
                                monotonic.store(false, SeqCst);
                            }
                            last = v;
                            slot.call_done();
                        }
                        slot.set_value(last);
                    });
                }
                settle(&|| all_finished(&slots), Duration::from_secs(5));
                let (_, mut panicked, mut hung) = summarize(&slots);
                // bump is fire-and-forget: wait until all of them were applied
                let all_applied = wait_until(|| rec.count_prefix("bump:") >= 2 * BUMPS as usize, Duration::from_secs(5));

                phase("family: slow_read pair");
                let sr: Vec<Arc<Slot>> = (0..2).map(|_| Slot::new()).collect();
                {
                    let rc = r.clone();
                    spawn_client!($lib, sr[0].clone(), {
                        let rc = rc;
                        rc.slow_read(10) $($aw)*;
                    });
                    let wc = w.clone();
                    spawn_client!($lib, sr[1].clone(), {
                        let wc = wc;
                        wc.slow_read(11) $($aw)*;
                    });
                }
                settle(&|| all_finished(&sr), Duration::from_secs(3));
                wait_until(|| rec.count_prefix("rendezvous:") >= 2, Duration::from_secs(4));
                let (_, p2, h2) = summarize(&sr);
                panicked.extend(p2);
                hung += h2;

                phase("family: note/mark order");
                // one client: NOTES fire-and-forget non-mutating calls, then a value-returning call through the same handle
                const NOTES: u32 = 8;
                let nm = Slot::new();
                {
                    let rc = r.clone();
                    spawn_client!($lib, nm.clone(), {
                        let rc = rc;
                        for seq in 0..NOTES {
                            rc.note(7, seq) $($aw)*;
                        }
                        let _v = rc.mark(7) $($aw)*;
                    });
                }
                settle(&|| nm.finished(), Duration::from_secs(3));
                wait_until(|| rec.count_prefix("note:") >= NOTES as usize, Duration::from_secs(2));
                let (_, p3, h3) = summarize(&[nm.clone()]);
                panicked.extend(p3);
                hung += h3;
                let note_log: Vec<String> = rec.snapshot().into_iter().filter(|e| e.starts_with("note:") || e.starts_with("mark:")).collect();
                let mut note_want: Vec<String> = (0..NOTES).map(|i| format!("note:7:{i}")).collect();
                note_want.push("mark:7".to_string());
                let note_order_ok = note_log == note_want;

                phase("family: final peek");
                let fin = timed_call!($lib, [$($aw)*], r, r.peek(), Duration::from_secs(3));

                // last phase (it may end member R's loop): member W holds the lock, a value-returning mutating call through member R
                // waits for it and its caller gives up meanwhile; the accepted call must still be applied
                phase("family: abandoned call under contention");
                let ab_lib_async = stringify!($lib) != "std";
                let mut abandoned_applied = true;
                let mut total_after: Option<i64> = None;
                if ab_lib_async {
                    let sb = Slot::new();
                    {
                        let wc = w.clone();
                        spawn_client!($lib, sb.clone(), { let mut wc = wc; wc.slow_bump(400) $($aw)*; });
                    }
                    wait_until(|| rec.log_contains("slow_bump:start"), Duration::from_secs(2));
                    let ab = Slot::new();
                    {
                        let rc = r.clone();
                        abandon_after!($lib, ab, rc, rc.add(5), 80);
                    }
                    settle(&|| ab.finished(), Duration::from_secs(2));
                    wait_until(|| rec.log_contains("slow_bump:end"), Duration::from_secs(3));
                    abandoned_applied = wait_until(|| rec.log_contains("add:5"), Duration::from_millis(1500));
                    if let Timed::Ok(v) = timed_call!($lib, [$($aw)*], w, w.total(), Duration::from_secs(3)) { total_after = Some(v); }
                }

                let log = rec.snapshot();
                let rdv: Vec<&String> = log.iter().filter(|e| e.starts_with("rendezvous:")).collect();
                let rendezvous = if rdv.len() < 2 {
                    "missing"
                } else if rdv.iter().all(|e| e.as_str() == "rendezvous:ok") {
                    "ok"
                } else {
                    "timeout"
                };
                // each W client's bumps must appear in issue order
                let mut order_ok = true;
                for who in 0..2u32 {
                    let prefix = format!("bump:{who}:");
                    let seqs: Vec<u32> = log
                        .iter()
                        .filter_map(|e| e.strip_prefix(&prefix).and_then(|s| s.parse().ok()))
                        .collect();
                    let expect: Vec<u32> = (0..BUMPS).collect();
                    if seqs != expect {
                        order_ok = false;
                    }
                }
                let mut o = Obj::new(p)
                    .s("lock", stringify!($lock))
                    .b("overlap_writer", rec.overlap_writer.load(SeqCst))
                    .b("per_member_order_ok", order_ok)
                    .b("all_bumps_applied", all_applied)
                    .b("peeks_monotonic", monotonic.load(SeqCst))
                    .b("abandon_tested", ab_lib_async)
                    .b("abandoned_applied", abandoned_applied)
                    .raw("total_after_abandon", match total_after { Some(v) => v.to_string(), None => "null".to_string() })
                    .b("note_order_ok", note_order_ok)
                    .strs("note_log", &note_log)
                    .s("rendezvous", rendezvous);
                match fin {
                    Timed::Ok(v) => o = o.n("final", v),
                    other => o = o.raw("final", "null".to_string()).s("final_error", &other.describe()),
                }
                Ok(o
                    .n("ctor_runs", rec.ctor_runs.load(SeqCst) as i64)
                    .n("drops", rec.drops.load(SeqCst) as i64)
                    .strs("panicked", &panicked)
                    .n("hung", hung as i64)
                    .done())
            }
        }
    };
}

stamp_family! { mod std_mutex; lib std "std"; lock Mutex; aw [] }
stamp_family! { mod std_rwlock; lib std "std"; lock RwLock; aw [] }
stamp_family! { mod tokio_mutex; lib tokio "tokio"; lock Mutex; aw [.await] }
stamp_family! { mod tokio_rwlock; lib tokio "tokio"; lock RwLock; aw [.await] }
stamp_family! { mod async_std_mutex; lib async_std "async_std"; lock Mutex; aw [.await] }
stamp_family! { mod async_std_rwlock; lib async_std "async_std"; lock RwLock; aw [.await] }

pub fn dispatch(p: &crate::support::Params) -> Result<String, String> {
    let lock = p.text("lock", "RwLock");
    match (p.lib.as_str(), lock.as_str()) {
        ("std", "Mutex") => std_mutex::run(p),
        ("std", "RwLock") => std_rwlock::run(p),
        ("tokio", "Mutex") => tokio_mutex::run(p),
        ("tokio", "RwLock") => tokio_rwlock::run(p),
        ("async_std", "Mutex") => async_std_mutex::run(p),
        ("async_std", "RwLock") => async_std_rwlock::run(p),
        (l, k) => Err(format!("no family compiled for lib={l} lock={k} (lib: std|tokio|async_std, lock: Mutex|RwLock)")),
    }
}
