(* Gen/AttrWitness.v -- concrete instances: the hypotheses of the C19 theorems are satisfiable on non-trivial inputs, and the
   inputs that used to be known findings (name = "1x", Debug(foo), edit(script()), example(bogus), family edit(def, imp),
   member edit(script(..))) now get their documented answer.  They are replayed on the real macro by props/C19.py as
   regression inputs. *)
From Coq Require Import List String Ascii NArith ZArith Bool.
Import ListNotations.
From IT Require Import Gen.Attr Gen.AttrSpec Gen.AttrThm.
Open Scope string_scope.

Definition ftrue (s : string) := true.
Definition fone (s : string) := FOne.
Definition fmany (s : string) := FMany.

Definition nv k s := MNV [k] (VStr s).
Definition w p := MPath [p].

Definition ex_actor : list meta :=
  [nv "name" "B"; nv "lib" "tokio"; MNV ["channel"] (VInt 2); w "debut"; w "interact"; w "show"; MList ["include"] [w "inc"; w "get"];
   nv "file" "src/main.rs"; MList ["edit"] [MList ["live"] [MList ["imp"] [MList ["file"] [w "inc"]]]]].
Example ex_actor_valid : valid_actor ftrue fone ex_actor = true /\ is_ok (parse_args ftrue fone Actor ex_actor) = true /\ markers ex_actor = true.
Proof. repeat split; vm_compute; reflexivity. Qed.
Example ex_actor_two_macros : valid_actor ftrue fmany ex_actor = false /\ is_diag (parse_args ftrue fmany Actor ex_actor) = true. Proof. split; vm_compute; reflexivity. Qed.

Definition ex_family : list meta :=
  [nv "name" "Z"; MNV ["channel"] (VInt 3); w "Mutex"; w "debut"; MList ["edit"] [w "def"; MList ["imp"] [w "new"]];
   MList ["actor"] [nv "first_name" "U"; MNV ["channel"] (VInt 0); MList ["include"] [w "inc"]; w "show"; MList ["edit"] [MList ["script"] [w "def"]]];
   MList ["actor"] [nv "first_name" "V"; w "interact"; MList ["edit"] [MList ["live"] [MList ["imp"] [w "inc"]]]]].
Example ex_family_valid : valid_family ftrue fone ex_family = true /\ is_ok (parse_args ftrue fone Family ex_family) = true. Proof. split; vm_compute; reflexivity. Qed.
Example ex_family_channels :
  match parse_args ftrue fone Family ex_family with Ok c => map (fun p => a_chan (snd p)) (c_members c) | _ => [] end = [Unbounded; Buffer 3].
Proof. vm_compute. reflexivity. Qed.

Definition ex_example : list meta := [nv "path" "src/main.rs"; w "main"; MList ["expand"] [w "actor"]].
Example ex_example_valid : valid_example ftrue ex_example = true /\ is_ok (parse_example ftrue ex_example) = true. Proof. split; vm_compute; reflexivity. Qed.

(* former finding name-not-ident: a diagnostic, not a panic *)
Example name_not_ident_diag :
  is_diag (parse_args ftrue fone Actor [nv "name" "1x"]) = true /\ is_diag (parse_args ftrue fone Family [MList ["actor"] [nv "first_name" "a b"]]) = true.
Proof. split; vm_compute; reflexivity. Qed.

(* former finding leaf-not-bare *)
Example leaf_not_bare_diag :
  is_diag (parse_args ftrue fone Actor [MList ["Debug"] [w "foo"]]) = true
  /\ is_diag (parse_args ftrue fone Actor [MList ["include"] [MNV ["inc"] (VInt 1)]]) = true
  /\ is_diag (parse_args ftrue fone Family [MNV ["Mutex"] (VInt 1); MList ["actor"] [nv "first_name" "U"]]) = true
  /\ is_diag (parse_args ftrue fone Actor [MList ["edit"] [MList ["live"] [MList ["def"] [w "x"]]]]) = true
  /\ is_diag (parse_args ftrue fone Actor [MList ["edit"] [MList ["live"] [MList ["imp"] [MNV ["inc"] (VInt 1)]]]]) = true
  /\ is_diag (parse_args ftrue fone Actor [nv "file" "f"; MList ["edit"] [MList ["live"] [MList ["imp"] [MList ["file"] [MList ["file"] [w "a"]]]]]]) = true.
Proof. repeat split; vm_compute; reflexivity. Qed.

(* former finding edit-empty-list *)
Example edit_empty_list_diag :
  is_diag (parse_args ftrue fone Actor [MList ["edit"] [MList ["script"] []]]) = true
  /\ is_diag (parse_args ftrue fone Actor [MList ["edit"] []]) = true
  /\ is_diag (parse_args ftrue fone Actor [MList ["edit"] [MList ["live"] [MList ["imp"] []]]]) = true
  /\ is_diag (parse_args ftrue fone Actor [nv "file" "f"; MList ["edit"] [MList ["file"] []]]) = true
  /\ is_diag (parse_args ftrue fone Family [MList ["edit"] []; MList ["actor"] [nv "first_name" "U"]]) = true
  /\ is_ok (parse_args ftrue fone Actor [w "edit"]) = true
  /\ is_ok (parse_args ftrue fone Actor [nv "file" "f"; MList ["edit"] [w "file"]]) = true
  /\ is_ok (parse_args ftrue fone Actor [MList ["edit"] [w "script"; MList ["live"] [w "imp"]]]) = true.
Proof. repeat split; vm_compute; reflexivity. Qed.

(* former finding example-unknown-option *)
Example example_unknown_option_diag :
  is_diag (parse_example ftrue [nv "path" "src/main.rs"; w "bogus"]) = true
  /\ is_diag (parse_example ftrue [nv "path" "src/main.rs"; MNV ["main"] (VInt 5)]) = true
  /\ is_diag (parse_example ftrue [nv "path" "src/main.rs"; MList ["expand"] [MList ["actor"] [w "x"]]]) = true.
Proof. repeat split; vm_compute; reflexivity. Qed.

(* former finding family-edit-form (F7): the documented forms are accepted *)
Example family_documented_edit_accepted :
  is_ok (parse_args ftrue fone Family [MList ["edit"] [w "def"; w "imp"]; MList ["actor"] [nv "first_name" "U"]]) = true
  /\ is_ok (parse_args ftrue fone Family [MList ["actor"] [nv "first_name" "U"; MList ["edit"] [MList ["script"] [w "def"]]]]) = true
  /\ is_ok (parse_args ftrue fone Family [MList ["actor"] [nv "first_name" "U"; MList ["edit"] [MList ["live"] [MList ["imp"] [w "inc"]]]]]) = true
  /\ is_ok (parse_args ftrue fone Family [MList ["edit"] [w "def"]; MList ["actor"] [nv "first_name" "U"]]) = true.
Proof. repeat split; vm_compute; reflexivity. Qed.
