//! probe <scenario> <lib> <chan> [key=value ...]
//!
//! Runs ONE scenario against the `interthread` actor macro and prints one
//! JSON object on the last stdout line. See README.md.

mod support;
#[macro_use]
mod actors;
mod family;

use std::collections::HashMap;
use std::io::Write;
use std::time::Duration;
use support::{jstr, Params};

const USAGE: &str = "usage: probe <burst|mixed|lifecycle|fault|slowreply|nothread|consume|family> <std|tokio|async_std|smol> <chan 0..3> [key=value ...]";

fn finish(line: String, code: i32) -> ! {
    let out = std::io::stdout();
    let mut out = out.lock();
    let _ = writeln!(out, "{line}");
    let _ = out.flush();
    std::process::exit(code);
}

fn harness_error(scenario: &str, lib: &str, chan: &str, msg: &str, code: i32) -> ! {
    // chan is printed as a number when it is one, else as the raw string
    let chan_json = match chan.parse::<u64>() {
        Ok(n) => n.to_string(),
        Err(_) => jstr(chan),
    };
    finish(
        format!(
            "{{\"scenario\":{},\"lib\":{},\"chan\":{},\"error\":{}}}",
            jstr(scenario),
            jstr(lib),
            chan_json,
            jstr(msg)
        ),
        code,
    )
}

fn main() {
    // Fixed worker counts; must be set before the executors start.
    std::env::set_var("SMOL_THREADS", "4");
    std::env::set_var("ASYNC_STD_THREAD_COUNT", "4");
    // Panics are data here, keep stderr quiet.
    std::panic::set_hook(Box::new(|_| {}));

    let args: Vec<String> = std::env::args().skip(1).collect();
    if args.len() < 3 {
        harness_error("", "", "", USAGE, 2);
    }
    let (scenario, mut lib, chan_s) = (args[0].clone(), args[1].clone(), args[2].clone());
    let mut kv = HashMap::new();
    for a in &args[3..] {
        match a.split_once('=') {
            Some((k, v)) => {
                kv.insert(k.to_string(), v.to_string());
            }
            None => harness_error(&scenario, &lib, &chan_s, &format!("argument {a} is not key=value. {USAGE}"), 2),
        }
    }
    // `family ... lib=<x>` may override the positional lib
    if scenario == "family" {
        if let Some(l) = kv.get("lib") {
            lib = l.clone();
        }
    }
    let chan: usize = match chan_s.parse() {
        Ok(c) => c,
        Err(_) => harness_error(&scenario, &lib, &chan_s, &format!("chan must be a number. {USAGE}"), 2),
    };
    let p = Params { scenario: scenario.clone(), lib: lib.clone(), chan, kv };

    // Watchdog: the process never outlives ~20 s.
    {
        let (s, l, c) = (scenario.clone(), lib.clone(), chan_s.clone());
        std::thread::spawn(move || {
            std::thread::sleep(Duration::from_secs(20));
            let msg = format!("watchdog: harness still busy after 20 s in phase '{}'", support::current_phase());
            harness_error(&s, &l, &c, &msg, 3);
        });
    }

    // tokio::spawn inside `Live::new` needs a runtime context on this thread.
    let _guard = if lib == "tokio" { Some(support::tokio_rt().enter()) } else { None };

    let result = match scenario.as_str() {
        "burst" | "mixed" | "lifecycle" | "fault" | "slowreply" | "nothread" | "chain" | "napdrop" => actors::dispatch(&p, false),
        "consume" => actors::dispatch(&p, true),
        "family" => {
            if chan != 0 {
                Err("family is compiled with the default (unbounded) channel only: use chan 0".to_string())
            } else {
                family::dispatch(&p)
            }
        }
        // harness self-test: never returns, the watchdog must end the process
        "selftest_hang" => {
            support::phase("selftest_hang: sleeping forever");
            loop {
                std::thread::sleep(Duration::from_secs(60));
            }
        }
        other => Err(format!("unknown scenario {other}. {USAGE}")),
    };
    match result {
        Ok(json) => finish(json, 0),
        Err(msg) => harness_error(&scenario, &lib, &chan_s, &msg, 2),
    }
}
