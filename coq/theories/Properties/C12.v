(* C12 -- generated code needs only the crates documented for the chosen runtime; a missing one is reported by name.
   Statements only; model in Gen/Paths.v, proofs in Gen/PathsThm.v.

   documented: Std -> [oneshot]; Tokio -> [tokio]; AsyncStd -> [async-std; oneshot]; Smol -> [smol; async-channel; oneshot]
   manifest  : any two lists over the five crates ([dependencies], [dev-dependencies]); a crate is declared when it is in either. *)
From Coq Require Import List String Bool.
Import ListNotations.
From IT Require Import Gen.Paths Gen.PathsThm.
Open Scope string_scope.

(* every leading path segment the generator can emit, for every runtime, every option combination, actor or family,
   is the root of a crate documented for that runtime, or std / core *)
Theorem C12_roots : forall (family : bool) (l : plib) (o : opts) (r : string),
  In r (roots family l o) -> In r (map crate_root (documented l)) \/ r = "std" \/ r = "core".
Proof. exact roots_allowed. Qed.

(* the import check accepts only projects that declare every documented crate (false before fix 3495d4f: F6) *)
Theorem C12_check_sound : forall l m, channels_import l m = Accept -> forall c, In c (documented l) -> declared m c = true.
Proof. exact check_sound. Qed.

(* ... and accepts every project that declares them (whatever else it declares, in either manifest section) *)
Theorem C12_check_complete : forall l m, (forall c, In c (documented l) -> declared m c = true) -> channels_import l m = Accept.
Proof. exact check_complete. Qed.

(* a project declaring exactly the documented crates is accepted, as dependencies or as dev-dependencies *)
Theorem C12_check_exact : forall l extra, channels_import l {| deps := documented l; dev_deps := extra |} = Accept
                                       /\ channels_import l {| deps := extra; dev_deps := documented l |} = Accept.
Proof. exact check_exact. Qed.

(* a rejection names a crate that is documented for the runtime and really is missing *)
Theorem C12_check_names : forall l m c, channels_import l m = Diag c -> In c (documented l) /\ declared m c = false.
Proof. exact check_names. Qed.

(* the check always answers, and the text of the diagnostic determines the crate *)
Theorem C12_check_decides : forall l m, channels_import l m = Accept \/ exists c, channels_import l m = Diag c.
Proof. exact check_decides. Qed.
Theorem C12_diag_identifies : forall c c', diag_message c = diag_message c' -> c = c'.
Proof. exact diag_message_injective. Qed.

(* no unresolved crate path: once the check accepts, every crate root any option combination can emit is declared *)
Theorem C12_accept_resolves : forall family l m o r, channels_import l m = Accept -> In r (roots family l o) ->
  r = "std" \/ r = "core" \/ exists c, crate_root c = r /\ declared m c = true.
Proof. exact accept_resolves. Qed.

(* the table asks for nothing superfluous: each documented crate is referred to by some generated program *)
Theorem C12_documented_needed : forall l c, In c (documented l) -> In (crate_root c) (roots false l full_opts).
Proof. exact documented_needed. Qed.

(* the per-run instance premise (evaluated on the leading segments of a real expansion) means what it should *)
Theorem C12_instance : forall l own rs, inst_ok l own rs = true ->
  forall r, In r rs -> In r (map crate_root (documented l)) \/ In r base_roots \/ In r prelude_names \/ In r own.
Proof. exact inst_sound. Qed.
Theorem C12_instance_no_foreign_crate : forall l own rs c, inst_ok l own rs = true -> In (crate_root c) rs ->
  In c (documented l) \/ In (crate_root c) own.
Proof. exact inst_no_foreign_crate. Qed.

Print Assumptions C12_roots.
Print Assumptions C12_check_sound.
Print Assumptions C12_check_complete.
Print Assumptions C12_check_exact.
Print Assumptions C12_check_names.
Print Assumptions C12_check_decides.
Print Assumptions C12_diag_identifies.
Print Assumptions C12_accept_resolves.
Print Assumptions C12_documented_needed.
Print Assumptions C12_instance.
Print Assumptions C12_instance_no_foreign_crate.
