(* Gen/Edit.v -- model of the `edit` option of interthread (C15).  Definitions only (no proofs), so
   the model still runs when a proof breaks.

   1. `meta`            : syn::Meta trees restricted to single-identifier paths
   2. parser model      : EditActor::parse / parse_family / parse_sol / parse_sol_nested /
                          parse_sol_nested_idents / add_if_unique   (src/model/argument/edit.rs)
   3. `edit_ast`        : the documented grammar  edit[(script|live)[(def|imp[(names)]|trt[(names)])]]
                          with `file` wrappers at every level; `render`, `legal`, `denote`
   4. split model       : model::select / ModelPart::split_edit / get_code_edit (src/model/mod.rs)
   5. printers          : canonical text used by the per-run correspondence with the real code *)
From Coq Require Import List String Ascii Bool.
Import ListNotations.
Open Scope string_scope.

(* ------------------------------------------------------------------------------------------ *)
(* results                                                                                      *)
(* ------------------------------------------------------------------------------------------ *)
Inductive diag :=
| DNestedFile | DExpectList | DEmptyList | DExpectWord | DDouble (s : string) | DUnexpected | DUnexpectedNested | DUnknownIdent (s : string).

Inductive res (A : Type) := Ok (a : A) | Diag (d : diag).
Arguments Ok {A} a.
Arguments Diag {A} d.

Definition bind {A B} (x : res A) (f : A -> res B) : res B :=
  match x with Ok a => f a | Diag d => Diag d end.
Notation "x <- e ;; f" := (bind e (fun x => f)) (at level 61, e at next level, right associativity).

Fixpoint foldM {S A} (f : S -> A -> res S) (s : S) (l : list A) : res S :=
  match l with
  | [] => Ok s
  | a :: l' => match f s a with Ok s' => foldM f s' l' | Diag d => Diag d end
  end.

(* forget which diagnostic was produced *)
Definition forget {A} (r : res A) : option A := match r with Ok a => Some a | Diag _ => None end.
Definition is_diag {A} (r : res A) : bool := match r with Ok _ => false | Diag _ => true end.

(* ------------------------------------------------------------------------------------------ *)
(* 1. attribute trees                                                                           *)
(* ------------------------------------------------------------------------------------------ *)
Inductive meta :=
| MPath (n : string)                      (* name           *)
| MList (n : string) (l : list meta)      (* name( .. )     *)
| MNV   (n : string).                     (* name = literal *)

Definition mname (m : meta) : string := match m with MPath n | MList n _ | MNV n => n end.
Definition is_name (s : string) (m : meta) : bool := String.eqb (mname m) s.

(* edit.rs get_list (attribute::get_list with Some(help), then the emptiness test):
   Path -> None, non-empty List -> Some, `name()` -> abort, NameValue -> abort *)
Definition get_list (m : meta) : res (option (list meta)) :=
  match m with
  | MPath _ => Ok None
  | MList _ [] => Diag DEmptyList
  | MList _ l => Ok (Some l)
  | MNV _ => Diag DExpectList
  end.
(* attribute::expect_word: a bare word, neither `w(..)` nor `w = v` *)
Definition is_word (m : meta) : bool := match m with MPath _ => true | _ => false end.

(* ------------------------------------------------------------------------------------------ *)
(* 2. parser model                                                                              *)
(* ------------------------------------------------------------------------------------------ *)
Definition nlist := option (list (string * bool)).
(* ((def, def-to-file), (methods?, all-to-file), (traits?, all-to-file)) *)
Definition tuples := ((bool * bool) * (nlist * bool) * (nlist * bool))%type.
Record edit_actor := { ea_remove : bool; ea_script : tuples; ea_live : tuples }.

Definition empty_t : tuples := ((false, false), (None, false), (None, false)).
Definition default_ea : edit_actor := {| ea_remove := false; ea_script := empty_t; ea_live := empty_t |}.

Definition get_t (sol : bool) (e : edit_actor) : tuples := if sol then ea_script e else ea_live e.
Definition set_t (sol : bool) (e : edit_actor) (t : tuples) : edit_actor :=
  if sol then {| ea_remove := ea_remove e; ea_script := t; ea_live := ea_live e |}
  else {| ea_remove := ea_remove e; ea_script := ea_script e; ea_live := t |}.

Definition is_none {A} (o : option A) : bool := match o with None => true | Some _ => false end.
(* is_script_none / is_live_none *)
Definition is_none_t (t : tuples) : bool :=
  let '(d, i, r) := t in negb (fst d) && is_none (fst i) && is_none (fst r).
(* set_*_all, preceded by set_*_all_active when `file` *)
Definition all_t (t : tuples) (file : bool) : tuples :=
  let '(d, i, r) := t in
  ((true, if file then true else snd d), (Some [], if file then true else snd i), (Some [], if file then true else snd r)).

Definition get_file_list (m : meta) : res (list meta) :=
  match get_list m with Ok (Some l) => Ok l | Ok None => Diag DExpectList | Diag d => Diag d end.
Definition abort_if_is_file (m : meta) : res unit := if is_name "file" m then Diag DNestedFile else Ok tt.

Definition add_if_unique (vec : nlist) (m : meta) (file : bool) : res nlist :=
  let id := mname m in
  if negb (is_word m) then Diag DExpectWord else
  match vec with
  | Some v => if existsb (fun p => String.eqb id (fst p)) v then Diag (DDouble id) else Ok (Some (v ++ [(id, file)])%list)
  | None => Ok (Some [(id, file)])
  end.

Definition idents_step (file : bool) (opt : nlist) (x : meta) : res nlist :=
  if is_name "file" x then
    match get_list x with
    | Diag d => Diag d
    | Ok (Some fl) => foldM (fun opt fm => if file then Diag DNestedFile else add_if_unique opt fm true) opt fl
    | Ok None => add_if_unique opt x file
    end
  else add_if_unique opt x file.

Definition parse_idents (os : nlist * bool) (m : meta) (file : bool) : res (nlist * bool) :=
  let '(opt, scope) := os in
  match get_list m with
  | Diag d => Diag d
  | Ok (Some l) => opt' <- foldM (idents_step file) opt l ;; Ok (opt', scope)
  | Ok None => Ok (Some [], if file then true else scope)
  end.

(* parse_sol_nested on the cloned tuples *)
Definition nested_t (name : string) (t : tuples) (m : meta) (file : bool) : res tuples :=
  let '(d, i, r) := t in
  if is_name "def" m then
    if negb (is_word m) then Diag DExpectWord else
    (if fst d then Diag (DDouble (name ++ "::def")) else Ok ((true, if file then true else snd d), i, r))
  else if is_name "imp" m then
    (match fst i with
     | None => i' <- parse_idents i m file ;; Ok (d, i', r)
     | Some _ => Diag (DDouble (name ++ "::imp")) end)
  else if is_name "trt" m then
    (match fst r with
     | None => r' <- parse_idents r m file ;; Ok (d, i, r')
     | Some _ => Diag (DDouble (name ++ "::trt")) end)
  else Diag DUnexpectedNested.

Definition sol_name (sol : bool) : string := if sol then "script" else "live".

Definition parse_sol_nested (e : edit_actor) (m : meta) (sol file : bool) : res edit_actor :=
  t <- nested_t (sol_name sol) (get_t sol e) m file ;; Ok (set_t sol e t).

Definition file_group_step (sol : bool) (e : edit_actor) (x : meta) : res edit_actor :=
  _ <- abort_if_is_file x ;; parse_sol_nested e x sol true.

Definition sol_step (sol file : bool) (e : edit_actor) (met : meta) : res edit_actor :=
  if is_name "file" met then
    if file then Diag DNestedFile
    else fl <- get_file_list met ;; foldM (file_group_step sol) e fl
  else parse_sol_nested e met sol file.

Definition which_sol (e : edit_actor) (m : meta) : res bool :=
  if is_name "script" m then (if is_none_t (ea_script e) then Ok true else Diag (DDouble "script"))
  else if is_name "live" m then (if is_none_t (ea_live e) then Ok false else Diag (DDouble "live"))
  else Diag DUnexpected.

Definition parse_sol (e : edit_actor) (m : meta) (file : bool) : res edit_actor :=
  sol <- which_sol e m ;;
  match get_list m with
  | Diag d => Diag d
  | Ok (Some l) => foldM (sol_step sol file) e l
  | Ok None => Ok (set_t sol e (all_t (get_t sol e) file))
  end.

Definition file_part_step (e : edit_actor) (x : meta) : res edit_actor :=
  _ <- abort_if_is_file x ;; parse_sol e x true.

Definition top_step (e : edit_actor) (x : meta) : res edit_actor :=
  if is_name "file" x then fl <- get_file_list x ;; foldM file_part_step e fl
  else parse_sol e x false.

Definition set_all (e : edit_actor) (file : bool) : edit_actor :=
  {| ea_remove := ea_remove e; ea_script := all_t (ea_script e) file; ea_live := all_t (ea_live e) file |}.

(* EditActor::parse *)
Definition parse (e : edit_actor) (m : meta) : res edit_actor :=
  match get_list m with
  | Diag d => Diag d
  | Ok None => Ok (set_all e false)
  | Ok (Some [mv]) =>
      if is_name "file" mv then
        match get_list mv with
        | Diag d => Diag d
        | Ok (Some l) => foldM file_part_step e l
        | Ok None => let e' := set_all e true in
                     Ok {| ea_remove := true; ea_script := ea_script e'; ea_live := ea_live e' |}
        end
      else parse_sol e mv false
  | Ok (Some l) => foldM top_step e l
  end.

(* EditActor::parse_family: the family's parts live in the `live` tuples *)
Definition parse_family (e : edit_actor) (m : meta) : res edit_actor :=
  match get_list m with
  | Diag d => Diag d
  | Ok None => Ok (set_t false e (all_t (ea_live e) false))
  | Ok (Some [mv]) =>
      if is_name "file" mv then
        match get_list mv with
        | Diag d => Diag d
        | Ok (Some l) => foldM (file_group_step false) e l
        | Ok None => Ok (set_t false e (all_t (ea_live e) true))
        end
      else parse_sol_nested e mv false false
  | Ok (Some l) => foldM (sol_step false false) e l      (* def | imp[(..)] | trt[(..)] | file(..), any number of them *)
  end.

Definition edit_parse (m : meta) : res edit_actor := parse default_ea m.
Definition edit_parse_family (m : meta) : res edit_actor := parse_family default_ea m.
(* `edit` inside a family member `actor(..)`: parse_nested_actor hands it to EditActor::parse, as for a plain actor *)
Definition edit_parse_member (m : meta) : res edit_actor := parse default_ea m.

(* ------------------------------------------------------------------------------------------ *)
(* 3. the documented grammar                                                                    *)
(* ------------------------------------------------------------------------------------------ *)
Inductive nitem := NName (n : string) | NFile (ns : list string).               (* inside imp(..) / trt(..) *)
Inductive sect := SDef | SImp (l : option (list nitem)) | STrt (l : option (list nitem)).
Inductive sitem := SSect (s : sect) | SFileS (ss : list sect).                  (* inside script(..) / live(..) *)
Inductive part_ast := PSol (sol : bool) (l : option (list sitem)).             (* sol = true: script *)
Inductive eitem := EPart (p : part_ast) | EFile (ps : list part_ast).           (* inside edit(..) *)
Inductive edit_ast := EBare | EFileBare | EList (l : list eitem).
(* family level: edit, edit(file), edit(def | imp[(..)] | trt[(..)] | file(..), ..) *)
Inductive fam_ast := FBare | FFileBare | FList (l : list sitem).

Definition render_nitem (x : nitem) : meta :=
  match x with NName n => MPath n | NFile ns => MList "file" (map MPath ns) end.
Definition render_names (key : string) (l : option (list nitem)) : meta :=
  match l with None => MPath key | Some xs => MList key (map render_nitem xs) end.
Definition render_sect (s : sect) : meta :=
  match s with SDef => MPath "def" | SImp l => render_names "imp" l | STrt l => render_names "trt" l end.
Definition render_sitem (x : sitem) : meta :=
  match x with SSect s => render_sect s | SFileS ss => MList "file" (map render_sect ss) end.
Definition render_part (p : part_ast) : meta :=
  match p with
  | PSol sol None => MPath (sol_name sol)
  | PSol sol (Some xs) => MList (sol_name sol) (map render_sitem xs)
  end.
Definition render_eitem (x : eitem) : meta :=
  match x with EPart p => render_part p | EFile ps => MList "file" (map render_part ps) end.
Definition render (e : edit_ast) : meta :=
  match e with
  | EBare => MPath "edit"
  | EFileBare => MList "edit" [MPath "file"]
  | EList l => MList "edit" (map render_eitem l)
  end.
Definition render_fam (e : fam_ast) : meta :=
  match e with
  | FBare => MPath "edit"
  | FFileBare => MList "edit" [MPath "file"]
  | FList l => MList "edit" (map render_sitem l)
  end.

(* flattening: every element together with "is it inside a file(..) wrapper" *)
Definition flatN (f : bool) (xs : list nitem) : list (string * bool) :=
  flat_map (fun x => match x with NName n => [(n, f)] | NFile ns => map (fun n => (n, true)) ns end) xs.
Definition flatS (f : bool) (xs : list sitem) : list (sect * bool) :=
  flat_map (fun x => match x with SSect s => [(s, f)] | SFileS ss => map (fun s => (s, true)) ss end) xs.
Definition flatE (xs : list eitem) : list (part_ast * bool) :=
  flat_map (fun x => match x with EPart p => [(p, false)] | EFile ps => map (fun p => (p, true)) ps end) xs.

Definition is_def (x : sect * bool) : bool := match fst x with SDef => true | _ => false end.
Definition is_imp (x : sect * bool) : bool := match fst x with SImp _ => true | _ => false end.
Definition is_trt (x : sect * bool) : bool := match fst x with STrt _ => true | _ => false end.
Definition names_of (s : sect) : option (list nitem) := match s with SDef => None | SImp l | STrt l => l end.
Definition is_sol (sol : bool) (x : part_ast * bool) : bool := match fst x with PSol k _ => Bool.eqb k sol end.

(* declarative meaning ---------------------------------------------------------------------- *)
(* imp / trt: bare = all of them (to the file iff wrapped); a list = exactly these, each to the file iff it or an
   enclosing level is wrapped *)
Definition den_names (x : option (sect * bool)) : nlist * bool :=
  match x with
  | None => (None, false)
  | Some (s, f) => match names_of s with None => (Some [], f) | Some ns => (Some (flatN f ns), false) end
  end.
Definition den_def (x : option (sect * bool)) : bool * bool :=
  match x with None => (false, false) | Some (_, f) => (true, f) end.
Definition den_sects (l : list (sect * bool)) : tuples :=
  (den_def (find is_def l), den_names (find is_imp l), den_names (find is_trt l)).
(* script / live: bare = def, imp, trt *)
Definition den_part (x : option (part_ast * bool)) : tuples :=
  match x with
  | None => empty_t
  | Some (PSol _ None, f) => ((true, f), (Some [], f), (Some [], f))
  | Some (PSol _ (Some xs), f) => den_sects (flatS f xs)
  end.
Definition all_tuples (f : bool) : tuples := ((true, f), (Some [], f), (Some [], f)).
Definition denote (e : edit_ast) : edit_actor :=
  match e with
  | EBare => {| ea_remove := false; ea_script := all_tuples false; ea_live := all_tuples false |}
  | EFileBare => {| ea_remove := true; ea_script := all_tuples true; ea_live := all_tuples true |}
  | EList l => {| ea_remove := false; ea_script := den_part (find (is_sol true) (flatE l));
                  ea_live := den_part (find (is_sol false) (flatE l)) |}
  end.
Definition denote_fam (e : fam_ast) : edit_actor :=
  match e with
  | FBare => {| ea_remove := false; ea_script := empty_t; ea_live := all_tuples false |}
  | FFileBare => {| ea_remove := false; ea_script := empty_t; ea_live := all_tuples true |}
  | FList l => {| ea_remove := false; ea_script := empty_t; ea_live := den_sects (flatS false l) |}
  end.

(* legality ---------------------------------------------------------------------------------- *)
Fixpoint nodupb (l : list string) : bool :=
  match l with [] => true | x :: l' => negb (existsb (String.eqb x) l') && nodupb l' end.
Definition count {A} (p : A -> bool) (l : list A) : nat := List.length (filter p l).
Definition le1 (n : nat) : bool := Nat.leb n 1.

Definition has_nfile (xs : list nitem) : bool := existsb (fun x => match x with NFile _ => true | _ => false end) xs.
Definition has_sfile (xs : list sitem) : bool := existsb (fun x => match x with SFileS _ => true | _ => false end) xs.

(* a section: its names are pairwise distinct, and no file(..) inside a wrapped section *)
Definition legal_sect (x : sect * bool) : bool :=
  match names_of (fst x) with
  | None => true
  | Some ns => nodupb (map fst (flatN (snd x) ns)) && negb (snd x && has_nfile ns)
  end.
Definition legal_sects (l : list (sect * bool)) : bool :=
  le1 (count is_def l) && le1 (count is_imp l) && le1 (count is_trt l) && forallb legal_sect l.
Definition legal_part (x : part_ast * bool) : bool :=
  match fst x with
  | PSol _ None => true
  | PSol _ (Some xs) => negb (snd x && has_sfile xs) && legal_sects (flatS (snd x) xs)
  end.
Definition legal (e : edit_ast) : bool :=
  match e with
  | EBare | EFileBare => true
  | EList l => le1 (count (is_sol true) (flatE l)) && le1 (count (is_sol false) (flatE l)) && forallb legal_part (flatE l)
  end.
Definition legal_fam (e : fam_ast) : bool :=
  match e with
  | FBare | FFileBare => true
  | FList l => legal_sects (flatS false l)
  end.

(* every list written in the specification is non-empty (the documented grammar has no `script()`, `imp()`, `file()`) *)
Definition ne {A} (l : list A) : bool := match l with [] => false | _ => true end.
Definition nonempty_nitem (x : nitem) : bool := match x with NName _ => true | NFile ns => ne ns end.
Definition nonempty_sect (s : sect) : bool :=
  match names_of s with None => true | Some ns => ne ns && forallb nonempty_nitem ns end.
Definition nonempty_sitem (x : sitem) : bool :=
  match x with SSect s => nonempty_sect s | SFileS ss => ne ss && forallb nonempty_sect ss end.
Definition nonempty_part (p : part_ast) : bool :=
  match p with PSol _ None => true | PSol _ (Some xs) => ne xs && forallb nonempty_sitem xs end.
Definition nonempty_eitem (x : eitem) : bool :=
  match x with EPart p => nonempty_part p | EFile ps => ne ps && forallb nonempty_part ps end.
Definition nonempty (e : edit_ast) : bool :=
  match e with EBare | EFileBare => true | EList l => ne l && forallb nonempty_eitem l end.
Definition nonempty_fam (e : fam_ast) : bool :=
  match e with FBare | FFileBare => true | FList l => ne l && forallb nonempty_sitem l end.

(* ------------------------------------------------------------------------------------------ *)
(* 4. splitting a model part                                                                    *)
(* ------------------------------------------------------------------------------------------ *)
Section Split.
Variable A : Type.
Definition entry := (string * A)%type.
Record part := { p_def : option A; p_mets : list entry; p_trts : list entry }.

(* ident_mets.iter().position(..) + remove(pos) *)
Fixpoint remove_first (n : string) (l : list entry) : option (entry * list entry) :=
  match l with
  | [] => None
  | x :: l' => if String.eqb (fst x) n then Some (x, l')
               else match remove_first n l' with Some (y, r) => Some (y, x :: r) | None => None end
  end.

(* state: (what stays in the model, what was taken out [ghost], what goes to the file) *)
Definition sel_state := (list entry * list entry * list entry)%type.
Definition select_step (scope : bool) (st : sel_state) (id : string * bool) : res sel_state :=
  let '(kept, rem, tf) := st in
  match remove_first (fst id) kept with
  | Some (x, kept') => Ok (kept', (rem ++ [x])%list, if scope || snd id then (tf ++ [x])%list else tf)
  | None => Diag (DUnknownIdent (fst id))
  end.
(* model::select *)
Definition select (spec : nlist * bool) (l : list entry) : res sel_state :=
  match fst spec with
  | None => Ok (l, [], [])
  | Some ids =>
      let init : sel_state := match ids with [] => ([], l, if snd spec then l else []) | _ => (l, [], []) end in
      foldM (select_step (snd spec)) init ids
  end.

(* ModelPart::split_edit: (kept, withheld [ghost], to-file) *)
Definition split_edit (t : tuples) (p : part) : res (part * part * part) :=
  let '(d, i, r) := t in
  ms <- select i (p_mets p) ;;
  ts <- select r (p_trts p) ;;
  let '(mk, mr, mf) := ms in
  let '(tk, tr, tf) := ts in
  Ok ({| p_def := if fst d then None else p_def p; p_mets := mk; p_trts := tk |},
      {| p_def := if fst d then p_def p else None; p_mets := mr; p_trts := tr |},
      {| p_def := if fst d && snd d then p_def p else None; p_mets := mf; p_trts := tf |}).

(* <Vec<Item>>::from(ModelPart): definition, one impl block if there is any method, trait impls *)
Inductive item := IDef (a : A) | IImpl (ms : list entry) | ITrt (x : entry).
Definition items_of (p : part) : list item :=
  ((match p_def p with Some a => [IDef a] | None => [] end)
  ++ (match p_mets p with [] => [] | ms => [IImpl ms] end)
  ++ map ITrt (p_trts p))%list.

(* ActorModelSdpl::get_code_edit: (code, edit file) *)
Definition actor_code_edit (e : edit_actor) (script live : part) : res (list item * list item) :=
  s <- split_edit (ea_script e) script ;;
  l <- split_edit (ea_live e) live ;;
  let '(sk, _, sf) := s in
  let '(lk, _, lf) := l in
  Ok ((items_of sk ++ items_of lk)%list, (items_of sf ++ items_of lf)%list).

(* FamilyModelSdpl::get_code_edit: family part first, then every member *)
Fixpoint members_code_edit (ms : list (edit_actor * part * part)) : res (list item * list item) :=
  match ms with
  | [] => Ok ([], [])
  | (e, s, l) :: ms' =>
      ce <- actor_code_edit e s l ;;
      rest <- members_code_edit ms' ;;
      Ok ((fst ce ++ fst rest)%list, (snd ce ++ snd rest)%list)
  end.
Definition family_code_edit (e : edit_actor) (fam : part) (ms : list (edit_actor * part * part)) : res (list item * list item) :=
  f <- split_edit (ea_live e) fam ;;
  let '(fk, _, ff) := f in
  rest <- members_code_edit ms ;;
  Ok ((items_of fk ++ fst rest)%list, (items_of ff ++ snd rest)%list).

(* declarative reading of a parsed section specification *)
Definition named (spec : nlist * bool) (n : string) : bool :=
  match fst spec with
  | None => false
  | Some [] => true
  | Some ids => existsb (fun p => String.eqb (fst p) n) ids
  end.
Definition marked (spec : nlist * bool) (n : string) : bool :=
  snd spec || match fst spec with Some ids => existsb (fun p => String.eqb (fst p) n && snd p) ids | None => false end.
Definition listed (spec : nlist * bool) : list string :=
  match fst spec with Some ids => map fst ids | None => [] end.
End Split.

Arguments p_def {A} p.
Arguments p_mets {A} p.
Arguments p_trts {A} p.
Arguments Build_part {A} _ _ _.
Arguments select {A} spec l.
Arguments split_edit {A} t p.
Arguments items_of {A} p.
Arguments actor_code_edit {A} e script live.
Arguments family_code_edit {A} e fam ms.
Arguments members_code_edit {A} ms.
Arguments remove_first {A} n l.
Arguments select_step {A} scope st id.
Arguments IDef {A} a.
Arguments IImpl {A} ms.
Arguments ITrt {A} x.

(* ------------------------------------------------------------------------------------------ *)
(* 5. canonical text (must agree with `fmt_edit` of the verification hook)                      *)
(* ------------------------------------------------------------------------------------------ *)
Definition show_b (b : bool) : string := if b then "1" else "0".
Fixpoint join (sep : string) (l : list string) : string :=
  match l with [] => "" | [x] => x | x :: l' => x ++ sep ++ join sep l' end.
Definition show_nl (x : nlist * bool) : string :=
  (match fst x with
   | None => "N"
   | Some v => "S[" ++ join "," (map (fun p => fst p ++ ":" ++ show_b (snd p)) v) ++ "]"
   end) ++ "/" ++ show_b (snd x).
Definition show_t (t : tuples) : string :=
  let '(d, i, r) := t in show_b (fst d) ++ show_b (snd d) ++ ";" ++ show_nl i ++ ";" ++ show_nl r.
Definition show_ea (e : edit_actor) : string :=
  "remove=" ++ show_b (ea_remove e) ++ "|script=" ++ show_t (ea_script e) ++ "|live=" ++ show_t (ea_live e).
Definition show_res (r : res edit_actor) : string := match r with Ok e => show_ea e | Diag _ => "DIAG" end.

Definition show_item (x : item unit) : string :=
  match x with
  | IDef _ => "def"
  | IImpl ms => "imp(" ++ join "," (map fst ms) ++ ")"
  | ITrt t => "trt(" ++ fst t ++ ")"
  end.
Definition show_items (l : list (item unit)) : string := join ";" (map show_item l).
(* names-only model part *)
Definition mk_part (def : bool) (mets trts : list string) : part unit :=
  Build_part (if def then Some tt else None) (map (fun n => (n, tt)) mets) (map (fun n => (n, tt)) trts).
Definition show_code_edit (r : res (list (item unit) * list (item unit))) : string :=
  match r with
  | Ok (c, e) => "code=" ++ show_items c ++ "|edit=" ++ show_items e
  | Diag (DUnknownIdent _) => "DIAG-unknown"
  | Diag _ => "DIAG"
  end.
