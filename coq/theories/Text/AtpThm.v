(* Text/AtpThm.v -- theorems about the scanner model of Text/Atp.v *)
From Coq Require Import List String Ascii Arith Bool Lia.
Import ListNotations.
From IT Require Import Text.Atp.

(* ---------- "differs only by blanks" ---------- *)
Definition bl (a b : str) : Prop := Forall2 (fun x y => x = y \/ x = sp) a b.

Lemma bl_refl : forall a, bl a a.
Proof. induction a; constructor; auto. Qed.

Lemma bl_trans : forall a b c, bl a b -> bl b c -> bl a c.
Proof.
  intros a b c H; revert c; induction H as [|x y a b Hxy Hab IH]; intros c Hc.
  - inversion Hc; constructor.
  - inversion Hc as [|y' z b' c' Hyz Hbc]; subst. constructor.
    + destruct Hxy as [-> | ->]; [exact Hyz | right; reflexivity].
    + apply IH; exact Hbc.
Qed.

Lemma bl_app : forall a b c d, bl a b -> bl c d -> bl (a ++ c) (b ++ d).
Proof. intros. apply Forall2_app; auto. Qed.

Lemma bl_length : forall a b, bl a b -> List.length a = List.length b.
Proof. intros a b H; induction H; simpl; auto. Qed.

Lemma bl_blanks : forall l, bl (blanks (List.length l)) l.
Proof. induction l; simpl; constructor; auto. Qed.

Lemma bl_nth : forall a b, bl a b -> forall i d, nth i a d = nth i b d \/ nth i a d = sp.
Proof.
  intros a b H; induction H; intros i d.
  - left; reflexivity.
  - destruct i; simpl; auto.
Qed.

Lemma blanks_length : forall n, List.length (blanks n) = n.
Proof. intros; apply repeat_length. Qed.

(* replacing k characters at p by blanks *)
Lemma skipn_skipn' : forall (A : Type) (x y : nat) (l : list A), skipn x (skipn y l) = skipn (y + x) l.
Proof.
  intros A x y; revert x; induction y; intros x l; simpl; auto.
  destruct l; simpl; [destruct x; reflexivity | apply IHy].
Qed.

Lemma bl_cut : forall (s : str) p k, p + k <= List.length s ->
  bl (firstn p s ++ blanks k ++ skipn (p + k) s) s.
Proof.
  intros s p k H.
  pose proof (firstn_skipn p s) as E1. pose proof (firstn_skipn k (skipn p s)) as E2.
  rewrite skipn_skipn' in E2.
  assert (L : List.length (firstn k (skipn p s)) = k) by (rewrite firstn_length, skipn_length; lia).
  set (A := firstn p s) in *. set (B := firstn k (skipn p s)) in *. set (C := skipn (p + k) s) in *.
  rewrite <- E1, <- E2.
  apply bl_app; [apply bl_refl|]. apply bl_app; [|apply bl_refl].
  rewrite <- L. apply bl_blanks.
Qed.

(* ---------- facts about the helpers ---------- *)
Lemma prefixb_length : forall p s, prefixb p s = true -> List.length p <= List.length s.
Proof.
  induction p; intros s H; simpl; [lia|].
  destruct s; simpl in *; [discriminate|]. apply andb_prop in H. destruct H as [_ H]. apply IHp in H. lia.
Qed.

Lemma find_sub_bound : forall p s n, find_sub p s = Some n -> n + List.length p <= List.length s.
Proof.
  intros p s; induction s; intros n H; simpl in H.
  - destruct (prefixb p []) eqn:E; [|discriminate]. inversion H; subst. apply prefixb_length in E. simpl in *; lia.
  - destruct (prefixb p (a :: s)) eqn:E.
    + inversion H; subst. apply prefixb_length in E. simpl in *; lia.
    + destruct (find_sub p s) eqn:F; simpl in H; [|discriminate]. inversion H; subst.
      specialize (IHs n0 eq_refl). simpl; lia.
Qed.

Lemma find_sub_firstn : forall p s n pos, n <= List.length s -> find_sub p (firstn n s) = Some pos ->
  pos + List.length p <= n.
Proof.
  intros p s n pos Hn H. apply find_sub_bound in H. rewrite firstn_length in H. lia.
Qed.

Lemma prec_some : forall s p c q, prec s p c = Some q -> p = S q.
Proof.
  intros s p c q H. destruct p; simpl in H; [discriminate|].
  destruct (nth_error s p); [|discriminate]. destruct (Ascii.eqb a c); inversion H; reflexivity.
Qed.

Lemma count_back_le : forall f s pos c, count_back f s pos c <= pos.
Proof.
  induction f; intros s pos c; simpl; [lia|].
  destruct (prec s pos c) eqn:E; [|lia]. apply prec_some in E. subst. specialize (IHf s n c). lia.
Qed.

Lemma str_open_back : forall s pos back cap, str_open s pos = (back, cap) -> back <= pos.
Proof.
  intros s pos back cap H. unfold str_open in H.
  destruct (prec s pos "b"%char) eqn:E1.
  { inversion H; subst. apply prec_some in E1. lia. }
  destruct (prec s pos c_hash) eqn:E2; [|inversion H; lia].
  pose proof (count_back_le pos s pos c_hash) as K.
  set (k := count_back pos s pos c_hash) in *.
  destruct (prec s (pos - k) "r"%char) eqn:E3; [|inversion H; lia].
  apply prec_some in E3.
  destruct (prec s (pos - k - 1) "b"%char) eqn:E4.
  - apply prec_some in E4. inversion H; subst. lia.
  - inversion H; subst. lia.
Qed.

Lemma life_scan_bound : forall rest i acc j, life_scan rest i acc = Some j ->
  acc = Some j \/ (i <= j /\ j < i + List.length rest).
Proof.
  induction rest; intros i acc j H; simpl in H; auto.
  destruct (Ascii.eqb a sp || Ascii.eqb a c_comma).
  - apply IHrest in H. destruct H as [H|H]; [inversion H; subst; right; simpl; lia| right; simpl; lia].
  - destruct (Ascii.eqb a q_apos); auto.
    apply IHrest in H. destruct H as [H|H]; auto. right; simpl; lia.
Qed.

(* ---------- the invariant of open_multy_line ---------- *)
Definition good (s : str) (x : st3) : Prop :=
  let '(n, w, _) := x in n <= List.length s /\ bl (firstn n s ++ w) s.

Lemma good_init : forall s, good s (List.length s, [], None).
Proof. intros s; simpl; split; auto. rewrite firstn_all, app_nil_r. apply bl_refl. Qed.

Lemma good_step_find : forall pat k o keep s x, List.length pat = k -> good s x -> good s (step_find pat k o keep s x).
Proof.
  intros pat k o keep s [[n w] op] Hk [Hn Hb]. unfold step_find.
  destruct (find_sub pat (firstn n s)) eqn:F; [|split; auto].
  apply find_sub_firstn in F; auto. simpl. split; [lia|]. apply bl_cut. lia.
Qed.

Lemma good_step_string : forall s x, good s x -> good s (step_string s x).
Proof.
  intros s [[n w] op] [Hn Hb]. unfold step_string.
  destruct (find_sub [q_dq] (firstn n s)) eqn:F; [|split; auto].
  apply find_sub_firstn in F; auto. simpl in F.
  destruct (str_open (firstn n s) n0) as [back cap] eqn:E. apply str_open_back in E.
  simpl. split; [lia|]. apply bl_cut. lia.
Qed.

Lemma good_step_life : forall s x, good s x -> good s (step_life s x).
Proof.
  intros s [[n w] op] [Hn Hb]. unfold step_life.
  destruct op as [cap|]; [|split; auto].
  destruct (str_eqb cap [q_apos]); [|split; auto].
  destruct (apos_kind_of (skipn (n + 1) s)); [|split; auto|].
  - destruct (Nat.leb (n + 3) (List.length s)) eqn:E3; [|split; auto].
    apply Nat.leb_le in E3. split; auto. exact (bl_cut s n 3 E3).
  - destruct (life_scan (skipn (n + 1) s) 0 None) eqn:L; [|split; auto].
    apply life_scan_bound in L. destruct L as [L|[_ L]]; [discriminate|].
    rewrite skipn_length in L. simpl. split; [lia|]. rewrite firstn_skipn. apply bl_refl.
Qed.

Lemma open_ml_good : forall s x, open_ml s = Some x -> good s x.
Proof.
  intros s x H. unfold open_ml in H. destruct s as [|a s']; [discriminate|].
  set (s := a :: s') in *.
  set (x4 := step_life s _) in H.
  assert (G : good s x4).
  { unfold x4. apply good_step_life, good_step_string, good_step_find; [reflexivity|].
    destruct (has_slash s).
    - apply good_step_find; [reflexivity|]. apply good_step_find; [reflexivity|]. apply good_init.
    - apply good_init. }
  destruct x4 as [[n w] op]. destruct (Nat.eqb (List.length s) n); [discriminate|]. inversion H; subst. exact G.
Qed.

Lemma open_ml_bl : forall s n w o, open_ml s = Some (n, w, o) -> bl (firstn n s ++ w) s.
Proof. intros s n w o H. apply open_ml_good in H. exact (proj2 H). Qed.

Lemma close_esc_bound : forall fuel s cap pos q, close_esc fuel s cap pos = Some q ->
  pos + List.length cap <= List.length s -> q + List.length cap <= List.length s.
Proof.
  induction fuel; intros s cap pos q H Hb; simpl in H; [discriminate|].
  destruct (prec s pos c_bsl).
  - destruct (Nat.ltb (pos + 1) (List.length s)) eqn:L; [|discriminate].
    destruct (find_sub cap (skipn (pos + 1) s)) eqn:F; [|discriminate].
    apply IHfuel in H; auto. apply find_sub_bound in F. rewrite skipn_length in F.
    apply Nat.ltb_lt in L. lia.
  - inversion H; subst; auto.
Qed.

Lemma close_ml_shape : forall s cap c w, close_ml s cap = Some (c, w) ->
  exists pos, pos + List.length cap <= List.length s /\ c = blanks (pos + List.length cap) /\ w = skipn (pos + List.length cap) s.
Proof.
  intros s cap c w H. unfold close_ml in H.
  destruct (find_sub cap s) as [pos0|] eqn:F; [|discriminate].
  apply find_sub_bound in F.
  destruct (str_eqb cap [q_dq]).
  - destruct (close_esc (S (List.length s)) s cap pos0) as [pos|] eqn:E; [|discriminate].
    inversion H; subst. exists pos. split; auto. eapply close_esc_bound; eauto.
  - inversion H; subst. exists pos0; auto.
Qed.

Lemma close_ml_bl : forall s cap c w, close_ml s cap = Some (c, w) -> bl (c ++ w) s.
Proof.
  intros s cap c w H. destruct (close_ml_shape _ _ _ _ H) as [pos [Hle [-> ->]]].
  pose proof (bl_cut s 0 _ Hle) as K. simpl in K. exact K.
Qed.

Lemma close_ml_shorter : forall s cap c w, close_ml s cap = Some (c, w) -> cap <> [] -> List.length w < List.length s.
Proof.
  intros s cap c w H Hc. destruct (close_ml_shape _ _ _ _ H) as [pos [Hle [_ ->]]].
  rewrite skipn_length. destruct cap; [contradiction|]. simpl in *. lia.
Qed.

(* ---------- C16_atp_blanking_only ---------- *)
Lemma parse_loop_bl : forall fuel o work code o' out,
  parse_loop fuel o work code = Done o' out -> exists x, out = code ++ x /\ bl x work.
Proof.
  induction fuel; intros o work code o' out H; simpl in H; [discriminate|].
  destruct o as [cap|].
  - destruct cap as [|c0 cap'].
    + apply IHfuel in H. exact H.
    + destruct (close_ml work (c0 :: cap')) as [[c w]|] eqn:C.
      * apply close_ml_bl in C.
        destruct w as [|w0 w'].
        -- inversion H; subst. exists c. split; auto. rewrite app_nil_r in C. exact C.
        -- apply IHfuel in H. destruct H as [x [-> Hx]]. exists (c ++ x). split; [rewrite app_assoc; reflexivity|].
           eapply bl_trans; [|exact C]. apply bl_app; [apply bl_refl|exact Hx].
      * inversion H; subst. exists (blanks (List.length work)). split; auto. apply bl_blanks.
  - destruct (open_ml work) as [[[n w] o2]|] eqn:O.
    + apply open_ml_bl in O. destruct o2 as [cap|].
      * apply IHfuel in H. destruct H as [x [-> Hx]]. exists (firstn n work ++ x). split; [rewrite app_assoc; reflexivity|].
        eapply bl_trans; [|exact O]. apply bl_app; [apply bl_refl|exact Hx].
      * inversion H; subst. exists (firstn n work ++ blanks (List.length w)). split; auto.
        eapply bl_trans; [|exact O]. apply bl_app; [apply bl_refl|apply bl_blanks].
    + inversion H; subst. exists work. split; auto. apply bl_refl.
Qed.

Theorem atp_blanking_only : forall o line o' out, parse_line o line = Done o' out ->
  List.length out = List.length line /\ forall i d, nth i out d = nth i line d \/ nth i out d = sp.
Proof.
  intros o line o' out H. unfold parse_line in H. apply parse_loop_bl in H. destruct H as [x [-> Hx]]. simpl.
  split; [apply bl_length; exact Hx | apply bl_nth; exact Hx].
Qed.

Lemma parse_lines_bl : forall ls o cs, parse_lines o ls = inl cs -> Forall2 bl cs ls.
Proof.
  induction ls; intros o cs H; simpl in H.
  - inversion H; constructor.
  - destruct (parse_line o a) as [o' c|] eqn:P; [|discriminate].
    destruct (parse_lines o' ls) as [cs'|] eqn:R; [|discriminate]. inversion H; subst.
    constructor; [|eapply IHls; eauto].
    unfold parse_line in P. apply parse_loop_bl in P. destruct P as [x [-> Hx]]. exact Hx.
Qed.

(* offsets computed on the blanked text are offsets into the source: every line keeps its length *)
Theorem atp_offsets_preserved : forall ls cs, parse_lines None ls = inl cs -> forall i, line_offset cs i = line_offset ls i.
Proof.
  intros ls cs H. apply parse_lines_bl in H. induction H; intros i; destruct i; simpl; auto.
  rewrite (bl_length _ _ H), IHForall2. reflexivity.
Qed.

(* ---------- termination (after the repair of the lifetime block: char literals are recognised, the split lies
   behind the apostrophe) ---------- *)
Lemma loop_none : forall f work code, parse_loop (S f) None work code =
  match open_ml work with
  | Some (n, w, o') => match o' with
                       | None => Done None (code ++ firstn n work ++ blanks (List.length w))
                       | Some _ => parse_loop f o' w (code ++ firstn n work)
                       end
  | None => Done None (code ++ work)
  end.
Proof. reflexivity. Qed.

Lemma loop_empty : forall f work code, parse_loop (S f) (Some []) work code = parse_loop f None work code.
Proof. reflexivity. Qed.

Lemma open_ml_len : forall s n w o, open_ml s = Some (n, w, o) -> n + List.length w = List.length s.
Proof.
  intros s n w o H. apply open_ml_good in H. destruct H as [Hn Hb]. apply bl_length in Hb.
  rewrite app_length, firstn_length in Hb. lia.
Qed.

Definition ne_op (x : st3) : Prop := snd x <> Some [].

Lemma ne_step_find : forall pat k o keep s x, o <> Some [] -> ne_op x -> ne_op (step_find pat k o keep s x).
Proof.
  intros pat k o keep s [[n w] op] Ho Hx. unfold step_find.
  destruct (find_sub pat (firstn n s)); auto. unfold ne_op; simpl. destruct keep; auto.
Qed.

Lemma str_open_cap : forall s pos back cap, str_open s pos = (back, cap) -> cap <> [].
Proof.
  intros s pos back cap H. unfold str_open in H.
  destruct (prec s pos "b"%char); [inversion H; discriminate|].
  destruct (prec s pos c_hash); [|inversion H; discriminate].
  destruct (prec s (pos - count_back pos s pos c_hash) "r"%char); [|inversion H; discriminate].
  destruct (prec s (pos - count_back pos s pos c_hash - 1) "b"%char); inversion H; discriminate.
Qed.

Lemma ne_step_string : forall s x, ne_op x -> ne_op (step_string s x).
Proof.
  intros s [[n w] op] Hx. unfold step_string.
  destruct (find_sub [q_dq] (firstn n s)); auto.
  destruct (str_open (firstn n s) n0) as [back cap] eqn:E. apply str_open_cap in E.
  unfold ne_op; simpl. intro K. inversion K. contradiction.
Qed.

(* the empty cap (a lifetime was recognised) always comes with at least the apostrophe consumed *)
Lemma open_ml_empty_cap : forall s n w, open_ml s = Some (n, w, Some []) -> 1 <= n.
Proof.
  intros s n w H. unfold open_ml in H. destruct s as [|a s']; [discriminate|].
  set (s := a :: s') in *.
  set (x3 := step_string s _) in H.
  assert (N3 : ne_op x3).
  { unfold x3. apply ne_step_string. apply ne_step_find; [discriminate|].
    destruct (has_slash s).
    - apply ne_step_find; [discriminate|]. apply ne_step_find; [discriminate|]. unfold ne_op; simpl; discriminate.
    - unfold ne_op; simpl; discriminate. }
  destruct x3 as [[n3 w3] op3]. unfold ne_op in N3. simpl in N3.
  unfold step_life in H.
  destruct op3 as [cap|].
  - destruct (str_eqb cap [q_apos]).
    + destruct (apos_kind_of (skipn (n3 + 1) s)).
      * destruct (Nat.leb (n3 + 3) (List.length s));
          (destruct (Nat.eqb (List.length s) n3); [discriminate|]; inversion H; subst; contradiction).
      * destruct (Nat.eqb (List.length s) n3); [discriminate|]. inversion H; subst. contradiction.
      * destruct (life_scan (skipn (n3 + 1) s) 0 None).
        -- destruct (Nat.eqb (List.length s) (n3 + 1 + n0)); [discriminate|]. inversion H; subst. lia.
        -- destruct (Nat.eqb (List.length s) n3); [discriminate|]. inversion H; subst. contradiction.
    + destruct (Nat.eqb (List.length s) n3); [discriminate|]. inversion H; subst. contradiction.
  - destruct (Nat.eqb (List.length s) n3); [discriminate|]. inversion H.
Qed.

Definition mu (o : option str) (work : str) : nat :=
  match o with
  | None => 2 * List.length work + 1
  | Some [] => 2 * List.length work + 2
  | Some (_ :: _) => 2 * List.length work
  end.

Lemma parse_loop_terminates : forall fuel o work code, mu o work < fuel ->
  exists o' out, parse_loop fuel o work code = Done o' out.
Proof.
  induction fuel; intros o work code H; [lia|].
  destruct o as [cap|].
  - destruct cap as [|c0 cap'].
    + rewrite loop_empty. apply IHfuel. simpl in *. lia.
    + simpl parse_loop.
      destruct (close_ml work (c0 :: cap')) as [[c w]|] eqn:C; [|eauto].
      destruct w as [|w0 w']; [eauto|].
      apply close_ml_shorter in C; [|discriminate].
      apply IHfuel. simpl in *. lia.
  - rewrite loop_none.
    destruct (open_ml work) as [[[n w] o2]|] eqn:O; [|eauto].
    destruct o2 as [cap|]; [|eauto].
    pose proof (open_ml_len _ _ _ _ O) as L.
    apply IHfuel. destruct cap as [|c0 cap'].
    + apply open_ml_empty_cap in O. simpl in *. lia.
    + simpl in *. lia.
Qed.

(* every line, from every carried state: the scanner returns *)
Theorem atp_terminates : forall o line, exists o' out, parse_line o line = Done o' out.
Proof.
  intros o line. unfold parse_line, line_fuel. apply parse_loop_terminates.
  destruct o as [[|c cap]|]; simpl; lia.
Qed.

Theorem atp_lines_total : forall ls o, exists cs, parse_lines o ls = inl cs.
Proof.
  induction ls as [|l ls IH]; intros o; simpl; [eauto|].
  destruct (atp_terminates o l) as [o' [out E]]. rewrite E.
  destruct (IH o') as [cs Ecs]. rewrite Ecs. eauto.
Qed.

(* the former non-termination witnesses (F8) now scan to the expected text *)
Example former_hang_blank : parse_line None (s2l "let c = ' '; #[x]") = Done None (s2l "let c =    ; #[x]").
Proof. vm_compute. reflexivity. Qed.
Example former_hang_comma : parse_line None (s2l "m(',') {") = Done None (s2l "m(   ) {").
Proof. vm_compute. reflexivity. Qed.
Example former_hang_escaped_quote : parse_line None (s2l "fn q() -> [char; 2] { ['\'','x'] }") = Done None (s2l "fn q() -> [char; 2] { [    ,   ] }").
Proof. vm_compute. reflexivity. Qed.

(* ---------- a line without any opener character is returned verbatim ---------- *)
Definition plain_char (c : ascii) : bool :=
  negb (Ascii.eqb c "/"%char) && negb (Ascii.eqb c q_apos) && negb (Ascii.eqb c q_dq).
Definition plain_line (s : str) : bool := forallb plain_char s.

Lemma find_single_none : forall c s, forallb (fun x => negb (Ascii.eqb x c)) s = true -> find_sub [c] s = None.
Proof.
  intros c s; induction s as [|a s IH]; intros H.
  - reflexivity.
  - cbn [forallb] in H. apply andb_prop in H. destruct H as [H1 H2].
    cbn [find_sub prefixb]. rewrite (Ascii.eqb_sym c a). destruct (Ascii.eqb a c); [discriminate|].
    cbn [andb]. rewrite (IH H2). reflexivity.
Qed.

Lemma plain_parts : forall s, plain_line s = true ->
  has_slash s = false /\ forallb (fun x => negb (Ascii.eqb x q_apos)) s = true /\ forallb (fun x => negb (Ascii.eqb x q_dq)) s = true.
Proof.
  induction s as [|a s IH]; intros H.
  - repeat split.
  - unfold plain_line in H. cbn [forallb] in H. apply andb_prop in H. destruct H as [H1 H2]. destruct (IH H2) as [I1 [I2 I3]].
    unfold plain_char in H1. apply andb_prop in H1. destruct H1 as [H1 H1c]. apply andb_prop in H1. destruct H1 as [H1a H1b].
    unfold has_slash in *. cbn [existsb forallb]. rewrite I1, I2, I3, H1b, H1c.
    rewrite (Ascii.eqb_sym "/"%char a). destruct (Ascii.eqb a "/"%char); [discriminate|]. repeat split.
Qed.

Lemma open_ml_plain : forall s, plain_line s = true -> open_ml s = None.
Proof.
  intros s H. destruct (plain_parts s H) as [H1 [H2 H3]].
  unfold open_ml. destruct s as [|a s']; [reflexivity|]. set (s := a :: s') in *.
  rewrite H1. unfold step_find, step_string, step_life.
  rewrite firstn_all. rewrite (find_single_none q_apos s H2). rewrite firstn_all. rewrite (find_single_none q_dq s H3).
  rewrite Nat.eqb_refl. reflexivity.
Qed.

Theorem atp_plain_line_verbatim : forall line, plain_line line = true -> parse_line None line = Done None line.
Proof.
  intros line H. unfold parse_line, line_fuel.
  replace (2 * List.length line + 4) with (S (2 * List.length line + 3)) by lia.
  rewrite loop_none, (open_ml_plain line H). reflexivity.
Qed.

Example plain_line_ex : plain_line (s2l "impl<T: Send> Foo<T> { #[inline] fn f(&self) -> [u8; 2] { [1, 2] } }") = true.
Proof. vm_compute. reflexivity. Qed.

(* ---------- nested block comments (F8): text inside the outer comment is exposed after the first `*/` ---------- *)
Definition nested_line : str := s2l "/* /* */ #[x] */".
Lemma atp_nested_comment_refuted : exists out, parse_lines None [nested_line] = inl [out] /\ nth 9 nested_line sp = "#"%char /\ nth 9 out sp = "#"%char.
Proof. eexists. split; [vm_compute; reflexivity|]. split; vm_compute; reflexivity. Qed.
