"""C18 -- example output = the source with each macro replaced by its real expansion; nothing outside examples/<dir> touched."""
import os, random, json, hashlib, shutil, stat, itertools
import hook, inst, rs, gen_example as G
from coqgen import s as cq
from common import *

PID = "C18"
RULE = ("use-tree cases = random use trees (depth <= 5) x macro through the real UseMacro::file_self_use / update+is vs the Coq functions; "
        "files = generated source files through the real `example` entry in a sandbox tree; non-trivial = distinct "
        "(import forms, attributes per impl, expand option, main, known-class) combinations and use-tree shape classes")

IMPORTS = ("From Coq Require Import List String Bool.\nImport ListNotations.\nFrom IT Require Import Text.UseMacro Text.Example.\n"
           "Open Scope string_scope.\nOpen Scope list_scope.\n")
DEFS = ('Definition show_node (o : option node) : string := match o with None => "-" | Some Dir => "D" | Some (File c) => c end.\n'
        'Definition b2s (b : bool) : string := if b then "1" else "0".\n')

CLASS_TEXT = {
}
# fixed defects: their witnesses are replayed as regression inputs, a recurrence is a VIOLATION
FIXED_CLASSES = ("dup-attr", "abs-path", "glob-both", "late-import", "reimport", "crate-alias")


_CAP = {}


def viol(rep, name, data, found=True, cap=4):
    """at most `cap` replay files per category (the name without its index); the rest is counted in the notes"""
    cat = name.rstrip("0123456789")
    _CAP[cat] = _CAP.get(cat, 0) + 1
    if _CAP[cat] <= cap:
        rep.violation(name, data, found=found)
    elif _CAP[cat] == cap + 1:
        rep.notes.append("more failing cases of category %s not written as replay files" % cat)
        rep.extra.setdefault("suppressed_categories", []).append(cat)


def unq(v):
    """printed Coq string value -> python str"""
    v = v.strip()
    if v.endswith("%string"):
        v = v[:-7]
    assert v.startswith('"') and v.endswith('"'), v[:80]
    return v[1:-1].replace('""', '"')


def toks(text):
    return [(t.k, t.s) for t in rs.lex(text)]


def tstr(ts, n=40):
    return " ".join(s for _, s in ts[:n])


# ---------------------------------------------------------------------------------------------------
# part A/B: use trees through the real UseMacro
# ---------------------------------------------------------------------------------------------------

def vis_leaf(mac, pl):
    return all(x == G.INTER for x in pl[0]) and (pl[1][0] == "glob" or (pl[1][0] in ("name", "rename") and pl[1][1] == mac))


def self_valid(t, in_group=False):
    """Rust accepts a `self` import only as a direct member of a braced list (E0429 otherwise)"""
    if t is None:
        return True
    if t[0] in ("name", "rename"):
        return t[1] != "self" or in_group
    if t[0] == "path":
        return self_valid(t[2], False)
    if t[0] == "group":
        return all(self_valid(x, True) for x in t[1])
    return True


def fsu_oracle(mac, t, real_p, real_t, cands, bits):
    """the specification of file_self_use + update (Coq fsu_post), evaluated on the REAL result: every name bound by an
    importing leaf is recognised afterwards and nothing else; all other leaves and the globs are kept"""
    ls = G.ut_leaves(t)
    vis = [pl for pl in ls if vis_leaf(mac, pl)]
    binds = set((pl[1][2] if pl[1][0] == "rename" else mac) for pl in vis)
    if not vis and not (real_p is None and real_t == t):
        return False
    if vis and real_p not in binds:
        return False
    if self_valid(t) and not self_valid(real_t):
        return False           # the remaining import no longer compiles: `use a::self;`
    rest = sorted(G.leaf_str(pl) for pl in ls if not (vis_leaf(mac, pl) and pl[1][0] != "glob"))
    got = sorted(G.leaf_str(pl) for pl in G.ut_leaves(real_t)) if real_t is not None else []
    if rest != got:
        return False
    return all((b == "1") == (c in binds) for c, b in zip(cands, bits))


def use_tree_part(rep, rng):
    n = 600 if rep.tier == "quick" else 8000
    cases = []
    fixed = [("path", G.INTER, ("group", [("name", "family"), ("group", [("rename", "actor", "act"), ("name", "example")])])),
             ("group", [("path", "a", ("name", "b")), ("path", G.INTER, ("glob",)), ("name", "c")]),
             ("path", G.INTER, ("path", G.INTER, ("name", "actor"))), ("name", "actor"), ("group", []),
             ("path", G.INTER, ("group", [("name", "actor"), ("rename", "actor", "a2"), ("glob",)])),
             ("path", G.INTER, ("group", [("rename", "actor", "act"), ("glob",), ("rename", "actor", "a2"), ("name", "family")])),
             ("path", G.INTER, ("group", [("group", [("group", [("name", "actor")])])])),
             ("path", G.INTER, ("group", [("name", "self"), ("name", "actor")])), ("path", G.INTER, ("group", [("name", "family"), ("rename", "self", "it")])),
             ("path", G.INTER, ("group", [("name", "self"), ("name", "actor"), ("name", "family")])),
             ("group", [("path", G.INTER, ("group", [("name", "actor"), ("name", "self")])), ("path", "std", ("name", "fmt"))])]
    for t in fixed:
        for mac in ("actor", "family"):
            cases.append((mac, t))
    while len(cases) < n:
        t = G.random_tree(rng)
        if t[0] == "glob":
            continue
        cases.append((rng.choice(["actor", "family", "example"]), t))
    cand_of = []
    jobs = []
    for mac, t in cases:
        cs = sorted(set([mac, "act", "zz"] + [pl[1][2] for pl in G.ut_leaves(t) if pl[1][0] == "rename"]))
        cand_of.append(cs)
        jobs.append(("fn:file_self_use", ["", mac, "use %s;" % G.ut_rust(t)] + ["#[%s]" % c for c in cs]))
    res = hook.run_parallel(jobs, tag="c18u")
    if res is None:
        raise Infra("use-tree batch timed out")
    items = []
    for i, (mac, t) in enumerate(cases):
        bits = " ++ ".join("b2s (is_mac (fst (update (um_new %s) %s)) (ap false [%s]))" % (cq(mac), G.ut_coq(t), cq(c)) for c in cand_of[i])
        items.append(("u%d" % i, "(show_fsu (fsu %s %s) ++ \"|\" ++ %s)%%string" % (cq(mac), G.ut_coq(t), bits)))
    vals = inst.coq_values("C18_use", IMPORTS, items, defs=DEFS)
    rep.checker_cmds.append("coqc generated/C18_use.v (vm_compute of fsu / update / is_mac on %d trees)" % len(cases))
    for i, ((mac, t), (cls, f)) in enumerate(zip(cases, res)):
        rep.evaluations += 1
        c = G.tree_class(mac, t)
        rep.count("use_tree", "%s/%s" % (c[0], c[3]))
        rep.nontrivial.add(("tree",) + c)
        if cls != "VALUE":
            rep.oblige(False)
            viol(rep, "fsu_panic_%d" % i, {"what": "UseMacro::file_self_use did not return", "class": cls, "macro": mac, "use": G.ut_rust(t), "output": f[:1]}, found=True)
            continue
        real_p = None if f[0] == "-" else f[0].replace(" ", "")
        real_t = None if f[1] == "-" else G.parse_use_tree([x.s for x in rs.lex(f[1])])
        real_s = "%s|%s|%s" % (real_p or "-", G.ut_show(real_t) if real_t is not None else "-", f[2])
        model_s = unq(vals["u%d" % i])
        same = rep.oblige(real_s == model_s)
        ok = rep.oblige(fsu_oracle(mac, t, real_p, real_t, cand_of[i], f[2]))
        if i % 97 == 0:
            rep.sample({"macro": mac, "use": G.ut_rust(t), "candidates": cand_of[i], "real file_self_use | is after update": real_s, "model": model_s})
        inp = {"macro": mac, "use": "use %s;" % G.ut_rust(t), "candidates": cand_of[i], "observed": real_s, "model": model_s}
        if not ok:
            viol(rep, "fsu_%d" % i, dict(inp, what="file_self_use/update violate their specification (every imported name recognised afterwards; all other leaves and globs kept)"), found=True)
        elif not same:
            viol(rep, "fsu_tie_%d" % i, dict(inp, what="correspondence fsu model vs real file_self_use no longer checks (specification still holds on the real result)"), found=False)


def is_part(rep, rng):
    n = 400 if rep.tier == "quick" else 6000
    cases = []
    while len(cases) < n:
        mac = rng.choice(["actor", "family"])
        uses = []
        for _ in range(rng.choice([0, 1, 1, 2, 3])):
            r = rng.random()
            if r < 0.5:
                leaf = rng.choice([("name", mac), ("rename", mac, rng.choice(["act", "fam", "m2"])), ("glob",), ("name", "example"), ("name", "self"),
                                   ("rename", "self", "it"), ("group", [("name", "actor"), ("rename", "family", "fam")])])
                uses.append(("path", G.INTER, leaf))
            elif r < 0.6:
                uses.append(("rename", G.INTER, "it"))
            else:
                t = G.random_tree(rng)
                if t[0] != "glob":
                    uses.append(t)
        names = G.mac_names(mac, uses) + G.crate_aliases(uses) + ["actor", "family", "act", "it", "derive"]
        r = rng.random()
        if r < 0.3:
            lead, segs = rng.random() < 0.2, [G.INTER, mac]
        elif r < 0.75:
            lead, segs = rng.random() < 0.05, [rng.choice(names)]
        else:
            lead, segs = rng.random() < 0.1, [rng.choice(names), rng.choice([mac, mac, "actor", "other"])]
        cases.append((mac, uses, lead, segs))
    jobs = []
    for mac, uses, lead, segs in cases:
        text = "".join("use %s;\n" % G.ut_rust(t) for t in uses) + "fn f() {}\n"
        jobs.append(("fn:use_is", ["", mac, text, "#[%s%s]" % ("::" if lead else "", "::".join(segs))]))
    res = hook.run_parallel(jobs, tag="c18i")
    if res is None:
        raise Infra("is batch timed out")
    items = []
    for i, (mac, uses, lead, segs) in enumerate(cases):
        u = "[%s]" % "; ".join(G.ut_coq(t) for t in uses)
        p = "(ap %s [%s])" % ("true" if lead else "false", "; ".join(cq(x) for x in segs))
        items.append(("i%d" % i, "(b2s (is_mac (track %s %s) %s) ++ b2s (denotes %s %s %s) ++ b2s (well_aliased %s %s) ++ b2s (well_imported %s %s))%%string" % (
            cq(mac), u, p, cq(mac), u, p, cq(mac), u, cq(mac), u)))
    vals = inst.coq_values("C18_is", IMPORTS, items, defs=DEFS)
    rep.checker_cmds.append("coqc generated/C18_is.v")
    known = set()
    for i, ((mac, uses, lead, segs), (cls, f)) in enumerate(zip(cases, res)):
        rep.evaluations += 1
        v = unq(vals["i%d" % i])
        m_is, m_den, m_wa, m_wi = [c == "1" for c in v]
        real = (cls == "VALUE" and f[0] == "true")
        py_den = G.denotes(mac, uses, lead, segs)
        rep.count("is_case", "is=%d denotes=%d wellaliased=%d wellimp=%d" % (real, m_den, m_wa, m_wi))
        rep.nontrivial.add(("is", real, m_den, m_wa, m_wi, len(segs), lead))
        ok_tie = rep.oblige(cls == "VALUE" and real == m_is)
        rep.oblige(py_den == m_den)
        # the property on the real code: inside the guards of C18_is_sound, and unconditionally for C18_is_complete, is == denotes
        inp = {"macro": mac, "uses": ["use %s;" % G.ut_rust(t) for t in uses], "attribute": "#[%s%s]" % ("::" if lead else "", "::".join(segs))}
        if py_den:
            # C18_is_complete on the real code (crate aliases included since repair bb05e40)
            if not rep.oblige(real):
                viol(rep, "is_%d" % i, dict(inp, what="UseMacro::is rejects a path that denotes the macro", expected=True, observed=real), found=True)
        elif m_wi and m_wa and real and not py_den:
            rep.oblige(False)
            viol(rep, "is_unsound_%d" % i, dict(inp, what="UseMacro::is accepts a path that does not denote the macro", expected=False, observed=True), found=True)
        else:
            rep.oblige(True)
        if not ok_tie and (real == py_den or not (m_wi and m_wa)):
            viol(rep, "is_tie_%d" % i, dict(inp, what="correspondence is_mac(track ..) vs real update+is no longer checks", model=m_is, observed=real), found=False)
    return known


# ---------------------------------------------------------------------------------------------------
# part C: files
# ---------------------------------------------------------------------------------------------------

def sha(b):
    return hashlib.sha1(b).hexdigest()[:10]


def snapshot(root):
    out = {}
    for dp, dns, fns in os.walk(root):
        rel = os.path.relpath(dp, root)
        if rel != ".":
            out[rel] = ("D", "", stat.S_IMODE(os.lstat(dp).st_mode))
        for f in fns:
            p = os.path.join(dp, f)
            r = os.path.normpath(os.path.join(rel, f))
            out[r] = ("F", sha(open(p, "rb").read()), stat.S_IMODE(os.lstat(p).st_mode))
    return out


def make_sandbox(root, d, rng):
    shutil.rmtree(root, ignore_errors=True)
    sub = rng.choice(["", "", "", "sub/deep"])
    srcdir = os.path.join(root, "src", sub)
    os.makedirs(srcdir, exist_ok=True)
    rel = os.path.normpath(os.path.join("src", sub, d["fname"] + ".rs"))
    open(os.path.join(root, rel), "w").write(d["text"])
    if d["fname"] != "main" or sub:
        open(os.path.join(root, "src", "main.rs"), "w").write("fn main() {}\n")
    open(os.path.join(root, "Cargo.toml"), "w").write('[package]\nname = "sb"\nversion = "0.1.0"\n')
    open(os.path.join(root, "README.md"), "w").write("decoy\n")
    layout = rng.choice(["none", "examples", "inter", "inter", "inter_same"])
    if layout != "none":
        os.makedirs(os.path.join(root, "examples", "other"))
        open(os.path.join(root, "examples", "other", "keep.rs"), "w").write("// keep\n")
        open(os.path.join(root, "examples", "top.rs"), "w").write("fn main() {}\n")
    if layout in ("inter", "inter_same"):
        os.makedirs(os.path.join(root, "examples", "inter", "olddir"))
        open(os.path.join(root, "examples", "inter", "stale.rs"), "w").write("// stale\n")
        open(os.path.join(root, "examples", "inter", "olddir", "x.txt"), "w").write("x\n")
        if layout == "inter_same":
            open(os.path.join(root, "examples", "inter", d["fname"] + ".rs"), "w").write("// previous run\n")
            open(os.path.join(root, "examples", "inter", "main.rs"), "w").write("// previous main\n")
    d["layout"] = layout
    d["rel"] = rel
    d["abs"] = rng.random() < 0.15
    return rel


def example_attr(d, rng):
    parts = ['path = "%s"' % (os.path.join(d["root"], d["rel"]) if d["abs"] else d["rel"])]
    if d["main"]:
        parts.append("main")
    if d["expand"] is not None:
        parts.append("expand(%s)" % ", ".join(d["expand"]))
    rng.shuffle(parts)
    return ", ".join(parts)


def plain_item_text(it):
    """the impl as the attribute macro receives it when compiled normally: without interthread attributes"""
    keep = [a["text"] for a in it["attrs"] if a["role"] == "plain"]
    return "\n".join(keep + [it["body"]])


def scan_attr(ts, pos):
    """ts[pos] == '#': index after the closing bracket of the attribute, or None"""
    i = pos + 1
    if i < len(ts) and ts[i][1] == "!":
        i += 1
    if i >= len(ts) or ts[i][1] != "[":
        return None
    depth = 0
    while i < len(ts):
        s = ts[i][1]
        if ts[i][0] == "p" and s in "([{":
            depth += 1
        elif ts[i][0] == "p" and s in ")]}":
            depth -= 1
            if depth == 0:
                return i + 1
        i += 1
    return None


def recognise(d, obs):
    """observed token list -> atoms, in the vocabulary of the model:
       ('item', id, (attr ids)) | ('use', frozenset(leaves), (attr ids)) | ('gen', attr id) | ('unknown', text)"""
    atoms = []
    pos = 0
    pre = toks(d["prelude"])
    if obs[:len(pre)] != pre:
        return [("unknown", "prelude changed: " + tstr(obs, 20))]
    pos = len(pre)
    blocks = sorted(d["blocks"].items(), key=lambda kv: -len(kv[1]))
    bodies = sorted(((it, it["body_toks"]) for it in d["items"] if it["kind"] != "use"), key=lambda kv: -len(kv[1]))
    while pos < len(obs):
        hit = None
        for aid, bt in blocks:
            if bt and obs[pos:pos + len(bt)] == bt:
                hit = aid
                break
        if hit is not None:
            atoms.append(("gen", hit))
            pos += len(d["blocks"][hit])
            continue
        attrs = []
        while pos < len(obs) and obs[pos] == ("p", "#"):
            e = scan_attr(obs, pos)
            if e is None:
                break
            attrs.append(obs[pos:e])
            pos = e
        if pos < len(obs) and obs[pos] == ("id", "use"):
            e = pos
            while e < len(obs) and obs[e] != ("p", ";"):
                e += 1
            try:
                tree = G.parse_use_tree([s for _, s in obs[pos + 1:e]])
            except Exception:
                atoms.append(("unknown", tstr(obs[pos:], 30)))
                return atoms
            leaves = frozenset(G.leaf_str(pl) for pl in G.ut_leaves(tree))
            # attribute ids: of the source use item with the most leaves in common
            best = None
            for it in d["items"]:
                if it["kind"] == "use":
                    sl = set(G.leaf_str(pl) for pl in G.ut_leaves(it["tree"]))
                    if leaves <= sl and (best is None):
                        best = it
            atoms.append(("use", leaves, attr_ids(best, attrs) if best else tuple("?" for _ in attrs)))
            pos = e + 1
            continue
        it = None
        for cand, bt in bodies:
            if obs[pos:pos + len(bt)] == bt:
                it = cand
                break
        if it is None:
            atoms.append(("unknown", tstr(obs[pos:], 30)))
            return atoms
        atoms.append(("item", it["id"], attr_ids(it, attrs)))
        pos += len(it["body_toks"])
    return atoms


def attr_ids(it, attrs):
    out, used = [], set()
    for at in attrs:
        for a in it["attrs"]:
            if a["id"] not in used and a["toks"] == at:
                out.append(a["id"])
                used.add(a["id"])
                break
        else:
            out.append("?" + tstr(at, 8))
    return tuple(out)


def model_atoms(s):
    atoms = []
    for part in [p for p in s.split("@@") if p]:
        if part.startswith("gen:"):
            atoms.append(("gen", part.split(":")[2]))
            continue
        head, at = part[:part.rindex(" [")], part[part.rindex(" [") + 2:-1]
        ids = tuple(x for x in at.split(",") if x)
        kind, rest = head.split(" ", 1)
        if kind == "use":
            tree = G.parse_use_tree([x.s for x in rs.lex(rest)])
            atoms.append(("use", frozenset(G.leaf_str(pl) for pl in G.ut_leaves(tree)), ids))
        else:
            atoms.append(("item", rest, ids))
    return atoms


def oracle_items(d, atoms):
    """the property text on the recognised real output: list of problems"""
    exp = G.expand_list(d)
    probs = []
    pos = 0

    def attrs_ok(it, got, drop=()):
        want = [a["id"] for a in it["attrs"] if a["id"] not in drop]
        optional = set(a["id"] for a in it["attrs"] if a["role"] == "example")
        return list(got) == want or list(got) == [w for w in want if w not in optional] or \
            ([g for g in got if g not in optional] == [w for w in want if w not in optional] and all(g in want for g in got))

    for it in d["items"]:
        cur = atoms[pos] if pos < len(atoms) else None
        if it["kind"] == "use":
            allv = set(G.leaf_str(pl) for pl in G.ut_leaves(it["tree"]))
            req = set(G.leaf_str(pl) for pl in G.ut_leaves(it["tree"]) if not (pl[0][:1] == (G.INTER,) or (pl[0] == () and pl[1][0] in ("name", "rename") and pl[1][1] == G.INTER)))
            if cur is not None and cur[0] == "use" and req <= cur[1] <= allv and (cur[1] or not allv):
                pos += 1
            elif not req:
                pass
            else:
                probs.append("use item %s: leaves %s expected (interthread imports may go), found %s" % (it["id"], sorted(req), describe(cur)))
                return probs
            continue
        dmac = [a for a in it["attrs"] if a["role"].startswith("mac:") and a["mac"] in exp] if it["kind"] == "impl" else []
        if not dmac:
            if cur is not None and cur[0] == "item" and cur[1] == it["id"] and attrs_ok(it, cur[2]):
                pos += 1
            else:
                probs.append("item %s (%s) should be copied unchanged; found %s" % (it["id"], tstr(it["body_toks"], 8), describe(cur)))
                return probs
            continue
        drop = set(a["id"] for a in dmac)
        if not (cur is not None and cur[0] == "item" and cur[1] == it["id"] and attrs_ok(it, cur[2], drop)):
            probs.append("annotated impl %s (%s): expected the impl once without its macro attributes %s; found %s" % (
                it["id"], it["ty"], [a["text"] for a in dmac], describe(cur)))
            return probs
        pos += 1
        got = []
        while pos < len(atoms) and atoms[pos][0] == "gen" and len(got) < len(dmac):
            got.append(atoms[pos][1])
            pos += 1
        if sorted(got) != sorted(drop):
            probs.append("annotated impl %s (%s): expected the expansions of %s after the impl; found %s then %s" % (
                it["id"], it["ty"], [a["text"] for a in dmac], got, describe(atoms[pos] if pos < len(atoms) else None)))
            return probs
    if pos != len(atoms):
        probs.append("unexpected trailing item: %s" % describe(atoms[pos]))
    return probs


def describe(a):
    if a is None:
        return "<end of file>"
    if a[0] == "use":
        return "use {%s}" % ", ".join(sorted(a[1]))
    return repr(a)[:300]


def fs_oracle(d, before, after):
    probs = []
    inter = os.path.join("examples", "inter")
    for p in sorted(set(before) | set(after)):
        if p == inter or p.startswith(inter + os.sep):
            continue
        if p == "examples" and p not in before and after.get(p, ("", "", 0))[0] == "D":
            continue
        if before.get(p) != after.get(p):
            probs.append("%s outside examples/inter changed: %s -> %s" % (p, before.get(p), after.get(p)))
    want = {os.path.join(inter, d["fname"] + ".rs")}
    if d["main"] and d["fname"] != "main":
        want.add(os.path.join(inter, "main.rs"))
    got = set(p for p in after if p.startswith(inter + os.sep))
    if got != want:
        probs.append("examples/inter holds %s, expected exactly %s" % (sorted(got), sorted(want)))
    return probs


def fs_model_expr(d, before, after):
    paths = sorted(set(before) | set(after))
    comp = lambda p: "[%s]" % "; ".join(cq(x) for x in ["w"] + p.split(os.sep))
    f = "None"
    for p in sorted(before):
        node = "Dir" if before[p][0] == "D" else "(File %s)" % cq(before[p][1])
        f = "if list_eqb q %s then Some %s else %s" % (comp(p), node, f)
    inter = os.path.join("examples", "inter")
    code = after.get(os.path.join(inter, d["fname"] + ".rs"), ("", "MISSING"))[1]
    mainc = after.get(os.path.join(inter, "main.rs"), ("", "MISSING"))[1]
    e1 = "true" if "examples" in before else "false"
    e2 = "true" if inter in before else "false"
    m = "true" if (d["main"] and d["fname"] != "main") else "false"
    ex = ('String.concat ";" (map (fun q => show_node (run_ops (example_ops ["w"] "inter" %s "PID" %s %s %s %s %s) (fun q => %s) q)) [%s])' % (
        cq(d["fname"] + ".rs"), e1, e2, m, cq(code), cq(mainc), f, "; ".join(comp(p) for p in paths)))
    want = ";".join("-" if p not in after else ("D" if after[p][0] == "D" else after[p][1]) for p in paths)
    return ex, want, paths


WITNESSES = {
    "dup-attr": ('pub struct B;\n#[interthread::actor(name = "BB")]\n#[interthread::actor(name = "CC")]\nimpl B {\n    pub fn new() -> Self { B }\n    pub fn get(&self) -> u8 { 1 }\n}\n', None),
    "abs-path": ('pub struct C;\n#[::interthread::actor]\nimpl C {\n    pub fn new() -> Self { C }\n    pub fn get(&self) -> u8 { 1 }\n}\n', None),
    "crate-alias": ('use interthread as it;\npub struct C;\n#[it::actor]\nimpl C {\n    pub fn new() -> Self { C }\n    pub fn get(&self) -> u8 { 1 }\n}\n', None),
    "glob-both": ('use interthread::*;\npub struct A;\n#[actor]\nimpl A {\n    pub fn new() -> Self { A }\n    pub fn get(&self) -> u8 { 1 }\n}\npub struct B;\n#[family(actor(first_name = "U"))]\nimpl B {\n    pub fn new() -> Self { B }\n    pub fn get(&self) -> u8 { 1 }\n}\n', None),
    "late-import": ('pub struct A;\n#[actor]\nimpl A {\n    pub fn new() -> Self { A }\n    pub fn get(&self) -> u8 { 1 }\n}\nuse interthread::actor;\n', None),
    "reimport": ('use interthread::actor;\nuse interthread::actor as act;\npub struct A;\n#[actor]\nimpl A {\n    pub fn new() -> Self { A }\n    pub fn get(&self) -> u8 { 1 }\n}\n', None),
}


def witness_desc(cls):
    """the fixed witness of a known class as a file description (same structure the generator produces)"""
    ids = G.Ids()
    A = lambda text, lead, segs, mac, args="": dict(G.mk_attr(ids, text, lead, segs, "mac:" + mac), mac=mac, args_noshow=args)
    U = lambda t: {"kind": "use", "id": ids.new("u"), "attrs": [], "tree": t}
    S = lambda n: {"kind": "other", "id": ids.new("o"), "attrs": [], "body": "pub struct %s;" % n, "okind": "unit"}
    I = lambda n, attrs: {"kind": "impl", "id": ids.new("i"), "attrs": attrs, "ty": n,
                          "body": "impl %s {\n    pub fn new() -> Self { %s }\n    pub fn get(&self) -> u8 { 1 }\n}" % (n, n)}
    if cls == "dup-attr":
        items = [S("B"), I("B", [A('#[interthread::actor(name = "BB")]', False, [G.INTER, "actor"], "actor", 'name = "BB"'),
                                 A('#[interthread::actor(name = "CC")]', False, [G.INTER, "actor"], "actor", 'name = "CC"')])]
    elif cls == "abs-path":
        items = [S("C"), I("C", [A("#[::interthread::actor]", True, [G.INTER, "actor"], "actor")])]
    elif cls == "crate-alias":
        items = [U(("rename", G.INTER, "it")), S("C"), I("C", [A("#[it::actor]", False, ["it", "actor"], "actor")])]
    elif cls == "glob-both":
        items = [U(("path", G.INTER, ("glob",))), S("A"), I("A", [A("#[actor]", False, ["actor"], "actor")]),
                 S("B"), I("B", [A('#[family(actor(first_name = "U"))]', False, ["family"], "family", 'actor(first_name = "U")')])]
    elif cls == "late-import":
        items = [S("A"), I("A", [A("#[actor]", False, ["actor"], "actor")]), U(("path", G.INTER, ("name", "actor")))]
    else:
        items = [U(("path", G.INTER, ("name", "actor"))), U(("path", G.INTER, ("rename", "actor", "act"))), S("A"),
                 I("A", [A("#[actor]", False, ["actor"], "actor")])]
    d = {"prelude": "", "items": items, "expand": None, "main": False, "fname": "wit_" + cls.replace("-", "_"), "knob": "witness:" + cls}
    d["text"] = G.render_file(d)
    d["classes"] = G.classify(d)
    d["tags"] = G.input_tags(d)
    return d


def tup(x):
    if isinstance(x, list):
        return tuple(tup(y) if isinstance(y, list) and y and isinstance(y[0], str) and y[0] in ("path", "name", "rename", "glob", "group") else
                     ([tup(z) for z in y] if isinstance(y, list) else y) for y in x)
    return x


def desc_json(d):
    """the generated description, enough to rebuild the case from a replay file"""
    items = []
    for it in d["items"]:
        j = {k: it[k] for k in ("kind", "id", "body", "ty", "okind", "tree") if k in it}
        j["attrs"] = [{k: a[k] for k in ("id", "text", "lead", "segs", "role", "mac", "args_noshow") if k in a} for a in it["attrs"]]
        items.append(j)
    return {"prelude": d["prelude"], "items": items, "expand": d["expand"], "main": d["main"], "fname": d["fname"], "knob": d["knob"], "text": d["text"]}


def desc_load(j):
    d = dict(j)
    d["items"] = [dict(it) for it in j["items"]]
    for it in d["items"]:
        it["attrs"] = [dict(a) for a in it["attrs"]]
        if "tree" in it:
            it["tree"] = tup(it["tree"])
    d["classes"] = G.classify(d)
    d["tags"] = G.input_tags(d)
    return d


def files_part(rep, rng, known_seen, ds=None):
    nfiles = 120 if rep.tier == "quick" else 1500
    base = os.path.join(hook.WORK, "c18_%d" % os.getpid())
    shutil.rmtree(base, ignore_errors=True)
    if ds is None:
        ds = [witness_desc(c) for c in sorted(CLASS_TEXT) + list(FIXED_CLASSES)]
        for k in range(nfiles):
            ds.append(G.gen_file(rng))
    mdir = hook.manifest_dir(hook.ALL_CRATES, "all")
    jobs, slots = [], []
    for k, d in enumerate(ds):
        d["root"] = os.path.join(base, "f%d" % k)
        make_sandbox(d["root"], d, rng)
        d["before"] = snapshot(d["root"])
        d["attr"] = example_attr(d, rng)
        jobs.append(("example", [d["attr"], "", mdir, d["root"]]))
        slots.append((k, "example", None))
        for it in d["items"]:
            if it["kind"] == "use":
                continue
            jobs.append(("fn:pretty", ["", G.item_text(it)]))
            slots.append((k, "pretty", it))
            if it["kind"] == "impl":
                for a in it["attrs"]:
                    if a["role"].startswith("mac:"):
                        jobs.append((a["mac"], [a["args_noshow"], plain_item_text(it)]))
                        slots.append((k, "ref", (it, a)))
    res = hook.run_parallel(jobs, tag="c18f", shards=8, timeout=900)
    if res is None:
        raise Infra("example batch timed out")
    # second stage: canonical printing of the reference expansions
    jobs2, slots2 = [], []
    for (k, what, x), (cls, f) in zip(slots, res):
        d = ds[k]
        if what == "example":
            d["ex_class"], d["ex_msg"] = cls, (f[0] if f else "")
        elif what == "pretty":
            it = x
            if cls != "VALUE":
                raise Infra("pretty job failed on generated item: %s %s" % (cls, G.item_text(it)[:200]))
            ts = toks(f[0])
            pos = 0
            for a in it["attrs"]:
                e = scan_attr(ts, pos)
                if e is None:
                    raise Infra("attribute not found in pretty output: %s" % f[0][:200])
                a["toks"] = ts[pos:e]
                pos = e
            it["body_toks"] = ts[pos:]
        else:
            it, a = x
            a["ref_class"] = cls
            if cls == "TOKENS":
                jobs2.append(("fn:pretty", ["", f[0]]))
                slots2.append((k, it, a))
            else:
                a["ref_msg"] = f[0][:300] if f else ""
    res2 = hook.run_parallel(jobs2, tag="c18p", shards=8) if jobs2 else []
    if res2 is None:
        raise Infra("pretty batch timed out")
    for (k, it, a), (cls, f) in zip(slots2, res2):
        if cls != "VALUE":
            raise Infra("pretty job failed on a reference expansion: %s" % cls)
        ts = toks(f[0])
        head = [t for x in it["attrs"] if x["role"] == "plain" for t in x["toks"]] + it["body_toks"]
        if ts[:len(head)] != head:
            a["ref_class"] = "NOHEAD"
        a["block"] = ts[len(head):]
    # evaluate
    coq_items = []
    for k, d in enumerate(ds):
        d["after"] = snapshot(d["root"])
        macs = "[%s]" % "; ".join(cq(m) for m in G.expand_list(d))
        coq_items.append(("file%d" % k, 'String.concat "@@" (map show_item (t_expand %s %s))' % (macs, G.file_coq(d))))
        ex, want, paths = fs_model_expr(d, d["before"], d["after"])
        d["fs_want"], d["fs_paths"] = want, paths
        coq_items.append(("fs%d" % k, ex))
    vals = inst.coq_values("C18_files", IMPORTS, coq_items, defs=DEFS)
    rep.checker_cmds.append("coqc generated/C18_files.v (t_expand and run_ops (example_ops ..) on %d files / trees)" % len(ds))
    compile_pool = []
    for k, d in enumerate(ds):
        rep.evaluations += 1
        wit = d["knob"].startswith("witness:")
        nat = max([sum(1 for a in it["attrs"] if a["role"].startswith("mac:")) for it in d["items"] if it["kind"] == "impl"] + [0])
        forms = tuple(sorted(set(("abs" if a["lead"] else ("full" if a["segs"][0] == G.INTER else ("short" if len(a["segs"]) == 1 else "alias")))
                                 for it in d["items"] if it["kind"] == "impl" for a in it["attrs"] if a["role"].startswith("mac:"))))
        useforms = tuple(sorted(set(it["tree"][0] + ("/" + it["tree"][2][0] if it["tree"][0] == "path" else "") for it in d["items"] if it["kind"] == "use" and G.INTER in G.ut_rust(it["tree"]))))
        if not wit:
            rep.count("expand", str(d["expand"]))
            rep.count("main", str(d["main"]))
            rep.count("attrs_per_impl_max", str(nat))
            rep.count("knob", d["knob"])
            rep.count("layout", d["layout"])
            rep.count("annotated_impls", str(sum(1 for it in d["items"] if it["kind"] == "impl" and it.get("ty"))))
            for u in useforms:
                rep.count("interthread_use_form", u)
            for f_ in forms:
                rep.count("attr_path_form", f_)
            for t_ in sorted(d["tags"]) or ["none"]:
                rep.count("input_tag", t_)
            rep.nontrivial.add(("file", forms, useforms, nat, str(d["expand"]), d["main"], tuple(sorted(d["tags"]))))
        inp = {"source": d["text"], "example_attribute": d["attr"], "layout": d["layout"], "classes": sorted(d["classes"]), "tags": sorted(d["tags"]), "desc": desc_json(d)}
        bad_ref = [a for it in d["items"] if it["kind"] == "impl" for a in it["attrs"] if a["role"].startswith("mac:") and a.get("ref_class") != "TOKENS"]
        if bad_ref:
            # the attribute macro itself rejects the (generated) configuration: outside this property
            rep.count("skipped", "attribute macro rejected the configuration (%s)" % bad_ref[0].get("ref_class"))
            rep.notes.append("skipped file %d: %s -> %s %s" % (k, bad_ref[0]["text"], bad_ref[0].get("ref_class"), bad_ref[0].get("ref_msg", "")[:120]))
            continue
        if not (d["ex_class"] == "DIAG" and "SUCCESSFULLY" in d["ex_msg"]):
            rep.oblige(False)
            viol(rep, "example_failed_%d" % k, dict(inp, what="example did not produce a file for a valid source", observed=d["ex_class"] + " " + d["ex_msg"][:600]), found=True)
            continue
        out_path = os.path.join(d["root"], "examples", "inter", d["fname"] + ".rs")
        # ---- file system
        fprobs = fs_oracle(d, d["before"], d["after"])
        ok_fs = rep.oblige(not fprobs)
        fs_model = unq(vals["fs%d" % k])
        tie_fs = rep.oblige(fs_model == d["fs_want"])
        if not ok_fs:
            viol(rep, "fs_%d" % k, dict(inp, what="file-system footprint", problems=fprobs, before=d["before"], after=d["after"]), found=True)
        elif not tie_fs:
            viol(rep, "fs_tie_%d" % k, dict(inp, what="correspondence example_ops vs observed tree no longer checks", paths=d["fs_paths"], model=fs_model, observed=d["fs_want"]), found=False)
        if not os.path.exists(out_path):
            continue
        # ---- items
        d["blocks"] = {a["id"]: a["block"] for it in d["items"] if it["kind"] == "impl" for a in it["attrs"] if a["role"].startswith("mac:")}
        out_text = open(out_path).read()
        try:
            obs = toks(out_text)
        except rs.LexError as e:
            rep.oblige(False)
            viol(rep, "lex_%d" % k, dict(inp, what="example file does not lex", error=str(e), output=out_text[:3000]), found=True)
            continue
        atoms = recognise(d, obs)
        matoms = model_atoms(unq(vals["file%d" % k]))
        probs = oracle_items(d, atoms)
        tie = (atoms == matoms)
        in_class = sorted(d["classes"])
        if k % 9 == 6 or k in (0, 3):
            rep.sample({"example": d["attr"], "source_items": [G.item_text(it, " ")[:70] for it in d["items"]][:12], "observed": [describe(a)[:60] for a in atoms][:14],
                        "oracle": probs or "holds", "classes": in_class}, limit=10)
        if probs and in_class:
            rep.oblige(True)      # known finding, reported below
            rep.oblige(tie)
            for c in in_class:
                known_seen.setdefault(c, []).append((k, probs[0], wit))
            if not tie:
                viol(rep, "tie_known_%d" % k, dict(inp, what="model no longer reproduces the real output on a known-class input", model=[describe(a) for a in matoms], observed=[describe(a) for a in atoms]), found=False)
            continue
        if probs:
            rep.oblige(False)
            viol(rep, "items_%d" % k, dict(inp, what="example file is not the source with each macro replaced by its expansion", problems=probs,
                                               observed_items=[describe(a) for a in atoms], output=out_text[:6000]), found=True)
            continue
        rep.oblige(True)
        if not tie and in_class:
            rep.notes.append("known-class input %s now satisfies the property on the real code while the model still shows the defect (fixed?)" % in_class)
            if wit:
                known_seen.setdefault("__fixed__", []).append(in_class)
            continue
        if not rep.oblige(tie):
            viol(rep, "tie_%d" % k, dict(inp, what="correspondence expand_macros model vs real example output no longer checks (the property's oracle holds on the real output)",
                                             model=[describe(a) for a in matoms], observed=[describe(a) for a in atoms]), found=False)
            continue
        fully = all(a["mac"] in G.expand_list(d) for it in d["items"] if it["kind"] == "impl" for a in it["attrs"] if a["role"].startswith("mac:"))
        no_ex = not any(a["role"] == "example" for it in d["items"] for a in it["attrs"])
        if fully and no_ex:
            compile_pool.append((k, d, out_text))
    rep.traces += len(ds)
    if rep.tier == "thorough":
        compile_part(rep, compile_pool[:150])
    if not os.environ.get("VERIF_KEEP"):
        shutil.rmtree(base, ignore_errors=True)


def compile_part(rep, pool):
    """rustc as oracle: the produced file compiles against the same dependencies whenever the source itself
    (with the real attribute macros) does"""
    probe = os.path.join(VERIF, "harness", "probe")
    proj = os.path.join(CACHE, "c18_compile")
    shutil.rmtree(os.path.join(proj, "src"), ignore_errors=True)
    os.makedirs(os.path.join(proj, "src"), exist_ok=True)
    toml = open(os.path.join(probe, "Cargo.toml")).read()
    toml = "\n".join(('interthread = { path = "%s" }' % hook.REPO) if l.startswith("interthread") else l for l in toml.splitlines())
    toml = toml.replace('name = "probe"', 'name = "c18_compile"')
    open(os.path.join(proj, "Cargo.toml"), "w").write(toml + "\n")
    if os.path.exists(os.path.join(probe, "Cargo.lock")):
        shutil.copy(os.path.join(probe, "Cargo.lock"), os.path.join(proj, "Cargo.lock"))
    mods = []
    for k, d, text in pool:
        open(os.path.join(proj, "src", "f%d.rs" % k), "w").write(text)
        open(os.path.join(proj, "src", "s%d.rs" % k), "w").write(d["text"])
        mods.append("#[allow(dead_code, unused, non_snake_case)]\nmod f%d;\n#[allow(dead_code, unused, non_snake_case)]\nmod s%d;" % (k, k))
    open(os.path.join(proj, "src", "main.rs"), "w").write("\n".join(mods) + "\nfn main() {}\n")
    env = dict(os.environ, CARGO_NET_OFFLINE="true", CARGO_TARGET_DIR=os.path.join(CACHE, "probe_target"))
    rc, out = sh(["cargo", "check", "--offline", "--manifest-path", os.path.join(proj, "Cargo.toml")], env=env, timeout=1500)
    rep.checker_cmds.append("cargo check --offline (c18_compile: %d sources and their example files as modules)" % len(pool))
    if rc != 0 and "error" not in out:
        raise Infra("compile harness could not run: " + out[-1500:])
    blocks = out.split("\n\n")
    errs = lambda name: [b for b in blocks if b.lstrip().startswith("error") and ("src/%s.rs" % name) in b]
    for k, d, text in pool:
        if rc != 0 and errs("s%d" % k):
            rep.count("compiled", "source itself does not compile (skipped)")
            if d["knob"].startswith("witness:"):
                rep.notes.append("source of %s does not compile: %s" % (d["knob"], errs("s%d" % k)[0][:300]))
            continue
        if d["knob"].startswith("witness:"):
            rep.count("compiled_witness", d["knob"][8:] + (" ok" if not (rc != 0 and errs("f%d" % k)) else " ERROR"))
        mine = errs("f%d" % k) if rc != 0 else []
        ok = rep.oblige(not mine)
        rep.count("compiled", "ok" if ok else "error")
        if not ok:
            viol(rep, "compile_%d" % k, {"what": "the produced example file does not compile although the source does", "source": d["text"],
                                             "example_attribute": d["attr"], "rustc": "\n\n".join(mine)[:3000], "output": text[:6000]}, found=True)


def replay(rep, path):
    """./check C18 --replay <file>: re-run one recorded case on the current tree"""
    j = json.load(open(path))
    rng = random.Random(rep.seed)
    if "desc" in j:
        known_seen = {}
        files_part(rep, rng, known_seen, ds=[desc_load(j["desc"])])
        for c, hits in known_seen.items():
            rep.known_finding("class=%s %s (replayed input)" % (c, hits[0][1] if c != "__fixed__" else "fixed"))
    elif "use" in j and "macro" in j:
        use = j["use"] if j["use"].startswith("use ") else "use %s;" % j["use"]
        t = G.parse_use_tree([x.s for x in rs.lex(use)][1:-1])
        (cls, f), = hook.run_batch([("fn:file_self_use", ["", j["macro"], use])])
        real_p = None if f[0] == "-" else f[0].replace(" ", "")
        real_t = None if f[1] == "-" else G.parse_use_tree([x.s for x in rs.lex(f[1])])
        if not rep.oblige(cls == "VALUE" and fsu_oracle(j["macro"], t, real_p, real_t, [], "")):
            rep.violation("replay_fsu", dict(j, observed_now=f), found=True)
    elif "uses" in j and "attribute" in j:
        (cls, f), = hook.run_batch([("fn:use_is", ["", j["macro"], "".join(u + "\n" for u in j["uses"]) + "fn f() {}\n", j["attribute"]])])
        if not rep.oblige(cls == "VALUE" and (f[0] == "true") == bool(j.get("expected"))):
            rep.violation("replay_is", dict(j, observed_now=f), found=True)
    else:
        rep.notes.append("nothing replayable in " + path)
    return rep.finish()


def run(rep):
    rng = random.Random(rep.seed)
    rep.extra["rule"] = RULE
    nthm, problems, _ = property_theorems(PID)
    rep.checker_cmds.append("make -C coq theories/Properties/C18.vo (Print Assumptions must be closed)")
    for _ in range(nthm):
        rep.oblige(not problems)
    bad = hygiene()
    rep.oblige(not bad)
    if problems or bad:
        rep.violation("theorems", {"what": "property theorem file no longer checks", "problems": problems, "hygiene": bad}, found=False)
    listed = set(f.get("class") for f in known_findings()["finding"] if f.get("property") == PID)
    use_tree_part(rep, rng)
    known_is = is_part(rep, rng)
    known_seen = {}
    files_part(rep, rng, known_seen)
    for c in sorted(CLASS_TEXT):
        hits = known_seen.get(c, [])
        if any(w for _, _, w in hits) or hits:
            if c in listed:
                rep.known_finding("class=%s %s (witness replayed: %s; %d corpus file(s) in the class fail)" % (
                    c, CLASS_TEXT[c], "still fails" if any(w for _, _, w in hits) else "passes", sum(1 for _, _, w in hits if not w)))
            else:
                viol(rep, "unlisted_" + c, {"what": "failing class not listed in known_findings.txt", "class": c, "first": hits[0][1]}, found=True)
    for c in known_is:
        if c not in listed:
            viol(rep, "unlisted_is_" + c, {"what": "UseMacro::is misses paths of a class not listed in known_findings.txt", "class": c}, found=True)
    rep.assumptions += [
        "INTER_EXAMPLE_DIR_NAME is unset or a single normal path component (the designated directory is examples/<that>; the corpus uses the default `inter`)",
        "source files parse (syn::parse_file) and the attribute options are valid for the attribute macro itself (files whose reference expansion is a diagnostic are skipped and counted)",
        "top-level items only: macros inside `mod { }` blocks or function bodies are not expanded by `example` (documented: 'expanded content of the file')",
        "Rust name resolution is restricted to the documented forms: interthread::<macro>, use interthread::<macro> [as n], groups, glob, crate alias; no shadowing by local items named like the macro",
        "prettyplease is used as the canonical printer on both sides of every comparison (its printing is item-local and deterministic); comments that are not doc comments are not items",
        "an `#[interthread::example(..)]` attribute inside the source file may be kept or removed (documentation silent); macro imports may be kept or removed",
        "the order of the expansions of several attributes on one impl is free (Rust gives item order no meaning)",
    ]
