"""C02 -- calls take effect in issue order (per-handle FIFO, real-time precedence)."""
import random
import rt_common
PID = "C02"


def run(rep):
    rng = random.Random(rep.seed)
    rep.extra["rule"] = "instances = real expansions for lib x channel x debut x impl blocks with all call kinds; non-trivial = distinct (lib, channel, debut, model) classes"
    rt_common.run_runtime(rep, PID, "wf_C02",
        ["fun (A V : Type) sem sem_slf dv => @C02_realtime A V sem sem_slf dv {i} {w}",
         "fun (A V : Type) sem sem_slf dv => @C02_returned_was_sent A V sem sem_slf dv {i} {w}"],
        rt_common.std_configs(rng, rep.tier, families=False),
        search="c02_search", search_what="two clients, every messaging method, fair schedule; anomalies: 1 a call returned while alive but was never handed to the channel, 2 a client's calls executed out of issue order")
