(* C09: a self-consuming call ends the actor only for a sole owner.
   With the guard, a client inside a self-consuming call holds the only handle in existence; a queued stop message
   belongs to a client that is waiting for it; so the loop is ended by `Stopped` only when the consumed handle was the
   only one.  Without the guard the handle type must not be clonable: then the number of handles never grows. *)
From Coq Require Import List Arith Bool Lia.
Import ListNotations.
From IT Require Import Runtime.Actor Runtime.Lists Runtime.ActorInv Runtime.InvDefs Runtime.InvSeq Runtime.InvFault Runtime.InvDefs2
  Runtime.Combined Runtime.InvStop.

Section Sole.
Context {A V : Type}.
Variable sem : nat -> A -> list V -> option (A * V).
Variable sem_slf : nat -> A -> list V -> V.
Variable dv : V.
Notation st := (@st A V).
Notation step := (step sem sem_slf dv).
Notation step' := (step' sem sem_slf dv).
Notation run_from := (run_from sem sem_slf dv).
Notation run := (run sem sem_slf dv).

Ltac step_cases H :=
  unfold Actor.step, step_client, step_actor in H;
  repeat match type of H with
  | context [match ?x with _ => _ end] => destruct x eqn:?; try discriminate H
  end;
  try (injection H as <-).

Local Arguments drop_tx : simpl never.

Definition stopping (cl : @client V) : bool :=
  match c_pc cl with StopSend _ _ _ | StopWait _ _ _ => true | _ => false end.

(* while a client is inside a self-consuming call, its handle is the only handle in existence *)
Definition stop_sole (s : st) := forall t cl, nth_error (clients s) t = Some cl -> stopping cl = true -> senders s = 1 /\ c_nh cl = 1.

(* ---- handle counts of one / two clients against the sum ---- *)
Lemma nh_le_sum (l : list (@client V)) t c : nth_error l t = Some c -> c_nh c <= list_sum (map c_nh l).
Proof.
  revert t. induction l as [|h l IH]; intros [|t] Hn; cbn in *; try discriminate Hn.
  - injection Hn as ->. lia.
  - specialize (IH _ Hn). unfold list_sum in *. lia.
Qed.

Lemma nh2_le_sum (l : list (@client V)) t t' c c' : t <> t' -> nth_error l t = Some c -> nth_error l t' = Some c' ->
  c_nh c + c_nh c' <= list_sum (map c_nh l).
Proof.
  revert t t'. induction l as [|h l IH]; intros [|t] [|t'] Ne Hn Hn'; cbn in *; try discriminate Hn; try discriminate Hn'.
  - contradiction Ne. reflexivity.
  - injection Hn as ->. pose proof (nh_le_sum l t' c' Hn') as Q. unfold list_sum in *. lia.
  - injection Hn' as ->. pose proof (nh_le_sum l t c Hn) as Q. unfold list_sum in *. lia.
  - assert (Ne' : t <> t') by (intros ->; apply Ne; reflexivity).
    specialize (IH _ _ Ne' Hn Hn'). unfold list_sum in *. lia.
Qed.

(* ---- (1) stop_sole ---- *)
Lemma stop_sole_holds (s : st) : stop_sole s -> stop_holds s.
Proof.
  intros I t cl Hn. specialize (I t cl Hn). unfold stopping in I.
  destruct (c_pc cl); try exact Logic.I; destruct (I eq_refl) as [_ ->]; lia.
Qed.

Lemma stop_sole_init (a0 : A) (progs : list (list (@op V) * nat)) : stop_sole (Actor.init a0 progs).
Proof.
  intros t cl Hn Hs. cbn in Hn. rewrite nth_error_map in Hn. destruct (nth_error progs t); [|discriminate Hn].
  injection Hn as <-. discriminate Hs.
Qed.

Lemma guard_le m (s : st) : r_guard m = true -> r_guard m && (1 <? senders s) = false -> senders s <= 1.
Proof. intros -> Hb. cbn [andb] in Hb. apply Nat.ltb_ge in Hb. exact Hb. Qed.

Lemma stop_sole_step m (s : st) ch s' : r_guard m = true -> senders_ok s -> stop_sole s -> step m s ch = Some s' -> stop_sole s'.
Proof.
  unfold stop_sole, senders_ok. intros Hg SO I H. destruct ch as [t|]; cbn [Actor.step] in H.
  - step_cases H; intros tx clx G Hst; cbn -[Nat.ltb] in G |- *; apply upd_nth in G;
      match goal with Q : nth_error (clients s) t = Some ?c |- _ =>
        pose proof (nh_le_sum _ _ _ Q) as Le; pose proof (I _ _ Q) as Ic; unfold stopping in Ic end;
      repeat match goal with
      | Q : c_pc _ = _ |- _ => rewrite Q in Ic
      | Q : (0 <? _) = true |- _ => apply Nat.ltb_lt in Q
      | Q : (0 <? _) && _ = true |- _ => apply andb_prop in Q; destruct Q as [Q _]
      | Q : r_guard m && _ = false |- _ => apply (guard_le m s Hg) in Q
      end;
      try specialize (Ic eq_refl);
      (destruct G as [(<- & -> & _)|(N & G)];
       [ unfold stopping in Hst; cbn in Hst;
         repeat match type of Hst with context [if ?b then _ else _] => destruct b; cbn in Hst end;
         try discriminate Hst; cbn; try exact Ic; try lia
       | destruct (I _ _ G Hst) as [S1 N1];
         match goal with Q : nth_error (clients s) t = Some ?c |- _ =>
           pose proof (nh2_le_sum _ _ _ _ _ N Q G) as Le2 end;
         lia ]).
  - step_cases H; cbn; exact I.
Qed.

Definition sole_inv (s : st) := senders_ok s /\ stop_sole s.

Lemma sole_inv_init (a0 : A) (progs : list (list (@op V) * nat)) : sole_inv (Actor.init a0 progs).
Proof. split; [apply senders_init|apply stop_sole_init]. Qed.

Lemma sole_inv_step m (s : st) ch s' : r_guard m = true -> sole_inv s -> step m s ch = Some s' -> sole_inv s'.
Proof.
  intros Hg [I1 I2] H. split.
  - exact (senders_step_strong sem sem_slf dv m s ch s' (stop_sole_holds s I2) I1 H).
  - exact (stop_sole_step m s ch s' Hg I1 I2 H).
Qed.

Theorem stop_sole_reachable : forall m, r_guard m = true -> forall a0 progs sched, stop_sole (run m a0 progs sched).
Proof.
  intros m Hg a0 progs sched. unfold Actor.run.
  apply (inv_run sem sem_slf dv sole_inv m (fun s ch s' => sole_inv_step m s ch s' Hg) sched (Actor.init a0 progs) (sole_inv_init a0 progs)).
Qed.

(* ---- (2) a queued stop message belongs to a client that is waiting for it ---- *)
Definition stop_queued (s : st) := forall c, In (MStop c) (queue s) ->
  exists cl k vs, nth_error (clients s) (fst c) = Some cl /\ c_pc cl = StopWait c k vs.

(* the inductive form: ... and the oneshot of that call is still empty, so the waiting client cannot move on *)
Definition stop_queued_inv (s : st) := forall c, In (MStop c) (queue s) ->
  (exists cl k vs, nth_error (clients s) (fst c) = Some cl /\ c_pc cl = StopWait c k vs) /\ slot_get (slots s) c = Some SEmpty.

(* call ids carry the index of the client that made the call (second clause of [reply_ok]) *)
Definition cid_own (s : st) := forall t cl c, nth_error (clients s) t = Some cl -> In c (pc_cids (c_pc cl)) -> fst c = t.

Lemma stop_queued_init (a0 : A) (progs : list (list (@op V) * nat)) : stop_queued_inv (Actor.init a0 progs).
Proof. intros c Hin. cbn in Hin. contradiction Hin. Qed.

Lemma sq_step_cl m (s : st) t s' : cid_own s -> stop_queued_inv s -> step m s (Cl t) = Some s' -> stop_queued_inv s'.
Proof.
  intros CO I H. cbn [Actor.step] in H. step_cases H; intros qc Hin; cbn in Hin |- *.
  all: rewrite ?in_app_iff in Hin; cbn [In] in Hin.
  all: match goal with Q : nth_error (clients _) _ = Some ?c |- _ => pose proof (fun x => CO _ _ x Q) as Own end.
  all: match goal with Q : c_pc _ = _ |- _ => rewrite Q in Own; cbn [pc_cids In] in Own end.
  (* the message that was just appended *)
  all: try (destruct Hin as [Hin|[Hin|[]]];
            [|first [discriminate Hin
                    | injection Hin as <-;
                      match goal with |- context [slot_set _ ?c0 _] => rewrite (Own c0 (or_introl eq_refl)) end;
                      split; [do 3 eexists; split; [apply upd_same; eapply nth_error_lt; eassumption|reflexivity]
                             |apply slot_get_set_same]]]).
  (* a message that was already queued: its client is another one *)
  all: destruct (I _ Hin) as ((qcl & qk & qvs & Hcl & Hpc) & Hsl).
  all: assert (N : t <> fst qc) by (intros e; rewrite <- e in Hcl; congruence).
  all: (split; [exists qcl, qk, qvs; rewrite upd_other by exact N; split; assumption|]).
  all: try exact Hsl.
  all: (rewrite slot_get_set_other; [exact Hsl|]); intros e; apply N; symmetry; apply Own; left; exact e.
Qed.

Lemma nodup_head_stop cid (q : list (@msg V)) : NoDup (cid :: map msg_id q) -> ~ In (MStop cid) q.
Proof. intros ND Hin. inversion ND as [|? ? Hn _]. apply Hn. exact (in_map msg_id _ _ Hin). Qed.

Lemma sq_step_ac m (s : st) s' : NoDup (busy_id s ++ qids s) -> stop_queued_inv s -> step m s Ac = Some s' -> stop_queued_inv s'.
Proof.
  intros ND I H. cbn [Actor.step] in H. step_cases H; unfold crash; intros qc Hin; cbn in Hin |- *; try contradiction Hin.
  all: unfold busy_id, qids in ND.
  all: repeat match goal with
       | Q : busy _ = _ |- _ => rewrite Q in ND; clear Q
       end; cbn [app] in ND.
  all: assert (Hq : In (MStop qc) (queue s))
         by (first [exact Hin | match goal with Q : queue _ = _ |- _ => rewrite Q; right; exact Hin end]).
  all: try match goal with Q : queue _ = _ |- _ => rewrite Q in ND; cbn [map msg_id] in ND end.
  all: destruct (I _ Hq) as (P1 & P2); (split; [exact P1|]).
  all: first [ exact P2
             | rewrite slot_get_set_other; [exact P2|]; intros <-;
               first [exact (nodup_head_stop _ _ ND Hq) | exact (nodup_head_stop _ _ ND Hin)]
             | rewrite drop_tx_other; [exact P2|]; intros [<-|[]];
               first [exact (nodup_head_stop _ _ ND Hq) | exact (nodup_head_stop _ _ ND Hin)] ].
Qed.

Lemma sq_step a0 m (s : st) ch s' : Inv sem dv a0 m s -> stop_queued_inv s -> step m s ch = Some s' -> stop_queued_inv s'.
Proof.
  intros (I1 & _ & I3 & I4 & _ & (_ & I6 & _) & _) I H. destruct ch as [t|].
  - exact (sq_step_cl m s t s' I6 I H).
  - exact (sq_step_ac m s s' (nodup_pending s I1 I3 I4) I H).
Qed.

Theorem stop_queued_inv_reachable m (a0 : A) progs sched : stop_queued_inv (run m a0 progs sched).
Proof.
  unfold Actor.run.
  apply (inv_run sem sem_slf dv (fun s => stop_queued_inv s /\ Inv sem dv a0 m s) m).
  - intros s ch s' (Q & I) H. split; [exact (sq_step a0 m s ch s' I Q H)|exact (Inv_step sem sem_slf dv a0 m s ch s' I H)].
  - split; [apply stop_queued_init|apply Inv_init].
Qed.

Theorem stop_queued_reachable : forall m (a0 : A) progs sched, stop_queued (run m a0 progs sched).
Proof. intros m a0 progs sched c Hin. exact (proj1 (stop_queued_inv_reachable m a0 progs sched c Hin)). Qed.

(* ---- (3) the loop is ended by a self-consuming call only when the consumed handle is the only handle ---- *)
Theorem stopped_by_sole_owner : forall m, r_guard m = true -> forall a0 progs sched, let s := run m a0 progs sched in
  forall s', step m s Ac = Some s' -> exited s = None -> exited s' = Some Stopped ->
  senders s = 1 /\ exists t cl, nth_error (clients s) t = Some cl /\ stopping cl = true /\ c_nh cl = 1.
Proof.
  intros m Hg a0 progs sched s s' H E E'.
  destruct (exit_cause sem sem_slf dv m s Ac s' H E Stopped E') as (_ & c & q & Hq & _).
  destruct (stop_queued_reachable m a0 progs sched c) as (cl & k & vs & Hn & Hpc).
  { fold s. rewrite Hq. left. reflexivity. }
  fold s in Hn.
  assert (St : stopping cl = true) by (unfold stopping; rewrite Hpc; reflexivity).
  destruct (stop_sole_reachable m Hg a0 progs sched (fst c) cl Hn St) as [S1 N1].
  split; [exact S1|]. exists (fst c), cl. repeat split; assumption.
Qed.

(* ---- (4) without Clone the number of handles never grows ---- *)
Lemma nc_step m (s : st) ch s' : r_clonable m = false -> step m s ch = Some s' -> senders s' <= senders s.
Proof.
  intros Hc H. destruct ch as [t|]; cbn [Actor.step] in H.
  - step_cases H; cbn -[Nat.ltb]; try lia.
    rewrite Hc, andb_false_r in *. discriminate.
  - step_cases H; unfold crash; cbn; lia.
Qed.

Lemma init_senders (a0 : A) (progs : list (list (@op V) * nat)) : senders (Actor.init a0 progs) = list_sum (map snd progs).
Proof. cbn. induction progs as [|p progs IH]; cbn; [reflexivity|]. rewrite IH. reflexivity. Qed.

Theorem not_clonable_senders : forall m, r_clonable m = false -> forall a0 progs sched,
  senders (run m a0 progs sched) <= list_sum (map snd progs).
Proof.
  intros m Hc a0 progs sched. unfold Actor.run.
  apply (inv_run sem sem_slf dv (fun s => senders s <= list_sum (map snd progs)) m).
  - intros s ch s' Le H. pose proof (nc_step m s ch s' Hc H). lia.
  - rewrite init_senders. lia.
Qed.


End Sole.

Print Assumptions stop_sole_reachable.
Print Assumptions stop_queued_inv_reachable.
Print Assumptions stop_queued_reachable.
Print Assumptions stopped_by_sole_owner.
Print Assumptions not_clonable_senders.

