#!/usr/bin/env python3
"""integrate.py Cxx [--apply]: show / copy what a builder sandbox /tmp/gwork/Cxx/verif adds or changes relative to /verif"""
import os, sys, filecmp, shutil, subprocess
pid = sys.argv[1]
apply = "--apply" in sys.argv
src = "/tmp/gwork/%s/verif" % pid
dst = "/verif"
skip_dirs = {".cache", "generated", "evidence", "replays", "__pycache__", ".git", "seeded", "target"}
new, changed = [], []
for root, dirs, files in os.walk(src):
    dirs[:] = [d for d in dirs if d not in skip_dirs]
    for f in files:
        if f.endswith((".vo", ".vok", ".vos", ".glob", ".aux", ".pyc", ".d")) or f in ("Makefile", "Makefile.conf", ".Makefile.d", ".lia.cache", ".nia.cache"):
            continue
        s = os.path.join(root, f)
        rel = os.path.relpath(s, src)
        d = os.path.join(dst, rel)
        if not os.path.exists(d):
            new.append(rel)
        elif not filecmp.cmp(s, d, shallow=False):
            changed.append(rel)
print("NEW:", *new, sep="\n  ")
print("CHANGED:", *changed, sep="\n  ")
if apply:
    for rel in new:
        os.makedirs(os.path.dirname(os.path.join(dst, rel)), exist_ok=True)
        shutil.copy2(os.path.join(src, rel), os.path.join(dst, rel))
    print("copied %d new files; changed files must be merged by hand" % len(new))
