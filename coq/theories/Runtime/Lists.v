(* List lemmas used by the runtime invariants. *)
From Coq Require Import List Arith Bool Lia Permutation.
Import ListNotations.
From IT Require Import Runtime.Actor.

Lemma upd_length {X} (l : list X) i x : length (upd l i x) = length l.
Proof. revert i; induction l as [|h t IH]; intros [|i]; cbn; auto. Qed.

Lemma upd_same {X} (l : list X) i x : i < length l -> nth_error (upd l i x) i = Some x.
Proof. revert i; induction l as [|h t IH]; intros [|i] H; cbn in *; try lia; auto. apply IH; lia. Qed.

Lemma upd_other {X} (l : list X) i j x : i <> j -> nth_error (upd l i x) j = nth_error l j.
Proof. revert i j; induction l as [|h t IH]; intros [|i] [|j] H; cbn; auto; try congruence. Qed.

Lemma nth_error_lt {X} (l : list X) i x : nth_error l i = Some x -> i < length l.
Proof. intros H. apply nth_error_Some. congruence. Qed.

Lemma upd_nth {X} (l : list X) i j x y : nth_error (upd l i x) j = Some y ->
  (i = j /\ y = x /\ i < length l) \/ (i <> j /\ nth_error l j = Some y).
Proof.
  intros H. destruct (Nat.eq_dec i j) as [->|N].
  - left. assert (L : j < length l). { apply nth_error_lt in H. rewrite upd_length in H. exact H. }
    rewrite upd_same in H by exact L. injection H as <-. auto.
  - right. rewrite upd_other in H by exact N. auto.
Qed.

Lemma nth_map_lt {X Y} (f : X -> Y) l p d d' : p < length l -> nth p (map f l) d = f (nth p l d').
Proof. revert p; induction l as [|h t IH]; intros [|p] H; cbn in *; try lia; auto. apply IH; lia. Qed.

(* order-preserving subsequence *)
Inductive subseq {X} : list X -> list X -> Prop :=
| sub_nil : subseq [] []
| sub_skip l1 l2 x : subseq l1 l2 -> subseq l1 (x :: l2)
| sub_take l1 l2 x : subseq l1 l2 -> subseq (x :: l1) (x :: l2).

Lemma subseq_refl {X} (l : list X) : subseq l l.
Proof. induction l; [apply sub_nil|apply sub_take; auto]. Qed.
Lemma subseq_nil {X} (l : list X) : subseq [] l.
Proof. induction l; [apply sub_nil|apply sub_skip; auto]. Qed.
Lemma subseq_app {X} (a b c d : list X) : subseq a b -> subseq c d -> subseq (a ++ c) (b ++ d).
Proof. induction 1; cbn; intros; auto; [apply sub_skip|apply sub_take]; auto. Qed.
Lemma subseq_app_r {X} (a b c : list X) : subseq a b -> subseq a (b ++ c).
Proof. intros H. rewrite <- (app_nil_r a). apply subseq_app; auto. apply subseq_nil. Qed.
Lemma subseq_snoc {X} (a b : list X) x : subseq a b -> subseq (a ++ [x]) (b ++ [x]).
Proof. intros; apply subseq_app; auto. apply subseq_refl. Qed.
Lemma subseq_drop_r {X} (a b l : list X) : subseq (a ++ b) l -> subseq a l.
Proof.
  revert l. induction a as [|x a IH]; intros l H; [apply subseq_nil|].
  cbn in H. remember (x :: a ++ b) as k eqn:E. revert E. induction H as [|l1 l2 y S IH2|l1 l2 y S IH2]; intros E; [discriminate| |].
  - apply sub_skip. auto.
  - injection E as -> ->. apply sub_take. apply IH. exact S.
Qed.
Lemma subseq_app_l {X} (a b : list X) : subseq b (a ++ b).
Proof. induction a; cbn; [apply subseq_refl|apply sub_skip; auto]. Qed.
Lemma subseq_trans {X} (a b c : list X) : subseq a b -> subseq b c -> subseq a c.
Proof.
  intros H1 H2. revert a H1. induction H2 as [|l1 l2 x S IH|l1 l2 x S IH]; intros a H1.
  - exact H1.
  - apply sub_skip. auto.
  - inversion H1; subst; [apply sub_skip|apply sub_take]; auto.
Qed.
Lemma subseq_In {X} (a b : list X) x : subseq a b -> In x a -> In x b.
Proof. induction 1; cbn; intros; auto. destruct H0; auto. Qed.
Lemma subseq_NoDup {X} (a b : list X) : subseq a b -> NoDup b -> NoDup a.
Proof.
  induction 1; intros N; auto; inversion N; subst; auto.
  constructor; auto. intros I. apply H2. eapply subseq_In; eauto.
Qed.

(* x occurs strictly before y *)
Definition precedes {X} (x y : X) (l : list X) := exists l1 l2 l3, l = l1 ++ x :: l2 ++ y :: l3.

Lemma precedes_app_r {X} (x y : X) l l' : precedes x y l -> precedes x y (l ++ l').
Proof. intros (a & b & c & ->). exists a, b, (c ++ l'). repeat (rewrite <- app_assoc; cbn). reflexivity. Qed.
Lemma precedes_snoc {X} (x y : X) l : In x l -> precedes x y (l ++ [y]).
Proof. intros I. apply in_split in I. destruct I as (a & b & ->). exists a, b, []. rewrite <- app_assoc. reflexivity. Qed.

Lemma precedes_subseq {X} (x y : X) a b :
  subseq a b -> NoDup b -> precedes x y b -> In x a -> In y a -> precedes x y a.
Proof.
  induction 1 as [|l1 l2 z S IH|l1 l2 z S IH]; intros N P Ix Iy.
  - destruct Ix.
  - inversion N as [|? ? Nz N']; subst. apply IH; auto.
    destruct P as (p1 & p2 & p3 & E). destruct p1 as [|h p1]; cbn in E; injection E as -> ->.
    + exfalso. apply Nz. eapply subseq_In; eauto.
    + exists p1, p2, p3. reflexivity.
  - inversion N as [|? ? Nz N']; subst.
    destruct P as (p1 & p2 & p3 & E). destruct p1 as [|h p1]; cbn in E; injection E as -> ->.
    + (* x is the head *)
      destruct Iy as [->|Iy].
      * exfalso. apply Nz. rewrite in_app_iff. right. left. reflexivity.
      * apply in_split in Iy. destruct Iy as (q1 & q2 & ->). exists [], q1, q2. reflexivity.
    + destruct Ix as [->|Ix].
      * exfalso. apply Nz. rewrite in_app_iff. right. left. reflexivity.
      * destruct Iy as [->|Iy].
        -- exfalso. apply Nz. rewrite in_app_iff. right. right. rewrite in_app_iff. right. left. reflexivity.
        -- destruct (IH N') as (r1 & r2 & r3 & ->); auto.
           { exists p1, p2, p3. reflexivity. }
           exists (h :: r1), r2, r3. reflexivity.
Qed.

Lemma NoDup_snoc {X} (l : list X) x : NoDup l -> ~ In x l -> NoDup (l ++ [x]).
Proof.
  intros N I. apply NoDup_rev in N. rewrite <- (rev_involutive (l ++ [x])). apply NoDup_rev.
  rewrite rev_app_distr. cbn. constructor; auto. rewrite <- in_rev. exact I.
Qed.
