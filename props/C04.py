"""C04 -- one construction, draining shutdown, single drop of the actor."""
import random
import rt_common, probe, gen_impl
from common import *
PID = "C04"


def configs(rng, tier):
    cs = rt_common.std_configs(rng, tier, chans=(None, 2))
    ctors = ["pub fn new() -> Self { todo!() }", "pub fn new(a: u8, b: String) -> A { todo!() }",
             "pub fn try_new(v: u8) -> Option<Self> { None }", "pub fn try_new(v: u8, w: u8) -> Result<Self, String> { todo!() }",
             "pub fn try_new(v: u8) -> std::result::Result<Self, std::io::Error> { todo!() }",
             "pub fn try_new(v: u8) -> ::std::option::Option<A> { None }", "pub fn try_new() -> core::result::Result<A, &'static str> { todo!() }"]
    for lib in gen_impl.LIBS:
        for ct in ctors:
            for ch in (None, 3):
                item = "impl A {\n %s\n pub fn inc(&mut self) {}\n pub fn get(&self) -> u8 { 0 }\n}" % ct
                cs.append({"kind": "actor", "lib": lib, "attr": gen_impl.actor_attr(lib, ch), "item": item, "nmodels": 1,
                           "label": "ctor lib=%s ch=%s %s" % (lib, ch, ct[:40]), "cfg": (lib, ch, ct)})
    return cs


def run(rep):
    rng = random.Random(rep.seed)
    rep.extra["rule"] = ("instances = real expansions over constructor shapes (Self / actor type / Option / Result under plain and qualified paths) x lib x channel; "
                         "probe = queued calls behind a parked actor, all handles dropped, then release; non-trivial = distinct (lib, channel, constructor) classes")
    rt_common.run_runtime(rep, PID, "wf_C04",
        ["fun (A V : Type) sem sem_slf dv => @C04_once A V sem sem_slf dv {i} {w}",
         "fun (A V : Type) sem sem_slf dv => @C04_drain A V sem sem_slf dv {i} {w}",
         "fun (A V : Type) sem sem_slf dv => @C04_exit_cause A V sem sem_slf dv {i} {w}"],
        configs(rng, rep.tier))
    runs = []
    for lib in gen_impl.LIBS:
        runs += [["lifecycle", lib, 0, "queued=4"], ["lifecycle", lib, 2, "queued=2"]]
        if rep.tier != "quick":
            runs += [["lifecycle", lib, 3, "queued=3"], ["lifecycle", lib, 1, "queued=0"], ["lifecycle", lib, 0, "queued=9"]]
    rt_common.impl_side(rep, PID, runs, lambda a, d: probe.oracle_lifecycle(d))


def replay(rep, path):
    return rt_common.replay_generic(rep, path)
