(* Theorems about parameter flattening (Gen/Flatten.v), for all parameter lists. *)
From Coq Require Import List String Ascii Bool Arith Lia.
Import ListNotations.
From IT Require Import Gen.Flatten.
Open Scope string_scope.

(* ---- induction principle with the nested lists ---- *)
Section PatInd.
Variable P : pat -> Prop.
Hypothesis Hid : forall r m x, P (PIdent r m x).
Hypothesis Htu : forall l, Forall P l -> P (PTuple l).
Hypothesis Hts : forall q l, Forall P l -> P (PTupleStruct q l).
Hypothesis Hst : forall q f l r, Forall P l -> P (PStruct q f l r).
Hypothesis Hsl : forall l, Forall P l -> P (PSlice l).
Hypothesis Hre : P PRest.
Hypothesis Hwi : P PWild.
Hypothesis Hot : forall t, P (POther t).
Fixpoint pat_ind' (p : pat) : P p :=
  let fix all (l : list pat) : Forall P l :=
    match l with [] => Forall_nil P | q :: t => Forall_cons q (pat_ind' q) (all t) end in
  match p with
  | PIdent r m x => Hid r m x
  | PTuple l => Htu l (all l)
  | PTupleStruct q l => Hts q l (all l)
  | PStruct q f l r => Hst q f l r (all l)
  | PSlice l => Hsl l (all l)
  | PRest => Hre
  | PWild => Hwi
  | POther t => Hot t
  end.
End PatInd.

(* ---- strings ---- *)
Lemma sapp_assoc (a b c : string) : ((a ++ b) ++ c = a ++ b ++ c)%string.
Proof. induction a as [|x a IH]; cbn; [reflexivity|]. rewrite IH. reflexivity. Qed.

Lemma no_us_app_us a b : no_us (a ++ String underscore b) = false.
Proof.
  induction a as [|c a IH]; cbn.
  - try rewrite Ascii.eqb_refl; reflexivity.
  - rewrite IH. apply andb_false_r.
Qed.

Lemma split_unique : forall w w' r r', no_us w = true -> no_us w' = true ->
  (w ++ String underscore r = w' ++ String underscore r')%string -> w = w' /\ r = r'.
Proof.
  induction w as [|c w IH]; intros [|c' w'] r r' N N' E; cbn in *.
  - injection E as ->. auto.
  - injection E as <- _. rewrite Ascii.eqb_refl in N'. discriminate.
  - injection E as -> _. rewrite Ascii.eqb_refl in N. discriminate.
  - injection E as -> E. apply andb_prop in N. apply andb_prop in N'.
    destruct (IH w' r r' (proj2 N) (proj2 N') E) as [-> ->]. auto.
Qed.

(* ---- join ---- *)
Lemma join_cons2 w x t : join (w :: x :: t) = (w ++ String underscore (join (x :: t)))%string.
Proof. reflexivity. Qed.

Lemma join_app : forall ws vs, ws <> [] -> vs <> [] -> join (ws ++ vs)%list = (join ws ++ String underscore (join vs))%string.
Proof.
  induction ws as [|w t IH]; intros vs Hw Hv; [congruence|].
  destruct t as [|x t].
  - cbn [app]. destruct vs as [|v vs]; [congruence|]. reflexivity.
  - change ((w :: x :: t) ++ vs)%list with (w :: x :: (t ++ vs)%list). rewrite !join_cons2.
    change (x :: (t ++ vs)%list) with ((x :: t) ++ vs)%list. rewrite (IH vs) by (congruence || assumption).
    rewrite sapp_assoc. reflexivity.
Qed.

Lemma join_concat : forall wss, Forall (fun ws => ws <> []) wss -> join (map join wss) = join (List.concat wss).
Proof.
  induction wss as [|ws r IH]; intros F; [reflexivity|].
  inversion F as [|? ? Hn Fr]; subst. cbn [map List.concat].
  destruct r as [|ws2 r].
  - cbn. rewrite app_nil_r. reflexivity.
  - change (map join (ws2 :: r)) with (join ws2 :: map join r). rewrite join_cons2.
    change (join ws2 :: map join r) with (map join (ws2 :: r)). rewrite (IH Fr).
    rewrite join_app; auto.
    inversion Fr; subst. cbn. destruct ws2; [congruence|discriminate].
Qed.

(* ---- raw identifiers ---- *)
Lemma unraw_eq s : unraw s = match s with
                             | String c (String d rest) => if (Ascii.eqb c "r"%char && Ascii.eqb d "#"%char)%bool then rest else s
                             | _ => s
                             end.
Proof.
  destruct s as [|c s']; [reflexivity|].
  destruct (Ascii.eqb_spec c "r"%char) as [->|Nc].
  - destruct s' as [|d rest]; [reflexivity|].
    destruct (Ascii.eqb_spec d "#"%char) as [->|Nd]; [reflexivity|].
    cbn [andb]. destruct d as [[] [] [] [] [] [] [] []]; try reflexivity. congruence.
  - destruct s' as [|d rest]; destruct c as [[] [] [] [] [] [] [] []]; try reflexivity; congruence.
Qed.

Lemma unraw_no_raw s : no_raw s = true -> unraw s = s.
Proof.
  rewrite unraw_eq. unfold no_raw. destruct s as [|c [|d r]]; try reflexivity.
  destruct (Ascii.eqb c "r"%char && Ascii.eqb d "#"%char)%bool; [discriminate|reflexivity].
Qed.

Lemma no_raw_ident_like s : no_raw s = true -> ident_like s = true.
Proof. intros N. unfold ident_like. rewrite (unraw_no_raw s N). exact N. Qed.

Lemma no_raw_app a b : no_raw a = true -> no_raw (a ++ String underscore b) = true.
Proof.
  destruct a as [|c [|d r]]; intros N.
  - destruct b; reflexivity.
  - cbn [append no_raw]. replace (Ascii.eqb underscore "#"%char) with false by reflexivity. rewrite andb_false_r. reflexivity.
  - exact N.
Qed.

Lemma forallb_imp {X} (f g : X -> bool) : (forall x, f x = true -> g x = true) -> forall l, forallb f l = true -> forallb g l = true.
Proof.
  intros I. induction l as [|x l IH]; [reflexivity|]. cbn [forallb]. intros H. apply andb_prop in H. destruct H as [H1 H2].
  rewrite (I x H1), (IH H2). reflexivity.
Qed.

Lemma map_unraw_id ws : forallb no_raw ws = true -> map unraw ws = ws.
Proof.
  induction ws as [|w t IH]; [reflexivity|]. cbn [forallb map]. intros H. apply andb_prop in H. destruct H as [H1 H2].
  rewrite (unraw_no_raw w H1), (IH H2). reflexivity.
Qed.

Lemma spec_words_join ws : forallb no_raw ws = true -> spec_words ws = join ws.
Proof.
  intros N. destruct ws as [|w [|x t]]; try reflexivity.
  change (spec_words (w :: x :: t)) with (join (map unraw (w :: x :: t))). rewrite (map_unraw_id _ N). reflexivity.
Qed.

Lemma spec_words_app ws vs : ws <> [] -> vs <> [] -> spec_words (ws ++ vs)%list = join (map unraw (ws ++ vs)%list).
Proof. destruct ws as [|a [|b r]], vs as [|c vs]; intros Hw Hv; try congruence; reflexivity. Qed.

(* the left fold of format_ident!("{}_{}", ..): only the head can lose a second `r#` *)
Lemma fold_raw : forall t a, no_raw (unraw a) = true -> t <> [] ->
  fold_left (fun acc x => unraw acc ++ "_" ++ unraw x) t a = join (unraw a :: map unraw t).
Proof.
  induction t as [|x t IH]; intros a Na Ht; [congruence|].
  cbn [fold_left]. destruct t as [|y t]; [reflexivity|].
  assert (Nf : no_raw (unraw a ++ "_" ++ unraw x) = true) by exact (no_raw_app (unraw a) (unraw x) Na).
  assert (Uf : unraw (unraw a ++ "_" ++ unraw x) = unraw a ++ "_" ++ unraw x) by exact (unraw_no_raw _ Nf).
  assert (Nf' : no_raw (unraw (unraw a ++ "_" ++ unraw x)) = true) by (rewrite Uf; exact Nf).
  assert (Hy : y :: t <> []) by discriminate.
  rewrite (IH _ Nf' Hy), Uf. cbn [map]. rewrite !join_cons2, sapp_assoc. reflexivity.
Qed.

Lemma combined_spec w t : ident_like w = true -> combined (w :: t) = spec_words (w :: t).
Proof.
  intros I. destruct t as [|x t]; [reflexivity|].
  change (combined (w :: x :: t)) with (fold_left (fun acc x0 => unraw acc ++ "_" ++ unraw x0) (x :: t) w).
  assert (Hx : x :: t <> []) by discriminate. rewrite (fold_raw _ _ I Hx). reflexivity.
Qed.

(* two or more words: the name never starts with `r#` *)
Lemma jraw_no_raw w t : ident_like w = true -> no_raw (join (map unraw (w :: t))) = true.
Proof.
  intros I. destruct t as [|x t]; [exact I|]. cbn [map]. rewrite join_cons2. apply no_raw_app. exact I.
Qed.

Lemma unraw_spec_words w t : ident_like w = true -> unraw (spec_words (w :: t)) = join (map unraw (w :: t)).
Proof.
  intros I. destruct t as [|x t]; [reflexivity|].
  change (spec_words (w :: x :: t)) with (join (map unraw (w :: x :: t))). apply unraw_no_raw, jraw_no_raw, I.
Qed.

Lemma spec_words_facts ws : ws <> [] -> (forall w, In w ws -> ident_like w = true) ->
  unraw (spec_words ws) = join (map unraw ws) /\ ident_like (spec_words ws) = true.
Proof.
  destruct ws as [|w t]; intros H I; [congruence|].
  assert (Iw : ident_like w = true) by (apply I; left; reflexivity).
  split; [exact (unraw_spec_words w t Iw)|]. unfold ident_like. rewrite (unraw_spec_words w t Iw). exact (jraw_no_raw w t Iw).
Qed.

(* without raw identifiers the fold is the plain join *)
Lemma combined_join : forall ws, ws <> [] -> forallb no_raw ws = true -> combined ws = join ws.
Proof.
  intros [|w t] H N; [congruence|]. rewrite <- (spec_words_join _ N). apply combined_spec.
  cbn [forallb] in N. apply andb_prop in N. exact (no_raw_ident_like w (proj1 N)).
Qed.

Lemma join_inj : forall ws ws', forallb no_us ws = true -> forallb no_us ws' = true -> ws <> [] -> ws' <> [] ->
  join ws = join ws' -> ws = ws'.
Proof.
  induction ws as [|w t IH]; intros ws' N N' H H' E; [congruence|].
  destruct ws' as [|w' t']; [congruence|].
  cbn [forallb] in N, N'. apply andb_prop in N. apply andb_prop in N'. destruct N as [Nw Nt], N' as [Nw' Nt'].
  destruct t as [|x t], t' as [|x' t'].
  - cbn in E. congruence.
  - rewrite join_cons2 in E. cbn [join] in E. rewrite E, no_us_app_us in Nw. discriminate.
  - rewrite join_cons2 in E. cbn [join] in E. rewrite <- E, no_us_app_us in Nw'. discriminate.
  - rewrite !join_cons2 in E. destruct (split_unique _ _ _ _ Nw Nw' E) as [-> E2].
    f_equal. apply IH; auto; congruence.
Qed.

(* ---- flat_pat against its specification ---- *)
Lemma flat_composite (l : list pat) :
  (forall q, flat_pat (PTupleStruct q l) = flat_pat (PTuple l)) /\
  (forall q f r, flat_pat (PStruct q f l r) = flat_pat (PTuple l)) /\
  flat_pat (PSlice l) = flat_pat (PTuple l) /\
  flat_pat (PTuple l) = match flat_list l with Some ws => FName (combined ws) | None => FAbort end.
Proof.
  split; [reflexivity|]. split; [reflexivity|]. split; [reflexivity|].
  cbn [flat_pat].
  match goal with |- match ?g l with _ => _ end = _ => assert (E : forall k, g k = flat_list k) end.
  { induction k as [|q t IH]; [reflexivity|]. cbn [flat_list]. rewrite <- IH. reflexivity. }
  rewrite E. reflexivity.
Qed.

Definition nonrest (p : pat) : bool := negb (is_rest p).
Definition spec_name (p : pat) : string := join (words p).

Definition flat_spec (p : pat) : fres :=
  if supported p then (if is_rest p then FSkip else FName (spec_name p)) else FAbort.

Lemma flat_list_spec l : Forall (fun p => flat_pat p = flat_spec p) l ->
  flat_list l = if forallb supported l then Some (map spec_name (filter nonrest l)) else None.
Proof.
  induction l as [|q t IH]; intros F; [reflexivity|].
  inversion F as [|? ? Hq Ft]; subst. cbn [flat_list forallb filter]. rewrite Hq, (IH Ft). unfold flat_spec, nonrest.
  destruct (supported q); cbn; [|reflexivity].
  destruct (is_rest q); cbn; destruct (forallb supported t); reflexivity.
Qed.

Lemma words_nonempty p : supported p = true -> is_rest p = false -> words p <> [].
Proof.
  destruct p; cbn; intros S R; try discriminate.
  all: destruct (flat_map words l); discriminate.
Qed.

Lemma flat_map_words_filter l : flat_map words l = List.concat (map words (filter nonrest l)).
Proof.
  induction l as [|q t IH]; [reflexivity|]. cbn [flat_map filter]. unfold nonrest at 1.
  destruct q; cbn [is_rest negb map List.concat words]; rewrite IH; reflexivity.
Qed.

(* the specification with raw binders: one word is kept as it is, two or more lose their `r#` *)
Definition spec_name_raw (p : pat) : string := spec_words (words p).
Definition flat_spec_raw (p : pat) : fres :=
  if supported p then (if is_rest p then FSkip else FName (spec_name_raw p)) else FAbort.

Lemma flat_list_spec_raw l : Forall (fun p => flat_pat p = flat_spec_raw p) l ->
  flat_list l = if forallb supported l then Some (map spec_name_raw (filter nonrest l)) else None.
Proof.
  induction l as [|q t IH]; intros F; [reflexivity|].
  inversion F as [|? ? Hq Ft]; subst. cbn [flat_list forallb filter]. rewrite Hq, (IH Ft). unfold flat_spec_raw, nonrest.
  destruct (supported q); cbn; [|reflexivity].
  destruct (is_rest q); cbn; destruct (forallb supported t); reflexivity.
Qed.

(* words are binders or `__`; binders are words *)
Lemma words_forallb (f : string -> bool) : f "__" = true -> forall p, forallb f (binders p) = true -> forallb f (words p) = true.
Proof.
  intros Hu.
  assert (L : forall l, Forall (fun p => forallb f (binders p) = true -> forallb f (words p) = true) l ->
              forallb f (flat_map binders l) = true -> forallb f (flat_map words l) = true).
  { induction l as [|q t IH]; intros F N; [reflexivity|]. inversion F as [|? ? Hq Ft]; subst. cbn [flat_map] in *.
    rewrite forallb_app in *. apply andb_prop in N. destruct N as [N1 N2]. rewrite (Hq N1), (IH Ft N2). reflexivity. }
  assert (C : forall l, Forall (fun p => forallb f (binders p) = true -> forallb f (words p) = true) l ->
              forallb f (flat_map binders l) = true ->
              forallb f (match flat_map words l with [] => ["__"] | ws => ws end) = true).
  { intros l F N. pose proof (L l F N) as W. destruct (flat_map words l); [cbn; rewrite Hu; reflexivity|exact W]. }
  induction p using pat_ind'; cbn [words binders]; auto.
Qed.

Lemma flat_map_words_forallb (f : string -> bool) : f "__" = true ->
  forall l, forallb f (flat_map binders l) = true -> forallb f (flat_map words l) = true.
Proof.
  intros Hu. induction l as [|q t IH]; intros N; [reflexivity|]. cbn [flat_map] in *.
  rewrite forallb_app in *. apply andb_prop in N. destruct N as [N1 N2]. rewrite (words_forallb f Hu q N1), (IH N2). reflexivity.
Qed.

Lemma binders_forallb (f : string -> bool) : forall p, forallb f (words p) = true -> forallb f (binders p) = true.
Proof.
  assert (L : forall l, Forall (fun p => forallb f (words p) = true -> forallb f (binders p) = true) l ->
              forallb f (flat_map words l) = true -> forallb f (flat_map binders l) = true).
  { induction l as [|q t IH]; intros F N; [reflexivity|]. inversion F as [|? ? Hq Ft]; subst. cbn [flat_map] in *.
    rewrite forallb_app in *. apply andb_prop in N. destruct N as [N1 N2]. rewrite (Hq N1), (IH Ft N2). reflexivity. }
  assert (C : forall l, Forall (fun p => forallb f (words p) = true -> forallb f (binders p) = true) l ->
              forallb f (match flat_map words l with [] => ["__"] | ws => ws end) = true ->
              forallb f (flat_map binders l) = true).
  { intros l F N. apply L; [exact F|]. destruct (flat_map words l); [reflexivity|exact N]. }
  induction p using pat_ind'; cbn [words binders]; auto.
Qed.

Lemma composite_name_raw l : forallb supported l = true -> forallb ident_like (flat_map binders l) = true ->
  combined (map spec_name_raw (filter nonrest l)) = spec_words (match flat_map words l with [] => ["__"] | ws => ws end).
Proof.
  intros S G.
  assert (GW : forallb ident_like (flat_map words l) = true) by (apply flat_map_words_forallb; [reflexivity|exact G]).
  assert (Q : forall q, In q (filter nonrest l) -> words q <> [] /\ (forall w, In w (words q) -> ident_like w = true)).
  { intros q Hq. apply filter_In in Hq. destruct Hq as [Hq Hn]. split.
    - rewrite forallb_forall in S. apply words_nonempty; [apply S, Hq|]. unfold nonrest in Hn. destruct (is_rest q); [discriminate|reflexivity].
    - intros w Hw. rewrite forallb_forall in GW. apply GW. apply in_flat_map. exists q. split; assumption. }
  rewrite flat_map_words_filter.
  destruct (filter nonrest l) as [|q1 [|q2 t]]; [reflexivity| |].
  - destruct (Q q1 (or_introl eq_refl)) as [N1 _]. cbn [map List.concat]. rewrite app_nil_r.
    destruct (words q1) eqn:E1; [congruence|]. rewrite <- E1. reflexivity.
  - destruct (Q q1 (or_introl eq_refl)) as [N1 I1]. destruct (Q q2 (or_intror (or_introl eq_refl))) as [N2 _].
    destruct (spec_words_facts _ N1 I1) as [_ IL1].
    cbn [map]. rewrite (combined_spec (spec_name_raw q1) _ IL1).
    change (spec_words (spec_name_raw q1 :: spec_name_raw q2 :: map spec_name_raw t))
      with (join (map unraw (map spec_name_raw (q1 :: q2 :: t)))).
    cbn [List.concat].
    assert (N2' : (words q2 ++ List.concat (map words t))%list <> []) by (destruct (words q2); [congruence|discriminate]).
    replace (match (words q1 ++ words q2 ++ List.concat (map words t))%list with [] => ["__"] | ws => ws end)
      with (words q1 ++ words q2 ++ List.concat (map words t))%list by (destruct (words q1); [congruence|reflexivity]).
    rewrite (spec_words_app _ _ N1 N2').
    change (words q1 ++ words q2 ++ List.concat (map words t))%list with (List.concat (map words (q1 :: q2 :: t))).
    rewrite concat_map.
    rewrite <- join_concat.
    + rewrite !map_map. f_equal. apply map_ext_in. intros q Hq. destruct (Q q Hq) as [Nq Iq]. exact (proj1 (spec_words_facts _ Nq Iq)).
    + apply Forall_forall. intros ws Hin. rewrite map_map in Hin. apply in_map_iff in Hin. destruct Hin as (q & <- & Hq).
      destruct (Q q Hq) as [Nq _]. destruct (words q); [congruence|discriminate].
Qed.

Lemma forall_guard (f : string -> bool) (R : pat -> Prop) l :
  Forall (fun p => forallb f (binders p) = true -> R p) l -> forallb f (flat_map binders l) = true -> Forall R l.
Proof.
  induction l as [|q t IH]; intros F G; [constructor|]. inversion F as [|? ? Hq Ft]; subst.
  cbn [flat_map] in G. rewrite forallb_app in G. apply andb_prop in G. destruct G as [G1 G2]. constructor; auto.
Qed.

(* MAIN: for binders that are identifiers (at most one `r#`), flat_pat is its raw-aware specification.
   The guard is needed: `(r#r#a, b, c)` is no token the parser produces and the fold strips its head twice
   (flat_pat_spec_raw_guard_needed below). *)
Theorem flat_pat_spec_raw : forall p, forallb ident_like (binders p) = true -> flat_pat p = flat_spec_raw p.
Proof.
  assert (C : forall l, Forall (fun p => forallb ident_like (binders p) = true -> flat_pat p = flat_spec_raw p) l ->
              forallb ident_like (flat_map binders l) = true -> flat_pat (PTuple l) = flat_spec_raw (PTuple l)).
  { intros l F G. destruct (flat_composite l) as (_ & _ & _ & ->). rewrite (flat_list_spec_raw l (forall_guard _ _ _ F G)).
    unfold flat_spec_raw. cbn [supported is_rest]. destruct (forallb supported l) eqn:S; [|reflexivity].
    unfold spec_name_raw at 2. cbn [words]. rewrite (composite_name_raw l S G). reflexivity. }
  induction p using pat_ind'; try reflexivity; cbn [binders]; intros G.
  - apply C; assumption.
  - destruct (flat_composite l) as (-> & _). rewrite (C l) by assumption. reflexivity.
  - destruct (flat_composite l) as (_ & -> & _). rewrite (C l) by assumption. reflexivity.
  - destruct (flat_composite l) as (_ & _ & -> & _). rewrite (C l) by assumption. reflexivity.
Qed.

Lemma spec_name_raw_plain p : forallb no_raw (binders p) = true -> spec_name_raw p = spec_name p.
Proof. intros G. unfold spec_name_raw, spec_name. apply spec_words_join. apply words_forallb; [reflexivity|exact G]. Qed.

(* without raw binders the name is the plain join of the words *)
Theorem flat_pat_spec : forall p, forallb no_raw (binders p) = true -> flat_pat p = flat_spec p.
Proof.
  intros p G. rewrite (flat_pat_spec_raw p (forallb_imp _ _ no_raw_ident_like _ G)).
  unfold flat_spec_raw, flat_spec. rewrite (spec_name_raw_plain p G). reflexivity.
Qed.

(* nested raw binders: ((r#a,), b) ; ((r#a, c), b) ; ((r#a,),) *)
Example flat_pat_raw_nested1 :
  flat_pat (PTuple [PTuple [PIdent false false "r#a"]; PIdent false false "b"]) = FName "a_b".
Proof. vm_compute. reflexivity. Qed.
Example flat_pat_raw_nested2 :
  flat_pat (PTuple [PTuple [PIdent false false "r#a"; PIdent false false "c"]; PIdent false false "b"]) = FName "a_c_b".
Proof. vm_compute. reflexivity. Qed.
Example flat_pat_raw_nested3 : flat_pat (PTuple [PTuple [PIdent false false "r#a"]]) = FName "r#a".
Proof. vm_compute. reflexivity. Qed.

(* name::combined_ident on the concrete inputs of the real code *)
Example combined_raw1 : combined ["a"; "r#type"] = "a_type". Proof. vm_compute. reflexivity. Qed.
Example combined_raw2 : combined ["r#type"; "b"] = "type_b". Proof. vm_compute. reflexivity. Qed.
Example combined_raw3 : combined ["r#type"] = "r#type". Proof. vm_compute. reflexivity. Qed.
Example combined_raw4 : combined ["r#type"; "r#match"; "c"] = "type_match_c". Proof. vm_compute. reflexivity. Qed.
Example combined_raw5 : combined ["a"; "b"; "__"] = "a_b___". Proof. vm_compute. reflexivity. Qed.

(* the guard of flat_pat_spec_raw is needed (a doubly raw head is stripped twice by the fold, once by the specification) ... *)
Example flat_pat_spec_raw_guard_needed :
  let p := PTuple [PIdent false false "r#r#a"; PIdent false false "b"; PIdent false false "c"] in
  flat_pat p = FName "a_b_c" /\ flat_spec_raw p = FName "r#a_b_c" /\ forallb ident_like (binders p) = false.
Proof. vm_compute. repeat split. Qed.
(* ... and so is the guard of flat_pat_spec (the plain join keeps the `r#`) *)
Example flat_pat_spec_unguarded_refuted :
  let p := PTuple [PIdent false false "r#a"; PIdent false false "b"] in
  flat_pat p = FName "a_b" /\ flat_spec p = FName "r#a_b" /\ forallb ident_like (binders p) = true.
Proof. vm_compute. repeat split. Qed.

(* ---- ref / mut ---- *)
Lemma strip_all_flat : forall p, flat_pat (strip_all p) = flat_pat p.
Proof.
  assert (L : forall l, Forall (fun p => flat_pat (strip_all p) = flat_pat p) l -> flat_list (map strip_all l) = flat_list l).
  { induction l as [|q t IH]; intros F; [reflexivity|]. inversion F; subst. cbn [map flat_list]. rewrite H1, IH by assumption. reflexivity. }
  induction p using pat_ind'; try reflexivity; cbn [strip_all].
  - destruct (flat_composite (map strip_all l)) as (_ & _ & _ & ->). destruct (flat_composite l) as (_ & _ & _ & ->). rewrite L by assumption. reflexivity.
  - destruct (flat_composite (map strip_all l)) as (-> & _ & _ & ->). destruct (flat_composite l) as (-> & _ & _ & ->). rewrite L by assumption. reflexivity.
  - destruct (flat_composite (map strip_all l)) as (_ & -> & _ & ->). destruct (flat_composite l) as (_ & -> & _ & ->). rewrite L by assumption. reflexivity.
  - destruct (flat_composite (map strip_all l)) as (_ & _ & -> & ->). destruct (flat_composite l) as (_ & _ & -> & ->). rewrite L by assumption. reflexivity.
Qed.

Lemma clear_ref_mut_flat p : match clear_ref_mut p with Some p' => flat_pat p' = flat_pat p | None => flat_pat p = FAbort end.
Proof. destruct p; reflexivity. Qed.

Lemma clear_ref_mut_ident p p' : clear_ref_mut p = Some p' -> is_ident p' = is_ident p.
Proof. destruct p; cbn; intros E; inversion E; reflexivity. Qed.

Lemma smem_In x l : smem x l = true <-> In x l.
Proof.
  unfold smem. rewrite existsb_exists. split.
  - intros (y & Hy & E). apply String.eqb_eq in E. subst. exact Hy.
  - intros H. exists x. split; [exact H|apply String.eqb_refl].
Qed.
Lemma smem_false x l : smem x l = false <-> ~ In x l.
Proof. rewrite <- smem_In. destruct (smem x l); split; congruence. Qed.

(* a reserved name contains no `#`, so a pattern whose plain name is reserved has no raw binder *)
Fixpoint no_hash (s : string) : bool :=
  match s with EmptyString => true | String c r => negb (Ascii.eqb c "#"%char) && no_hash r end.
Lemma no_hash_app a b : no_hash (a ++ b) = no_hash a && no_hash b.
Proof. induction a as [|c a IH]; [reflexivity|]. cbn [append no_hash]. rewrite IH, andb_assoc. reflexivity. Qed.
Lemma no_hash_join ws : no_hash (join ws) = true -> forallb no_hash ws = true.
Proof.
  induction ws as [|w t IH]; [reflexivity|]. destruct t as [|x t].
  - cbn [join forallb]. intros ->. reflexivity.
  - rewrite join_cons2, no_hash_app. intros H. apply andb_prop in H. destruct H as [Hw Hr].
    cbn [no_hash] in Hr. apply andb_prop in Hr. destruct Hr as [_ Hr].
    cbn [forallb]. rewrite Hw. exact (IH Hr).
Qed.
Lemma no_hash_no_raw s : no_hash s = true -> no_raw s = true.
Proof.
  destruct s as [|c [|d r]]; try reflexivity. cbn [no_hash no_raw]. intros H.
  destruct (Ascii.eqb d "#"%char); [|rewrite andb_false_r; reflexivity].
  cbn [negb andb] in H. rewrite andb_false_r in H. discriminate.
Qed.
Lemma reserved_no_raw p : In (spec_name p) reserved_flat -> forallb no_raw (binders p) = true.
Proof.
  intros R. apply binders_forallb. apply (forallb_imp _ _ no_hash_no_raw). apply no_hash_join. fold (spec_name p).
  destruct R as [E|[E|[E|[]]]]; rewrite <- E; reflexivity.
Qed.

Section Args.
Context {T : Type}.
Notation params := (list (pat * T)).
Definition names (ps : params) : list string := map (fun q => spec_name (fst q)) ps.
(* a flattened (non-identifier) pattern does not produce a name the generated code binds itself *)
Definition no_flat_reserved (ps : params) : Prop :=
  Forall (fun q => is_ident (fst q) = false -> ~ In (spec_name (fst q)) reserved_flat) ps.

(* stripping `ref` / `mut` first never changes what the flattening produces *)
Lemma clean_flat_from : forall (ps ps' : params) seen, clean_pats ps = Some ps' -> flat_args_from seen ps' = flat_args_from seen ps.
Proof.
  induction ps as [|[p t] r IH]; intros ps' seen H; cbn [clean_pats] in H.
  - injection H as <-. reflexivity.
  - pose proof (clear_ref_mut_flat p) as F. pose proof (clear_ref_mut_ident p) as I.
    destruct (clear_ref_mut p) as [p'|]; [|discriminate]. destruct (clean_pats r) as [r'|] eqn:E; [|discriminate].
    injection H as <-. cbn [flat_args_from]. rewrite F, (I p' eq_refl).
    destruct (flat_pat p); try reflexivity. destruct (smem s seen); [reflexivity|].
    destruct (negb (is_ident p) && smem s reserved_flat); [reflexivity|]. rewrite (IH r' (s :: seen) eq_refl). reflexivity.
Qed.

Lemma clean_none_not_ok : forall (ps : params), clean_pats ps = None -> forall seen qs, flat_args_from seen ps <> AOk qs.
Proof.
  induction ps as [|[p t] r IH]; intros H seen qs; cbn [clean_pats] in H; [discriminate|].
  pose proof (clear_ref_mut_flat p) as F. cbn [flat_args_from].
  destruct (clear_ref_mut p) as [p'|].
  - destruct (clean_pats r) as [r'|]; [discriminate|].
    destruct (flat_pat p); try discriminate. destruct (smem s seen); [discriminate|].
    destruct (negb (is_ident p) && smem s reserved_flat); [discriminate|].
    destruct (flat_args_from (s :: seen) r) eqn:E; try discriminate. exfalso. exact (IH eq_refl _ _ E).
  - rewrite F. discriminate.
Qed.

Theorem live_args_ok : forall (ps : params) qs, live_args ps = AOk qs <-> flat_arguments ps = AOk qs.
Proof.
  intros ps qs. unfold live_args, flat_arguments. destruct (clean_pats ps) as [ps'|] eqn:E.
  - rewrite (clean_flat_from ps ps' [] E). tauto.
  - split; [discriminate|]. intros H. exfalso. exact (clean_none_not_ok ps E _ _ H).
Qed.

(* one identifier per parameter, same position, same type *)
Lemma flat_from_positions : forall (ps : params) seen qs, flat_args_from seen ps = AOk qs ->
  List.length qs = List.length ps /\ map snd qs = map snd ps /\
  forall i p t, nth_error ps i = Some (p, t) -> exists s, flat_pat p = FName s /\ nth_error qs i = Some (s, t).
Proof.
  induction ps as [|[p t] r IH]; intros seen qs H; cbn [flat_args_from] in H.
  - injection H as <-. repeat split; auto. intros [|i] p t H; discriminate H.
  - destruct (flat_pat p) as [s| |] eqn:E; try discriminate. destruct (smem s seen); [discriminate|].
    destruct (negb (is_ident p) && smem s reserved_flat); [discriminate|].
    destruct (flat_args_from (s :: seen) r) as [q| |] eqn:Er; try discriminate.
    injection H as <-. destruct (IH _ q Er) as (L & M & N). cbn. repeat split; [congruence|congruence|].
    intros [|i] p0 t0 Hn; cbn in Hn.
    + injection Hn as <- <-. exists s. auto.
    + exact (N i p0 t0 Hn).
Qed.

Lemma guard_cons (f : string -> bool) p (t : T) (r : params) :
  forallb f (flat_map binders (map fst ((p, t) :: r))) = true ->
  forallb f (binders p) = true /\ forallb f (flat_map binders (map fst r)) = true.
Proof. cbn [map fst flat_map]. rewrite forallb_app. intros G. apply andb_prop in G. exact G. Qed.

(* with raw binders (each at most one `r#`): the identifiers are the raw-aware names *)
Definition names_raw (ps : params) : list string := map (fun q => spec_name_raw (fst q)) ps.
Lemma flat_from_names_raw : forall (ps : params) seen qs, forallb ident_like (flat_map binders (map fst ps)) = true ->
  flat_args_from seen ps = AOk qs -> map fst qs = names_raw ps.
Proof.
  induction ps as [|[p t] r IH]; intros seen qs G H; cbn [flat_args_from] in H.
  - injection H as <-. reflexivity.
  - apply guard_cons in G. destruct G as [Gp Gr].
    rewrite (flat_pat_spec_raw p Gp) in H. unfold flat_spec_raw in H. destruct (supported p); [|discriminate].
    destruct (is_rest p); [discriminate|]. destruct (smem (spec_name_raw p) seen); [discriminate|].
    destruct (negb (is_ident p) && smem (spec_name_raw p) reserved_flat); [discriminate|].
    destruct (flat_args_from (spec_name_raw p :: seen) r) as [q| |] eqn:Er; try discriminate.
    injection H as <-. cbn. rewrite (IH _ q Gr Er). reflexivity.
Qed.

(* the guard is needed: `(r#a, b)` is flattened to `a_b`, while names gives `r#a_b` *)
Lemma flat_from_names : forall (ps : params) seen qs, forallb no_raw (flat_map binders (map fst ps)) = true ->
  flat_args_from seen ps = AOk qs -> map fst qs = names ps.
Proof.
  induction ps as [|[p t] r IH]; intros seen qs G H; cbn [flat_args_from] in H.
  - injection H as <-. reflexivity.
  - apply guard_cons in G. destruct G as [Gp Gr].
    rewrite (flat_pat_spec p Gp) in H. unfold flat_spec in H. destruct (supported p); [|discriminate].
    destruct (is_rest p); [discriminate|]. destruct (smem (spec_name p) seen); [discriminate|].
    destruct (negb (is_ident p) && smem (spec_name p) reserved_flat); [discriminate|].
    destruct (flat_args_from (spec_name p :: seen) r) as [q| |] eqn:Er; try discriminate.
    injection H as <-. cbn. rewrite (IH _ q Gr Er). reflexivity.
Qed.

(* the repaired flattening succeeds exactly when every pattern is of a documented form, the identifiers are pairwise distinct
   (and new w.r.t. [seen]) and no flattened pattern produces a reserved name; otherwise it is a diagnostic *)
Definition ok_params (seen : list string) (ps : params) : Prop :=
  forallb (fun q => supported_param (fst q)) ps = true /\ NoDup (names ps) /\ (forall x, In x (names ps) -> ~ In x seen) /\ no_flat_reserved ps.

Theorem flat_from_ok_iff : forall (ps : params) seen, forallb no_raw (flat_map binders (map fst ps)) = true ->
  ((exists qs, flat_args_from seen ps = AOk qs) <-> ok_params seen ps).
Proof.
  unfold ok_params, no_flat_reserved. induction ps as [|[p t] r IH]; intros seen G.
  - cbn. split; [intros _; split; [reflexivity|]; split; [constructor|]; split; [intros x []|constructor]|intros _; eauto].
  - apply guard_cons in G. destruct G as [Gp Gr]. pose proof (fun seen' => IH seen' Gr) as IH'. clear IH. rename IH' into IH.
    cbn [flat_args_from forallb names map fst]. rewrite (flat_pat_spec p Gp). unfold flat_spec, supported_param.
    destruct (supported p); cbn [andb]; [|split; [intros (qs & H); discriminate|intros (H & _); discriminate]].
    destruct (is_rest p); cbn [negb andb]; [split; [intros (qs & H); discriminate|intros (H & _); discriminate]|].
    destruct (smem (spec_name p) seen) eqn:S.
    { split; [intros (qs & H); discriminate|]. intros (_ & _ & D & _). exfalso. apply (D (spec_name p)); [left; reflexivity|apply smem_In, S]. }
    apply smem_false in S.
    destruct (is_ident p) eqn:Ii; cbn [negb andb].
    + specialize (IH (spec_name p :: seen)). split.
      * intros (qs & H). destruct (flat_args_from (spec_name p :: seen) r) as [q| |] eqn:Er; try discriminate.
        destruct (proj1 IH (ex_intro _ q eq_refl)) as (A1 & A2 & A3 & A4).
        split; [exact A1|]. split; [|split].
        -- constructor; [|exact A2]. intros Hin. apply (A3 _ Hin). left. reflexivity.
        -- intros x [<-|Hx]; [exact S|]. intros Hs. apply (A3 x Hx). right. exact Hs.
        -- constructor; [cbn; congruence|exact A4].
      * intros (A1 & A2 & A3 & A4). inversion A2 as [|? ? N1 N2]; subst. inversion A4 as [|? ? R1 R2]; subst.
        destruct (proj2 IH) as (q & Hq).
        { split; [exact A1|]. split; [exact N2|]. split; [|exact R2]. intros x Hx [<-|Hs]; [contradiction|]. apply (A3 x); [right; exact Hx|exact Hs]. }
        rewrite Hq. eauto.
    + destruct (smem (spec_name p) reserved_flat) eqn:R.
      { split; [intros (qs & H); discriminate|]. intros (_ & _ & _ & F). inversion F as [|? ? R1 R2]; subst. exfalso. apply (R1 Ii). apply smem_In, R. }
      apply smem_false in R. specialize (IH (spec_name p :: seen)). split.
      * intros (qs & H). destruct (flat_args_from (spec_name p :: seen) r) as [q| |] eqn:Er; try discriminate.
        destruct (proj1 IH (ex_intro _ q eq_refl)) as (A1 & A2 & A3 & A4).
        split; [exact A1|]. split; [|split].
        -- constructor; [|exact A2]. intros Hin. apply (A3 _ Hin). left. reflexivity.
        -- intros x [<-|Hx]; [exact S|]. intros Hs. apply (A3 x Hx). right. exact Hs.
        -- constructor; [cbn; intros _; exact R|exact A4].
      * intros (A1 & A2 & A3 & A4). inversion A2 as [|? ? N1 N2]; subst. inversion A4 as [|? ? R1 R2]; subst.
        destruct (proj2 IH) as (q & Hq).
        { split; [exact A1|]. split; [exact N2|]. split; [|exact R2]. intros x Hx [<-|Hs]; [contradiction|]. apply (A3 x); [right; exact Hx|exact Hs]. }
        rewrite Hq. eauto.
Qed.

(* the identifiers of a successful flattening are pairwise distinct - unconditionally, raw binders included: this needs no
   specification of the names, only the `seen` bookkeeping of check_flat_ident *)
Lemma flat_from_nodup : forall (ps : params) seen qs, flat_args_from seen ps = AOk qs ->
  NoDup (map fst qs) /\ (forall x, In x (map fst qs) -> ~ In x seen).
Proof.
  induction ps as [|[p t] r IH]; intros seen qs H; cbn [flat_args_from] in H.
  - injection H as <-. split; [constructor|intros x []].
  - destruct (flat_pat p) as [s| |]; try discriminate. destruct (smem s seen) eqn:S; [discriminate|]. apply smem_false in S.
    destruct (negb (is_ident p) && smem s reserved_flat); [discriminate|].
    destruct (flat_args_from (s :: seen) r) as [q| |] eqn:Er; try discriminate. injection H as <-.
    destruct (IH _ _ Er) as [N D]. cbn [map fst]. split.
    + constructor; [|exact N]. intros Hin. apply (D s Hin). left. reflexivity.
    + intros x [<-|Hx]; [exact S|]. intros Hs. apply (D x Hx). right. exact Hs.
Qed.

Lemma flat_from_not_reserved : forall (ps : params) seen qs, flat_args_from seen ps = AOk qs ->
  Forall (fun q => is_ident (fst q) = false -> exists s, flat_pat (fst q) = FName s /\ ~ In s reserved_flat) ps.
Proof.
  induction ps as [|[p t] r IH]; intros seen qs H; cbn [flat_args_from] in H; [constructor|].
  destruct (flat_pat p) as [s| |] eqn:E; try discriminate. destruct (smem s seen); [discriminate|].
  destruct (negb (is_ident p) && smem s reserved_flat) eqn:B; [discriminate|].
  destruct (flat_args_from (s :: seen) r) as [q| |] eqn:Er; try discriminate.
  constructor; [|exact (IH _ _ Er)]. cbn [fst]. intros I. rewrite I in B. cbn [negb andb] in B.
  exists s. split; [exact E|]. apply smem_false, B.
Qed.

Theorem flat_distinct : forall (ps : params) qs, flat_arguments ps = AOk qs -> NoDup (map fst qs) /\ no_flat_reserved ps.
Proof.
  intros ps qs H. split; [exact (proj1 (flat_from_nodup ps [] qs H))|].
  unfold no_flat_reserved. eapply Forall_impl; [|exact (flat_from_not_reserved ps [] qs H)].
  intros [p t] K I R. cbn [fst] in *. destruct (K I) as (s & E & NR).
  rewrite (flat_pat_spec p (reserved_no_raw p R)) in E. unfold flat_spec in E.
  destruct (supported p); [|discriminate]. destruct (is_rest p); [discriminate|]. injection E as <-. exact (NR R).
Qed.
End Args.

(* ---- distinct binders give distinct identifiers (guarded) ---- *)
Lemma words_binders : forall p, forallb no_us (words p) = true -> words p = binders p.
Proof.
  assert (L : forall l, Forall (fun p => forallb no_us (words p) = true -> words p = binders p) l ->
              forallb no_us (flat_map words l) = true -> flat_map words l = flat_map binders l).
  { induction l as [|q t IH]; intros F N; [reflexivity|]. inversion F; subst. cbn [flat_map] in *.
    rewrite forallb_app in N. apply andb_prop in N. destruct N. rewrite H1, IH; auto. }
  assert (C : forall l, Forall (fun p => forallb no_us (words p) = true -> words p = binders p) l ->
              forallb no_us (match flat_map words l with [] => ["__"] | ws => ws end) = true ->
              match flat_map words l with [] => ["__"] | ws => ws end = flat_map binders l).
  { intros l F N. destruct (flat_map words l) eqn:E; [discriminate N|]. rewrite <- E in *. apply L; assumption. }
  induction p using pat_ind'; try reflexivity; cbn [words binders]; apply C; assumption.
Qed.

Lemma nodup_app_disjoint {X} (a b : list X) x : NoDup (a ++ b)%list -> In x a -> In x b -> False.
Proof.
  induction a as [|y a IH]; cbn; intros N Ha Hb; [contradiction|].
  inversion N; subst. destruct Ha as [->|Ha]; [apply H1, in_or_app; auto|]. apply IH; auto.
Qed.
Lemma nodup_app_r {X} (a b : list X) : NoDup (a ++ b)%list -> NoDup b.
Proof. induction a; cbn; intros N; [assumption|]. inversion N; auto. Qed.

Lemma nodup_concat_nonempty {X} (ls : list (list X)) : NoDup (List.concat ls) -> Forall (fun l => l <> []) ls -> NoDup ls.
Proof.
  induction ls as [|l r IH]; intros N F; [constructor|]. inversion F; subst. cbn in N. constructor.
  - intros Hin. destruct l as [|h l]; [congruence|].
    apply (nodup_app_disjoint _ _ h N); [left; reflexivity|]. apply in_concat. exists (h :: l). split; [assumption|left; reflexivity].
  - apply IH; [exact (nodup_app_r _ _ N)|assumption].
Qed.

Lemma nodup_map_inj {X Y} (f : X -> Y) (l : list X) :
  NoDup l -> (forall x y, In x l -> In y l -> f x = f y -> x = y) -> NoDup (map f l).
Proof.
  induction l as [|a l IH]; intros N I; [constructor|]. inversion N; subst. cbn. constructor.
  - intros Hin. apply in_map_iff in Hin. destruct Hin as (y & E & Hy).
    assert (y = a) by (apply I; cbn; auto). subst. contradiction.
  - apply IH; auto. intros x y Hx Hy. apply I; cbn; auto.
Qed.

Section Distinct.
Context {T : Type}.
Lemma names_distinct_guarded : forall (ps : list (pat * T)), forallb (fun q => supported_param (fst q)) ps = true ->
  plain_words (map fst ps) = true -> NoDup (flat_map binders (map fst ps)) -> NoDup (names ps).
Proof.
  intros ps S P N. unfold names.
  unfold plain_words in P. rewrite forallb_forall in P, S.
  assert (W : forall q, In q ps -> words (fst q) = binders (fst q)).
  { intros q Hq. apply words_binders, P, in_map, Hq. }
  replace (map (fun q => spec_name (fst q)) ps) with (map join (map (fun q => words (fst q)) ps)) by (rewrite map_map; reflexivity).
  assert (NE : Forall (fun l => l <> []) (map (fun q => words (fst q)) ps)).
  { apply Forall_forall. intros l Hl. apply in_map_iff in Hl. destruct Hl as (q & <- & Hq).
    specialize (S q Hq). unfold supported_param in S. apply andb_prop in S. destruct S as [S1 S2].
    apply words_nonempty; [assumption|]. destruct (is_rest (fst q)); [discriminate|reflexivity]. }
  apply nodup_map_inj.
  - apply nodup_concat_nonempty; [|exact NE].
    replace (List.concat (map (fun q => words (fst q)) ps)) with (flat_map binders (map fst ps)); [exact N|].
    rewrite flat_map_concat_map, map_map. f_equal. apply map_ext_in. intros q Hq. symmetry. apply W, Hq.
  - intros x y Hx Hy E. apply in_map_iff in Hx. apply in_map_iff in Hy.
    destruct Hx as (qx & <- & Hqx), Hy as (qy & <- & Hqy).
    apply join_inj; auto.
    + apply P, in_map, Hqx.
    + apply P, in_map, Hqy.
    + rewrite Forall_forall in NE. apply NE, in_map_iff. eauto.
    + rewrite Forall_forall in NE. apply NE, in_map_iff. eauto.
Qed.

(* no spurious diagnostic: documented patterns, distinct `_`-free binders, no empty composite pattern, no flattened reserved name *)
Theorem flat_no_spurious : forall (ps : list (pat * T)), forallb no_raw (flat_map binders (map fst ps)) = true ->
  forallb (fun q => supported_param (fst q)) ps = true ->
  plain_words (map fst ps) = true -> NoDup (flat_map binders (map fst ps)) -> no_flat_reserved ps ->
  exists qs, flat_arguments ps = AOk qs.
Proof.
  intros ps G S P N R. apply (flat_from_ok_iff ps [] G). repeat split; auto.
  apply names_distinct_guarded; assumption.
Qed.
End Distinct.

(* the former counterexamples of "distinct binders give distinct identifiers" are now naming-conflict diagnostics *)
Definition collide_witness : list (pat * unit) :=
  [(PTuple [PIdent false false "a"; PIdent false false "b"], tt); (PIdent false false "a_b", tt)].
Definition collide_witness2 : list (pat * unit) := [(PTuple [PRest], tt); (PSlice [PRest], tt)].
Definition collide_witness3 : list (pat * unit) := [(PTuple [PIdent false false "inter"; PIdent false false "send"], tt)].
Lemma collide_diag : live_args collide_witness = AConflict "a_b" /\ NoDup (flat_map binders (map fst collide_witness))
  /\ live_args collide_witness2 = AConflict "__" /\ live_args collide_witness3 = AConflict "inter_send".
Proof. repeat split; try (vm_compute; reflexivity). cbn. repeat constructor; cbn; intuition discriminate. Qed.

(* a plain parameter named `actor` (the former internal binder) is an ordinary identifier *)
Example actor_is_plain : live_args [(PIdent false false "actor", tt); (PTuple [PIdent false true "actor2"], tt)] = AOk [("actor", tt); ("actor2", tt)].
Proof. vm_compute. reflexivity. Qed.

(* the hypotheses of flat_no_spurious are satisfiable by a non-trivial parameter list *)
Example flat_distinct_example :
  let ps := [(PTuple [PIdent true true "k"; PRest; PTupleStruct "T" [PIdent false false "actor"]], 1);
             (PStruct "P" ["a"; "b"] [PIdent false false "a"; PSlice [PIdent false true "c"; PRest]] true, 2);
             (PIdent false true "msg", 3)] in
  flat_arguments ps = AOk [("k_actor", 1); ("a_c", 2); ("msg", 3)]
  /\ forallb (fun q => supported_param (fst q)) ps = true
  /\ plain_words (map fst ps) = true /\ NoDup (flat_map binders (map fst ps)) /\ no_flat_reserved ps.
Proof.
  cbn. repeat split.
  - repeat constructor; cbn; intuition discriminate.
  - unfold no_flat_reserved. repeat constructor; cbn; intuition discriminate.
Qed.

(* the no_raw guard of flat_from_names / flat_from_ok_iff / flat_no_spurious is needed: with raw binders the plain names
   (`r#a_b`, `a_r#b`) are distinct and `_`-free word by word, yet both patterns are flattened to `a_b` *)
Definition raw_witness : list (pat * unit) :=
  [(PTuple [PIdent false false "r#a"; PIdent false false "b"], tt); (PTuple [PIdent false false "a"; PIdent false false "r#b"], tt)].
Example raw_guard_needed :
  flat_arguments raw_witness = AConflict "a_b" /\ names raw_witness = ["r#a_b"; "a_r#b"]
  /\ forallb (fun q => supported_param (fst q)) raw_witness = true /\ plain_words (map fst raw_witness) = true
  /\ NoDup (flat_map binders (map fst raw_witness)) /\ no_flat_reserved raw_witness
  /\ forallb ident_like (flat_map binders (map fst raw_witness)) = true.
Proof.
  repeat split; try (vm_compute; reflexivity).
  - cbn. repeat constructor; cbn; intuition discriminate.
  - unfold no_flat_reserved. repeat constructor; cbn; intuition discriminate.
Qed.
(* and in the other direction: the flattening succeeds with identifiers `a_b`, `r#a_b` while the plain names repeat *)
Example raw_guard_needed2 :
  let ps := [(PTuple [PIdent false false "r#a"; PIdent false false "b"], tt); (PIdent false false "r#a_b", tt)] in
  flat_arguments ps = AOk [("a_b", tt); ("r#a_b", tt)] /\ names ps = ["r#a_b"; "r#a_b"] /\ names_raw ps = ["a_b"; "r#a_b"].
Proof. vm_compute. repeat split. Qed.
