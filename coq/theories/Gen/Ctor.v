(* C04, construction: the generated constructor as a statement list executed in order; `?` returns early.
   The statement order is the one recorded from the real expansion (cb_order). *)
From Coq Require Import List String Bool Arith.
Import ListNotations.
Open Scope string_scope.

Section Ctor.
Context {A E : Type}.   (* actor value, failure value (the None / Err payload) *)

Inductive cstmt := SUser | SDebut | SPhantom | SChan | SSpawn.
Definition stmt_of (tag : string) : option cstmt :=
  if String.eqb tag "user" then Some SUser else if String.eqb tag "debut" then Some SDebut
  else if String.eqb tag "phantom" then Some SPhantom else if String.eqb tag "chan" then Some SChan
  else if String.eqb tag "spawn" then Some SSpawn else None.

Record cstate := { user_runs : nat; chans : nat; threads : nat; have_actor : option A }.
Inductive cresult := Built (s : cstate) | Failed (e : E) (s : cstate) | Stuck.

(* user constructor outcome: success with the actor value or failure value; `try_` = the `?` is applied *)
Fixpoint exec (try_ : bool) (outcome : A + E) (l : list cstmt) (s : cstate) : cresult :=
  match l with
  | [] => match have_actor s with Some _ => Built s | None => Stuck end
  | SUser :: t =>
      let s1 := {| user_runs := S (user_runs s); chans := chans s; threads := threads s; have_actor := have_actor s |} in
      match outcome with
      | inl a => exec try_ outcome t {| user_runs := user_runs s1; chans := chans s1; threads := threads s1; have_actor := Some a |}
      | inr e => if try_ then Failed e s1 else Stuck   (* without `?` a failing constructor has no value to go on with *)
      end
  | SDebut :: t | SPhantom :: t => exec try_ outcome t s
  | SChan :: t => exec try_ outcome t {| user_runs := user_runs s; chans := S (chans s); threads := threads s; have_actor := have_actor s |}
  | SSpawn :: t =>
      match have_actor s, chans s with
      | Some _, S _ => exec try_ outcome t {| user_runs := user_runs s; chans := chans s; threads := S (threads s); have_actor := have_actor s |}
      | _, _ => Stuck    (* play needs the actor value and the receiver *)
      end
  end.
Definition run_ctor try_ outcome l := exec try_ outcome l {| user_runs := 0; chans := 0; threads := 0; have_actor := None |}.

Definition core (l : list cstmt) : list cstmt := filter (fun x => match x with SDebut | SPhantom => false | _ => true end) l.
Definition shape_ok (l : list cstmt) : Prop := core l = [SUser; SChan; SSpawn] /\ hd SDebut l = SUser.

Lemma exec_skip try_ o l s : exec try_ o l s = exec try_ o (core l) s.
Proof.
  revert s. induction l as [|x l IH]; intros s; [reflexivity|].
  destruct x; cbn; try apply IH.
  - destruct o; [apply IH|reflexivity].
  - destruct (have_actor s), (chans s); try reflexivity. apply IH.
Qed.

(* the user's constructor runs exactly once; on failure its value comes back unchanged and nothing was started;
   on success exactly one channel and one thread exist *)
Theorem ctor_once : forall try_ o l, shape_ok l ->
  match o with
  | inl a => run_ctor try_ o l = Built {| user_runs := 1; chans := 1; threads := 1; have_actor := Some a |}
  | inr e => try_ = true -> run_ctor try_ o l = Failed e {| user_runs := 1; chans := 0; threads := 0; have_actor := None |}
  end.
Proof.
  intros try_ o l [Hc _]. unfold run_ctor. rewrite exec_skip, Hc. destruct o; cbn; [reflexivity|intros ->; reflexivity].
Qed.
End Ctor.
