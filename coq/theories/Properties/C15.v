(* C15 -- edit withholds exactly the named parts; emitted + withheld = full model.
   Statements only; models in Gen/Edit.v, proofs in Gen/EditSplitThm.v, Gen/EditParseThm.v, Gen/EditC15.v.

   A model struct is (definition?, methods, traits) with named elements (`part`); `tuples` is one half of the parsed
   EditActor: ((def, def-to-file), (methods?, all-to-file), (traits?, all-to-file)); `split_edit` returns
   (kept = what the macro emits, rem = what it withholds, tf = what it hands to the file writer).
   `named spec n`  : `imp` / `trt` without a list names everything, with a list exactly the listed names.
   `marked spec n` : the section, or this name, stands inside a file(..) wrapper. *)
From Coq Require Import List String Bool Permutation.
Import ListNotations.
From IT Require Import Gen.Edit Gen.EditSplitThm Gen.EditParseThm Gen.EditC15.
Open Scope string_scope.

(* emitted + withheld = full model (nothing lost, nothing in both, order of the emitted part kept);
   withheld = exactly the named parts; to-file = exactly the file-marked withheld parts *)
Theorem C15_partition : forall (A : Type) (t : tuples) (p kept rem tf : part A),
  part_nodup A p -> split_edit t p = Ok (kept, rem, tf) ->
  let '(d, i, r) := t in
     p_def kept = (if fst d then None else p_def p)
  /\ p_def rem = (if fst d then p_def p else None)
  /\ p_def tf = (if snd d then p_def rem else None)
  /\ p_mets kept = filter (fun x => negb (named i (fst x))) (p_mets p)
  /\ Permutation (p_mets rem) (filter (fun x => named i (fst x)) (p_mets p))
  /\ p_mets tf = filter (fun x => marked i (fst x)) (p_mets rem)
  /\ Permutation (p_mets kept ++ p_mets rem) (p_mets p)
  /\ p_trts kept = filter (fun x => negb (named r (fst x))) (p_trts p)
  /\ Permutation (p_trts rem) (filter (fun x => named r (fst x)) (p_trts p))
  /\ p_trts tf = filter (fun x => marked r (fst x)) (p_trts rem)
  /\ Permutation (p_trts kept ++ p_trts rem) (p_trts p).
Proof. exact split_edit_spec. Qed.

(* no element is both emitted and withheld *)
Theorem C15_disjoint : forall (A : Type) (spec : nlist * bool) (l kept rem tf : list (string * A)),
  NoDup (names A l) -> select spec l = Ok (kept, rem, tf) -> forall n, In n (names A kept) -> ~ In n (names A rem).
Proof. exact select_disjoint. Qed.

(* a listed name that matches nothing is rejected ... *)
Theorem C15_unknown_rejected : forall (A : Type) (t : tuples) (p : part A) (n : string),
  let '(_, i, r) := t in
  (In n (listed i) /\ ~ In n (names A (p_mets p))) \/ (In n (listed r) /\ ~ In n (names A (p_trts p))) ->
  exists d, split_edit t p = Diag d.
Proof. exact split_edit_unknown_rejected. Qed.

(* ... and nothing else is: the splitter only ever complains about a listed identifier, and every specification the parser
   accepted whose names exist in the struct is carried out *)
Theorem C15_only_unknown_rejected : forall (A : Type) (spec : nlist * bool) (l : list (string * A)) d,
  select spec l = Diag d -> exists n, d = DUnknownIdent n /\ In n (listed spec).
Proof. exact select_diag_only_unknown. Qed.

Theorem C15_known_accepted : forall (A : Type) (m : meta) (e : edit_actor) (p : part A) (sol : bool),
  edit_parse m = Ok e ->
  let '(_, i, r) := get_t sol e in
  (forall n, In n (listed i) -> In n (names A (p_mets p))) -> (forall n, In n (listed r) -> In n (names A (p_trts p))) ->
  exists x, split_edit (get_t sol e) p = Ok x.
Proof. exact accepted_names_known. Qed.

(* without `edit` the emitted code is the full model and nothing goes to the file *)
Theorem C15_no_edit : forall (A : Type) (p : part A), split_edit empty_t p = Ok (p, Build_part None [] [], Build_part None [] []).
Proof. exact no_edit_identity. Qed.

(* the file writer receives exactly the items of the to-file parts (script first, then live), the emitted code exactly the kept ones *)
Theorem C15_file_only : forall (A : Type) e (s lv : part A) code edit,
  actor_code_edit e s lv = Ok (code, edit) ->
  exists sk sr sf lk lr lf,
    split_edit (ea_script e) s = Ok (sk, sr, sf) /\ split_edit (ea_live e) lv = Ok (lk, lr, lf)
    /\ code = (items_of sk ++ items_of lk)%list /\ edit = (items_of sf ++ items_of lf)%list.
Proof. exact actor_code_edit_inv. Qed.

(* the parser accepts exactly the legal specifications of the documented grammar (any nesting, any number of names,
   file(..) at every level) and gives them their declarative meaning; illegal ones (double declaration of script / live /
   def / imp / trt / a name, nested file) and those with an empty list (`edit()`, `script()`, `imp()`, `file()`) are rejected *)
Theorem C15_parse_grammar : forall e : edit_ast,
  forget (edit_parse (render e)) = if nonempty e && legal e then Some (denote e) else None.
Proof. exact parse_grammar. Qed.

Theorem C15_pipeline : forall (A : Type) (e : edit_ast) (s l : part A),
  nonempty e = true -> legal e = true ->
  (e' <- edit_parse (render e) ;; actor_code_edit e' s l) = actor_code_edit (denote e) s l.
Proof. exact pipeline_legal. Qed.

(* unknown keys are rejected wherever they stand; file(..) directly inside file(..) is rejected *)
Theorem C15_unknown_key_top : forall (l : list meta) (m : meta), In m l ->
  mname m <> "script" -> mname m <> "live" -> mname m <> "file" -> is_diag (edit_parse (MList "edit" l)) = true.
Proof. exact unknown_key_top. Qed.

Theorem C15_unknown_key_nested : forall (sol file : bool) (e : edit_actor) (l : list meta) (m : meta), In m l ->
  mname m <> "def" -> mname m <> "imp" -> mname m <> "trt" -> mname m <> "file" ->
  is_diag (parse_sol e (MList (sol_name sol) l) file) = true.
Proof. exact unknown_key_nested. Qed.

Theorem C15_nested_file_top : forall (l rest pre : list meta),
  is_diag (edit_parse (MList "edit" [MList "file" (pre ++ MList "file" l :: rest)%list])) = true.
Proof. exact nested_file_top. Qed.

(* an accepted specification lists every method / trait name at most once (premise of C15_known_accepted) *)
Theorem C15_parse_names_nodup : forall (m : meta) (e : edit_actor), edit_parse m = Ok e -> names_ok (ea_script e) /\ names_ok (ea_live e).
Proof. exact parse_names_nodup. Qed.

(* family level: lists of any length parse per the documented grammar edit(def, imp(..), trt(..)) with file(..) wrappers *)
Theorem C15_family_parse : forall e : fam_ast,
  forget (edit_parse_family (render_fam e)) = if nonempty_fam e && legal_fam e then Some (denote_fam e) else None.
Proof. exact family_parse_full. Qed.

Theorem C15_family_edit_any_length : forall l : list sitem, ne l = true -> forallb nonempty_sitem l = true ->
  legal_sects (flatS false l) = true ->
  edit_parse_family (render_fam (FList l)) = Ok (denote_fam (FList l)).
Proof. exact family_edit_any_length. Qed.

(* family members: edit(..) inside actor(..) is parsed with the actor grammar; bare `edit` = edit(script, live) *)
Theorem C15_member_parse : forall e : edit_ast,
  forget (edit_parse_member (render e)) = if nonempty e && legal e then Some (denote e) else None.
Proof. exact member_parse_grammar. Qed.

Theorem C15_member_bare_edit :
  edit_parse_member (render EBare) = Ok (denote (EList [EPart (PSol true None); EPart (PSol false None)]))
  /\ edit_parse_member (render EBare) = edit_parse_member (render (EList [EPart (PSol true None); EPart (PSol false None)]))
  /\ edit_parse_member (render EFileBare) = Ok {| ea_remove := true; ea_script := all_tuples true; ea_live := all_tuples true |}.
Proof. exact member_bare_edit. Qed.

(* rules on ARBITRARY attribute trees ---------------------------------------------------------------------------------- *)
(* an empty list `w()` is rejected in every position the parser looks at ... *)
Theorem C15_empty_edit : forall e, is_diag (parse e (MList "edit" [])) = true /\ is_diag (parse_family e (MList "edit" [])) = true.
Proof. exact empty_edit_diag. Qed.
Theorem C15_empty_part : forall e n file, is_diag (parse_sol e (MList n []) file) = true.
Proof. exact empty_part_diag. Qed.
Theorem C15_empty_names : forall name t n file, n = "imp" \/ n = "trt" -> is_diag (nested_t name t (MList n []) file) = true.
Proof. exact empty_names_diag. Qed.
Theorem C15_empty_file : forall e sol f opt,
  is_diag (top_step e (MList "file" [])) = true /\ is_diag (sol_step sol f e (MList "file" [])) = true
  /\ is_diag (idents_step f opt (MList "file" [])) = true /\ is_diag (file_part_step e (MList "file" [])) = true.
Proof. exact empty_file_diag. Qed.
(* ... also when it stands anywhere in a list handed to edit / script / live / imp / trt *)
Theorem C15_empty_anywhere_top : forall (l : list meta) n, In (MList n []) l -> is_diag (edit_parse (MList "edit" l)) = true.
Proof. exact empty_anywhere_top. Qed.
Theorem C15_empty_anywhere_part : forall e sol file (l : list meta) n, In (MList n []) l ->
  is_diag (parse_sol e (MList (sol_name sol) l) file) = true.
Proof. exact empty_anywhere_part. Qed.
Theorem C15_empty_anywhere_names : forall os key file (l : list meta) n, In (MList n []) l ->
  is_diag (parse_idents os (MList key l) file) = true.
Proof. exact empty_anywhere_names. Qed.
(* a position that only has meaning as a bare word (`def`, a method / trait name) rejects `w(..)` and `w = v` *)
Theorem C15_def_not_word : forall name t m file, mname m = "def" -> is_word m = false -> is_diag (nested_t name t m file) = true.
Proof. exact def_not_word_diag. Qed.
Theorem C15_name_not_word : forall vec m file, is_word m = false -> is_diag (add_if_unique vec m file) = true.
Proof. exact name_not_word_diag. Qed.
Theorem C15_name_not_word_anywhere : forall os key file (l : list meta) m, In m l -> is_word m = false -> mname m <> "file" ->
  is_diag (parse_idents os (MList key l) file) = true.
Proof. exact name_not_word_anywhere. Qed.
Theorem C15_name_in_file_not_word : forall os key file (l fl : list meta) m, In (MList "file" fl) l -> In m fl -> is_word m = false ->
  is_diag (parse_idents os (MList key l) file) = true.
Proof. exact name_in_file_not_word. Qed.

Print Assumptions C15_partition.
Print Assumptions C15_disjoint.
Print Assumptions C15_unknown_rejected.
Print Assumptions C15_only_unknown_rejected.
Print Assumptions C15_known_accepted.
Print Assumptions C15_no_edit.
Print Assumptions C15_file_only.
Print Assumptions C15_parse_grammar.
Print Assumptions C15_pipeline.
Print Assumptions C15_unknown_key_top.
Print Assumptions C15_unknown_key_nested.
Print Assumptions C15_nested_file_top.
Print Assumptions C15_parse_names_nodup.
Print Assumptions C15_family_parse.
Print Assumptions C15_family_edit_any_length.
Print Assumptions C15_member_parse.
Print Assumptions C15_member_bare_edit.
Print Assumptions C15_empty_edit.
Print Assumptions C15_empty_part.
Print Assumptions C15_empty_names.
Print Assumptions C15_empty_file.
Print Assumptions C15_empty_anywhere_top.
Print Assumptions C15_empty_anywhere_part.
Print Assumptions C15_empty_anywhere_names.
Print Assumptions C15_def_not_word.
Print Assumptions C15_name_not_word.
Print Assumptions C15_name_not_word_anywhere.
Print Assumptions C15_name_in_file_not_word.
