(* Statements of the runtime invariants (definitions only). *)
From Coq Require Import List Arith Bool Lia.
Import ListNotations.
From IT Require Import Runtime.Actor Runtime.Lists.

Section Defs.
Context {A V : Type}.
Variable dv : V.
Notation st := (@st A V).

Definition pc_cids (p : @pc V) : list callid :=
  match p with Sending c _ _ _ | Waiting c _ | StopSend c _ _ | StopWait c _ _ => [c] | _ => [] end.

(* call ids are (client, per-client sequence number): everything recorded is below the client's counter *)
Definition fresh_lt (s : st) (c : callid) := exists cl, nth_error (clients s) (fst c) = Some cl /\ snd c < c_seq cl.

Definition ids_ok (s : st) :=
  (forall c, In c (enq s) -> fresh_lt s c) /\
  (forall c, In c (lost s) -> fresh_lt s c) /\
  (forall e, In e (issued s) -> fresh_lt s (fst (fst e))) /\
  (forall t cl c, nth_error (clients s) t = Some cl -> In c (pc_cids (c_pc cl)) -> fst c = t /\ snd c < c_seq cl) /\
  (forall t cl c k vs ab, nth_error (clients s) t = Some cl -> c_pc cl = Sending c k vs ab -> ~ In c (enq s) /\ ~ In c (lost s)) /\
  (forall t cl c k vs, nth_error (clients s) t = Some cl -> c_pc cl = StopSend c k vs -> ~ In c (enq s) /\ ~ In c (lost s)) /\
  NoDup (enq s) /\ NoDup (map (fun e => fst (fst e)) (issued s)).

(* messages carry the supplied arguments routed through the message fields; executions use the arm's routing *)
Definition msg_ok (m : rmodel) (s : st) (x : @msg V) :=
  match x with
  | Msg c k fs => exists vs rm, In (c, k, vs) (issued s) /\ meth m k = Some rm /\ fs = route dv (rm_fields rm) vs
  | MStop _ => True
  end.
Definition args_ok (m : rmodel) (s : st) :=
  (forall x, In x (queue s) -> msg_ok m s x) /\
  (forall x, busy s = Some x -> msg_ok m s x) /\
  (forall t cl c k vs ab, nth_error (clients s) t = Some cl -> c_pc cl = Sending c k vs ab -> In (c, k, vs) (issued s)) /\
  (forall c callee args r, In (c, callee, args, r) (applied s) ->
     exists k vs rm, In (c, k, vs) (issued s) /\ meth m k = Some rm /\ callee = rm_callee rm
                     /\ args = route dv (rm_args rm) (route dv (rm_fields rm) vs)).

(* replies: a filled oneshot holds the result of the execution of that very call; a value returned to a
   client is the one of its own call (or the default of a wait that does not panic on a dropped sender) *)
Definition reply_ok (m : rmodel) (s : st) :=
  (forall c v, slot_get (slots s) c = Some (SFull v) -> exists callee args, In (c, callee, args, v) (applied s)) /\
  (forall t cl c, nth_error (clients s) t = Some cl -> In c (pc_cids (c_pc cl)) -> fst c = t) /\
  (forall t cl c v, nth_error (clients s) t = Some cl -> In (c, Returned v) (c_rets cl) ->
     fst c = t /\ ((exists callee args, In (c, callee, args, v) (applied s))
                   \/ (exists k rm, meth m k = Some rm /\ rm_loud_wait rm = false))).

(* real-time order: a call that returned before another was started is ahead of it in the channel *)
Definition order_ok (s : st) :=
  (forall c, In (ERet c) (hist s) -> In c (enq s) \/ In c (lost s)) /\
  (forall t cl c k, nth_error (clients s) t = Some cl -> c_pc cl = Waiting c k -> In c (enq s) \/ In c (lost s)) /\
  (forall t cl c k vs, nth_error (clients s) t = Some cl -> c_pc cl = StopWait c k vs -> In c (enq s)) /\
  (forall h1 h2 c1 c2, hist s = h1 ++ EInv c2 :: h2 -> In (ERet c1) h1 -> In c1 (enq s) -> In c2 (enq s) -> precedes c1 c2 (enq s)).
End Defs.
