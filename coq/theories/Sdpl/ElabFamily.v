(* Elaboration of a family expansion (member models + family struct) into the family runtime model, and its premises. *)
From Coq Require Import List String NArith Arith Bool.
Import ListNotations.
From IT Require Import Sdpl.IR Sdpl.Elab Sdpl.Wf Runtime.Family.
Open Scope string_scope.

Definition mode_of (l : option lock_stmt) : lockmode :=
  match l with None => LNone | Some s => match lk_kind s with LkRead => LRead | LkWrite => LWrite | LkMutex => LMutex end end.

Definition arm_of_method (m : model) (lm : lmethod) : option arm_body :=
  match lm_body lm with
  | BRef rb => match rb_msg rb with
               | MVariant _ v _ => match find_arm v (m_arms m) with Some (ArmStruct _ _ ab) => Some ab | _ => None end
               | MClosure _ _ _ _ ab _ => Some ab
               | MUnknown _ => None end
  | _ => None end.

Definition elab_fmeth (names : list string) (m : model) (lm : lmethod) : fmeth :=
  match arm_of_method m lm with
  | Some ab => {| fm_mode := mode_of (ab_lock ab); fm_callee := index_of (call_name (ab_call ab)) names;
                  fm_mut := String.eqb (lm_self lm) "& mut self" |}
  | None => {| fm_mode := LNone; fm_callee := unbound; fm_mut := false |} end.

Fixpoint dedup (l : list string) : list string :=
  match l with [] => [] | x :: t => if mem x t then dedup t else x :: dedup t end.
Definition family_names (ms : list model) : list string := dedup (flat_map method_names ms).
Definition elab_family (ms : list model) : fmodel :=
  {| f_members := map (fun m => map (elab_fmeth (family_names ms) m) (m_methods m)) ms |}.

(* ---- static premises of one member ---- *)
Definition prefix (p s : string) : bool := String.prefix p s.
Definition lock_path_ok (l : lib) (lockname : string) (ty : string) : bool :=
  let p := match l with Std => ":: std :: sync :: " | Tokio => "tokio :: sync :: " | AsyncStd => "async_std :: sync :: " | _ => "?" end in
  contains (":: std :: sync :: Arc < " ++ p ++ lockname ++ " <") ty.
Definition lock_stmt_ok (m : model) (lockname : string) (is_mut : bool) (binds : list string) (l : lock_stmt) : bool :=
  (match lk_on l with SVar x => negb (mem x binds) && String.eqb x (m_direct_param m) | _ => false end)
  && String.eqb (lk_wait l) (match m_lib m with Std => "unwrap" | _ => "await" end)
  && Bool.eqb (lk_mut l) is_mut
  && (if String.eqb lockname "Mutex" then match lk_kind l with LkMutex => true | _ => false end
      else match lk_kind l with LkWrite => is_mut | LkRead => negb is_mut | LkMutex => false end).
(* every dispatched arm: user method called on the guard it just took (mode by mutability), or a family-static receiver
   (`A::m(actor, ..)`) that takes no lock itself *)
Definition member_arm_ok (m : model) (lockname : string) (lm : lmethod) : bool :=
  match lm_body lm with
  | BRef rb =>
      match rb_msg rb with
      | MVariant _ v _ =>
          match find_arm v (m_arms m) with
          | Some (ArmStruct _ binds ab) =>
              match ab_call ab, ab_lock ab with
              | UMethod (SVar r) _ _, Some l => String.eqb r (lk_binder l) && lock_stmt_ok m lockname (String.eqb (lm_self lm) "& mut self") binds l
              | UStatic _ _ (SVar a0 :: _), None => String.eqb a0 (m_direct_param m) && negb (mem a0 binds)
              | _, _ => false end
          | _ => false end
      | _ => false end    (* method-generic closures are not dispatched under a family lock *)
  | _ => true end.
Definition wf_member (lockname : string) (m : model) : bool :=
  wf_struct m && lock_path_ok (m_lib m) lockname (m_direct_param_ty m) && forallb (member_arm_ok m lockname) (m_methods m)
  && match m_play m with Some p => match pl_shape p with inl sh => negb (pl_disp_mut sh) | _ => false end | None => false end.

(* ---- the family constructor: one user constructor call, wrapped once, every member built from a clone of that Arc ---- *)
Definition fam_ctor_ok (lockname : string) (l : lib) (f : family) : bool :=
  match fa_ctor f with
  | Some lm =>
      match lm_body lm with
      | BCtor c =>
          match cb_user c, cb_wrapped c with
          | Some u, Some (b, lk, inner) =>
              String.eqb inner (uc_bind u)
              && String.eqb lk ((match l with Std => "std::sync::" | Tokio => "tokio::sync::" | AsyncStd => "async_std::sync::" | _ => "?" end) ++ lockname ++ "::new")
              && Nat.eqb (List.length (cb_members c)) (List.length (fa_members f))
              && forallb (fun mn => match mn_args mn with a :: _ => String.eqb a b | [] => false end) (cb_members c)
              && list_str_eqb (map mn_live (cb_members c)) (map m_live (fa_members f))
              && list_str_eqb (filter (fun x => negb (String.eqb x "debut")) (cb_order c)) ("user" :: "wrap" :: map (fun _ => "member") (cb_members c))
              && is_nil (cb_extra c) && is_nil (cb_spawns c) && match cb_chan c with None => true | _ => false end
          | _, _ => false end
      | _ => false end
  | None => false end.

(* every mutating user method is dispatched under an exclusive mode *)
Definition fmodes_ok (m : fmodel) : bool := forallb (forallb (fun fm => implb (fm_mut fm) (exclusive (fm_mode fm)))) (f_members m).

Definition wf_C10 (lockname : string) (f : family) : bool :=
  is_nil (fa_unknown f)
  && forallb (wf_member lockname) (fa_members f)
  && match fa_members f with m :: _ => fam_ctor_ok lockname (m_lib m) f | [] => false end
  && fmodes_ok (elab_family (fa_members f)).
