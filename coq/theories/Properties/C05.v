(* C05 -- the handle mirrors exactly the selected public methods, with their signatures.
   Statements only; the model is Gen/Classify.v, proofs are in Gen/ClassifyThm.v.
   Guard: the names of the eligible methods of one impl block are pairwise distinct (rustc enforces it for all methods);
   the unguarded statement is refuted in ClassifyThm.method_set_unguarded_refuted (filter consumption).
   The model describes the crate after the repairs "to_string_wide joins wrapped lines" and "Self:: keeps its path separator". *)
From Coq Require Import List String Bool.
Import ListNotations.
From IT Require Import Gen.Classify Gen.ClassifyThm.

(* same methods, same order: nothing private, filtered-out, family-skipped or constructor leaks in, nothing is missing *)
Theorem C05_method_set : forall c ms o, NoDup (elig_names c ms) -> gen c ms = Ok o ->
  map lm_from (o_mets o) = List.filter (fun m => eligible c m && selected (c_filter c) (mi_name m)) ms.
Proof. exact gen_method_set. Qed.

Theorem C05_method_names : forall c ms o, NoDup (elig_names c ms) -> gen c ms = Ok o ->
  map lm_name (o_mets o) = map mi_name (List.filter (fun m => eligible c m && selected (c_filter c) (mi_name m)) ms).
Proof. exact gen_method_names. Qed.

(* every handle method comes from a user method and keeps its name, docs, generics text, return type and parameter types
   (Self replaced by the actor type), visibility (self-consuming ones as restricted by C09), receiver form and asyncness rule *)
Theorem C05_signature : forall c ms o, NoDup (elig_names c ms) -> gen c ms = Ok o ->
  forall lm, In lm (o_mets o) -> In (lm_from lm) ms /\ sig_spec c (lm_from lm) lm.
Proof. exact gen_signature. Qed.

(* parameter and return types: `Self` replaced by the actor type and `Self ::` by `<turbofish of the actor type> ::`,
   nothing else touched, whatever the length of the signature *)
Theorem C05_types : forall c ms o, NoDup (elig_names c ms) -> gen c ms = Ok o ->
  forall lm, In lm (o_mets o) ->
    lm_ret lm = option_map (sub c) (mi_ret (lm_from lm))
    /\ lm_params lm = map (fun p => sub c (p_ty p)) (spec_params c (lm_from lm)).
Proof. exact gen_types. Qed.

(* every input inside the envelope gets a handle (with C05_method_set: no eligible selected method is missing) *)
Theorem C05_total : forall c ms, NoDup (elig_names c ms) -> valid_input c ms -> exists o, gen c ms = Ok o.
Proof. exact gen_total. Qed.

(* &self / &mut self methods are async exactly when lib is not std; static ones keep their own; consuming ones never lose theirs *)
Theorem C05_async_rule : forall c ms o, NoDup (elig_names c ms) -> gen c ms = Ok o ->
  forall lm, In lm (o_mets o) ->
    (forall b, lm_recv lm = LRef b -> lm_async lm = negb (is_std (c_lib c)))
    /\ (lm_recv lm = LNone -> lm_async lm = mi_async (lm_from lm))
    /\ (lm_recv lm = LVal -> lm_async lm = negb (is_std (c_lib c)) || mi_async (lm_from lm)).
Proof. exact gen_async_rule. Qed.

(* membership-with-consumption followed by the leftover check = plain membership + every listed name is known *)
Theorem C05_filter_consumption : forall c ms o g, NoDup (elig_names c ms) -> gen c ms = Ok o -> c_filter c = Some g ->
  NoDup (flt_list g) /\ forall n, In n (flt_list g) -> In n (elig_names c ms).
Proof. exact gen_filter_names_known. Qed.

Theorem C05_unknown_name_diag : forall c ms g x, NoDup (elig_names c ms) -> c_filter c = Some g ->
  In x (flt_list g) -> ~ In x (elig_names c ms) -> exists d, gen c ms = Diag d.
Proof. exact gen_unknown_name_diag. Qed.

Theorem C05_ineligible_in_filter_diag : forall c ms g m, NoDup (map mi_name ms) -> c_filter c = Some g ->
  In m ms -> eligible c m = false -> In (mi_name m) (flt_list g) -> exists d, gen c ms = Diag d.
Proof. exact gen_ineligible_in_filter_diag. Qed.

(* the user's impl block is re-emitted as it was (in the model by construction; the weight is on the per-run token comparison) *)
Theorem C05_impl_verbatim : forall c ms o, gen c ms = Ok o -> o_user o = ms.
Proof. exact gen_impl_verbatim. Qed.

(* documented type names *)
Theorem C05_names_actor : forall c ms o, gen c ms = Ok o -> c_first c = None ->
  o_script o = (opt_or (c_name c) (c_actor_name c) ++ "Script")%string /\ o_live o = (opt_or (c_name c) (c_actor_name c) ++ "Live")%string.
Proof.
  intros c ms o G F. destruct (gen_inv _ _ _ G) as (_ & _ & _ & _ & _ & _ & _ & S & L & _). rewrite S, L. now apply names_actor.
Qed.

Theorem C05_names_family : forall f ms o, gen_family f ms = Ok o ->
  fo_name o = (opt_or (f_name f) (f_actor_name f) ++ "Family")%string
  /\ fo_fields o = map (fun mb => (snake (mb_first mb), live_name (member_cfg f mb))) (f_members f)
  /\ map o_live (fo_models o) = map (fun mb => live_name (member_cfg f mb)) (f_members f).
Proof. exact names_family. Qed.

Theorem C05_names_member : forall f mb,
  live_name (member_cfg f mb) = (mb_first mb ++ opt_or (match mb_name mb with Some n => Some n | None => f_name f end) (f_actor_name f) ++ "Live")%string
  /\ script_name (member_cfg f mb) = (mb_first mb ++ opt_or (match mb_name mb with Some n => Some n | None => f_name f end) (f_actor_name f) ++ "Script")%string.
Proof. exact names_member. Qed.

Theorem C05_member_names_distinct : forall f m1 m2, mb_name m1 = mb_name m2 ->
  live_name (member_cfg f m1) = live_name (member_cfg f m2) -> mb_first m1 = mb_first m2.
Proof. exact member_names_distinct. Qed.

Theorem C05_field_snake : forall s, no_upper (snake s) = true /\ snake (snake s) = snake s.
Proof. intros s. split; [apply snake_no_upper|apply snake_idempotent]. Qed.

Theorem C05_field_capitalised : forall c r, is_upper c = true -> no_upper r = true -> snake (String c r) = String (lower c) r.
Proof. exact snake_capitalised. Qed.

(* Self substitution in parameter / return types *)
Theorem C05_subst_self_laws : forall a tb t u,
  (starts_colon u = false -> subst_self a tb (t ++ u) = subst_self a tb t ++ subst_self a tb u)
  /\ (no_self t = true -> subst_self a tb t = t)
  /\ (no_self a = true -> no_self tb = true -> no_self (subst_self a tb t) = true)
  /\ subst_self a tb ["Self"%string] = a
  /\ subst_self a tb ("Self" :: "::" :: t)%string = tb ++ "::"%string :: subst_self a tb t
  /\ (starts_colon t = false -> subst_self a tb ("Self"%string :: t) = a ++ subst_self a tb t).
Proof.
  intros a tb t u. split; [apply subst_self_app|]. split; [apply subst_self_id|]. split; [apply subst_self_removes|].
  split; [apply subst_self_Self|]. split; [apply subst_self_path|apply subst_self_plain].
Qed.

Theorem C05_turbo_no_self : forall t, no_self t = true -> no_self (turbo t) = true.
Proof. exact turbo_no_self. Qed.

Print Assumptions C05_method_set.
Print Assumptions C05_method_names.
Print Assumptions C05_signature.
Print Assumptions C05_types.
Print Assumptions C05_total.
Print Assumptions C05_async_rule.
Print Assumptions C05_filter_consumption.
Print Assumptions C05_unknown_name_diag.
Print Assumptions C05_ineligible_in_filter_diag.
Print Assumptions C05_impl_verbatim.
Print Assumptions C05_names_actor.
Print Assumptions C05_names_family.
Print Assumptions C05_names_member.
Print Assumptions C05_member_names_distinct.
Print Assumptions C05_field_snake.
Print Assumptions C05_field_capitalised.
Print Assumptions C05_subst_self_laws.
Print Assumptions C05_turbo_no_self.
