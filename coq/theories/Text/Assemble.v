(* Text/Assemble.v -- model of `split_file` + `edit_write` (src/parse/mod.rs:58-146), parametrised by what the item
   search (`ItemCodeBlock::get_item_code`) located: the byte index `a_idx` and the scanned text `a_str` of the
   triggering attribute, and `item_end` = index just after the closing brace of the annotated impl.
   `None` stands for a Rust panic (range out of bounds). *)
From Coq Require Import List String Ascii Arith Bool Lia.
Import ListNotations.
From IT Require Import Text.Atp Text.AtpThm Text.Nested Text.NestedThm.

(* String::replace_range(lo..hi, new) *)
Definition replace_range (lo hi : nat) (new t : str) : option str :=
  if Nat.leb lo hi && Nat.leb hi (List.length t) then Some (firstn lo t ++ new ++ skipn hi t) else None.

Definition split_file (src : str) (item_end a_idx : nat) (a_str : str) (remove : bool) : option (str * str) :=
  if Nat.leb item_end (List.length src) then
    let prefix := firstn item_end src in
    let suffix := skipn item_end src in
    let e := a_idx + List.length a_str in        (* first byte behind the attribute: stays in place *)
    if remove then
      match replace_range a_idx e [] prefix with
      | Some p => Some (p, suffix)
      | None => None
      end
    else
      match slice a_idx e prefix with
      | Some old =>
        match edit_remove a_str old with
        | Some new => match replace_range a_idx e new prefix with
                      | Some p => Some (p, suffix)
                      | None => None
                      end
        | None => None
        end
      | None => None
      end
  else None.

Definition nl : str := [ascii_of_nat 10].
Definition hdr : str := s2l "//++++++++++++++++++[ Interthread  Write to File ]+++++++++++++++++//".
Definition ftr : str := s2l "// *///.............[ Interthread  End of Write  ].................//".

(* the text edit_write puts between prefix and suffix; obj / init are the two comment lines incl. their terminator *)
Definition inserted (obj init block : str) : str :=
  nl ++ nl ++ hdr ++ nl ++ obj ++ init ++ nl ++ s2l "/*" ++ nl ++ block ++ nl ++ ftr ++ nl.

Definition edit_write (src : str) (item_end a_idx : nat) (a_str : str) (remove : bool) (obj init block : str) : option str :=
  match split_file src item_end a_idx a_str remove with
  | Some (p, sfx) => Some (p ++ inserted obj init block ++ sfx)
  | None => None
  end.

(* ---------- theorem ---------- *)
Lemma replace_range_split : forall lo hi new t t', replace_range lo hi new t = Some t' ->
  lo <= hi /\ hi <= List.length t /\ t' = firstn lo t ++ new ++ skipn hi t /\
  t = firstn lo t ++ firstn (hi - lo) (skipn lo t) ++ skipn hi t.
Proof.
  intros lo hi new t t' H. unfold replace_range in H.
  destruct (Nat.leb lo hi && Nat.leb hi (List.length t)) eqn:E; [|discriminate]. inversion H; subst.
  apply andb_prop in E. destruct E as [E1 E2]. apply Nat.leb_le in E1. apply Nat.leb_le in E2.
  repeat split; try lia.
  rewrite <- (firstn_skipn lo t) at 1. f_equal.
  rewrite <- (firstn_skipn (hi - lo) (skipn lo t)) at 1. f_equal.
  rewrite skipn_skipn'. f_equal. lia.
Qed.

(* every byte outside the attribute and outside the inserted block is preserved, in order; the block starts exactly
   at item_end; the attribute is deleted (remove) or replaced by a subsequence of itself (marker surgery) *)
Local Opaque inserted.
Theorem assembly_frame : forall src item_end a_idx a_str remove obj init block out,
  edit_write src item_end a_idx a_str remove obj init block = Some out ->
  exists A old B new sfx,
    src = A ++ old ++ B ++ sfx /\
    out = A ++ new ++ B ++ inserted obj init block ++ sfx /\
    List.length A = a_idx /\ List.length old = List.length a_str /\
    List.length (A ++ old ++ B) = item_end /\
    (remove = true -> new = []) /\ (remove = false -> subseq new old /\ edit_remove a_str old = Some new).
Proof.
  intros src item_end a_idx a_str remove obj init block out H. unfold edit_write in H.
  destruct (split_file src item_end a_idx a_str remove) as [[p sfx]|] eqn:Sp; [|discriminate]. inversion H; subst. clear H.
  unfold split_file in Sp.
  destruct (Nat.leb item_end (List.length src)) eqn:L; [|discriminate]. apply Nat.leb_le in L.
  remember (firstn item_end src) as prefix eqn:Ep.
  assert (Lp : List.length prefix = item_end) by (subst prefix; rewrite firstn_length; lia).
  set (e := a_idx + List.length a_str) in *.
  assert (K : forall new, replace_range a_idx e new prefix = Some p ->
     exists A old B, src = A ++ old ++ B ++ skipn item_end src /\ p = A ++ new ++ B /\ List.length A = a_idx /\
       List.length old = List.length a_str /\ List.length (A ++ old ++ B) = item_end /\
       old = firstn (e - a_idx) (skipn a_idx prefix)).
  { intros new R. apply replace_range_split in R. destruct R as [R1 [R2 [R3 R4]]].
    exists (firstn a_idx prefix), (firstn (e - a_idx) (skipn a_idx prefix)), (skipn e prefix).
    split; [|split; [|split; [|split; [|split]]]]; auto.
    - rewrite <- (firstn_skipn item_end src) at 1. rewrite <- Ep. rewrite R4 at 1. rewrite <- !app_assoc. reflexivity.
    - rewrite firstn_length. unfold e in *. lia.
    - rewrite firstn_length, skipn_length. unfold e in *. lia.
    - rewrite <- R4. exact Lp. }
  destruct remove.
  - destruct (replace_range a_idx e [] prefix) as [p'|] eqn:R; [|discriminate]. inversion Sp; subst.
    destruct (K [] R) as [A [old [B [K1 [K2 [K3 [K4 [K5 K6]]]]]]]].
    exists A, old, B, [], (skipn item_end src). subst p. rewrite <- !app_assoc. simpl.
    repeat split; auto; discriminate.
  - destruct (slice a_idx e prefix) as [old0|] eqn:Sl; [|discriminate].
    destruct (edit_remove a_str old0) as [new|] eqn:ER; [|discriminate].
    destruct (replace_range a_idx e new prefix) as [p'|] eqn:R; [|discriminate]. inversion Sp; subst.
    destruct (K new R) as [A [old [B [K1 [K2 [K3 [K4 [K5 K6]]]]]]]].
    apply slice_some in Sl. destruct Sl as [_ [_ Sl]]. rewrite <- K6 in Sl. subst old0.
    exists A, old, B, new, (skipn item_end src). subst p. rewrite <- !app_assoc.
    repeat split; auto; try discriminate. eapply edit_remove_subseq; eauto.
Qed.
Local Transparent inserted.

(* ItemCodeBlock::new on an LF-only text: lines().join("\n") drops exactly one final terminator *)
Fixpoint split_nl (s : str) (cur : str) : list str :=
  match s with
  | [] => [rev cur]
  | c :: r => if Ascii.eqb c (ascii_of_nat 10) then rev cur :: split_nl r [] else split_nl r (c :: cur)
  end.
(* str::lines() without CR handling: a final empty piece is not a line *)
Definition lines_lf (s : str) : list str :=
  let ps := split_nl s [] in
  match rev ps with
  | [] :: r => rev r
  | _ => ps
  end.
Fixpoint join_nl (ls : list str) : str :=
  match ls with
  | [] => []
  | [l] => l
  | l :: r => l ++ nl ++ join_nl r
  end.
Definition icb_new (s : str) : str := join_nl (lines_lf s).

(* whole pipeline on one file, as far as C16 is concerned: scan all lines, take the scanned attribute text at the
   located range, do the surgery and the assembly.  `src` is the LF-joined text (ItemCodeBlock::new), a0/a1 the
   located attribute range, item_end the located end of the impl; obj/init/block are the generated comment lines and
   code (outside this property's projection, taken as parameters). *)
Definition e2e_model (src : str) (a0 a1 item_end : nat) (remove : bool) (obj init block : str) : option str :=
  match parse_lines None (split_nl src []) with
  | inl cs =>
    match slice a0 a1 (join_nl cs) with
    | Some a_str => edit_write src item_end a0 a_str remove obj init block
    | None => None
    end
  | inr _ => None
  end.

Definition e2e_check (src : string) (a0 a1 item_end : nat) (remove : bool) (obj init block expected : string) : bool :=
  match e2e_model (s2l src) a0 a1 item_end remove (s2l obj) (s2l init) (s2l block) with
  | Some out => str_eqb out (s2l expected)
  | None => false
  end.
