"""C16: generators (source files from a lexical grammar, file-active edit specifications, scanner lines),
a reference lexer (the oracle's view of Rust comments / strings / chars / lifetimes), a meta-tree reader for
attribute texts and the decidable input classes of the known findings."""
import random, re

IDC = "abcdefghijklmnopqrstuvwxyzABCDEFGHIJKLMNOPQRSTUVWXYZ0123456789_"


# ----------------------------------------------------------------------------------------------- reference lexer
def ref_segments(text):
    """list of (kind, start, end) covering text; kinds: code, line_comment, block_comment, string, char, lifetime"""
    out = []
    i, n = 0, len(text)
    code_start = 0

    def flush(j):
        nonlocal code_start
        if j > code_start:
            out.append(("code", code_start, j))

    while i < n:
        c = text[i]
        two = text[i:i + 2]
        if two == "//":
            flush(i)
            j = text.find("\n", i)
            j = n if j < 0 else j
            out.append(("line_comment", i, j))
            i = code_start = j
        elif two == "/*":
            flush(i)
            depth, j = 1, i + 2
            while j < n and depth:
                if text[j:j + 2] == "/*":
                    depth += 1
                    j += 2
                elif text[j:j + 2] == "*/":
                    depth -= 1
                    j += 2
                else:
                    j += 1
            out.append(("block_comment", i, j))
            i = code_start = j
        elif c == '"' or (c == "r" and (i == 0 or text[i - 1] not in IDC or (text[i - 1] == "b" and (i < 2 or text[i - 2] not in IDC))) and re.match(r'r#*"', text[i:])):
            start = i
            if c == "r":
                m = re.match(r'r(#*)"', text[i:])
                hashes = m.group(1)
                j = text.find('"' + hashes, i + len(m.group(0)))
                j = n if j < 0 else j + 1 + len(hashes)
                if start > 0 and text[start - 1] == "b":
                    pass
            else:
                j = i + 1
                while j < n and text[j] != '"':
                    j += 2 if text[j] == "\\" else 1
                j = min(n, j + 1)
            flush(start)
            out.append(("string", start, j))
            i = code_start = j
        elif c == "'":
            if text[i + 1:i + 2] == "\\":
                j = i + 2
                j += 1  # escaped char
                while j < n and text[j] != "'":
                    j += 1
                j = min(n, j + 1)
                flush(i)
                out.append(("char", i, j))
                i = code_start = j
            elif text[i + 2:i + 3] == "'" and text[i + 1:i + 2] != "'":
                flush(i)
                out.append(("char", i, i + 3))
                i = code_start = i + 3
            else:
                j = i + 1
                while j < n and text[j] in IDC:
                    j += 1
                flush(i)
                out.append(("lifetime", i, j))
                i = code_start = j
        else:
            i += 1
    flush(n)
    return out


def ref_wellformed(text):
    """no stray apostrophe, every literal / block comment terminated (the oracle only speaks about legal token streams)"""
    for kind, a, b in ref_segments(text):
        s = text[a:b]
        if kind == "lifetime" and b - a < 2:
            return False
        if kind == "block_comment" and (not s.endswith("*/") or b - a < 4):
            return False
        if kind == "char" and (not s.endswith("'") or b - a < 3):
            return False
        if kind == "string":
            m = re.match(r'r(#*)"', s)
            if m:
                if not s.endswith('"' + m.group(1)) or len(s) < 2 * len(m.group(1)) + 3:
                    return False
            elif len(s) < 2 or not s.endswith('"') or re.search(r'(?<!\\)(\\\\)*\\"$', s):
                return False
    return True


def ref_blank(text):
    """comments, string and char literals replaced by blanks (newlines kept); lifetimes and code kept"""
    out = list(text)
    for kind, a, b in ref_segments(text):
        if kind in ("line_comment", "block_comment", "string", "char"):
            for k in range(a, b):
                if out[k] not in "\n\r":
                    out[k] = " "
    return "".join(out)


STRUCT = set("#[]{}")


def visible_structure(orig, blanked):
    """projection of a scanned text: positions of the structural characters the item search looks at"""
    return [(k, ch) for k, ch in enumerate(blanked) if ch in STRUCT]


# ------------------------------------------------------------------------------------ known-finding input classes
def cls_char_blank_comma(text):
    """a char literal `' '` or `','` (F8: the scanner never returns)"""
    return any(kind == "char" and text[a:b] in ("' '", "','") for kind, a, b in ref_segments(text))


def cls_nested_block_comment(text):
    for kind, a, b in ref_segments(text):
        if kind == "block_comment" and "/*" in text[a + 2:b]:
            return True
    return False


def cls_lifetime_unterminated(text):
    """a lifetime / label whose apostrophe is not followed by a blank or comma before the next apostrophe or the end
    of the line (`Foo<'a>` at the end of a line, `break 'outer;`): the scanner stays in char-literal mode"""
    for kind, a, b in ref_segments(text):
        if kind == "lifetime":
            e = text.find("\n", a)
            e = len(text) if e < 0 else e
            rest = text[a + 1:e]
            q = rest.find("'")
            if q >= 0:
                rest = rest[:q]
            if " " not in rest and "," not in rest:
                return True
    return False


def cls_lifetime_exposes_literal(text):
    """a lifetime / label followed on the same line (before the next apostrophe) by a string literal or comment that
    lies before the last blank/comma of that stretch: the scanner copies the stretch unscanned"""
    for kind, a, b in ref_segments(text):
        if kind == "lifetime":
            e = text.find("\n", a)
            e = len(text) if e < 0 else e
            rest = text[a + 1:e]
            q = rest.find("'")
            if q >= 0:
                rest = rest[:q]
            j = max(rest.rfind(" "), rest.rfind(","))
            if j > 0 and ('"' in rest[:j] or "//" in rest[:j] or "/*" in rest[:j]):
                return True
    return False


def cls_char_escaped_quote(text):
    return any(kind == "char" and text[a:b] == "'\\''" for kind, a, b in ref_segments(text))


def cls_string_trailing_backslash(text):
    """a string literal whose last character before the closing quote is a backslash (`"\\\\"`, r"\\")"""
    for kind, a, b in ref_segments(text):
        if kind == "string" and b - a >= 3 and text[b - 1] == '"' and text[b - 2] == "\\":
            return True
    return False


# repaired in the crate (fix: commits): no longer excluded from any corpus, kept to tag regression inputs
FIXED_CLASSES = [
    ("char-blank-or-comma", cls_char_blank_comma),
    ("char-escaped-quote", lambda text: cls_char_escaped_quote(text)),
]

CLASSES = [
    ("nested-block-comment", cls_nested_block_comment),
    ("lifetime-unterminated", cls_lifetime_unterminated),
    ("lifetime-exposes-literal", cls_lifetime_exposes_literal),
    ("string-trailing-backslash", cls_string_trailing_backslash),
]


def known_classes(text):
    return [n for n, f in CLASSES if f(text)]


def cls_edit_file_trailing_comma(attr):
    """`edit(file,)`: the whole-attribute marker followed by a trailing comma"""
    toks = attr_tokens(attr)
    for i in range(len(toks) - 4):
        if toks[i:i + 5] == ["edit", "(", "file", ",", ")"]:
            return True
    return False


# ------------------------------------------------------------------------------------------- attribute meta trees
def attr_tokens(text):
    """tokens of an attribute text, comments dropped: identifiers, string literals, punctuation"""
    code = []
    for kind, a, b in ref_segments(text):
        if kind == "code" or kind == "lifetime":
            code.append(("c", text[a:b]))
        elif kind in ("string", "char"):
            code.append(("s", text[a:b]))
    toks = []
    for k, t in code:
        if k == "s":
            toks.append(t)
        else:
            toks += re.findall(r"[A-Za-z_][A-Za-z_0-9]*|::|[0-9]+|\S", t)
    return toks


def parse_meta(toks):
    """`#[path(args)]` -> tree: list of nodes (name, kind, children|value) ; kind in path/list/kv"""
    pos = [0]

    def peek():
        return toks[pos[0]] if pos[0] < len(toks) else None

    def take():
        t = toks[pos[0]]
        pos[0] += 1
        return t

    def path():
        p = take()
        while peek() == "::":
            take()
            p += "::" + take()
        return p

    def args():
        out = []
        while peek() not in (")", None):
            nm = path()
            if peek() == "(":
                take()
                ch = args()
                assert take() == ")"
                out.append((nm, "list", ch))
            elif peek() == "=":
                take()
                out.append((nm, "kv", take()))
            else:
                out.append((nm, "path", None))
            if peek() == ",":
                take()
        return out

    assert take() == "#" and take() == "["
    nm = path()
    node = (nm, "path", None)
    if peek() == "(":
        take()
        ch = args()
        assert take() == ")"
        node = (nm, "list", ch)
    assert take() == "]"
    return node


def strip_file(node, in_edit=False, depth=0):
    """the specification without `file` markers: file(x, y) -> x, y ; edit(file) -> edit"""
    nm, kind, ch = node
    if kind != "list":
        return node
    out = []
    for c in ch:
        here_edit = in_edit or nm == "edit"
        if here_edit and c[0] == "file" and c[1] == "list":
            out += [strip_file(x, True, depth + 1) for x in c[2]]
        elif nm == "edit" and c[0] == "file" and c[1] == "path" and len(ch) == 1:
            return (nm, "path", None)
        else:
            out.append(strip_file(c, here_edit, depth + 1))
    return (nm, "list", out)


# --------------------------------------------------------------------------------------------------- generators
def ws(rng, nl=True, comment=False):
    r = rng.random()
    if r < 0.45:
        return ""
    if r < 0.75:
        return " " * rng.randint(1, 3)
    if nl and r < 0.93:
        return "\n" + " " * rng.randint(0, 8)
    if comment and nl:
        return " // " + rng.choice(["file(live)", "edit(file)", "note", "file(", ")"]) + "\n    "
    return " "


TRAILING_COMMA_IN_FILE = [True]    # `file(x,)` followed by `,` was finding file-list-trailing-comma (repaired): regression input


def cls_file_list_trailing_comma(attr):
    """a `file( .. ,)` group with a trailing comma that is itself followed by a comma: the surgery leaves `,,`"""
    toks = attr_tokens(attr)
    stack = []
    prev = None
    for i, tk in enumerate(toks):
        if tk == "(":
            stack.append(prev)
        elif tk == ")":
            nm = stack.pop() if stack else None
            if nm == "file" and toks[i - 1] == "," and toks[i + 1:i + 2] == [","]:
                return True
        prev = tk
    return False


def render_meta(rng, node, nl=True, comment=False):
    nm, kind, ch = node
    if kind == "path":
        return nm
    if kind == "kv":
        return nm + ws(rng, False) + "=" + ws(rng, False) + ch
    inner = []
    for c in ch:
        inner.append(ws(rng, nl, comment) + render_meta(rng, c, nl, comment) + ws(rng, nl))
    txt = ",".join(inner)
    if ch and rng.random() < 0.15 and (nm != "file" or TRAILING_COMMA_IN_FILE[0]):
        txt += "," + ws(rng, nl)
    return nm + ws(rng, False) + "(" + txt + ")"


PARTS = ["def", "imp", "trt"]


def gen_sol(rng, name, methods, mode):
    if name == "script":
        methods = []        # `imp(names)` of the script selects generated methods, not the actor's
    return _gen_sol(rng, name, methods, mode)


def _gen_sol(rng, name, methods, mode):
    """one `script` / `live` element.  mode: 'plain' (no file inside), 'wrapped' (file(name..)), 'inner' (file markers at part level)"""
    def part_plain(p):
        if p == "imp" and methods and rng.random() < 0.4:
            k = rng.randint(1, min(2, len(methods)))
            return ("imp", "list", [(m, "path", None) for m in rng.sample(methods, k)])
        return (p, "path", None)

    def body(inner):
        r = rng.random()
        if r < 0.3 and not inner:
            return (name, "path", None)
        ps = rng.sample(PARTS, rng.randint(1, 3))
        ps.sort(key=PARTS.index)
        if not inner:
            return (name, "list", [part_plain(p) for p in ps])
        # file markers at part level: either file(p, q) groups or file(names) inside imp
        els = []
        k = rng.randrange(len(ps))
        for i, p in enumerate(ps):
            if i == k:
                if p == "imp" and methods and rng.random() < 0.5:
                    ms = rng.sample(methods, rng.randint(1, min(2, len(methods))))
                    plain = [(m, "path", None) for m in ms[1:]]
                    els.append(("imp", "list", plain + [("file", "list", [(ms[0], "path", None)])]))
                else:
                    els.append(("file", "list", [part_plain(p)]))
            elif rng.random() < 0.3:
                els.append(("file", "list", [part_plain(p)]))
            else:
                els.append(part_plain(p))
        return (name, "list", els)

    if mode == "plain":
        return body(False)
    if mode == "wrapped":
        return ("file", "list", [body(False)])
    return body(True)


def gen_edit(rng, methods):
    """a legal file-active edit specification: (meta node, remove?)"""
    r = rng.random()
    if r < 0.18:
        return ("edit", "list", [("file", "path", None)]), True
    names = rng.sample(["script", "live"], rng.randint(1, 2))
    names.sort(reverse=True)
    if r < 0.4:
        return ("edit", "list", [("file", "list", [gen_sol(rng, n, methods, "plain") for n in names])]), False
    els = []
    k = rng.randrange(len(names))
    for i, n in enumerate(names):
        if i == k:
            els.append(gen_sol(rng, n, methods, rng.choice(["wrapped", "inner"])))
        else:
            els.append(gen_sol(rng, n, methods, rng.choice(["plain", "wrapped", "inner"])))
    return ("edit", "list", els), False


# --- source-file lexical grammar
LOOKALIKE_ATTR = '#[interthread::actor(file="x.rs", edit(file))]'


def noise_item(rng, safe=True):
    """one top-level item or comment that is not the target; safe = outside every known-finding class"""
    k = rng.randrange(22)
    la = LOOKALIKE_ATTR + " impl A { pub fn new() -> Self { Self } }"
    if k == 0:
        return "// " + la
    if k == 1:
        return "/* " + la + "\n   } ] #[ { */"
    if k == 2:
        return 'const S%d: &str = "%s";' % (rng.randrange(99), la.replace('"', '\\"'))
    if k == 3:
        return 'const R%d: &str = r##"%s "# ; "##;' % (rng.randrange(99), la)
    if k == 4:
        return "const C%d: char = '%s';" % (rng.randrange(99), rng.choice(["{", "}", "#", "[", '"', "\\n", "x", "]", "/", "\\\\"]))
    if k == 5:
        return "pub struct Ref%d<'a> { pub s: &'a str, pub t: &'static str }" % rng.randrange(99)
    if k == 6:
        return "fn lt%d<'a, 'b: 'a>(x: &'a str, _y: &'b str) -> &'a str { x }" % rng.randrange(99)
    if k == 7:
        return "impl Other%d {\n    fn f(&self) -> u8 { let _s = \"}\"; 1 } // }\n}\npub struct Other%d;" % ((rng.randrange(99),) * 2)
    if k == 8:
        return "/// doc comment with #[actor] and impl A {\npub fn documented%d() {}" % rng.randrange(99)
    if k == 9:
        return "macro_rules! mm%d { () => { impl Zed { fn z() {} } }; }" % rng.randrange(99)
    if k == 10:
        return 'const B%d: &[u8] = b"#[x] \\" {"; const BR%d: &[u8] = br##"impl "# { "##; const BQ: &[u8] = br#"#[x] {"#;' % ((rng.randrange(99),) * 2)
    if k == 11:
        return "#[derive(Debug, Clone)]\n#[allow(dead_code)]\npub struct Plain%d { a: [u8; 2] }" % rng.randrange(99)
    if k == 12:
        return "/*\n multi line\n " + la + "\n*/"
    if k == 13:
        return 'const ML%d: &str = "first line {\n   #[second] impl line \\" still \n third }";' % rng.randrange(99)
    if k == 14:
        return "//! inner doc #[ impl {" if False else "// plain // nested line comment /* not open"
    if k == 15:
        return "fn chars%d() -> [char; 4] { ['a', '\\'', ',', 'b'] }" % rng.randrange(99)
    if k == 16:
        return "fn lbl%d() { 'outer: loop { break 'outer; } }" % rng.randrange(99) if not safe else "fn lbl%d() { 'outer: loop { break 'outer ; } }" % rng.randrange(99)
    if k == 17:
        return rng.choice(["const SP%d: char = ' ';", "const CM%d: char = ',';", "const TAB%d: char = '\\t';", "const Q%d: char = '\\'';"]) % rng.randrange(99)
    if k == 18:
        return "/* outer /* inner */ " + la + " */" if not safe else "/* outer */ /* second */"
    if k == 19:
        return 'const BS%d: &str = "\\\\";' % rng.randrange(99) if not safe else 'const BS%d: &str = "\\\\ ";' % rng.randrange(99)
    if k == 20:
        return "pub trait Tr%d<'a> { fn get(&self) -> Wrap<'a>;\n}" % rng.randrange(99) if not safe else "pub trait Tr%d<'a> { fn get(&self) -> &'a str ; }" % rng.randrange(99)
    return "use std::fmt::Debug as Dbg%d;" % rng.randrange(99)


def gen_impl_text(rng, name, methods):
    """impl block of the actor with lexically nasty but legal bodies"""
    lines = ["impl %s {" % name, "    pub fn new(v: i8) -> Self { Self(v) }"]
    for m in methods:
        body = rng.choice([
            "self.0 += 1;", 'let _s = "}"; self.0 -= 1;', "let _c = '{'; self.0 = 0; /* } */", "/* { */ self.0 = 2;",
            'let _r = r#" " } "#; self.0 = 3;', "let _l: Option<&'static str> = None; self.0 = 4;", "if self.0 > 0 { self.0 = 1; } else { self.0 = 2; }",
            "let _b = ' '; let _q = '\\''; self.0 = 5;", "let _m = [',', '}']; self.0 = 6;"])
        # user documentation on the methods: free text, including comment delimiters (legal inside a line doc comment)
        if rng.random() < 0.4:
            lines.append("    /// " + rng.choice(["plain words about %s" % m, "reads `tmp/*/counter.log` and adds", "the sum */ wraps around", "see #[actor] { and }",
                                                   "a /* balanced */ remark", "quote \" and apostrophe ' inside"]))
        if rng.random() < 0.5:
            lines.append("    pub fn %s(&mut self) { %s }" % (m, body))
        else:
            lines.append("    pub fn %s(&mut self, n: i8) -> i8 {\n        %s%s\n        n\n    }" % (m, body, rng.choice(["", " // }", " // {", " // #[x]"])))
    lines.append("}")
    return "\n".join(lines)


METHS = ["inc", "add", "get", "put", "swap", "reset", "total", "push", "peek", "mix"]


def gen_file_case(rng, path, safe=True):
    """one end-to-end case: source text + where things are + what to pass to the macro"""
    methods = rng.sample(METHS, rng.randint(1, 4))
    edit, remove = gen_edit(rng, methods)
    form = rng.choice(["full", "full", "use", "alias"])
    mac_path = {"full": "interthread::actor", "use": "actor", "alias": "act"}[form]
    extra = []
    if rng.random() < 0.3:
        extra.append(("channel", "kv", str(rng.randint(0, 3))))
    if rng.random() < 0.2:
        extra.append(("debut", "path", None))
    args = [("file", "kv", '"%s"' % path)] + extra
    args.insert(rng.randint(0, len(args)), edit)
    multi = rng.random() < 0.6
    inner = render_meta(rng, (mac_path, "list", args), nl=multi, comment=multi and rng.random() < 0.3)
    attr = "#[" + inner + "]"
    impl_txt = gen_impl_text(rng, "MyActor", methods)
    sep = rng.choice(["\n", "\n", "\n", " ", "\n    ", "\n\n", ""])
    others = []
    if rng.random() < 0.25:
        others.append("#[allow(dead_code)]")
    pre = [noise_item(rng, safe) for _ in range(rng.randint(1, 6))]
    post = [noise_item(rng, safe) for _ in range(rng.randint(0, 4))]
    head = []
    if form == "use":
        head.append("use interthread::actor;")
    elif form == "alias":
        head.append("use interthread::actor as act;")
    head.append("pub struct MyActor(i8);")
    before = "\n".join(head + pre) + "\n"
    oth_before = "".join(o + "\n" for o in others)
    a0 = len(before) + len(oth_before)
    src = before + oth_before + attr + sep + impl_txt
    a1 = a0 + len(attr)
    i1 = len(src)
    tail = "\n" + "\n".join(post) + ("\n" if rng.random() < 0.8 else "")
    if rng.random() < 0.15:
        tail = " // trailing comment }" + tail
    src += tail
    inner_args = inner[len(mac_path):].strip()
    assert inner_args.startswith("(") and inner_args.endswith(")")
    return {"src": src, "a0": a0, "a1": a1, "i1": i1, "attr": attr, "attr_args": inner_args[1:-1], "item": oth_before + impl_txt, "remove": remove,
            "methods": methods, "form": form, "sep": sep, "multi": multi, "others": others, "edit": edit, "path": path}


# --- scanner lines
def gen_fragment(rng, safe=True):
    k = rng.randrange(27 if safe else 32)
    w = rng.choice(["foo", "x", "impl A", "#[actor(edit(file))]", "{", "}", "let a = 1;", "[1, 2]", "fn f()", "b", "r", "br", "#"])
    if k < 5:
        return w
    if k == 5:
        return '"%s"' % rng.choice(["a", "#[x] {", "it's", "q\\\"z", "/* x */", "// y", "a\\\\b", "", "'"])
    if k == 6:
        return 'r#"%s"#' % rng.choice(['a"b', "#[x]", "}", "//"])
    if k == 7:
        return rng.choice(['br##"a"#b"##', 'br##"{"##', 'br#"#[x] {"#', 'br##"##}"##', 'r#"#{"#'])
    if k == 8:
        return 'b"%s"' % rng.choice(["x", "{#"])
    if k == 9:
        return "'%s'" % rng.choice(["a", "{", "}", "#", '"', "\\n", "[", "/", "\\\\"])
    if k == 10:
        return "&'a str"
    if k == 11:
        return rng.choice(["<'a, T>", "fn f<'a,T>(){", "<'a,'b>(x: &'a u8,y: &'b u8){"])
    if k == 12:
        return "'static "
    if k == 13:
        return "/* %s */" % rng.choice(["c", "#[x]", "impl {", "it's", '"'])
    if k == 14:
        return "// %s" % rng.choice(["c", "#[x] {", "it's", '"q', "/* z"])
    if k == 15:
        return "/* open"
    if k == 16:
        return "close */"
    if k == 17:
        return '"open string'
    if k == 18:
        return 'end of string"'
    if k == 19:
        return "x / y"
    if k == 20:
        return "b'x'"
    if k == 21:
        return 'r"raw"'
    if k == 22:
        return "'b: 'a, "
    if k == 23:
        return "   "
    # formerly non-terminating (repaired): ordinary fragments now
    if k == 24:
        return "' '"
    if k == 25:
        return "','"
    if k == 26:
        return "'\\''"
    # hazards of the remaining known classes (model and code must still agree)
    if k == 27:
        return "Foo<'a>"
    if k == 28:
        return "/* a /* b */ c */"
    if k == 29:
        return '"\\\\"'
    if k == 30:
        return "break 'outer;"
    return "'"


def gen_lines(rng, safe=True):
    n = rng.randint(1, 5)
    out = []
    for _ in range(n):
        k = rng.randint(0, 6)
        sep = rng.choice([" ", " ", "  "])
        out.append(sep.join(gen_fragment(rng, safe) for _ in range(k)))
    return out
