"""C06 corpus: seeded generator of whole programs (struct + impl block + attribute) inside the documented envelope,
with a description of what was generated (kinds, identifier shapes, generics, which method uses which parameter).
Also the Python port of the variant-name mangling used ONLY to classify inputs into known-finding classes
(it is itself cross-checked against the real `fn:script_field` in props/C06.py)."""
import random, re

LIBS = ["std", "tokio", "async_std", "smol"]

# ---- identifier shape classes (method names) ----
NAME_SHAPES = {
    "plain":      ["inc", "get", "put", "total", "scan", "push", "peek", "reset", "swap", "mix"],
    "snake":      ["get_value", "set_key", "add_one", "take_all", "at_most", "fold_it", "do_it_now"],
    "lead_us":    ["_hid", "_x", "_get_it", "__init", "_0"],
    "trail_us":   ["put_", "end__", "x_", "get_value_"],
    "double_us":  ["a__b", "get__value", "x___y"],
    "digit":      ["q1", "v_2", "m3_x", "x_1_2"],
    "mixed_case": ["getValue", "Set_X", "doIt", "MAX", "Abc", "xY_z"],
    "raw":        ["r#type", "r#match", "r#loop", "r#ref"],
    "non_ascii":  ["été", "größe", "Ünï", "naïve_x", "_é", "δx", "x_é"],
}
ASCII_SHAPES = [k for k in NAME_SHAPES if k != "non_ascii"]

# names the generator itself introduces (DESIGN 3.3): used as parameter names on purpose
OWN_NAMES = ["actor", "msg", "sender", "receiver", "name"]
# further generator-owned spellings, used by the totality corpus only (never as type-check inputs; see assumptions of props/C06.py)
OWN_NAMES_WIDE = OWN_NAMES + ["inter_send", "inter_recv", "debut", "self_", "play", "direct", "inter_msg", "inter_play_stop"]
PARAM_NAMES = ["a", "b", "c", "x", "y", "n", "val", "key", "item", "count", "k2", "_u", "vv_"]
RAW_PARAM_NAMES = ["r#type", "r#match", "r#move", "r#loop"]

BASE_TYPES = ["i8", "u8", "u32", "i64", "String", "(u8, u8)", "Vec<u8>", "Option<u8>", "bool", "&'static str", "[u8; 3]", "Box<u8>"]
RET_TYPES = ["i8", "u32", "String", "Vec<u8>", "Option<u8>", "(u8, i8)", "bool", "Result<u8, String>", "Result<u8, &'static str>", "std::sync::Arc<u8>"]
BOUNDS = ["", "Clone", "Default", "Send", "Clone + Send", "Send + Sync + 'static", "std::fmt::Debug", "'static"]

PRELUDE = """#![allow(warnings)]
use std::marker::PhantomData;
pub struct Pt { pub x: u8, pub y: (i8, u8) }
pub struct Wr(pub u8, pub (i8, u8));
"""


def camel(name):
    """port of name::to_upper_camel_case (ASCII domain); used for input classification only"""
    if name.startswith("r#"):
        name = name[2:]
    out = ""
    for w in name.split("_"):
        if w == "":
            out += "_"
        else:
            out += w[0].upper() + w[1:]
    return out


def sig_tokens(text):
    """identifier / lifetime tokens of a signature text (what model::includes can see of a one-token generic argument)"""
    return re.findall(r"'[A-Za-z_]\w*|[A-Za-z_]\w*|[^\sA-Za-z_0-9']|\d+", text)


def gen_generics(rng, max_each=4, lifetimes=True, p_some=0.7):
    """list of (kind, name, inline_bound) in a legal declaration order (lifetimes first)"""
    if rng.random() > p_some:
        return []
    nl = rng.randint(0, min(2, max_each)) if lifetimes and rng.random() < 0.3 else 0
    nt = rng.randint(0, max_each)
    nc = rng.randint(0, max_each) if rng.random() < 0.6 else 0
    tnames = rng.sample(["T", "U", "X", "Y", "Z", "W", "Key", "V0"], nt)
    cnames = rng.sample(["N", "M", "K0", "LEN"], nc)
    lnames = ["'a", "'b"][:nl]
    rest = [("type", n) for n in tnames] + [("const", n) for n in cnames]
    rng.shuffle(rest)
    out = [("life", n, "") for n in lnames]
    for k, n in rest:
        if k == "type":
            out.append((k, n, rng.choice(BOUNDS) if rng.random() < 0.5 else ""))
        else:
            out.append((k, n, rng.choice(["usize", "usize", "u8", "bool"])))
    return out


def render_generics(gs):
    """(impl generics text, type args text, struct text generics, struct fields)"""
    if not gs:
        return "", "", "", "{ _z: u8 }"
    decl, args, sdecl, ph, arrs = [], [], [], [], []
    for k, n, b in gs:
        if k == "life":
            decl.append(n); sdecl.append(n); args.append(n); ph.append("&%s ()" % n)
        elif k == "type":
            decl.append(n + (": " + b if b else "")); sdecl.append(n); args.append(n); ph.append(n)
        else:
            decl.append("const %s: %s" % (n, b)); sdecl.append("const %s: %s" % (n, b)); args.append(n)
    fields = "{ _p: PhantomData<(%s)>, _z: u8 }" % ", ".join(ph + [""]) if ph else "{ _z: u8 }"
    return "<%s>" % ", ".join(decl), "<%s>" % ", ".join(args), "<%s>" % ", ".join(sdecl), fields


def type_pool(gs):
    pool = list(BASE_TYPES)
    for k, n, b in gs:
        if k == "type":
            pool += [n, n, "Option<%s>" % n, "Vec<%s>" % n, "(%s, u8)" % n]
        elif k == "const" and b == "usize":
            pool += ["[u8; %s]" % n, "[i8; %s]" % n]
    return pool


def gen_pattern(rng, ty_pool, names, own_names=False):
    """one parameter: (pattern text, type text, pattern kind, bound variable names)"""
    def fresh():
        if own_names and rng.random() < 0.25:
            cand = [n for n in (OWN_NAMES_WIDE if own_names == "wide" else OWN_NAMES) if n not in names["used"]]
            if cand:
                n = rng.choice(cand); names["used"].add(n); return n
        if rng.random() < 0.07:          # raw identifiers are legal binders in every position of a pattern
            cand = [n for n in RAW_PARAM_NAMES if n not in names["used"]]
            if cand:
                n = rng.choice(cand); names["used"].add(n); return n
        cand = [n for n in PARAM_NAMES if n not in names["used"]]
        if not cand:
            n = "p%d" % len(names["used"])
        else:
            n = rng.choice(cand)
        names["used"].add(n)
        return n
    r = rng.random()
    if r < 0.5:
        n = fresh()
        return (n if rng.random() < 0.8 else "mut " + n), rng.choice(ty_pool), "ident", [n]
    if r < 0.62:
        a, b = fresh(), fresh()
        return "(%s, %s)" % (a, b), "(u8, i8)", "tuple", [a, b]
    if r < 0.70:
        a, b, c = fresh(), fresh(), fresh()
        return "(%s, (%s, mut %s))" % (a, b, c), "(u8, (i8, String))", "nested_tuple", [a, b, c]
    if r < 0.77:
        a = fresh()
        return "[%s, ..]" % a, "[u8; 3]", "slice", [a]
    if r < 0.82:
        a, b = fresh(), fresh()
        return "[%s, _, %s]" % (a, b), "[u8; 3]", "slice_wild", [a, b]
    if r < 0.89:
        a, b = fresh(), fresh()
        return "Pt { x: %s, y: (%s, ..) }" % (a, b), "Pt", "struct", [a, b]
    if r < 0.93 and not ({"x", "y"} & names["used"]):
        names["used"].update(["x", "y"])
        return "Pt { x, y }", "Pt", "struct_short", ["x", "y"]
    if r < 0.98:
        a, b, c = fresh(), fresh(), fresh()
        return "Wr(%s, (%s, %s))" % (a, b, c), "Wr", "tuple_struct", [a, b, c]
    return "(..)", "(u8, u8)", "rest_only", []


def pick_names(rng, k, shapes, avoid=()):
    """k method names with pairwise different mangled names (also different from the generated variants)"""
    out, seen = [], set(["InterMsg", "InterPlayStop", "New", "TryNew"]) | set(avoid)
    tries = 0
    while len(out) < k and tries < 200:
        tries += 1
        sh = rng.choice(shapes)
        n = rng.choice(NAME_SHAPES[sh])
        plain = n[2:] if n.startswith("r#") else n
        if camel(n) in seen or plain in ("new", "try_new") or any((m[2:] if m.startswith("r#") else m) == plain for m, _ in out):
            continue
        seen.add(camel(n))
        out.append((n, sh))
    return out


SELF_PARAMS = [("other", "Self", ["other"]), ("o2", "Option<Self>", ["o2"]), ("(sa, sb)", "(Self, u8)", ["sa", "sb"]), ("vs", "Vec<Self>", ["vs"])]
SELF_RETS = ["Self", "Option<Self>", "(Self, u8)", "Vec<Self>"]


def gen_method(rng, name, shape, lib, gs, recv_kinds, own_names=False, allow_async=True, allow_localgen=True, use_prob=0.5, allow_self_ty=True,
               self_prob=0.0, ref_use_prob=None, short=False):
    """self_prob: chance that a &self / &mut self method mentions `Self` in a parameter type and/or its return type;
    ref_use_prob: use_prob for reference methods only (0.0 = no reference method names a generic parameter literally);
    short: at most two simple parameters (keeps the printed signature on one line)"""
    recv = rng.choice(recv_kinds)
    is_ref = recv in ("&self", "&mut self")
    up = ref_use_prob if (ref_use_prob is not None and is_ref) else use_prob
    pool = type_pool(gs) if rng.random() < up else list(BASE_TYPES)
    names = {"used": set()}
    nparams = rng.choice([0, 0, 1, 1, 2]) if short else rng.choice([0, 0, 1, 1, 2, 2, 3, 4])
    if short:
        params = []
        for _ in range(nparams):
            cand = [n for n in PARAM_NAMES if n not in names["used"]]
            n = rng.choice(cand); names["used"].add(n)
            params.append((n, rng.choice(pool), "ident", [n]))
    else:
        params = [gen_pattern(rng, pool, names, own_names) for _ in range(nparams)]
    if sum(1 for p in params if p[2] == "rest_only") > 1:
        params = [p for p in params if p[2] != "rest_only"]
    ret = rng.choice([None, None, rng.choice(RET_TYPES), rng.choice(pool)])
    if ret and ret.startswith("&") and "static" not in ret:
        ret = None
    if allow_self_ty and recv == "static" and rng.random() < 0.15:
        ret = "Self"
    self_use = []
    if self_prob and is_ref and rng.random() < self_prob:
        how = rng.choice(["param", "ret", "both"])
        if how in ("param", "both"):
            pt, ty, bound = rng.choice(SELF_PARAMS)
            params.append((pt, ty, "self_ty", bound))
            self_use.append("param:" + ty)
        if how in ("ret", "both"):
            ret = rng.choice(SELF_RETS)
            self_use.append("ret:" + ret)
    is_async = allow_async and lib != "std" and rng.random() < 0.25
    localgen = allow_localgen and recv in ("&self", "&mut self", "self") and rng.random() < 0.15
    vis = rng.choice(["pub", "pub", "pub", "pub(crate)", "pub(super)", "pub(in crate)", ""])
    plist = ["%s: %s" % (p, t) for p, t, _, _ in params]
    gtxt, wtxt = "", ""
    localgen2 = localgen and rng.random() < 0.4
    if localgen:
        gtxt = "<G: Into<u32> + Send + 'static>"
        plist.append("gq: G")
        if localgen2:
            # several method-level generic parameters, declared in non-alphabetical order, with different bounds
            gtxt = "<G: Into<u32> + Send + 'static, B: Into<u8> + Send + 'static>"
            plist.append("gr: B")
        if rng.random() < 0.3:
            wtxt = " where G: Clone"
    # a where-clause alone (a bound on a parameter of the impl block, no parameter of the method's own) makes the method generic too
    tparams = [n for k, n, _ in gs if k == "type"]
    whereonly = (not localgen) and allow_localgen and recv in ("&self", "&mut self", "self") and bool(tparams) and rng.random() < 0.12
    if whereonly:
        wtxt = " where %s: Clone" % rng.choice(tparams)
    rtxt = {"&self": "&self", "&mut self": "&mut self", "self": "self", "mut self": "mut self", "static": ""}[recv]
    sig_params = ", ".join(([rtxt] if rtxt else []) + plist)
    sig = "%sfn %s%s(%s)%s%s" % ("async " if is_async else "", name, gtxt, sig_params, (" -> " + ret) if ret else "", wtxt)   # = syn::Signature
    doc = rng.choice(["", "", "/// doc line\n    ", "#[doc = \"attr doc\"]\n    "])
    text = "%s%s%s { todo!() }" % (doc, vis + " " if vis else "", sig)
    kind = {"&self": "ref", "&mut self": "ref", "self": "slf", "mut self": "slf", "static": "stat"}[recv]
    return {"name": name, "shape": shape, "recv": recv, "kind": kind, "params": params, "ret": ret, "async": is_async, "localgen": localgen or whereonly,
            "gq": localgen, "whereonly": whereonly, "localgen2": localgen2,
            "vis": vis, "public": vis != "", "sig": sig, "text": text, "self_use": self_use}


def gen_program(rng, lib=None, family=False, lifetimes=False, shapes=None, own_names=False, max_gen=4, allow_slf=True,
                p_generic=0.7, use_prob=0.5, allow_localgen=True, allow_self_ty=True, options=True, self_prob=0.0, ref_use_prob=None, short=False):
    """one whole program; returns dict with texts and a description"""
    lib = lib or rng.choice(LIBS if not family else ["std", "tokio", "async_std"])
    shapes = shapes or ASCII_SHAPES
    gs = gen_generics(rng, max_gen, lifetimes, p_generic)
    g_impl, g_args, g_struct, fields = render_generics(gs)
    sname = rng.choice(["A", "Actor", "My_actor", "X9", "Thing"])
    wheres = []
    for k, n, b in gs:
        if k == "type" and rng.random() < 0.3:
            wheres.append("%s: %s" % (n, rng.choice([x for x in BOUNDS if x])))
        if k == "type" and rng.random() < 0.1:
            wheres.append("Option<%s>: Clone" % n)
    where = (" where " + ", ".join(wheres)) if wheres else ""
    k = rng.randint(1, 7)
    recv_kinds = ["&self", "&self", "&mut self", "&mut self", "static"]
    if allow_slf and not family:
        if rng.random() < 0.25:
            recv_kinds += ["self", "mut self"]
    names = pick_names(rng, k, shapes)
    ms = [gen_method(rng, n, sh, lib, gs, recv_kinds, own_names, allow_localgen=allow_localgen and not family, use_prob=use_prob,
                     allow_self_ty=allow_self_ty, self_prob=self_prob, ref_use_prob=ref_use_prob, short=short) for n, sh in names]
    if family:
        for m in ms:
            m["async"] = m["async"]
    ctor_kind = rng.choice(["new_self", "new_self", "new_args", "new_named", "try_opt", "try_res", "try_res_str"])
    cargs = rng.choice(["", "seed: u32", "seed: u32, tag: String", "(a, b): (u8, i8)"])
    actor_ty = sname + g_args
    ctor = {
        "new_self": "pub fn new(%s) -> Self { todo!() }" % cargs,
        "new_args": "pub fn new(%s) -> Self { todo!() }" % (cargs or "v: u8"),
        "new_named": "pub fn new(%s) -> %s { todo!() }" % (cargs, actor_ty),
        "try_opt": "pub fn try_new(%s) -> Option<Self> { todo!() }" % cargs,
        "try_res": "pub fn try_new(%s) -> Result<Self, String> { todo!() }" % cargs,
        "try_res_str": "pub fn try_new(%s) -> Result<%s, &'static str> { todo!() }" % (cargs, actor_ty),
    }[ctor_kind]
    body = [ctor] + [m["text"] for m in ms]
    pos = rng.randint(0, len(body) - 1)
    body[0], body[pos] = body[pos], body[0]           # the constructor is not always first
    item = "impl%s %s%s {\n    %s\n}" % (g_impl, actor_ty, where, "\n    ".join(body))
    struct = "pub struct %s%s %s" % (sname, g_struct, fields)
    # ---- attribute ----
    parts = []
    desc_opts = []
    if lib != "std" or rng.random() < 0.2:
        parts.append('lib = "%s"' % lib)
    if options:
        if rng.random() < 0.5:
            ch = rng.choice([0, 1, 2, 7]); parts.append("channel = %d" % ch); desc_opts.append("channel")
        if rng.random() < 0.3:
            parts.append("debut"); desc_opts.append("debut")
        if rng.random() < 0.2:
            parts.append('name = "%s"' % rng.choice(["Other", "Zed9", "My_model"])); desc_opts.append("name")
        if rng.random() < 0.15:
            parts.append("show"); desc_opts.append("show")
        if not family and rng.random() < 0.15:
            parts.append("Debug"); desc_opts.append("Debug")
    selected = [m for m in ms if m["public"]]
    filt = None
    if family:
        if rng.random() < 0.5:
            parts.append(rng.choice(["Mutex", "RwLock"])); desc_opts.append("lock")
        nmem = rng.randint(1, 3)
        mems = []
        member_filters = []
        for j, fn in enumerate(rng.sample(["User", "Admin", "Guest", "r2D2"], nmem)):
            mo = ['first_name = "%s"' % fn]
            if options and rng.random() < 0.4:
                mo.append("channel = %d" % rng.choice([0, 1, 3]))
            if options and rng.random() < 0.2:
                mo.append("show")
            if options and selected and rng.random() < 0.4:
                pick = rng.sample(selected, rng.randint(1, len(selected)))
                key = rng.choice(["include", "exclude"])
                mo.append("%s(%s)" % (key, ", ".join(m["name"] for m in pick)))
                desc_opts.append("member_" + key)
                member_filters.append((key, [m["name"] for m in pick]))
            else:
                member_filters.append(None)
            mems.append("actor(%s)" % ", ".join(mo))
        parts += mems
    else:
        if options and rng.random() < 0.15:
            parts.append("interact"); desc_opts.append("interact")
        if options and selected and rng.random() < 0.3:
            pick = rng.sample(selected, rng.randint(1, len(selected)))
            key = rng.choice(["include", "exclude"])
            parts.append("%s(%s)" % (key, ", ".join(m["name"] for m in pick)))
            desc_opts.append(key)
            filt = (key, [m["name"] for m in pick])
    rng.shuffle(parts)
    attr = ", ".join(parts)
    public = list(selected)

    def apply(f):
        if not f:
            return [m["name"] for m in public]
        names_f = set(f[1])
        return [m["name"] for m in public if (m["name"] in names_f) == (f[0] == "include")]
    selected_sets = [apply(f) for f in member_filters] if family else [apply(filt)]
    if filt:
        names_f = set(filt[1])
        selected = [m for m in selected if (m["name"] in names_f) == (filt[0] == "include")]
    return {"kind": "family" if family else "actor", "lib": lib, "attr": attr, "item": item, "struct": struct, "generics": gs,
            "methods": ms, "selected": [m["name"] for m in selected], "sname": sname, "actor_ty": actor_ty, "ctor": ctor_kind,
            "opts": desc_opts, "filter": filt, "where": wheres, "selected_sets": selected_sets}


def module_text(p, with_attr=True):
    attr = "#[interthread::%s(%s)]\n" % (p["kind"], p["attr"]) if with_attr else ""
    return PRELUDE + p["struct"] + "\n" + attr + p["item"] + "\n"


# ---- known-finding classes: decidable predicates on the INPUT ----
def _methods(p, sel):
    return [m for m in p["methods"] if m["name"] in sel]


def mangled_collision(p):
    """two methods selected for one model whose mangled variant names coincide"""
    for sel in p["selected_sets"]:
        seen = {}
        for n in sel:
            c = camel(n)
            if c in seen:
                return (seen[c], n)
            seen[c] = n
    return None


def flat_name(bound):
    """name::combined_ident: one binder is kept as written, two or more are joined without their `r#`"""
    if len(bound) == 1:
        return bound[0]
    return "_".join(b[2:] if b.startswith("r#") else b for b in bound) if bound else "__"


def field_collision(p):
    """two parameters of one selected method whose flattened field names coincide"""
    for sel in p["selected_sets"]:
        for m in _methods(p, sel):
            fl = [flat_name(b) for _, _, _, b in m["params"]] + (["gq"] if m.get("gq") else []) + (["gr"] if m.get("localgen2") else [])
            if len(set(fl)) != len(fl):
                return m["name"]
    return None


def actor_param(p):
    """a selected method has a parameter whose (flattened) name is `actor`, the name of the generated receiver binding"""
    for sel in p["selected_sets"]:
        for m in _methods(p, sel):
            for _, _, _, b in m["params"]:
                if flat_name(b) == "actor":
                    return m["name"]
    return None


def nested_wild(p):
    """a public method has a `_` nested inside a destructuring pattern"""
    for m in p["methods"]:
        if m["public"] and any(k == "slice_wild" for _, _, k, _ in m["params"]):
            return m["name"]
    return None


def model_methods(p, sel):
    """(kind, localgen, sig tokens) of the selected methods, as Gen/Generics.v wants them; family members ignore self-consuming methods"""
    out = []
    for m in _methods(p, sel):
        if m["kind"] == "slf" and p["kind"] == "family":
            continue
        out.append((m["kind"], m["localgen"], sig_tokens(m["sig"])))
    return out


def self_ty_tokens(p):
    """tokens of the impl's self type (what `Self` is replaced by before GenWork::retain)"""
    return sig_tokens(p["actor_ty"])


def private_params(p, sel):
    """Python rendering of Gen/Generics.v spec_gen (used for classification only): names of the private parameters"""
    ms = model_methods(p, sel)
    if any(k == "slf" or (k == "ref" and lg) for k, lg, _ in ms):
        return []
    used = set()
    for k, lg, toks in ms:
        if k == "ref" and not lg:
            used.update(toks)
            if "Self" in toks:
                used.update(self_ty_tokens(p))
    return [n for k, n, _ in p["generics"] if k != "const" and n not in used]


def where_on_private(p):
    """a where-predicate of the impl mentions a parameter that is private for some model (predicate is dropped from direct/play)"""
    for sel in p["selected_sets"]:
        priv = set(private_params(p, sel))
        for w in p["where"]:
            if priv & set(sig_tokens(w)):
                return w
    return None


def family_try_new(p):
    return p["kind"] == "family" and p["ctor"].startswith("try_")


# classes that are still open findings (a failing program inside one of them is excused while the class is listed as `finding:` in
# known_findings.txt -- props/C06.py sets ACTIVE_CLASSES from that file; a class that is no longer listed excuses nothing)
KNOWN_CLASSES = [("flattened-field-collision", field_collision), ("param-named-actor", actor_param)]
# classes repaired by fix: commits -- ordinary regression inputs now (predicates kept to describe the corpus)
REPAIRED_CLASSES = [("variant-name-collision", mangled_collision), ("where-on-private-generic", where_on_private),
                    ("family-try-new", family_try_new), ("nested-wildcard-pattern", nested_wild)]
ACTIVE_CLASSES = None      # None = every class of KNOWN_CLASSES


def known_class(p):
    for name, pred in KNOWN_CLASSES:
        if (ACTIVE_CLASSES is None or name in ACTIVE_CLASSES) and pred(p):
            return name
    return None


def repaired_classes(p):
    return [name for name, pred in REPAIRED_CLASSES if pred(p)]


def gen_mostly_clean(rng, keep_known=0.08, **kw):
    """rejection sampling: programs of a known-finding class are kept only with probability keep_known,
    so that most of the corpus is judged at full strength"""
    for _ in range(40):
        p = gen_program(rng, **kw)
        if known_class(p) is None or rng.random() < keep_known:
            return p
    return p


def gen_self_program(rng, mode, clean=True, **kw):
    """generic actor whose &self / &mut self methods mention `Self` in parameter / return types.
    mode "only": no reference method names a type parameter literally (static fns may); mode "mix": some do.
    No self-consuming methods and no method-local generics (either would make Script carry all parameters anyway);
    short signatures (stay clear of the includes-line-wrap class)."""
    args = dict(family=False, lifetimes=False, shapes=["plain", "snake", "digit", "lead_us"], own_names=False, max_gen=4, allow_slf=False,
                p_generic=1.0, use_prob=0.5, allow_localgen=False, allow_self_ty=True, self_prob=0.6, short=True,
                ref_use_prob=(0.0 if mode == "only" else 0.5))
    args.update(kw)
    p = None
    for _ in range(60):
        p = gen_program(rng, **args)
        if not any(k == "type" for k, _, _ in p["generics"]):
            continue
        sel = set(p["selected_sets"][0])
        if not any(m["self_use"] and m["name"] in sel for m in p["methods"]):
            continue
        if clean and known_class(p) is not None:
            continue
        break
    p["self_mode"] = mode
    return p
