"""C11 corpus: generic / non-generic actor shapes (Rust text) with a description, and the type-level probe programs over them."""
import random
import typecheck

LIBS = ["std", "tokio", "async_std", "smol"]
SPAWN = {"tokio": "tokio::spawn", "async_std": "async_std::task::spawn", "smol": "smol::spawn"}
PRELUDE = '''#![allow(unused, dead_code, unreachable_code, unused_must_use)]
pub struct NoClone(pub u8);                                   // Send + Sync + 'static, not Clone
#[derive(Clone)] pub struct NoSync(pub std::cell::Cell<u8>);  // Send + Clone + 'static, not Sync
pub fn assert_wf<T>() {}
pub fn assert_send<T: Send + 'static>() {}
pub fn assert_sync<T: Sync>() {}
pub fn assert_clone<T: Clone>() {}
pub fn assert_send_fut<F: std::future::Future + Send>(f: F) {}
pub fn mk<T>() -> T { loop {} }
pub trait Rel<X> {}                                           // holds between any two types: a bound `T: Rel<P>` constrains nothing
impl<A, X> Rel<X> for A {}
'''
INST_TYPES = {"plain": "u8", "noclone": "NoClone", "nosync": "NoSync", "string": "String"}
PNAMES = ["T", "U", "W"]


def shape(rng, lib, debut, nt=None, slf=None, const=None, mgen=None, forced_roles=None, bounds=None, channel=None, family=False):
    """one actor: dict(attr, item, struct, tparams[(name, role)], const, slf, methods[(name, kind, args, async)])"""
    nt = rng.choice([0, 1, 1, 2, 2, 3]) if nt is None else nt
    roles = forced_roles or [rng.choice(["arg", "ret", "private", "both"]) for _ in range(nt)]
    const = (rng.random() < 0.3) if const is None else const
    slf = rng.choice(["none", "none", "none", "compliant", "noncompliant"]) if slf is None else slf
    mgen = (rng.random() < 0.35) if mgen is None else mgen
    bstyle = bounds or rng.choice(["none", "inline", "where", "full"])
    channel = rng.choice([None, 0, 2, 5]) if channel is None else channel
    tps = list(zip(PNAMES[:nt], roles))
    gparams, wh = [], []
    # a where-clause bound on a PRIVATE parameter (one that occurs in no method signature) is outside the corpus: the macro drops such
    # predicates from Script::direct / play and the expansion does not compile (reported under C06); the bound goes to a used parameter
    public = [p for p, r in tps if r != "private"]
    if bstyle == "where" and not public:
        bstyle = "inline"
    for i, (p, r) in enumerate(tps):
        if bstyle == "inline" and i == 0:
            gparams.append("%s: Send" % p)
        elif bstyle == "full":
            gparams.append("%s: Send + Sync + 'static" % p)
        else:
            gparams.append(p)
        if bstyle == "where" and p == public[0]:
            wh.append("%s: 'static + Sync" % p)
    # a predicate whose subject is a message-visible parameter and whose bound mentions a private one (it belongs with the private ones)
    private = [p for p, r in tps if r == "private"]
    if bstyle == "where" and private:
        wh.append("%s: Rel<%s>" % (public[0], private[0]))
        wh.append("%s: Send" % private[0])
    if const:
        gparams.append("const N: usize")
    gen = "<%s>" % ", ".join(gparams) if gparams else ""
    targs = [p for p, _ in tps] + (["N"] if const else [])
    ty = "A" + ("<%s>" % ", ".join(targs) if targs else "")
    where = (" where " + ", ".join(wh)) if wh else ""
    sfields = ["pub Option<%s>" % p for p, _ in tps] + (["pub [u8; N]"] if const else []) + ["pub u8"]
    struct = "pub struct A%s(%s);" % ("<%s>" % ", ".join([p for p, _ in tps] + (["const N: usize"] if const else [])) if targs else "", ", ".join(sfields))
    ms = []
    lines = ["pub fn new(%s) -> Self { todo!() }" % ", ".join("a%d: Option<%s>" % (i, p) for i, (p, _) in enumerate(tps))]
    ms.append(("inc", "mut", [], False))
    lines.append("pub fn inc(&mut self) {}")
    ms.append(("get", "ref", [], False))
    lines.append("pub fn get(&self) -> u8 { 0 }")
    for p, r in tps:
        if r in ("arg", "both"):
            lines.append("pub fn put_%s(&mut self, x: %s, k: u8) {}" % (p.lower(), p))
            ms.append(("put_%s" % p.lower(), "mut", [p, "u8"], False))
        if r in ("ret", "both"):
            lines.append("pub fn take_%s(&self) -> Option<%s> { None }" % (p.lower(), p))
            ms.append(("take_%s" % p.lower(), "ref", [], False))
    if lib != "std":
        lines.append("pub async fn asy(&mut self, s: String) -> String { s }")
        ms.append(("asy", "mut", ["String"], True))
        lines.append("pub async fn asy_ref(&self) -> u8 { 0 }")
        ms.append(("asy_ref", "ref", [], True))
    if mgen:
        lines.append("pub fn gm<X: Into<u8> + Send + 'static>(&mut self, x: X) -> u8 { 0 }")
        ms.append(("gm", "mut", ["u8"], False))
        lines.append("pub fn gv<X: Send + 'static>(&self, x: X) {}")
        ms.append(("gv", "ref", ["u8"], False))
    lines.append("pub fn stat(k: u8) -> u8 { k }")
    noncompliant = False
    if slf == "compliant":
        # every documented spelling of the compliant return types, path-qualified ones included
        lines.append("pub fn fin(self, k: u8) -> %s { todo!() }" % rng.choice(["Option<u8>", "Option<u8>", "Result<u8, String>", "Result<u8, &'static str>",
                     "std::option::Option<u8>", "::std::result::Result<u8, String>", "core::result::Result<u8, ::std::string::String>", "std::result::Result<u8, &'static str>"]))
        noncompliant = not debut
    elif slf == "noncompliant":
        lines.append("pub fn fin(self, k: u8) -> u8 { k }")
        noncompliant = True
    item = "impl%s %s%s {\n    %s\n}" % (gen, ty, where, "\n    ".join(lines))
    parts = []
    if lib != "std":
        parts.append('lib = "%s"' % lib)
    if channel is not None:
        parts.append("channel = %d" % channel)
    if debut:
        parts.append("debut")
    # `show` only adds documentation: the handle must keep every trait it has without it
    show = rng.random() < 0.3
    if show and not family:
        parts.append("show")
    if family:
        parts += ['actor(first_name = "U"%s)' % (", show" if show else ""), 'actor(first_name = "V", channel = %d)' % (0 if channel else 3)]
    return {"kind": "family" if family else "actor", "lives": ["UALive", "VALive"] if family else ["ALive"], "lib": lib, "debut": debut, "attr": ", ".join(parts), "item": item, "struct": struct, "tparams": tps, "const": const, "slf": slf,
            "noncompliant": noncompliant, "methods": ms, "mgen": mgen, "bounds": bstyle, "channel": channel,
            "show": show,
            "label": ("family " if family else "") + "lib=%s debut=%s ch=%s nt=%d roles=%s const=%s slf=%s mgen=%s bounds=%s show=%s" % (lib, debut, channel, nt, "/".join(roles), const, slf, mgen, bstyle, show)}


def instantiations(rng, sh, tier):
    """lists of kinds per type parameter"""
    nt = len(sh["tparams"])
    if nt == 0:
        return [[]]
    out = [["plain"] * nt, ["noclone"] * nt, ["nosync"] * nt]
    if nt >= 2:
        mixed = ["plain"] * nt
        mixed[rng.randrange(nt)] = "noclone"
        out.append(mixed)
        mixed = ["string"] * nt
        mixed[rng.randrange(nt)] = "nosync"
        out.append(mixed)
    return out


def live_ty(sh, inst, name="ALive"):
    args = [INST_TYPES[k] for k in inst] + (["3"] if sh["const"] else [])
    return name + ("<%s>" % ", ".join(args) if args else "")


def call(sh, inst, recv, m):
    name, kind, args, is_async = m
    sub = {p: INST_TYPES[k] for (p, _), k in zip(sh["tparams"], inst)}
    a = ", ".join("mk::<%s>()" % sub.get(t, t) for t in args)
    return "%s.%s(%s)" % (recv, name, a)


def module(P, idx, sh, rng, tier):
    """append module m<idx> to program P; returns list of probe records"""
    recs = []
    first = len(P.lines) + 1
    P.add("pub mod m%d {\n  use super::*;\n  %s\n  #[interthread::%s(%s)]\n  %s" % (idx, sh["struct"], sh["kind"], sh["attr"], sh["item"].replace("\n", "\n  ")))
    is_async = sh["lib"] != "std"
    for ii, (inst, lname) in enumerate((i, ln) for i in instantiations(rng, sh, tier) for ln in sh["lives"]):
        lt = live_ty(sh, inst, lname)

        def probe(kind, line, extra=None):
            pid = "m%d.i%d.%s" % (idx, ii, kind if extra is None else kind + "." + extra)
            P.probe(pid, "    " + line)
            recs.append({"id": pid, "kind": kind, "inst": inst, "method": extra, "live": lt, "line": line.strip()})
        P.add("  pub fn probes_%d() {" % ii)
        probe("wf", "assert_wf::<%s>();" % lt)
        probe("send", "assert_send::<%s>();" % lt)
        probe("sync", "assert_sync::<%s>();" % lt)
        probe("clone", "assert_clone::<%s>();" % lt)
        if is_async:
            for m in sh["methods"]:
                recvn = "hm" if m[1] == "mut" else "hr"
                decl = "|hm: &mut %s|" % lt if m[1] == "mut" else "|hr: &%s|" % lt
                probe("fut", "let _ = %s { assert_send_fut(%s); };" % (decl, call(sh, inst, recvn, m)), m[0])
            body = " ".join("let _ = %s.await;" % call(sh, inst, "h", m) for m in sh["methods"])
            probe("spawn", "let _ = |h: %s| { %s(async move { let mut h = h; %s }); };" % (lt, SPAWN[sh["lib"]], body))
        else:
            body = " ".join("let _ = %s;" % call(sh, inst, "h", m) for m in sh["methods"])
            probe("spawn", "let _ = |h: %s| { std::thread::spawn(move || { let mut h = h; %s }); };" % (lt, body))
        if not sh["noncompliant"]:
            # a clone moved to another thread/task while the original keeps being used
            if is_async:
                probe("clone_use", "let _ = |h: %s| { let mut c = h.clone(); %s(async move { let _ = c.get().await; }); };" % (lt, SPAWN[sh["lib"]]))
            else:
                probe("clone_use", "let _ = |h: %s| { let mut c = h.clone(); std::thread::spawn(move || { let _ = c.get(); }); };" % lt)
        P.add("  }")
    P.add("}")
    return recs, (first, len(P.lines))


def corpus(rng, tier):
    shapes = []
    for lib in LIBS:
        for debut in (False, True):
            # fixed part: the classes the property names
            shapes.append(shape(rng, lib, debut, nt=0, slf="none", const=False, mgen=True, channel=2))
            shapes.append(shape(rng, lib, debut, nt=1, forced_roles=["arg"], slf="none", const=False, mgen=False, bounds="none"))
            shapes.append(shape(rng, lib, debut, nt=2, forced_roles=["both", "private"], slf="none", const=True, mgen=False))
            shapes.append(shape(rng, lib, debut, nt=1, forced_roles=["private"], slf="compliant", const=False))
            shapes.append(shape(rng, lib, debut, nt=2, forced_roles=["arg", "private"], slf="none", const=False, mgen=False, bounds="where"))
            shapes.append(shape(rng, lib, debut, nt=rng.choice([0, 1]), slf="noncompliant"))
            if lib != "smol":     # families: std, tokio, async_std
                shapes.append(shape(rng, lib, debut, nt=2, forced_roles=["arg", "private"], slf="none", const=False, mgen=False, family=True))
                shapes.append(shape(rng, lib, debut, slf="none", family=True))
            nrand = 5 if tier == "quick" else 70
            for _ in range(nrand):
                shapes.append(shape(rng, lib, debut))
    return shapes


def programs(shapes, rng, tier, per_program=6):
    progs, index = [], []
    for start in range(0, len(shapes), per_program):
        P = typecheck.Program()
        P.add(PRELUDE)
        mods = []
        for k, sh in enumerate(shapes[start:start + per_program]):
            recs, rng_lines = module(P, start + k, sh, rng, tier)
            mods.append({"shape": start + k, "probes": recs, "lines": rng_lines})
        progs.append(P)
        index.append(mods)
    return progs, index
