/* libcut.so -- LD_PRELOAD fault injector for the write-back path of the interthread macro (property C17).
 *
 * Only calls that concern a path containing CUT_PATH_SUBSTR are touched; everything else is passed through.
 *   CUT_PATH_SUBSTR=s      activates the shim for paths containing s
 *   CUT_AT_OPEN=n          _exit(137) right after the n-th successful O_TRUNC open
 *   FAIL_OPEN=n            the n-th open for writing returns EACCES (no effect)
 *   CUT_AFTER_BYTES=k      at most k bytes are written in total; CUT_MODE=kill (default): the partial write is done and the
 *                          process _exit(137)s;  CUT_MODE=error: short write, then ENOSPC
 *   FAIL_FSYNC=n / CUT_AT_FSYNC=n      n-th fsync returns EIO / process dies before it
 *   FAIL_RENAME=n          n-th rename onto a matching path returns EXDEV (no effect)
 *   CUT_AT_RENAME=before|after         die just before / just after the first such rename
 *   FAIL_UNLINK=n / CUT_AT_UNLINK=n    n-th unlink returns EPERM / process dies before it
 *   FAIL_CHMOD=n           n-th chmod returns EPERM
 *   CUT_LOG=file           one line per intercepted operation (appended)
 * The Coq mirror of this decision procedure is `pol_orc` in coq/theories/Fs/Crash.v.
 */
#define _GNU_SOURCE
#include <dlfcn.h>
#include <errno.h>
#include <fcntl.h>
#include <stdarg.h>
#include <stdio.h>
#include <stdlib.h>
#include <string.h>
#include <unistd.h>
#include <sys/stat.h>
#include <sys/types.h>
#include <sys/syscall.h>

static const char *substr;
static int inited;
static long cut_open, fail_open, budget = -1, kill_mode = 1, fail_fsync, cut_fsync, fail_rename, cut_rename_before,
    cut_rename_after, fail_unlink, cut_unlink, fail_chmod;
static long n_open, n_trunc, written, n_fsync, n_rename, n_unlink, n_chmod;
static int log_fd = -1;

static long envl(const char *k) { const char *v = getenv(k); return v && *v ? atol(v) : 0; }

static void init(void) {
    if (inited) return;
    inited = 1;
    substr = getenv("CUT_PATH_SUBSTR");
    if (!substr || !*substr) { substr = NULL; return; }
    cut_open = envl("CUT_AT_OPEN");
    fail_open = envl("FAIL_OPEN");
    { const char *v = getenv("CUT_AFTER_BYTES"); if (v && *v) budget = atol(v); }
    { const char *v = getenv("CUT_MODE"); if (v && strcmp(v, "error") == 0) kill_mode = 0; }
    fail_fsync = envl("FAIL_FSYNC"); cut_fsync = envl("CUT_AT_FSYNC");
    fail_rename = envl("FAIL_RENAME");
    { const char *v = getenv("CUT_AT_RENAME"); if (v) { if (!strcmp(v, "before")) cut_rename_before = 1; if (!strcmp(v, "after")) cut_rename_after = 1; } }
    fail_unlink = envl("FAIL_UNLINK"); cut_unlink = envl("CUT_AT_UNLINK");
    fail_chmod = envl("FAIL_CHMOD");
    { const char *v = getenv("CUT_LOG");
      if (v && *v) log_fd = (int)syscall(SYS_openat, AT_FDCWD, v, O_WRONLY | O_CREAT | O_APPEND | O_CLOEXEC, 0644); }
}

static void logf_(const char *fmt, ...) {
    if (log_fd < 0) return;
    char buf[4600];
    va_list ap; va_start(ap, fmt);
    int n = vsnprintf(buf, sizeof buf - 1, fmt, ap);
    va_end(ap);
    if (n < 0) return;
    if (n > (int)sizeof buf - 2) n = sizeof buf - 2;
    buf[n++] = '\n';
    syscall(SYS_write, log_fd, buf, (size_t)n);
}

static void die(const char *why) { logf_("die %s", why); _exit(137); }

static int match_path(const char *p) { init(); return substr && p && strstr(p, substr) != NULL; }

static int fd_path(int fd, char *out, size_t cap) {
    char link[64];
    snprintf(link, sizeof link, "/proc/self/fd/%d", fd);
    ssize_t n = readlink(link, out, cap - 1);
    if (n < 0) return 0;
    out[n] = 0;
    return 1;
}

static int match_fd(int fd, char *out, size_t cap) {
    init();
    if (!substr) return 0;
    if (fd == log_fd) return 0;
    if (!fd_path(fd, out, cap)) return 0;
    return strstr(out, substr) != NULL;
}

/* ---------------------------------------------------------------- open */
typedef int (*open_t)(const char *, int, ...);
typedef int (*openat_t)(int, const char *, int, ...);

static int do_open(const char *name, open_t real, openat_t realat, int dirfd, const char *path, int flags, mode_t mode) {
    int wr = (flags & O_ACCMODE) == O_WRONLY || (flags & O_ACCMODE) == O_RDWR;
    int m = wr && match_path(path);
    if (m) {
        long n = __sync_add_and_fetch(&n_open, 1);
        if (fail_open && fail_open == n) { logf_("open %s trunc=%d creat=%d FAIL", path, !!(flags & O_TRUNC), !!(flags & O_CREAT)); errno = EACCES; return -1; }
    }
    int fd = real ? real(path, flags, mode) : realat(dirfd, path, flags, mode);
    if (m) {
        int e = errno;
        logf_("open %s trunc=%d creat=%d %s", path, !!(flags & O_TRUNC), !!(flags & O_CREAT), fd >= 0 ? "ok" : "err");
        if (fd >= 0 && (flags & O_TRUNC)) {
            long n = __sync_add_and_fetch(&n_trunc, 1);
            if (cut_open && cut_open == n) die("after-open");
        }
        errno = e;
    }
    (void)name;
    return fd;
}

#define OPEN_WRAPPER(NAME)                                                          \
    int NAME(const char *path, int flags, ...) {                                    \
        static open_t real;                                                         \
        if (!real) real = (open_t)dlsym(RTLD_NEXT, #NAME);                          \
        mode_t mode = 0;                                                            \
        if ((flags & O_CREAT) || (flags & O_TMPFILE) == O_TMPFILE) {                \
            va_list ap; va_start(ap, flags); mode = va_arg(ap, mode_t); va_end(ap); \
        }                                                                           \
        return do_open(#NAME, real, NULL, 0, path, flags, mode);                    \
    }
OPEN_WRAPPER(open)
OPEN_WRAPPER(open64)

#define OPENAT_WRAPPER(NAME)                                                        \
    int NAME(int dirfd, const char *path, int flags, ...) {                         \
        static openat_t real;                                                       \
        if (!real) real = (openat_t)dlsym(RTLD_NEXT, #NAME);                        \
        mode_t mode = 0;                                                            \
        if ((flags & O_CREAT) || (flags & O_TMPFILE) == O_TMPFILE) {                \
            va_list ap; va_start(ap, flags); mode = va_arg(ap, mode_t); va_end(ap); \
        }                                                                           \
        return do_open(#NAME, NULL, real, dirfd, path, flags, mode);                \
    }
OPENAT_WRAPPER(openat)
OPENAT_WRAPPER(openat64)

/* ---------------------------------------------------------------- write */
ssize_t write(int fd, const void *buf, size_t count) {
    static ssize_t (*real)(int, const void *, size_t);
    if (!real) real = (ssize_t(*)(int, const void *, size_t))dlsym(RTLD_NEXT, "write");
    char p[4200];
    if (!match_fd(fd, p, sizeof p)) return real(fd, buf, count);
    if (budget < 0) {
        ssize_t r = real(fd, buf, count);
        logf_("write %s %zu %zd", p, count, r);
        return r;
    }
    long room = budget - written;
    if (room < 0) room = 0;
    if (kill_mode) {
        if ((long)count >= room) {
            size_t done = 0;
            while (done < (size_t)room) {
                ssize_t r = real(fd, (const char *)buf + done, (size_t)room - done);
                if (r <= 0) break;
                done += (size_t)r;
            }
            logf_("write %s %zu %zu", p, count, done);
            die("mid-write");
        }
    } else if ((long)count > room) {
        if (room == 0) { logf_("write %s %zu ENOSPC", p, count); errno = ENOSPC; return -1; }
        size_t done = 0;
        while (done < (size_t)room) {
            ssize_t r = real(fd, (const char *)buf + done, (size_t)room - done);
            if (r <= 0) break;
            done += (size_t)r;
        }
        written += (long)done;
        logf_("write %s %zu %zu", p, count, done);
        return (ssize_t)done;
    }
    ssize_t r = real(fd, buf, count);
    if (r > 0) written += r;
    logf_("write %s %zu %zd", p, count, r);
    return r;
}

/* ---------------------------------------------------------------- fsync */
static int do_sync(const char *name, int fd) {
    int (*real)(int) = (int (*)(int))dlsym(RTLD_NEXT, name);
    char p[4200];
    if (!match_fd(fd, p, sizeof p)) return real(fd);
    long n = __sync_add_and_fetch(&n_fsync, 1);
    if (cut_fsync && cut_fsync == n) { logf_("fsync %s", p); die("before-fsync"); }
    if (fail_fsync && fail_fsync == n) { logf_("fsync %s FAIL", p); errno = EIO; return -1; }
    int r = real(fd);
    logf_("fsync %s %s", p, r == 0 ? "ok" : "err");
    return r;
}
int fsync(int fd) { return do_sync("fsync", fd); }
int fdatasync(int fd) { return do_sync("fdatasync", fd); }

/* ---------------------------------------------------------------- rename */
static int pre_rename(const char *a, const char *b) {
    /* returns 1 = fail now, 0 = go on;  sets *after */
    long n = __sync_add_and_fetch(&n_rename, 1);
    if (n == 1 && cut_rename_before) { logf_("rename %s -> %s", a, b); die("before-rename"); }
    if (fail_rename && fail_rename == n) { logf_("rename %s -> %s FAIL", a, b); errno = EXDEV; return 1; }
    return 0;
}
static void post_rename(const char *a, const char *b, int r) {
    int e = errno;
    logf_("rename %s -> %s %s", a, b, r == 0 ? "ok" : "err");
    if (r == 0 && n_rename == 1 && cut_rename_after) die("after-rename");
    errno = e;
}
int rename(const char *a, const char *b) {
    static int (*real)(const char *, const char *);
    if (!real) real = (int (*)(const char *, const char *))dlsym(RTLD_NEXT, "rename");
    if (!match_path(b)) return real(a, b);
    if (pre_rename(a, b)) return -1;
    int r = real(a, b);
    post_rename(a, b, r);
    return r;
}
int renameat(int ad, const char *a, int bd, const char *b) {
    static int (*real)(int, const char *, int, const char *);
    if (!real) real = (int (*)(int, const char *, int, const char *))dlsym(RTLD_NEXT, "renameat");
    if (!match_path(b)) return real(ad, a, bd, b);
    if (pre_rename(a, b)) return -1;
    int r = real(ad, a, bd, b);
    post_rename(a, b, r);
    return r;
}
int renameat2(int ad, const char *a, int bd, const char *b, unsigned int fl) {
    static int (*real)(int, const char *, int, const char *, unsigned int);
    if (!real) real = (int (*)(int, const char *, int, const char *, unsigned int))dlsym(RTLD_NEXT, "renameat2");
    if (!match_path(b)) return real(ad, a, bd, b, fl);
    if (pre_rename(a, b)) return -1;
    int r = real(ad, a, bd, b, fl);
    post_rename(a, b, r);
    return r;
}

/* ---------------------------------------------------------------- unlink */
static int pre_unlink(const char *p) {
    long n = __sync_add_and_fetch(&n_unlink, 1);
    if (cut_unlink && cut_unlink == n) { logf_("unlink %s", p); die("before-unlink"); }
    if (fail_unlink && fail_unlink == n) { logf_("unlink %s FAIL", p); errno = EPERM; return 1; }
    return 0;
}
int unlink(const char *p) {
    static int (*real)(const char *);
    if (!real) real = (int (*)(const char *))dlsym(RTLD_NEXT, "unlink");
    if (!match_path(p)) return real(p);
    if (pre_unlink(p)) return -1;
    int r = real(p);
    { int e = errno; logf_("unlink %s %s", p, r == 0 ? "ok" : "err"); errno = e; }
    return r;
}
int unlinkat(int dfd, const char *p, int fl) {
    static int (*real)(int, const char *, int);
    if (!real) real = (int (*)(int, const char *, int))dlsym(RTLD_NEXT, "unlinkat");
    if (!match_path(p)) return real(dfd, p, fl);
    if (pre_unlink(p)) return -1;
    int r = real(dfd, p, fl);
    { int e = errno; logf_("unlink %s %s", p, r == 0 ? "ok" : "err"); errno = e; }
    return r;
}

/* ---------------------------------------------------------------- chmod */
int chmod(const char *p, mode_t mode) {
    static int (*real)(const char *, mode_t);
    if (!real) real = (int (*)(const char *, mode_t))dlsym(RTLD_NEXT, "chmod");
    if (!match_path(p)) return real(p, mode);
    long n = __sync_add_and_fetch(&n_chmod, 1);
    if (fail_chmod && fail_chmod == n) { logf_("chmod %s FAIL", p); errno = EPERM; return -1; }
    int r = real(p, mode);
    { int e = errno; logf_("chmod %s %s", p, r == 0 ? "ok" : "err"); errno = e; }
    return r;
}
int fchmodat(int dfd, const char *p, mode_t mode, int fl) {
    static int (*real)(int, const char *, mode_t, int);
    if (!real) real = (int (*)(int, const char *, mode_t, int))dlsym(RTLD_NEXT, "fchmodat");
    if (!match_path(p)) return real(dfd, p, mode, fl);
    long n = __sync_add_and_fetch(&n_chmod, 1);
    if (fail_chmod && fail_chmod == n) { logf_("chmod %s FAIL", p); errno = EPERM; return -1; }
    int r = real(dfd, p, mode, fl);
    { int e = errno; logf_("chmod %s %s", p, r == 0 ? "ok" : "err"); errno = e; }
    return r;
}
