// C14 runtime probe: interact actors on the four runtimes, concurrent callers holding differently named clones.
//   ask : the actor method gets the SENDING end and sends (tag, inter_name) on it from a helper thread after a tag-dependent delay;
//         the caller keeps the returned receiving ends and reads them later in a scrambled order.
//   tell: the actor method gets the RECEIVING end and a helper thread records (tag, received value, inter_name);
//         the caller keeps the returned sending ends and sends f(tag) on them later in a scrambled order.
// Every clone is renamed before each call, so the getter value must be the one of the calling clone at call time.
// usage: c14probe <lib> <callers> <calls-per-caller>     output: one JSON line
use std::sync::{Arc, Mutex};
use std::time::Duration;

pub type Log = Arc<Mutex<Vec<(u64, u64, String)>>>;
fn f(tag: u64) -> u64 { tag * 7 + 1 }
fn scramble(n: usize, salt: usize) -> Vec<usize> {
    let mut v: Vec<usize> = (0..n).collect();
    let mut s = salt.wrapping_mul(2654435761) | 1;
    for i in (1..n).rev() { s = s.wrapping_mul(6364136223846793005).wrapping_add(1442695040888963407); v.swap(i, (s >> 33) % (i + 1)); }
    v
}
fn name_of(t: u64, i: u64) -> String { format!("c{}r{}", t, i) }

mod p_std {
    use super::*;
    pub struct P { log: Log }
    #[interthread::actor(debut, interact)]
    impl P {
        pub fn new(log: Log) -> Self { Self { log } }
        pub fn ask(&mut self, tag: u64, inter_send: oneshot::Sender<(u64, String)>, inter_name: String) {
            std::thread::spawn(move || { std::thread::sleep(Duration::from_millis((tag * 7) % 5)); let _ = inter_send.send((tag, inter_name)); });
        }
        pub fn tell(&mut self, inter_recv: oneshot::Receiver<u64>, tag: u64, inter_name: String) {
            let log = self.log.clone();
            std::thread::spawn(move || { if let Ok(v) = inter_recv.recv() { log.lock().unwrap().push((tag, v, inter_name)); } });
        }
        pub fn both(&self, (a, b): (u64, u64), inter_name: String, c: u64) -> (u64, u64, u64, String) { (a, b, c, inter_name) }
    }
    pub fn run(callers: u64, k: u64, log: Log) -> (Vec<(u64, u64, String, String)>, Vec<String>) {
        let h0 = PLive::new(log);
        let mut ths = vec![];
        for t in 0..callers {
            let mut h = h0.clone();
            ths.push(std::thread::spawn(move || {
                let mut asks = vec![]; let mut tells = vec![]; let mut obs = vec![]; let mut errs = vec![];
                for i in 0..k {
                    let tag = t * 1000 + i;
                    h.inter_set_name(name_of(t, i));
                    if i % 2 == 0 { asks.push((tag, name_of(t, i), h.ask(tag))); } else { tells.push((tag, h.tell(tag))); }
                    let r = h.both((tag, 1), 2);
                    if r != (tag, 1, 2, name_of(t, i)) { errs.push(format!("both({}) returned {:?}", tag, r)); }
                }
                h.inter_set_name("after");
                let order = scramble(tells.len(), t as usize + 1);
                let mut tells: Vec<Option<_>> = tells.into_iter().map(Some).collect();
                for j in order { let (tag, tx) = tells[j].take().unwrap(); let _ = tx.send(f(tag)); }
                let order = scramble(asks.len(), t as usize + 7);
                let mut asks: Vec<Option<_>> = asks.into_iter().map(Some).collect();
                for j in order {
                    let (tag, want, rx) = asks[j].take().unwrap();
                    match rx.recv_timeout(Duration::from_secs(10)) { Ok((g, n)) => obs.push((tag, g, n, want)), Err(_) => errs.push(format!("ask {} nothing received", tag)) }
                }
                (obs, errs)
            }));
        }
        let mut obs = vec![]; let mut errs = vec![];
        for th in ths { match th.join() { Ok((o, e)) => { obs.extend(o); errs.extend(e); } Err(_) => errs.push("caller panicked".into()) } }
        (obs, errs)
    }
}

macro_rules! async_caller {
    ($h0:expr, $callers:expr, $k:expr, $spawn:path, $recv:expr) => {{
        let mut ths = vec![];
        for t in 0..$callers {
            let mut h = $h0.clone();
            let k = $k;
            ths.push($spawn(async move {
                let mut asks = vec![]; let mut tells = vec![]; let mut obs = vec![]; let mut errs: Vec<String> = vec![];
                for i in 0..k {
                    let tag = t * 1000 + i;
                    h.inter_set_name(name_of(t, i));
                    if i % 2 == 0 { asks.push((tag, name_of(t, i), h.ask(tag).await)); } else { tells.push((tag, h.tell(tag).await)); }
                    let r = h.both((tag, 1), 2).await;
                    if r != (tag, 1, 2, name_of(t, i)) { errs.push(format!("both({}) returned {:?}", tag, r)); }
                }
                h.inter_set_name("after");
                let order = scramble(tells.len(), t as usize + 1);
                let mut tells: Vec<Option<_>> = tells.into_iter().map(Some).collect();
                for j in order { let (tag, tx) = tells[j].take().unwrap(); let _ = tx.send(f(tag)); }
                let order = scramble(asks.len(), t as usize + 7);
                let mut asks: Vec<Option<_>> = asks.into_iter().map(Some).collect();
                for j in order {
                    let (tag, want, rx) = asks[j].take().unwrap();
                    match $recv(rx).await { Some((g, n)) => obs.push((tag, g, n, want)), None => errs.push(format!("ask {} nothing received", tag)) }
                }
                (obs, errs)
            }));
        }
        ths
    }};
}

mod p_tokio {
    use super::*;
    pub struct P { log: Log }
    #[interthread::actor(lib = "tokio", debut, interact)]
    impl P {
        pub fn new(log: Log) -> Self { Self { log } }
        pub fn ask(&mut self, tag: u64, inter_send: tokio::sync::oneshot::Sender<(u64, String)>, inter_name: String) {
            std::thread::spawn(move || { std::thread::sleep(Duration::from_millis((tag * 7) % 5)); let _ = inter_send.send((tag, inter_name)); });
        }
        pub fn tell(&mut self, inter_recv: tokio::sync::oneshot::Receiver<u64>, tag: u64, inter_name: String) {
            let log = self.log.clone();
            std::thread::spawn(move || { if let Ok(v) = inter_recv.blocking_recv() { log.lock().unwrap().push((tag, v, inter_name)); } });
        }
        pub fn both(&self, (a, b): (u64, u64), inter_name: String, c: u64) -> (u64, u64, u64, String) { (a, b, c, inter_name) }
    }
    async fn rcv(rx: tokio::sync::oneshot::Receiver<(u64, String)>) -> Option<(u64, String)> {
        tokio::time::timeout(Duration::from_secs(10), rx).await.ok().and_then(|r| r.ok())
    }
    pub fn run(callers: u64, k: u64, log: Log) -> (Vec<(u64, u64, String, String)>, Vec<String>) {
        let rt = tokio::runtime::Builder::new_multi_thread().worker_threads(4).enable_all().build().unwrap();
        rt.block_on(async move {
            let h0 = PLive::new(log);
            let ths = async_caller!(h0, callers, k, tokio::spawn, rcv);
            let mut obs = vec![]; let mut errs = vec![];
            for th in ths { match th.await { Ok((o, e)) => { obs.extend(o); errs.extend(e); } Err(_) => errs.push("caller panicked".into()) } }
            (obs, errs)
        })
    }
}

mod p_async_std {
    use super::*;
    pub struct P { log: Log }
    #[interthread::actor(lib = "async_std", debut, interact)]
    impl P {
        pub fn new(log: Log) -> Self { Self { log } }
        pub fn ask(&mut self, tag: u64, inter_send: oneshot::Sender<(u64, String)>, inter_name: String) {
            std::thread::spawn(move || { std::thread::sleep(Duration::from_millis((tag * 7) % 5)); let _ = inter_send.send((tag, inter_name)); });
        }
        pub fn tell(&mut self, inter_recv: oneshot::Receiver<u64>, tag: u64, inter_name: String) {
            let log = self.log.clone();
            std::thread::spawn(move || { if let Ok(v) = inter_recv.recv() { log.lock().unwrap().push((tag, v, inter_name)); } });
        }
        pub fn both(&self, (a, b): (u64, u64), inter_name: String, c: u64) -> (u64, u64, u64, String) { (a, b, c, inter_name) }
    }
    async fn rcv(rx: oneshot::Receiver<(u64, String)>) -> Option<(u64, String)> {
        async_std::future::timeout(Duration::from_secs(10), rx).await.ok().and_then(|r| r.ok())
    }
    pub fn run(callers: u64, k: u64, log: Log) -> (Vec<(u64, u64, String, String)>, Vec<String>) {
        async_std::task::block_on(async move {
            let h0 = PLive::new(log);
            let ths = async_caller!(h0, callers, k, async_std::task::spawn, rcv);
            let mut obs = vec![]; let mut errs = vec![];
            for th in ths { let (o, e) = th.await; obs.extend(o); errs.extend(e); }
            (obs, errs)
        })
    }
}

mod p_smol {
    use super::*;
    pub struct P { log: Log }
    #[interthread::actor(lib = "smol", debut, interact)]
    impl P {
        pub fn new(log: Log) -> Self { Self { log } }
        pub fn ask(&mut self, tag: u64, inter_send: oneshot::Sender<(u64, String)>, inter_name: String) {
            std::thread::spawn(move || { std::thread::sleep(Duration::from_millis((tag * 7) % 5)); let _ = inter_send.send((tag, inter_name)); });
        }
        pub fn tell(&mut self, inter_recv: oneshot::Receiver<u64>, tag: u64, inter_name: String) {
            let log = self.log.clone();
            std::thread::spawn(move || { if let Ok(v) = inter_recv.recv() { log.lock().unwrap().push((tag, v, inter_name)); } });
        }
        pub fn both(&self, (a, b): (u64, u64), inter_name: String, c: u64) -> (u64, u64, u64, String) { (a, b, c, inter_name) }
    }
    async fn rcv(rx: oneshot::Receiver<(u64, String)>) -> Option<(u64, String)> {
        smol::future::or(async { rx.await.ok() }, async { smol::Timer::after(Duration::from_secs(10)).await; None }).await
    }
    pub fn run(callers: u64, k: u64, log: Log) -> (Vec<(u64, u64, String, String)>, Vec<String>) {
        smol::block_on(async move {
            let h0 = PLive::new(log);
            let ths = async_caller!(h0, callers, k, smol::spawn, rcv);
            let mut obs = vec![]; let mut errs = vec![];
            for th in ths { let (o, e) = th.await; obs.extend(o); errs.extend(e); }
            (obs, errs)
        })
    }
}

// order: a bounded std actor (channel = 2) is parked in `hold` and its queue is filled by two `push` calls; a second thread then issues,
// through its own clone and in this order, `snap` (an interact method that hands back the receiving end of a one-time channel) and `push(3)`;
// then the gate opens.  Per-handle order: `snap` is applied before `push(3)`, so the snapshot it sends is exactly [hold, push:1, push:2].
mod p_std_order {
    use super::*;
    use std::sync::Condvar;
    pub type Gate = Arc<(Mutex<bool>, Condvar)>;
    pub struct Q { log: Arc<Mutex<Vec<String>>>, gate: Gate }
    #[interthread::actor(channel = 2, debut, interact)]
    impl Q {
        pub fn new(log: Arc<Mutex<Vec<String>>>, gate: Gate) -> Self { Self { log, gate } }
        pub fn hold(&mut self) {
            self.log.lock().unwrap().push("hold".into());
            let (m, c) = &*self.gate;
            let mut g = m.lock().unwrap();
            while !*g { g = c.wait(g).unwrap(); }
        }
        pub fn push(&mut self, v: u64) { self.log.lock().unwrap().push(format!("push:{}", v)); }
        pub fn snap(&mut self, inter_send: oneshot::Sender<Vec<String>>) {
            let s = self.log.lock().unwrap().clone();
            self.log.lock().unwrap().push("snap".into());
            let _ = inter_send.send(s);
        }
    }
    pub fn run() -> (Vec<String>, Vec<String>, Vec<String>) {
        let log = Arc::new(Mutex::new(vec![]));
        let gate: Gate = Arc::new((Mutex::new(false), Condvar::new()));
        let mut errs: Vec<String> = vec![];
        let mut h = QLive::new(log.clone(), gate.clone());
        h.hold();
        for _ in 0..600 { if log.lock().unwrap().iter().any(|x| x == "hold") { break; } std::thread::sleep(Duration::from_millis(5)); }
        h.push(1);
        h.push(2);
        let mut c = h.clone();
        let (tx, rx) = std::sync::mpsc::channel();
        let th = std::thread::spawn(move || { let r = c.snap(); c.push(3); let _ = tx.send(r); });
        std::thread::sleep(Duration::from_millis(400));
        { let (m, cv) = &*gate; *m.lock().unwrap() = true; cv.notify_all(); }
        let snapshot = match rx.recv_timeout(Duration::from_secs(10)) {
            Ok(r) => match r.recv_timeout(Duration::from_secs(10)) { Ok(s) => s, Err(_) => { errs.push("snapshot never sent".into()); vec![] } },
            Err(_) => { errs.push("second client did not finish".into()); vec![] }
        };
        let _ = th.join();
        for _ in 0..400 { if log.lock().unwrap().len() >= 5 { break; } std::thread::sleep(Duration::from_millis(10)); }
        let l = log.lock().unwrap().clone();
        (snapshot, l, errs)
    }
}

fn js(s: &str) -> String { format!("\"{}\"", s.replace('\\', "\\\\").replace('"', "\\\"")) }

fn main() {
    let a: Vec<String> = std::env::args().collect();
    let lib = a.get(1).map(|s| s.as_str()).unwrap_or("std").to_string();
    let callers: u64 = a.get(2).and_then(|s| s.parse().ok()).unwrap_or(4);
    let k: u64 = a.get(3).and_then(|s| s.parse().ok()).unwrap_or(6);
    if lib == "std_order" {
        let (snap, fin, errs) = p_std_order::run();
        let l = |v: &Vec<String>| v.iter().map(|e| js(e)).collect::<Vec<_>>().join(", ");
        println!("{{\"lib\": \"std_order\", \"snapshot\": [{}], \"log\": [{}], \"errors\": [{}]}}", l(&snap), l(&fin), l(&errs));
        return;
    }
    let log: Log = Arc::new(Mutex::new(vec![]));
    let (obs, errs) = match lib.as_str() {
        "std" => p_std::run(callers, k, log.clone()),
        "tokio" => p_tokio::run(callers, k, log.clone()),
        "async_std" => p_async_std::run(callers, k, log.clone()),
        "smol" => p_smol::run(callers, k, log.clone()),
        _ => { println!("{{\"error\": \"unknown lib\"}}"); return; }
    };
    // the helper threads of `tell` record asynchronously: wait until every expected record is there (bounded)
    let want = callers * (k / 2);
    for _ in 0..400 { if log.lock().unwrap().len() as u64 >= want { break; } std::thread::sleep(Duration::from_millis(25)); }
    let tells = log.lock().unwrap().clone();
    let mut out = String::new();
    out.push_str(&format!("{{\"lib\": {}, \"callers\": {}, \"k\": {}, \"asks\": [", js(&lib), callers, k));
    out.push_str(&obs.iter().map(|(t, g, n, w)| format!("[{}, {}, {}, {}]", t, g, js(n), js(w))).collect::<Vec<_>>().join(", "));
    out.push_str("], \"tells\": [");
    out.push_str(&tells.iter().map(|(t, v, n)| format!("[{}, {}, {}]", t, v, js(n))).collect::<Vec<_>>().join(", "));
    out.push_str("], \"errors\": [");
    out.push_str(&errs.iter().map(|e| js(e)).collect::<Vec<_>>().join(", "));
    out.push_str("]}");
    println!("{}", out);
}
