"""Shared driver of the runtime-layer (R) properties: theorems + T-tie instances + model-side failing-input search."""
import random
import inst, gen_impl
from common import *


def std_configs(rng, tier, chans=(None, 0, 1, 2, 7), slf=True, families=False, nrand=None):
    cs = []
    if nrand is None:
        nrand = 1 if tier == "quick" else 20
    for lib in gen_impl.LIBS:
        for ch in chans:
            for debut in (False, True):
                impls = [gen_impl.probe_impl(lib, slf=slf and debut)]
                if ch in (None, 2):
                    impls.append(gen_impl.generic_impl(lib, slf=slf and debut))
                impls += [gen_impl.random_impl(rng, lib) for _ in range(nrand if not debut else 0)]
                for im in impls:
                    cs.append({"kind": "actor", "lib": lib, "attr": gen_impl.actor_attr(lib, ch, debut=debut), "item": im["item"],
                               "nmodels": 1, "label": "actor lib=%s channel=%s debut=%s" % (lib, ch, debut), "cfg": (lib, ch, debut)})
    if families:
        for lib in ("std", "tokio", "async_std"):
            for lock in ("", "Mutex", "RwLock"):
                fam = (['lib = "%s"' % lib] if lib != "std" else []) + ([lock] if lock else []) + ["channel = 2"]
                attr = ", ".join(fam + ['actor(first_name = "U")', 'actor(first_name = "V", channel = 0)'])
                cs.append({"kind": "family", "lib": lib, "attr": attr, "item": gen_impl.probe_impl(lib)["item"], "nmodels": 2,
                           "label": "family lib=%s lock=%s" % (lib, lock or "default"), "cfg": (lib, "fam", lock)})
    return cs


def run_runtime(rep, pid, premise, theorem_apps, configs, search=None, search_what="", extra_funs=(), per_model_check=None, imports="", dfs=None, dfs_when=None):
    """returns (owners, results) for further property-specific checks"""
    nthm, problems, _ = property_theorems(pid)
    rep.checker_cmds.append("make -C coq theories/Properties/%s.vo (Print Assumptions must be closed)" % pid)
    for _ in range(nthm):
        rep.oblige(not problems)
    bad = hygiene()
    rep.oblige(not bad)
    if problems or bad:
        rep.violation("theorems", {"what": "property theorem file no longer checks", "problems": problems, "hygiene": bad}, found=False)
    if rep.tier == "thorough":
        ok, out = coqchk(pid)
        rep.checker_cmds.append("coqchk -o -silent -Q theories IT IT.Properties.%s" % pid)
        if not rep.oblige(ok):
            rep.violation("coqchk", {"what": "coqchk does not confirm the compiled theorems / reports axioms", "output": out}, found=False)
    cs = inst.expand_configs(configs, tag=pid.lower())
    terms, owners = [], []
    for c in cs:
        rep.evaluations += 1
        rep.count("lib", c["lib"])
        rep.count("kind", c["kind"])
        if c["class"] != "TOKENS":
            rep.oblige(False)
            rep.violation("expansion_" + c["label"], {"what": "valid configuration not expanded", "class": c["class"], "attr": c["attr"], "item": c["item"], "output": c["text"][:2000]})
            continue
        ms = inst.coq_models(c)
        if len(ms) != c["nmodels"] or any(m is None for m in ms):
            rep.oblige(False)
            rep.violation("shape_" + c["label"], {"what": "expansion not recognised as %d model(s)" % c["nmodels"], "attr": c["attr"], "item": c["item"],
                                                  "errors": c.get("render_errors"), "parse_error": c.get("parse_error")}, found=False)
            continue
        for j, m in enumerate(ms):
            terms.append(m)
            owners.append((c, j))
    funs = [("wf", premise + " {i}")] + ([("search", search + " (elab {i})")] if search else []) + list(extra_funs)
    res, mod = inst.coq_eval(pid, terms, funs, extra_imports="From IT Require Import Runtime.Explore Runtime.Combined.\n" + imports)
    rep.checker_cmds.append("coqc generated/%s_inst.v; coqc generated/%s_oblig.v" % (pid, pid))
    good = []
    # bounded depth-first search over schedules for the instances whose premise fails (model-side failing-input search)
    dfs_res = {}
    failing = [k for k, r in enumerate(res) if r["wf"] != "true" or (dfs_when is not None and dfs_when(r))][:24]
    if dfs and failing:
        bad, boom = dfs
        try:
            dfs_res = inst.coq_values("%s_dfs" % pid, inst.HEADER + "From IT Require Import Runtime.Explore.\nFrom ITG Require Import %s." % mod,
                                      [("d%d" % k, "map (fun k => (k, search (elab inst_%d) %s k %s 9)) (firstn 3 (messaging (elab inst_%d)))" % (k, bad.replace("{m}", "(elab inst_%d)" % k), boom, k)) for k in failing], timeout=300)
        except Infra:
            dfs_res = {}
    for k, ((c, j), r) in enumerate(zip(owners, res)):
        if "d%d" % k in dfs_res:
            r["dfs"] = dfs_res["d%d" % k]
        ok = rep.oblige(r["wf"] == "true")
        rep.nontrivial.add((c["cfg"], j))
        if k % 23 == 0:
            rep.sample({"config": c["label"], "attr": c["attr"], "model": j, premise: r["wf"]})
        if per_model_check:
            ok2 = per_model_check(rep, c, j, r)
            ok = ok2 if (ok or isinstance(ok2, dict)) else ok
            if isinstance(ok, dict):
                # the property's own oracle evaluated on the real expansion fails: that input is the failing input
                fnd = ok.pop("_found", True)
                rep.violation("inst_%s_%d" % (c["label"], j), dict(ok, attr=c["attr"], item=c["item"], kind=c["kind"], model_index=j), found=fnd)
                continue
        if ok:
            good.append(k)
            continue
        # `[(0, 0, 0)]` is c20_search's marker "the scenario could not be set up on this model" (no anomaly)
        found = (bool(search) and r.get("search", "[]") not in ("[]", "[(0, 0, 0)]")) or ("Some" in r.get("dfs", ""))
        # a method body the translator could not read is a placeholder in the model: what the model-side search finds on it says nothing about the code
        unread = "(BUnknown" in terms[k]
        found = found and not unread
        rep.violation("inst_%s_%d" % (c["label"], j), {
            "what": "instance premise no longer checks: %s = %s" % (premise, r["wf"]),
            "attr": c["attr"], "item": c["item"], "kind": c["kind"], "model_index": j,
            "model_side_search": {"scenario": search_what, "anomalies": r.get("search"),
                                  "dfs (method, schedule: 0 = actor step, t+1 = step of client t; 3 clients call the method once each)": r.get("dfs")},
            "unread_bodies": unread,
            "theorem": "premise %s inst = true of the theorems in Properties/%s.v" % (premise, pid)}, found=found)
    ok, out = inst.prove_instances(pid, mod, good, premise, theorem_apps, extra_imports="From IT Require Import Properties.%s.\n" % pid + imports)
    for _ in good:
        rep.oblige(ok)
    if not ok:
        rep.violation("obligations", {"what": "kernel rejected instance lemmas", "output": out[-2000:]}, found=False)
    rep.assumptions += ["channel / oneshot / spawn primitives behave as defined in Runtime/Actor.v (modelled, not verified)",
                        "user methods are deterministic functions of (state, arguments) - section variable `sem`",
                        "impl blocks inside the documented envelope (no typed self receivers, no cfg attributes on methods)"]
    return owners, res


def impl_side(rep, pid, runs, judge):
    """runtime correspondence on the real generated code (harness/probe): runs = list of argument lists,
    judge(args, observation) -> (problems, known). Any problem is a violation with the scenario as replay."""
    import probe
    try:
        probe.build()
    except probe.ProbeCompileError as e:
        rep.notes.append("probe harness does not compile against the current tree (generated code rejected by rustc): runtime correspondence skipped; see C06")
        rep.extra["probe_compile_error"] = str(e)[-1500:]
        return False
    res = probe.run_many(runs)
    known_seen = []
    for a, d in zip(runs, res):
        rep.evaluations += 1
        out = judge(a, d)
        problems, known = out if isinstance(out, tuple) else (out, [])
        harness = [x for x in problems if x.startswith("harness:")]
        real = [x for x in problems if not x.startswith("harness:")]
        if harness and not real:
            # never let a harness hiccup count against the code: retry once
            d = probe.run_one(a)
            out = judge(a, d)
            problems, known = out if isinstance(out, tuple) else (out, [])
            real = [x for x in problems if not x.startswith("harness:")]
            if not real and problems:
                rep.notes.append("probe scenario %s inconclusive: %s" % (a, problems))
                continue
        if real:
            # timing never decides alone: a scenario that fails is run a second time (after the machine had a moment);
            # only a failure that shows again counts against the code
            import time as _t
            _t.sleep(1.0)
            d2 = probe.run_one(a)
            out2 = judge(a, d2)
            problems2, known2 = out2 if isinstance(out2, tuple) else (out2, [])
            real2 = [x for x in problems2 if not x.startswith("harness:")]
            if not real2:
                rep.notes.append("probe scenario %s failed once and passed on the re-run (timing): %s" % (a, real[:1]))
                real, known, d = [], known2, d2
            else:
                real, d = real2, d2
        rep.traces += 1
        rep.oblige(not real)
        rep.count("probe_scenario", "%s/%s" % (a[0], a[1]))
        known_seen += known
        if real:
            rep.violation("probe_" + "_".join(str(x) for x in a), {
                "what": real, "how_to_replay": "cd /verif/harness/probe && CARGO_TARGET_DIR=/verif/.cache/probe_target cargo build --offline && /verif/.cache/probe_target/debug/probe " + " ".join(str(x) for x in a),
                "observation": d}, found=True)
        elif len(rep.samples) < 9:
            rep.sample({"probe": " ".join(str(x) for x in a), "observation": {k: v for k, v in d.items() if k not in ("log", "returns")}})
    return known_seen


def replay_generic(rep, path, judge_probe=None):
    """./check Cxx --replay file: re-run the recorded input on the current tree and show what is observed now"""
    import json, probe, hook, ir
    d = json.load(open(path))
    if "observation" in d and d["observation"].get("_args"):
        a = d["observation"]["_args"]
        now = probe.run_one(a)
        print("probe %s ->" % " ".join(a), json.dumps({k: v for k, v in now.items() if k not in ("log", "returns")})[:1500])
        if judge_probe:
            out = judge_probe(a, now)
            problems = out[0] if isinstance(out, tuple) else out
            print("oracle:", problems or "holds")
            if problems and not all(x.startswith("harness:") for x in problems):
                rep.violation("replay", {"what": problems, "observation": now}, found=True)
    elif "attr" in d and "item" in d:
        r = hook.run_batch([(d.get("kind", "actor"), [d["attr"], d["item"]])])[0]
        print("expansion class now:", r[0])
        if r[0] == "TOKENS":
            ex = ir.parse_expansion(r[1][0])
            print("unrecognised parts:", ex["unknown"], [m["name"] for mdl in ex["models"] for m in mdl["methods"] if m.get("body_ir", ("",))[0] == "Unknown"])
        print("recorded:", json.dumps(d.get("what"))[:800])
    else:
        print(json.dumps(d)[:2000])
    return rep.finish()


def model_vs_probe(rep, pid, scenario, combos):
    """model / implementation correspondence: the LTS elaborated from the REAL expansion of the harness actor predicts the
    harness scenario; the prediction is compared with what the real runtime does.  combos: list of (lib, chan, params dict)."""
    import probe, coqgen
    cfgs = []
    for lib, ch, prm in combos:
        im = gen_impl.harness_impl(lib)
        cfgs.append({"kind": "actor", "lib": lib, "attr": gen_impl.actor_attr(lib, ch if ch else None), "item": im["item"], "actor_ty": "Probe", "prm": prm, "ch": ch})
    inst.expand_configs(cfgs, tag=pid.lower() + "_h")
    items, defs, runs, keep = [], [], [], []
    for n, c in enumerate(cfgs):
        ms = inst.coq_models(c) if c["class"] == "TOKENS" else []
        if len(ms) != 1 or ms[0] is None:
            rep.notes.append("harness actor not recognised for %s/%s: correspondence skipped" % (c["lib"], c["ch"]))
            continue
        names = [m["name"] for m in c["ex"]["models"][0]["methods"]]
        ix = {k: names.index(k) for k in ("hold", "boom", "add", "tick", "get") if k in names}
        if len(ix) != 5:
            continue
        defs.append("Definition h_%d : model := %s." % (n, ms[0]))
        p = c["prm"]
        if scenario == "burst":
            items.append(("p%d" % n, "burst_scn (elab h_%d) %d %d %d" % (n, ix["hold"], ix["tick"], p["k"])))
            runs.append(["burst", c["lib"], c["ch"], "k=%d" % p["k"]])
        else:
            for fl in ("0", "1", "2"):
                items.append(("p%d_%s" % (n, fl), "fault_scn (elab h_%d) %s %d %d %d %d %d %d %d" % (n, fl, ix["hold"], ix["boom"], ix["add"], ix["tick"], ix["get"], p["waiting"], p["later"])))
            runs.append(["fault", c["lib"], c["ch"], "waiting=%d" % p["waiting"], "later=%d" % p["later"]])
        keep.append(n)
    if not keep:
        return
    vals = inst.coq_values("%s_harness" % pid, inst.HEADER + "From IT Require Import Runtime.Explore.", items, defs="\n".join(defs))
    try:
        obs = probe.run_many(runs)
    except probe.ProbeCompileError:
        rep.notes.append("probe does not compile: model/implementation correspondence skipped")
        return
    code = {"returned": 0, "panicked": 1, "hung": 2}
    for n, a, d in zip(keep, runs, obs):
        rep.evaluations += 1
        if "error" in d:
            rep.notes.append("probe %s inconclusive: %s" % (a, d["error"]))
            continue
        if scenario == "burst":
            pred, seen = int(vals["p%d" % n]), d["returned_before_release"]
            ok = pred == seen
            detail = {"predicted_returned": pred, "observed_returned": seen}
        else:
            import re
            pa = [int(x) for x in re.findall(r"\d+", vals["p%d_0" % n])]
            pb = [int(x) for x in re.findall(r"\d+", vals["p%d_1" % n])]
            pc = [int(x) for x in re.findall(r"\d+", vals["p%d_2" % n])]
            seen = [code[c["outcome"]] for c in d["calls"] if c["kind"] != "boom"]
            ok = len(seen) == len(pa) and all(s in (x, y, z) for s, x, y, z in zip(seen, pa, pb, pc))
            detail = {"predicted (adds sent before release)": pa, "predicted (blocked senders slip in)": pb, "predicted (adds delayed until after the death)": pc,
                      "observed": seen, "legend": "0 returned, 1 panicked, 2 hung; adds then later calls; the observation must lie in the per-call outcome set of the three schedules"}
        rep.traces += 1
        rep.oblige(ok)
        if ok:
            if len(rep.samples) < 10:
                rep.sample({"correspondence": " ".join(str(x) for x in a), **detail})
        else:
            rep.violation("corr_" + "_".join(str(x) for x in a), {"what": "the runtime model elaborated from the real expansion predicts another outcome than the real runtime shows (model/implementation correspondence broken)",
                                                                    "scenario": a, **detail, "observation": {k: v for k, v in d.items() if k != "log"}}, found=False)


def interact_struct_part(rep, pid, rng):
    """handle methods of `interact` actors (getter arguments, channel ends handed back) send their message the way every other method does: the
    structural premise `wf_struct` (send kind per runtime and channel kind, await, reply wait) is evaluated on real expansions of them, bounded
    channels included.  A broken premise is reported without failing input (the runtime probes do not fill a queue in front of such a method)."""
    import C14
    cases = []
    for lib in gen_impl.LIBS:
        for ch in (None, 2):
            for kinds in (("E",), ("O", "E"), ("G", "E"), ("G", "O")):
                c = C14.mk_case(rng, kinds, lib, irregular=False, interact=True, ret=False)
                c["channel"] = ch
                cases.append(c)
    cfgs = [{"kind": "actor", "lib": c["lib"], "attr": gen_impl.actor_attr(c["lib"], c["channel"], debut=True, interact=True), "item": C14.item_of([c]),
             "label": "interact lib=%s channel=%s kinds=%s" % (c["lib"], c["channel"], c["kinds"])} for c in cases]
    cfgs = inst.expand_configs(cfgs, tag=pid.lower() + "is")
    terms, owners = [], []
    for c in cfgs:
        rep.evaluations += 1
        ms = inst.coq_models(c) if c["class"] == "TOKENS" else []
        if len(ms) != 1 or ms[0] is None:
            rep.oblige(False)
            rep.violation("shape_" + c["label"], {"what": "interact method not expanded / recognised", "class": c["class"], "attr": c["attr"], "item": c["item"], "output": c["text"][:1200]}, found=False)
            continue
        terms.append(ms[0]); owners.append(c)
    if not terms:
        return
    res, _ = inst.coq_eval(pid + "is", terms, [("ws", "wf_struct {i}")])
    for c, r in zip(owners, res):
        rep.nontrivial.add(("interact-struct", c["label"]))
        if not rep.oblige(r["ws"] == "true"):
            rep.violation("interact_struct_" + c["label"], {"what": "the handle method of an `interact` actor is not in the recognised send / wait form (wf_struct = false): the per-handle "
                          "order and exactly-once arguments are no longer shown for it", "attr": c["attr"], "item": c["item"]}, found=False)


def interact_exec_part(rep, pid, rng):
    """`interact` methods are outside the single-actor premise (their getter / channel-end arguments do not come from the caller), so the
    runtime checks look at them separately: the dispatch arm must call the user's method with `.await` exactly when the user declared it
    `async fn` - otherwise the accepted call creates a future and drops it (executed zero times).  Inputs and projection are C14's."""
    import itertools
    import hook, C14
    placements = [k for n in (1, 2, 3) for k in itertools.product("OGE", repeat=n) if k.count("E") <= 1 and ("G" in k or "E" in k)]
    cases = []
    for j, kinds in enumerate(placements):
        for lib in ("tokio", "async_std", "smol") if rep.tier != "quick" else (("tokio", "async_std", "smol")[j % 3],):
            for asy in (True, False):
                c = C14.mk_case(rng, kinds, lib, irregular=False, interact=True, ret=False)
                c["async"] = asy
                cases.append(c)
    res = hook.run_parallel([("actor", [C14.attr_of(c), C14.item_of([c])]) for c in cases], tag=pid.lower() + "ix", shards=8)
    if res is None:
        raise Infra("interact expansion batch timed out")
    for i, (c, (cls, f)) in enumerate(zip(cases, res)):
        rep.evaluations += 1
        rep.count("interact_async", "%s/%s" % (c["kinds"], "async" if c["async"] else "sync"))
        rep.nontrivial.add(("interact-exec", c["kinds"], c["async"], c["lib"]))
        real = C14.real_projection(cls, f[0] if f else "", c)
        if real["cls"] != "OK" or real.get("awaited") is None:
            continue
        if not rep.oblige(real["awaited"] == bool(c["async"])):
            rep.violation("interact_exec_%d_%s" % (i, c["kinds"]), {
                "what": "the dispatch arm %s the user's %s method `m`: %s" % ("awaits" if real["awaited"] else "does not await", "async" if c["async"] else "non-async",
                        "an accepted call creates the method's future and drops it - executed zero times" if c["async"] else "the expansion does not compile"),
                "attr": C14.attr_of(c), "item": C14.item_of([c]), "lib": c["lib"], "observed": real}, found=True)
