(* Generator model, part "which methods reach the handle and with which signature" (property C05).
   Mirrors  src/model/method/actor_method.rs  (process_impl, first_met_sort, process_met, get_mod_gen/get_methods checks),
            src/model/argument/receiver.rs    (second_sort, is_rcvr, get_arc_wraped, get_paths),
            src/model/argument/include_exclude.rs (FilterSet::parse / condition WITH CONSUMPTION / check),
            src/model/method/cont.rs          (to_raw_parts: visibility of self-consuming methods, to_async).
   Definitions only; proofs are in Gen/ClassifyThm.v. *)
From Coq Require Import List String Ascii Bool.
Import ListNotations.
Open Scope string_scope.
Open Scope list_scope.

Definition tok := string.
Definition ty := list tok.                 (* a type as its token sequence, e.g. ["Vec"; "<"; "Self"; ">"] *)

Inductive vis := VInh | VPub | VCrate | VSuper | VIn (p : string).
Inductive lib := Std | Tokio | AsyncStd | Smol.
Inductive mrecv := MSlf | MRwLock | MMutex.          (* ModelReceiver: plain actor / family lock *)
Inductive fset := Include (l : list string) | Exclude (l : list string).
Inductive recv_in := RRef (m : bool) | RVal (m : bool) | RNone.

Record param := { p_actor : bool;          (* the pattern is the plain identifier `actor` ([mut] actor) *)
                  p_ty : ty }.

Record method_in := {
  mi_vis : vis; mi_name : string; mi_async : bool; mi_recv : recv_in;
  mi_gen : string;                         (* method generics + where clause, carried opaquely; "" = none *)
  mi_params : list param;                  (* typed parameters, receiver excluded *)
  mi_ret : option ty; mi_docs : list string;
  mi_slf_ok : bool                         (* return type is one of the documented compliant forms (C09) *) }.

Record cfg := {
  c_lib : lib; c_recv : mrecv; c_filter : option fset; c_debut : bool;
  c_actor_ty : ty;                         (* self type of the impl block *)
  c_actor_name : string; c_name : option string; c_first : option string }.

Definition is_std (l : lib) := match l with Std => true | _ => false end.
Definition is_slf (r : mrecv) := match r with MSlf => true | _ => false end.
Definition is_inh (v : vis) := match v with VInh => true | _ => false end.
Definition lib_str (l : lib) := match l with Std => "std" | Tokio => "tokio" | AsyncStd => "async_std" | Smol => "smol" end.

Fixpoint mem (n : string) (l : list string) : bool :=
  match l with [] => false | x :: r => if String.eqb x n then true else mem n r end.
Fixpoint remove_first (n : string) (l : list string) : list string :=
  match l with [] => [] | x :: r => if String.eqb x n then r else x :: remove_first n r end.
Fixpoint has_dup (l : list string) : bool :=
  match l with [] => false | x :: r => mem x r || has_dup r end.
Fixpoint ty_eqb (a b : ty) : bool :=
  match a, b with [], [] => true | x :: a', y :: b' => String.eqb x y && ty_eqb a' b' | _, _ => false end.

(* ---- receiver.rs: the types accepted for the `actor` receiver convention ---- *)
Definition paths (l : lib) (n : string) : list ty :=
  [[lib_str l; "::"; "sync"; "::"; n]; ["sync"; "::"; n]; [n]]
  ++ (if is_std l then [["::"; "std"; "::"; "sync"; "::"; n]] else []).
Definition arc_wrapped (lock : string) (t : ty) (l : lib) : list ty :=
  flat_map (fun a => map (fun k => a ++ ["<"] ++ k ++ ["<"] ++ t ++ [">"; ">"]) (paths l lock)) (paths Std "Arc").
Definition rcvr_variants (r : mrecv) (t : ty) (l : lib) : list ty :=
  match r with MSlf => [t] | MRwLock => arc_wrapped "RwLock" t l | MMutex => arc_wrapped "Mutex" t l end.
Definition is_rcvr (c : cfg) (check : ty) : bool :=
  existsb (ty_eqb check) (rcvr_variants (c_recv c) (c_actor_ty c) (c_lib c))
  || existsb (ty_eqb check) (rcvr_variants (c_recv c) ["Self"] (c_lib c)).

Definition is_lifetime (t : tok) : bool := match t with String c _ => Ascii.eqb c "'" | EmptyString => false end.
(* `& ['lt] [mut] elem`  ->  Some (mut, elem) *)
Definition split_ref (t : ty) : option (bool * ty) :=
  match t with
  | a :: r => if String.eqb a "&" then
      let r1 := match r with l :: r' => if is_lifetime l then r' else r | [] => r end in
      match r1 with
      | m :: e => if String.eqb m "mut" then Some (true, e) else Some (false, r1)
      | [] => Some (false, r1) end
    else None
  | [] => None end.

Inductive cls := CRef (m : bool) | CSlf | CStat.
Inductive sort2 := S2 (k : cls) | S2Abort.

(* receiver.rs:103 second_sort, on a method without `self` receiver *)
Definition second_sort (c : cfg) (m : method_in) : sort2 :=
  match mi_params m with
  | p :: _ =>
    if p_actor p then
      match split_ref (p_ty p) with
      | Some (rm, elem) =>
          if rm && negb (is_slf (c_recv c)) then S2Abort
          else if is_rcvr c elem then S2 (CRef rm)
          else if is_rcvr c (p_ty p) then S2 CSlf else S2 CStat
      | None => if is_rcvr c (p_ty p) then S2 CSlf else S2 CStat
      end
    else S2 CStat
  | [] => S2 CStat end.

Definition is_ctor_name (n : string) := String.eqb n "new" || String.eqb n "try_new".

Inductive diag := DFilterParse | DInterName | DFamMutRef | DUnknownName | DNoNew | DAsyncStd.
Inductive res (A : Type) := Ok (a : A) | Diag (d : diag).
Arguments Ok {A} a. Arguments Diag {A} d.

Inductive step_out := SSkip | SNew | SKeep (k : cls) (via_actor : bool) | SAbort (d : diag).

(* everything process_impl / process_met decide before the fset is consulted *)
Definition classify (c : cfg) (m : method_in) : step_out :=
  if is_inh (mi_vis m) then SSkip else
  match mi_recv m with
  | RRef b => SKeep (CRef b) false
  | RVal _ => if is_slf (c_recv c) then SKeep CSlf false else SSkip
  | RNone =>
      if is_ctor_name (mi_name m) then SNew else
      match second_sort c m with
      | S2Abort => SAbort DFamMutRef
      | S2 CStat => SKeep CStat false
      | S2 k => SKeep k true
      end
  end.

(* include_exclude.rs:39 FilterSet::condition: the membership test removes the name it found *)
Definition condition (f : fset) (n : string) : fset * bool :=
  match f with
  | Include l => if mem n l then (Include (remove_first n l), true) else (f, false)
  | Exclude l => if mem n l then (Exclude (remove_first n l), false) else (f, true)
  end.
Definition flt_list (f : fset) := match f with Include l => l | Exclude l => l end.

Definition inter_set (c : cfg) : list string :=
  "inter_msg" :: (if c_debut c then ["inter_get_debut"; "inter_get_count"; "inter_set_name"; "inter_get_name"] else []).

(* ---- the Live method built from a user method ---- *)
Inductive lrecv := LRef (m : bool) | LVal | LNone.
Record live_met := {
  lm_from : method_in; lm_name : string; lm_vis : vis; lm_async : bool; lm_recv : lrecv;
  lm_params : list ty; lm_ret : option ty; lm_docs : list string; lm_gen : string;
  lm_bounds : bool                        (* Send + Sync + 'static added to the method's own generic parameters *) }.

(* generics::turbofish::from_type_path on the actor type (a plain path whose generic arguments sit on the last segment):
   `A < T >` -> `A :: < T >`, `A` -> `A` *)
Fixpoint turbo_aux (prev_colon : bool) (t : ty) : ty :=
  match t with
  | [] => []
  | x :: r => if String.eqb x "<" then (if prev_colon then t else "::" :: t) else x :: turbo_aux (String.eqb x "::") r
  end.
Definition turbo (t : ty) : ty := turbo_aux false t.

(* substitute_args_type_and_return_type: model::replace of ` Self :: ` by `<turbofish of the actor type> ::`, then of ` Self ` by the
   actor type; token-wise, one pass *)
Fixpoint subst_self (a tb : ty) (t : ty) : ty :=
  match t with
  | [] => []
  | x :: r =>
      if String.eqb x "Self" then
        match r with
        | y :: r' => if String.eqb y "::" then tb ++ "::" :: subst_self a tb r' else a ++ subst_self a tb r
        | [] => a
        end
      else x :: subst_self a tb r
  end.
Definition has_gen (m : method_in) := negb (String.eqb (mi_gen m) "").
Definition live_params (k : cls) (via : bool) (m : method_in) : list param :=
  if via then tl (mi_params m) else mi_params m.
(* what the macro does to a parameter / return type *)
Definition sub (c : cfg) (t : ty) : ty := subst_self (c_actor_ty c) (turbo (c_actor_ty c)) t.

Definition mk_live (c : cfg) (k : cls) (via : bool) (m : method_in) : live_met :=
  {| lm_from := m; lm_name := mi_name m;
     lm_vis := match k with CSlf => if c_debut c && mi_slf_ok m then mi_vis m else VInh | _ => mi_vis m end;
     lm_async := match k with CStat => mi_async m | _ => negb (is_std (c_lib c)) || mi_async m end;
     lm_recv := match k with CRef b => LRef b | CSlf => LVal | CStat => LNone end;
     lm_params := map (fun p => sub c (p_ty p)) (live_params k via m);
     lm_ret := option_map (sub c) (mi_ret m);
     lm_docs := mi_docs m; lm_gen := mi_gen m;
     lm_bounds := match k with CRef _ => has_gen m | _ => false end |}.

(* process_impl: one pass over the impl items, threading the (shrinking) fset list *)
Fixpoint process (c : cfg) (f : fset) (ms : list method_in) : res (fset * list live_met * option method_in) :=
  match ms with
  | [] => Ok (f, [], None)
  | m :: r =>
    match classify c m with
    | SSkip => process c f r
    | SNew => match process c f r with
              | Ok (f', l, n) => Ok (f', l, Some (match n with Some x => x | None => m end))   (* the last constructor wins *)
              | Diag d => Diag d end
    | SAbort d => Diag d
    | SKeep k via =>
        if mem (mi_name m) (inter_set c) then Diag DInterName else
        let (f', b) := condition f (mi_name m) in
        if b then
          match process c f' r with
          | Ok (f'', l, n) => Ok (f'', mk_live c k via m :: l, n)
          | Diag d => Diag d end
        else process c f' r
    end
  end.

(* FilterSet::parse (+ check_path_set on the name list) *)
Definition parse_filter (f : option fset) : res fset :=
  match f with
  | None => Ok (Exclude [])
  | Some g => let l := flt_list g in
      if has_dup l || mem "new" l || mem "try_new" l then Diag DFilterParse else Ok g
  end.

Definition is_lref (r : lrecv) := match r with LRef _ => true | _ => false end.

Definition opt_or (a : option string) (b : string) := match a with Some x => x | None => b end.
Definition base_name (c : cfg) : string := (opt_or (c_first c) "" ++ opt_or (c_name c) (c_actor_name c))%string.
Definition script_name (c : cfg) := (base_name c ++ "Script")%string.
Definition live_name (c : cfg) := (base_name c ++ "Live")%string.

Record output := { o_user : list method_in;       (* the user's impl block, re-emitted *)
                   o_mets : list live_met;        (* user-derived methods of the Live impl, in order *)
                   o_new : method_in; o_script : string; o_live : string }.

Definition gen (c : cfg) (ms : list method_in) : res output :=
  match parse_filter (c_filter c) with
  | Diag d => Diag d
  | Ok f0 =>
    match process c f0 ms with
    | Diag d => Diag d
    | Ok (f', lms, n) =>
      match flt_list f' with
      | _ :: _ => Diag DUnknownName                                  (* FilterSet::check: leftover names *)
      | [] =>
        match n with
        | None => Diag DNoNew
        | Some nw =>
          if is_std (c_lib c) && existsb (fun lm => is_lref (lm_recv lm) && mi_async (lm_from lm)) lms
          then Diag DAsyncStd
          else Ok {| o_user := ms; o_mets := lms; o_new := nw; o_script := script_name c; o_live := live_name c |}
        end
      end
    end
  end.

(* ---- family (generate_family + parse_nested_family member prototypes) ---- *)
Record member := { mb_first : string; mb_name : option string; mb_filter : option fset }.
Record fam_cfg := { f_lib : lib; f_lock : mrecv; f_name : option string; f_debut : bool;
                    f_actor_ty : ty; f_actor_name : string; f_members : list member }.

Definition is_upper (c : ascii) : bool := let n := nat_of_ascii c in Nat.leb 65 n && Nat.leb n 90.
Definition lower (c : ascii) : ascii := if is_upper c then ascii_of_nat (nat_of_ascii c + 32) else c.
(* name.rs to_lower_snake_case (ASCII) *)
Fixpoint snake_aux (first : bool) (s : string) : string :=
  match s with
  | EmptyString => EmptyString
  | String ch r => if is_upper ch then (if first then String (lower ch) (snake_aux false r)
                                        else String "_" (String (lower ch) (snake_aux false r)))
                   else String ch (snake_aux false r)
  end.
Definition snake (s : string) := snake_aux true s.

Definition member_cfg (f : fam_cfg) (m : member) : cfg :=
  {| c_lib := f_lib f; c_recv := (match f_lock f with MSlf => MRwLock | k => k end); c_filter := mb_filter m; c_debut := f_debut f;
     c_actor_ty := f_actor_ty f; c_actor_name := f_actor_name f;
     c_name := (match mb_name m with Some n => Some n | None => f_name f end); c_first := Some (mb_first m) |}.
Definition family_name (f : fam_cfg) := (opt_or (f_name f) (f_actor_name f) ++ "Family")%string.

Record fam_out := { fo_name : string; fo_fields : list (string * string); fo_models : list output }.

Fixpoint gen_members (f : fam_cfg) (ms : list method_in) (mbs : list member) : res (list output) :=
  match mbs with
  | [] => Ok []
  | mb :: r => match gen (member_cfg f mb) ms with
               | Diag d => Diag d
               | Ok o => match gen_members f ms r with Ok l => Ok (o :: l) | Diag d => Diag d end
               end
  end.
Definition gen_family (f : fam_cfg) (ms : list method_in) : res fam_out :=
  match gen_members f ms (f_members f) with
  | Diag d => Diag d
  | Ok l => Ok {| fo_name := family_name f;
                  fo_fields := map (fun mb => (snake (mb_first mb), live_name (member_cfg f mb))) (f_members f);
                  fo_models := l |}
  end.

(* ---- the declarative side: what the property demands ---- *)
Definition is_ctor (m : method_in) : bool := match mi_recv m with RNone => is_ctor_name (mi_name m) | _ => false end.
Definition family_skipped (c : cfg) (m : method_in) : bool :=
  match mi_recv m with RVal _ => negb (is_slf (c_recv c)) | _ => false end.
Definition eligible (c : cfg) (m : method_in) : bool :=
  negb (is_inh (mi_vis m)) && negb (is_ctor m) && negb (family_skipped c m).
Definition selected (f : option fset) (n : string) : bool :=
  match f with None => true | Some (Include l) => mem n l | Some (Exclude l) => negb (mem n l) end.

(* the documented receiver convention: first parameter `actor` of type &T / &mut T (shared access) or T (consuming),
   T one of the accepted spellings of the shared model type *)
Definition conv_kind (c : cfg) (m : method_in) : option cls :=
  match mi_recv m, mi_params m with
  | RNone, p :: _ =>
      if p_actor p then
        match split_ref (p_ty p) with
        | Some (rm, elem) => if is_rcvr c elem then Some (CRef rm) else if is_rcvr c (p_ty p) then Some CSlf else None
        | None => if is_rcvr c (p_ty p) then Some CSlf else None
        end
      else None
  | _, _ => None end.
Definition live_kind (c : cfg) (m : method_in) : cls :=
  match mi_recv m with
  | RRef b => CRef b
  | RVal _ => CSlf
  | RNone => match conv_kind c m with Some k => k | None => CStat end
  end.
Definition has_receiver (c : cfg) (m : method_in) : bool := match live_kind c m with CStat => false | _ => true end.
Definition consuming (c : cfg) (m : method_in) : bool := match live_kind c m with CSlf => true | _ => false end.
Definition spec_params (c : cfg) (m : method_in) : list param :=
  match conv_kind c m with Some _ => tl (mi_params m) | None => mi_params m end.

Definition sig_spec (c : cfg) (m : method_in) (lm : live_met) : Prop :=
  lm_name lm = mi_name m /\ lm_docs lm = mi_docs m /\ lm_gen lm = mi_gen m
  /\ lm_ret lm = option_map (sub c) (mi_ret m)
  /\ lm_params lm = map (fun p => sub c (p_ty p)) (spec_params c m)
  /\ lm_vis lm = (if consuming c m && negb (c_debut c && mi_slf_ok m) then VInh else mi_vis m)
  /\ lm_async lm = (if has_receiver c m then negb (is_std (c_lib c)) || mi_async m else mi_async m)
  /\ lm_recv lm = (match live_kind c m with CRef b => LRef b | CSlf => LVal | CStat => LNone end)
  /\ (lm_bounds lm = true -> has_gen m = true /\ is_lref (lm_recv lm) = true).
