(* C06 -- the macro is total and deterministic on supported input (partial: rustc is the oracle for "the emitted
   code type-checks"; what is proved here are the name-level and order-level facts the generator relies on).
   Statements only; proofs live in Gen/NamesThm.v and Gen/GenericsThm.v.

   Strings are byte lists; [legal_ident] (letters, digits, '_', not starting with a digit, not the lone '_')
   only admits ASCII, which is the domain on which the byte model coincides with the Rust `chars()` code
   (C06_legal_is_ascii).  Non-ASCII and raw identifiers are covered by the totality tie of props/C06.py. *)
From Coq Require Import List String Ascii Bool Permutation.
Import ListNotations.
From IT Require Import Gen.Names Gen.NamesThm Gen.GenPartition Gen.GenPartitionThm.

(* ---- (a) no panic / no internal error in the identifier mangling ---- *)

Theorem C06_legal_is_ascii : forall l, legal_ident l = true -> forallb is_ascii l = true.
Proof. exact legal_is_ascii. Qed.

(* the split/map/concat code of to_upper_camel_case is the one-pass automaton the other proofs reason about *)
Theorem C06_camel_is_automaton : forall input, to_upper_camel_case input = camel_aut true (strip_raw input).
Proof. exact camel_split_aut. Qed.

(* script_field on every legal method name (plain or raw, any mix of leading / trailing / doubled underscores,
   any case): format_ident! does not panic and the variant name is a legal identifier *)
Theorem C06_script_field_total : forall name, legal_input name = true ->
  exists o, script_field name = Ok o /\ legal_ident o = true.
Proof. exact script_field_total. Qed.

Theorem C06_family_field_name_total : forall name, legal_ident name = true ->
  exists o, family_field_name name = Ok o /\ legal_ident o = true.
Proof. exact family_field_name_total. Qed.

Theorem C06_combined_ident_total : forall ids, ids <> [] -> Forall (fun y => legal_input y = true) ids ->
  exists o, combined_ident ids = Ok o /\ legal_input o = true.
Proof. exact combined_ident_total. Qed.

Theorem C06_combined_ident_plain : forall x y r, Forall (fun y => legal_input y = true) (x :: y :: r) ->
  exists o, combined_ident (x :: y :: r) = Ok o /\ legal_ident o = true.
Proof. exact combined_ident_plain. Qed.

Theorem C06_combined_ident_internal_error_iff_empty : forall ids, Forall (fun y => legal_input y = true) ids ->
  (combined_ident ids = InternalError <-> ids = []).
Proof. exact combined_ident_internal_error_iff_empty. Qed.

(* fixed defect: before the repair a raw identifier in a non-first position of a destructuring pattern panicked the macro *)
Theorem C06_combined_ident_old_panics_on_raw :
  exists ids, Forall (fun y => legal_input y = true) ids /\ combined_ident_old ids = Panic /\ exists o, combined_ident ids = Ok o.
Proof. exact combined_ident_old_panics_on_raw. Qed.

(* ---- (c, name level) distinct methods get distinct enum variants ----
   Full-strength statement (FALSE of the faithful model, see the two _refuted theorems):
     forall a b, legal_input a = true -> legal_input b = true -> script_field a = script_field b -> a = b.
   Proved on lower_snake_case names (lower-case letters, digits, '_'; every non-empty word starts with a letter). *)
Theorem C06_script_field_injective_guarded : forall a b,
  snake_class a = true -> snake_class b = true -> script_field a = script_field b -> a = b.
Proof. exact script_field_injective_on_snake_class. Qed.

Theorem C06_script_variants_nodup : forall names, Forall (fun n => snake_class n = true) names -> NoDup names ->
  NoDup (map script_field names).
Proof. exact script_variants_nodup. Qed.

(* after fix_variant_collision, ImplWork::get_methods checks the variants of one model: on legal method names the result is a
   duplicate-free list of variants (one per method, in order) OR a diagnostic naming two methods, the first strictly before
   the second in the impl, that are mangled to the same variant; never a panic, never a duplicate variant *)
Theorem C06_script_variants_nodup_or_diag : forall names, Forall (fun n => legal_input n = true) names ->
  match script_variants names with
  | VOk vs => NoDup vs /\ map Ok vs = map script_field names
  | VDiag a b => exists l1 l2, names = (l1 ++ b :: l2)%list /\ In a l1 /\ script_field a = script_field b
  | VPanic => False
  end.
Proof. exact script_variants_nodup_or_diag. Qed.

(* the diagnostic is never raised against distinct lower_snake_case names *)
Theorem C06_script_variants_ok_on_snake_class : forall names,
  Forall (fun n => legal_input n = true) names -> Forall (fun n => snake_class n = true) names -> NoDup names ->
  exists vs, script_variants names = VOk vs /\ NoDup vs.
Proof. exact script_variants_ok_on_snake_class. Qed.

(* "a_b" / "a_B"  (F3: the mangling itself stays non-injective; the clash is now reported, see above) *)
Theorem C06_script_field_injective_refuted :
  exists a b, legal_input a = true /\ legal_input b = true /\ a <> b /\ script_field a = script_field b.
Proof. exact script_field_injective_refuted. Qed.

(* "a_1" / "a1": both lower case, so the guard of the injectivity theorem cannot be weakened to "no capitals" *)
Theorem C06_script_field_injective_refuted_lowercase :
  exists a b, legal_input a = true /\ legal_input b = true /\ a <> b /\ script_field a = script_field b.
Proof. exact script_field_injective_refuted_lowercase. Qed.

(* flattened pattern names: ["a_b"; "c"] and ["a"; "b_c"] give the same field name *)
Theorem C06_combined_ident_injective_refuted :
  exists i j, Forall (fun y => legal_ident y = true) i /\ Forall (fun y => legal_ident y = true) j /\ i <> j /\
              combined_ident i = combined_ident j.
Proof. exact combined_ident_injective_refuted. Qed.

(* ---- (b) determinism: the generics partition and the PhantomData fields do not depend on the HashMap order ---- *)

(* self_ty = tokens of the impl's self type: process_met substitutes `Self` by it before GenWork::retain looks at the signature *)
Theorem C06_generics_spec : forall self_ty params ms hm0, Permutation hm0 (filter nonconst params) ->
  impl_gen params self_ty hm0 ms = spec_gen params self_ty ms.
Proof. exact impl_gen_spec. Qed.

Theorem C06_generics_deterministic : forall self_ty params ms hm1 hm2,
  Permutation hm1 (filter nonconst params) -> Permutation hm2 (filter nonconst params) ->
  impl_gen params self_ty hm1 ms = impl_gen params self_ty hm2 ms.
Proof. exact impl_gen_deterministic. Qed.

Theorem C06_phantom_fields_in_declaration_order : forall self_ty params ms,
  let g := spec_gen params self_ty ms in
  map snd (mg_phantom g) = mg_private g /\ map fst (mg_phantom g) = seq 0 (List.length (mg_private g)) /\
  (full ms = false -> mg_private g = map gp_name (filter (fun p => mem_name (gp_name p) (unused params self_ty ms)) params)).
Proof. exact phantom_fields_in_declaration_order. Qed.

(* where-predicates of the impl (after fix_where_private_generic): the split onto Script impl / direct+play does not depend on the
   map order, loses no predicate, and a predicate follows the private parameters exactly when it mentions one *)
Theorem C06_where_preds_spec : forall self_ty params ms hm0 preds, Permutation hm0 (filter nonconst params) ->
  impl_private_preds params self_ty hm0 ms preds = spec_private_preds params self_ty ms preds /\
  impl_script_preds params self_ty hm0 ms preds = spec_script_preds params self_ty ms preds.
Proof. exact where_preds_spec. Qed.

Theorem C06_where_preds_none_lost : forall self_ty params ms preds wp, In wp preds ->
  (In wp (spec_private_preds params self_ty ms preds) /\ ~ In wp (spec_script_preds params self_ty ms preds)) \/
  (In wp (spec_script_preds params self_ty ms preds) /\ ~ In wp (spec_private_preds params self_ty ms preds)).
Proof. exact where_preds_none_lost. Qed.

Theorem C06_where_pred_private_iff : forall self_ty params ms preds wp, full ms = false ->
  (In wp (spec_private_preds params self_ty ms preds) <->
   In wp preds /\ exists p, In p (unused params self_ty ms) /\ includes wp p = true).
Proof. exact where_pred_private_iff. Qed.

(* a `Self` in the signature of a selected &self / &mut self method without own generics is a use of every parameter named by the
   impl's self type: that parameter is never private (no PhantomData field) and is a parameter of the Script enum *)
Theorem C06_self_counts_as_use : forall self_ty params ms m p,
  In m ms -> m_kind m = MRef -> m_localgen m = false -> In "Self"%string (m_sig m) -> In (gp_name p) self_ty -> full ms = false ->
  ~ In (gp_name p) (mg_private (spec_gen params self_ty ms)) /\
  (In p params -> In (gp_name p) (mg_script (spec_gen params self_ty ms))).
Proof. exact self_counts_as_use. Qed.

(* retaining before the substitution (statements of process_met swapped) gives another partition: witness impl<T> A<T> { fn absorb(&mut self, other: Self) } *)
Theorem C06_retain_before_substitution_differs : exists params self_ty ms hm,
  Permutation hm (filter nonconst params) /\ impl_gen_retain_first params hm ms <> impl_gen params self_ty hm ms.
Proof. exact retain_before_substitution_differs. Qed.

(* the code before fix fdc5b8f (fields enumerated in map order) fails the same statement: defect F2 *)
Theorem C06_old_code_order_dependent : exists params ms hm1 hm2,
  Permutation hm1 (filter nonconst params) /\ Permutation hm2 (filter nonconst params) /\
  impl_gen_old params [] hm1 ms <> impl_gen_old params [] hm2 ms.
Proof. exact impl_gen_old_order_dependent. Qed.

Print Assumptions C06_legal_is_ascii.
Print Assumptions C06_camel_is_automaton.
Print Assumptions C06_script_field_total.
Print Assumptions C06_family_field_name_total.
Print Assumptions C06_combined_ident_total.
Print Assumptions C06_combined_ident_internal_error_iff_empty.
Print Assumptions C06_combined_ident_plain.
Print Assumptions C06_combined_ident_old_panics_on_raw.
Print Assumptions C06_script_field_injective_guarded.
Print Assumptions C06_script_variants_nodup.
Print Assumptions C06_script_variants_nodup_or_diag.
Print Assumptions C06_script_variants_ok_on_snake_class.
Print Assumptions C06_where_preds_spec.
Print Assumptions C06_where_preds_none_lost.
Print Assumptions C06_where_pred_private_iff.
Print Assumptions C06_script_field_injective_refuted.
Print Assumptions C06_script_field_injective_refuted_lowercase.
Print Assumptions C06_combined_ident_injective_refuted.
Print Assumptions C06_generics_spec.
Print Assumptions C06_generics_deterministic.
Print Assumptions C06_phantom_fields_in_declaration_order.
Print Assumptions C06_self_counts_as_use.
Print Assumptions C06_retain_before_substitution_differs.
Print Assumptions C06_old_code_order_dependent.
