(* Decidable premises of the runtime theorems, evaluated by vm_compute on every real instance. *)
From Coq Require Import List String NArith Arith Bool.
Import ListNotations.
From IT Require Import Sdpl.IR Sdpl.Elab Runtime.Actor Runtime.ActorInv Runtime.Combined Runtime.InvDefs2 Gen.Ctor.
Open Scope string_scope.

Definition is_nil {X} (l : list X) : bool := match l with [] => true | _ => false end.

Definition arm_known (a : arm) : bool := match a with ArmUnknown _ => false | _ => true end.
Definition msg_known (x : msgb) : bool := match x with MUnknown _ => false | _ => true end.
Definition tail_known (x : tail) : bool := match x with TUnknown _ => false | _ => true end.
Definition call_known (c : ucall) : bool := match c with UOtherCall _ => false | _ => true end.
Definition body_known (b : body) : bool :=
  match b with
  | BUnknown _ => false
  | BRef rb | BStop rb _ _ => msg_known (rb_msg rb) && tail_known (rb_tail rb)
  | BSlf sb => call_known (sb_call sb)
  | _ => true end.

(* the user method is actually run: a dispatch arm (or the closure message of a generic method, a static delegate, a
   self-consuming method) awaits the user's call exactly when the user declared that method `async fn` - a future that is
   created and dropped would leave the accepted call unexecuted; the stop call is awaited exactly on the async runtimes *)
Definition call_awaited_ok (ua : list string) (c : ucall) (aw : bool) : bool := Bool.eqb aw (mem (call_name c) ua).
Definition lib_async (l : lib) : bool := match l with Std => false | _ => true end.
Definition await_ok (m : model) : bool :=
  forallb (fun a => match a with ArmStruct _ _ b => call_awaited_ok (m_user_async m) (ab_call b) (ab_await b) | _ => true end) (m_arms m)
  && forallb (fun lm => match lm_body lm with
                        | BRef rb | BStop rb _ _ =>
                            match rb_msg rb with
                            | MClosure _ _ _ _ b _ => call_awaited_ok (m_user_async m) (ab_call b) (ab_await b)
                            | _ => true end
                        | BSlf sb => call_awaited_ok (m_user_async m) (sb_call sb) (sb_await sb)
                                     && Bool.eqb (sb_stop_await sb) (lib_async (m_lib m))
                        | BStat _ f _ aw => Bool.eqb aw (mem f (m_user_async m))
                        | _ => true end) (m_methods m).

(* the caller waits for its reply the way its runtime requires: a handle method of an async runtime is an `async fn` and must
   await the reply (a blocking `recv()` there parks an executor thread, and with it every task that thread would run - the
   actor's own loop included); a std handle blocks *)
Definition wait_kind_ok (m : model) : bool :=
  forallb (fun lm => match lm_body lm with
                     | BRef rb | BStop rb _ _ =>
                         match rb_tail rb with
                         | TWait _ how _ => String.eqb how (if lib_async (m_lib m) then "await" else "blocking")
                         | _ => true end
                     | _ => true end) (m_methods m).

(* a call is complete when the method has run: the handle method of a user method that declares a return type (even `-> ()`)
   waits for the reply of its own call, one without a return type is fire-and-forget *)
Definition reply_kind_ok (m : model) : bool :=
  forallb (fun lm => match lm_body lm with
                     | BRef rb =>
                         let waits := match rb_tail rb with TWait _ _ _ => true | _ => false end in
                         Bool.eqb waits (mem (lm_name lm) (m_user_ret m))
                     | _ => true end) (m_methods m).

(* play: blocking receive loop on its receiver parameter, inline dispatch of every message on its actor parameter *)
Definition play_ok (m : model) : bool :=
  match m_play m with
  | Some p =>
      match pl_shape p, pl_params p with
      | inl sh, (rx, _) :: (act, _) :: _ =>
          String.eqb (pl_recv sh) "recv" && String.eqb (pl_rx sh) rx
          && String.eqb (pl_disp_on sh) (pl_msg sh) && String.eqb (pl_disp_arg sh) act
          && (String.eqb (pl_pat sh) ":: std :: result :: Result :: Ok" || String.eqb (pl_pat sh) ":: std :: option :: Option :: Some")
      | _, _ => false end
  | None => false end.

(* constructor: one channel, exactly one spawn of <Script>::play on that channel's receiver and the actor,
   the sender of that channel stored in the handle *)
Definition ctor_ok (m : model) : bool :=
  match filter (fun lm => match lm_body lm with BCtor _ => true | _ => false end) (m_methods m) with
  | [lm] =>
      match lm_body lm with
      | BCtor c =>
          match cb_chan c, cb_chan_binds c, cb_spawns c with
          | Some ch, Some (tx, rx), [sp] =>
              (match ch with ChOther _ => false | _ => true end)
              && String.eqb (sp_callee sp) (m_script m ++ "::play")
              && (match sp_args sp with
                  | SVar r :: SVar a :: _ => String.eqb r rx
                      && (match cb_user c with
                          | Some u => String.eqb a (uc_bind u) && String.eqb (uc_path u) (m_actor_ty m)
                          | None => mem a (map fst (lm_params lm)) end)   (* family member: the shared actor is a parameter *)
                  | _ => false end)
              && existsb (fun f => String.eqb (fst f) "sender" && src_eqb (snd f) (SVar tx)) (cb_fields c)
              && is_nil (cb_extra c)
          | _, _, _ => false end
      | _ => false end
  | _ => false end.

Definition wf_struct (m : model) : bool :=
  is_nil (m_unknown m) && forallb arm_known (m_arms m) && forallb (fun lm => body_known (lm_body lm)) (m_methods m)
  && play_ok m && ctor_ok m && nodup_str (map lm_name (m_methods m)) && nodup_str (map v_name (m_variants m)) && await_ok m && wait_kind_ok m && reply_kind_ok m.

(* C08: every handle method sends with a blocking send on the handle's own sender; the capacity is a literal *)
Definition wf_C08 (m : model) : bool := wf_struct m && all_blocking (elab m).

(* replies: every value-returning handle method waits on the oneshot whose sender the arm answers on *)
Definition replies_own (r : rmodel) : bool := forallb (fun rm => implb (rm_reply rm) (rm_reply_own rm)) (r_meths r).
Definition waits_loud (r : rmodel) : bool := forallb rm_loud_wait (r_meths r).

(* C01: the skeleton is the single-threaded play loop; arguments and replies are routed by position *)
Definition wf_C01 (m : model) : bool := wf_struct m && routes_ok (elab m) && replies_own (elab m) && waits_loud (elab m).
(* C02: additionally every handle method hands its message to the channel (blocking send) before it returns or waits *)
Definition wf_C02 (m : model) : bool := wf_C01 m && all_blocking (elab m).
Definition wf_C03 (m : model) : bool := wf_C02 m.

(* C20: every send, wait and actor-side reply panics on a closed channel, and says so *)
Definition says_closed (o : onclosed) : bool := match o with ClosedPanic b => b | _ => false end.
Definition body_says_closed (b : body) : bool :=
  match b with
  | BRef rb | BStop rb _ _ =>
      says_closed (sd_closed (rb_send rb)) && match rb_tail rb with TWait _ _ o => says_closed o | _ => true end
  | _ => true end.
Definition wf_C20 (m : model) : bool :=
  wf_struct m && loud (elab m) && replies_own (elab m) && forallb (fun lm => body_says_closed (lm_body lm)) (m_methods m)
  && forallb (fun rm => rm_loud_reply rm) (r_meths (elab m)).

(* C09: self-consuming methods: stop message intercepted before dispatch; guard `inter_get_count() <= 1` present exactly when
   the handle is clonable; the stop call binds the actor first and invokes the user method on it *)
Definition slf_shape_ok (m : model) (b : slf_body) : bool :=
  String.eqb (sb_stop_on b) "self"
  && match sb_binds b, sb_call b with
     | a :: _, UMethod (SVar r) _ _ => String.eqb a r && negb (String.eqb a "_")
     | a :: _, UStatic _ _ (SVar r :: _) => String.eqb a r
     | _, _ => false end.
Definition has_slf (m : model) : bool := negb (is_nil (slf_bodies m)).
Definition stop_method_ok (m : model) : bool :=
  existsb (fun lm => match lm_body lm with
                     | BStop rb binds ret =>
                         match rb_msg rb, binds, ret, rb_tail rb with
                         | MVariant _ v [(f, SVar tx)], [a; r], SVar a' :: SVar r' :: _, TWait (SVar rx) _ _ =>
                             String.eqb a a' && String.eqb r r'
                             && match rb_pre rb with [POneshot tx0 rx0 _ _] => String.eqb tx tx0 && String.eqb rx rx0 | _ => false end
                             && match find_arm v (m_arms m) with Some (ArmSkip _) => true | _ => false end
                             && match sd_kind (rb_send rb) with SendBlocking => true | _ => false end
                         | _, _, _, _ => false end
                     | _ => false end) (m_methods m).
Definition wf_C09 (m : model) : bool :=
  wf_struct m && forallb (slf_shape_ok m) (slf_bodies m)
  && implb (has_slf m) (stop_first m && stop_method_ok m)
  && Bool.eqb (r_clonable (elab m)) (r_guard (elab m) || negb (has_slf m))
  (* a self-consuming method without the sole-owner guard is not visible outside its module *)
  && forallb (fun lm => match lm_body lm with BSlf b => implb (negb (guard_ok b)) (String.eqb (lm_vis lm) "") | _ => true end) (m_methods m).
Definition slf_facts (m : model) : list (string * string * bool) :=
  flat_map (fun lm => match lm_body lm with BSlf b => [(lm_name lm, lm_vis lm, guard_ok b)] | _ => [] end) (m_methods m).

(* C04: constructor: the user's constructor is called first, exactly once, with the handle constructor's own arguments in
   order; `?` is applied exactly when it returns Option / Result, so that a failure value is returned unchanged before
   any channel or thread exists; the success value is wrapped by the matching Some / Ok *)
Definition contains (sub s : string) : bool := match String.index 0 sub s with Some _ => true | None => false end.
Fixpoint ends_with (suf s : string) : bool :=
  if String.eqb suf s then true else match s with EmptyString => false | String _ t => ends_with suf t end.
Definition core_order (l : list string) : list string := filter (fun x => negb (String.eqb x "phantom" || String.eqb x "debut")) l.
Fixpoint list_str_eqb (a b : list string) : bool :=
  match a, b with [] , [] => true | x :: a', y :: b' => String.eqb x y && list_str_eqb a' b' | _, _ => false end.
Definition ctor_shape_ok (m : model) : bool :=
  match filter (fun lm => match lm_body lm with BCtor _ => true | _ => false end) (m_methods m) with
  | [lm] =>
      match lm_body lm with
      | BCtor c =>
          match cb_user c with
          | Some u =>
              let fallible := contains "Option <" (cb_ret c) || contains "Result <" (cb_ret c) in
              list_str_eqb (core_order (cb_order c)) ["user"; "chan"; "spawn"]
              && String.eqb (hd "" (cb_order c)) "user"
              && Bool.eqb (uc_try u) fallible
              && (if fallible then (if contains "Option <" (cb_ret c) then ends_with "Some" (cb_wrap c) else ends_with "Ok" (cb_wrap c))
                  else String.eqb (cb_wrap c) "")
              && list_str_eqb (map (fun a => match a with SVar x => x | _ => "?" end) (uc_args u)) (map fst (lm_params lm))
              && String.eqb (uc_method u) (lm_name lm)
          | None => list_str_eqb (core_order (cb_order c)) ["chan"; "spawn"]
          end
      | _ => false end
  | _ => false end.
(* the recorded statement order as constructor statements of Gen/Ctor.v *)
Definition ctor_stmts (c : ctor_body) : list cstmt := flat_map (fun t => match stmt_of t with Some x => [x] | None => [] end) (cb_order c).
Definition cstmt_eqb (a b : cstmt) : bool :=
  match a, b with SUser, SUser | SDebut, SDebut | SPhantom, SPhantom | SChan, SChan | SSpawn, SSpawn => true | _, _ => false end.
Fixpoint cstmts_eqb (a b : list cstmt) : bool :=
  match a, b with [], [] => true | x :: a', y :: b' => cstmt_eqb x y && cstmts_eqb a' b' | _, _ => false end.
Definition ctor_order_ok (c : ctor_body) : bool :=
  cstmts_eqb (core (ctor_stmts c)) [SUser; SChan; SSpawn] && cstmt_eqb (hd SDebut (ctor_stmts c)) SUser.
Definition actor_ctor (m : model) : option ctor_body :=
  match ctor_of m with Some c => match cb_user c with Some _ => Some c | None => None end | None => None end.
(* the loop is ended by a self-consuming call only for a sole owner: every such method carries the guard, or the handle
   type cannot be cloned (then the number of handles never exceeds the one `new` returned) *)
Definition consume_ends_sole (m : model) : bool := is_nil (slf_bodies m) || r_guard (elab m) || negb (r_clonable (elab m)).
Definition wf_C04 (m : model) : bool :=
  wf_struct m && ctor_shape_ok m && match actor_ctor m with Some c => ctor_order_ok c | None => true end.
