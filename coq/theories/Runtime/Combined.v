(* All runtime invariants together, for every reachable state; the theorems the properties C01-C03 cite. *)
From Coq Require Import List Arith Bool Lia.
Import ListNotations.
From IT Require Import Runtime.Actor Runtime.Lists Runtime.ActorInv Runtime.InvDefs Runtime.InvSeq
  Runtime.InvIds Runtime.InvArgs Runtime.InvReply Runtime.InvOrder Runtime.InvFault.

Section Combined.
Context {A V : Type}.
Variable sem : nat -> A -> list V -> option (A * V).
Variable sem_slf : nat -> A -> list V -> V.
Variable dv : V.
Notation st := (@st A V).
Notation step := (step sem sem_slf dv).
Notation run := (run sem sem_slf dv).

Definition Inv (a0 : A) (m : rmodel) (s : st) :=
  ids_ok s /\ order_ok s /\ fifo_ok s /\ proc_ok s /\ args_ok dv m s /\ reply_ok m s /\ seq_ok sem a0 s /\ life_ok s.

Lemma Inv_step a0 m s ch s' : Inv a0 m s -> step m s ch = Some s' -> Inv a0 m s'.
Proof.
  intros (I1 & I2 & I3 & I4 & I5 & I6 & I7 & I8) H.
  refine (conj _ (conj _ (conj _ (conj _ (conj _ (conj _ (conj _ _))))))).
  - exact (ids_step sem sem_slf dv m s ch s' I1 H).
  - exact (order_step sem sem_slf dv m s ch s' I1 I2 H).
  - exact (fifo_step sem sem_slf dv m s ch s' I3 H).
  - exact (proc_step sem sem_slf dv m s ch s' I4 H).
  - exact (args_step sem sem_slf dv m s ch s' I5 H).
  - exact (reply_step sem sem_slf dv m s ch s' I6 H).
  - exact (seq_step sem sem_slf dv a0 m s ch s' I7 H).
  - exact (life_step sem sem_slf dv m s ch s' I8 H).
Qed.

Lemma Inv_init a0 m progs : Inv a0 m (Actor.init a0 progs).
Proof.
  refine (conj _ (conj _ (conj _ (conj _ (conj _ (conj _ (conj _ _))))))).
  - apply ids_init.
  - apply order_init.
  - reflexivity.
  - split; [apply sub_nil|reflexivity].
  - apply args_init.
  - apply reply_init.
  - cbn. constructor.
  - unfold life_ok. cbn. repeat split; intros; try discriminate; try congruence; auto.
Qed.

Theorem Inv_reachable m a0 progs sched : Inv a0 m (run m a0 progs sched).
Proof. unfold Actor.run. apply (inv_run sem sem_slf dv (Inv a0 m) m (Inv_step a0 m)). apply Inv_init. Qed.

(* ---- consequences ---- *)

(* calls still pending at the actor carry distinct ids *)
Lemma nodup_pending (s : st) : ids_ok s -> fifo_ok s -> proc_ok s -> NoDup (busy_id s ++ qids s).
Proof.
  intros (_ & _ & _ & _ & _ & _ & N & _) F (P & _). unfold fifo_ok in F. rewrite F in N.
  assert (S : subseq (busy_id s ++ qids s) (deq s ++ qids s)).
  { apply subseq_app; [|apply subseq_refl]. eapply subseq_trans; [apply subseq_app_l|exact P]. }
  exact (subseq_NoDup _ _ S N).
Qed.

(* C03: while nothing was discarded, every accepted call is, exactly once, executed, in progress or queued *)
Theorem exactly_once m a0 progs sched : let s := run m a0 progs sched in
  dropped s = [] -> moved s = 0 ->
  NoDup (enq s) /\ enq s = applied_ids s ++ busy_id s ++ qids s.
Proof.
  intros s D M. destruct (Inv_reachable m a0 progs sched) as (I1 & _ & F & (_ & P) & _). fold s in I1, F, P.
  split; [apply I1|]. unfold fifo_ok in F. rewrite F, (P D M), app_assoc. reflexivity.
Qed.

(* C02: real-time precedence carries over from the channel to the execution order *)
Theorem realtime_order m a0 progs sched : let s := run m a0 progs sched in
  forall h1 h2 c1 c2, hist s = h1 ++ EInv c2 :: h2 -> In (ERet c1) h1 ->
  In c1 (applied_ids s) -> In c2 (applied_ids s) -> precedes c1 c2 (applied_ids s).
Proof.
  intros s h1 h2 c1 c2 Hh Hr A1 A2.
  destruct (Inv_reachable m a0 progs sched) as (I1 & I2 & F & (P & _) & _). fold s in I1, I2, F, P.
  assert (S : subseq (applied_ids s) (enq s)).
  { unfold fifo_ok in F. rewrite F. apply subseq_app_r. eapply subseq_drop_r. exact P. }
  assert (N : NoDup (enq s)) by apply I1.
  apply (precedes_subseq c1 c2 _ _ S N); auto.
  destruct I2 as (_ & _ & _ & O). apply (O h1 h2); auto; eapply subseq_In; eauto.
Qed.

(* ---- arguments reach the user method unchanged ---- *)
Definition route_ok (k : nat) (rm : rmeth) : bool :=
  Nat.eqb (rm_callee rm) k &&
  forallb (fun p => match nth_error (rm_args rm) p with
                    | Some j => match nth_error (rm_fields rm) j with Some i => Nat.eqb i p | None => false end
                    | None => false end) (seq 0 (length (rm_args rm))).
Definition routes_ok (m : rmodel) : bool :=
  forallb (fun kr => route_ok (fst kr) (snd kr)) (combine (seq 0 (length (r_meths m))) (r_meths m)).

Lemma route_id rm k vs : route_ok k rm = true -> length vs = length (rm_args rm) ->
  route dv (rm_args rm) (route dv (rm_fields rm) vs) = vs.
Proof.
  unfold route_ok. intros H L. apply andb_prop in H. destruct H as [_ H]. rewrite forallb_forall in H.
  apply (nth_ext _ _ dv dv).
  - unfold route. rewrite map_length. auto.
  - intros p Hp. unfold route in Hp. rewrite map_length in Hp.
    specialize (H p). rewrite in_seq in H. specialize (H ltac:(lia)).
    destruct (nth_error (rm_args rm) p) as [j|] eqn:Ej; [|discriminate].
    destruct (nth_error (rm_fields rm) j) as [i|] eqn:Ei; [|discriminate].
    apply Nat.eqb_eq in H. subst i.
    assert (Lj : j < length (rm_fields rm)) by (apply nth_error_Some; congruence).
    unfold route. rewrite (nth_map_lt _ _ p dv 0) by lia.
    rewrite (nth_error_nth _ _ 0 Ej). rewrite (nth_map_lt _ _ j dv 0) by exact Lj.
    rewrite (nth_error_nth _ _ 0 Ei). reflexivity.
Qed.

Lemma routes_ok_meth m k rm : routes_ok m = true -> meth m k = Some rm -> route_ok k rm = true.
Proof.
  unfold routes_ok, meth. intros H E. rewrite forallb_forall in H.
  apply (H (k, rm)). 
  assert (L : k < length (r_meths m)) by (apply nth_error_Some; congruence).
  replace (k, rm) with (nth k (combine (seq 0 (length (r_meths m))) (r_meths m)) (0, rm)).
  - apply nth_In. rewrite combine_length, seq_length. lia.
  - rewrite combine_nth by (rewrite seq_length; reflexivity). rewrite seq_nth by exact L.
    f_equal. apply nth_error_nth. exact E.
Qed.

(* C03 / C07: every execution is the execution of an issued call: same method, exactly the supplied values, by position *)
Theorem executed_as_issued m a0 progs sched : let s := run m a0 progs sched in routes_ok m = true ->
  forall c callee args r, In (c, callee, args, r) (applied s) ->
  exists k vs rm, In (c, k, vs) (issued s) /\ meth m k = Some rm /\ callee = k
                  /\ (length vs = length (rm_args rm) -> args = vs).
Proof.
  intros s R c callee args r H.
  destruct (Inv_reachable m a0 progs sched) as (_ & _ & _ & _ & (_ & _ & _ & Ar) & _). fold s in Ar.
  destruct (Ar _ _ _ _ H) as (k & vs & rm & Hi & Hm & -> & ->).
  pose proof (routes_ok_meth m k rm R Hm) as Rk.
  exists k, vs, rm. repeat split; auto.
  - unfold route_ok in Rk. apply andb_prop in Rk. apply Nat.eqb_eq. apply Rk.
  - intros L. apply (route_id rm k vs Rk L).
Qed.

(* C03: a caller only ever gets the reply of its own call, and it is the value that execution produced *)
Theorem own_reply m a0 progs sched : let s := run m a0 progs sched in
  forallb rm_loud_wait (r_meths m) = true ->
  forall t cl c v, nth_error (clients s) t = Some cl -> In (c, Returned v) (c_rets cl) ->
  fst c = t /\ exists callee args, In (c, callee, args, v) (applied s).
Proof.
  intros s L t cl c v Hn Hr.
  destruct (Inv_reachable m a0 progs sched) as (_ & _ & _ & _ & _ & (_ & _ & R) & _). fold s in R.
  destruct (R t cl c v Hn Hr) as (E & [Ha|(k & rm & Hm & Hl)]); split; auto.
  exfalso. rewrite forallb_forall in L. unfold meth in Hm. apply nth_error_In in Hm. rewrite (L _ Hm) in Hl. discriminate.
Qed.

(* C01: one method at a time, and state and results are those of the sequential run of the executed calls *)
Theorem one_at_a_time m a0 progs sched : length (busy_id (run m a0 progs sched)) <= 1.
Proof. unfold busy_id. destruct (busy _); cbn; lia. Qed.

Theorem sequential_spec m a0 progs sched : let s := run m a0 progs sched in
  match actor s with
  | Some a => Replay sem a0 (applied s) a
  | None => exists a, Replay sem a0 (applied s) a
  end.
Proof. intros s. destruct (Inv_reachable m a0 progs sched) as (_ & _ & _ & _ & _ & _ & S & _). exact S. Qed.

(* C09: when the stop message of a self-consuming call is taken, every call accepted before it has been executed *)
Theorem stop_after_all_earlier a0 m s s' : Inv a0 m s -> step m s Ac = Some s' -> exited s = None -> exited s' = Some Stopped ->
  dropped s = [] ->
  exists c q, enq s = applied_ids s ++ c :: q /\ applied s' = applied s.
Proof.
  intros (_ & _ & F & (_ & P) & _ & _ & _ & L) H E E' D.
  destruct L as (_ & _ & _ & L4 & _). destruct (L4 E) as (_ & M & _).
  cbn [Actor.step] in H. unfold step_actor in H.
  repeat match type of H with
  | context [match ?x with _ => _ end] => destruct x eqn:?; try discriminate H
  end; injection H as <-; cbn in E'; try congruence; try discriminate E'.
  all: match goal with Q : queue _ = MStop ?c :: ?q, B : busy _ = None |- _ =>
         exists c, (map msg_id q); unfold fifo_ok, qids in F; rewrite Q in F; cbn in F;
         rewrite (P D M) in F; unfold busy_id in F; rewrite B, app_nil_r in F; repeat split; auto end.
Qed.
End Combined.
