//! Shared harness pieces: recorder, client slots, quiescence, JSON printing,
//! panic capture and the per-runtime spawn helpers.

use std::any::Any;
use std::collections::HashMap;
use std::future::Future;
use std::panic::{catch_unwind, AssertUnwindSafe};
use std::pin::Pin;
use std::sync::atomic::{AtomicBool, AtomicU64, AtomicUsize, Ordering::SeqCst};
use std::sync::{Arc, Condvar, Mutex, MutexGuard, OnceLock};
use std::task::{Context, Poll};
use std::time::{Duration, Instant};

// ---------------------------------------------------------------- progress

/// Global progress counter. Bumped by every log append, every finished
/// client and every completed client call. Quiescence = this does not move.
pub static PROGRESS: AtomicU64 = AtomicU64::new(0);

pub fn bump_progress() {
    PROGRESS.fetch_add(1, SeqCst);
}

/// Current phase of the orchestrator, reported by the watchdog.
static PHASE: Mutex<String> = Mutex::new(String::new());

pub fn phase(s: &str) {
    *lock(&PHASE) = s.to_string();
}

pub fn current_phase() -> String {
    lock(&PHASE).clone()
}

/// Lock ignoring poisoning (a panicking actor must not break the recorder).
pub fn lock<T>(m: &Mutex<T>) -> MutexGuard<'_, T> {
    m.lock().unwrap_or_else(|e| e.into_inner())
}

// ---------------------------------------------------------------- recorder

pub struct Rec {
    pub log: Mutex<Vec<String>>,
    pub ctor_runs: AtomicUsize,
    pub drops: AtomicUsize,
    gate: Mutex<bool>,
    gate_cv: Condvar,
    /// plain actor: number of methods currently executing
    pub in_method: AtomicUsize,
    /// family actor: readers / writers currently inside
    pub readers_inside: AtomicUsize,
    pub writers_inside: AtomicUsize,
    pub overlap_writer: AtomicBool,
    /// family actor: rendezvous counter of `slow_read`
    rdv: Mutex<(usize, bool)>,
    rdv_cv: Condvar,
}

impl Rec {
    pub fn new() -> Arc<Rec> {
        Arc::new(Rec {
            log: Mutex::new(Vec::new()),
            ctor_runs: AtomicUsize::new(0),
            drops: AtomicUsize::new(0),
            gate: Mutex::new(false),
            gate_cv: Condvar::new(),
            in_method: AtomicUsize::new(0),
            readers_inside: AtomicUsize::new(0),
            writers_inside: AtomicUsize::new(0),
            overlap_writer: AtomicBool::new(false),
            rdv: Mutex::new((0, false)),
            rdv_cv: Condvar::new(),
        })
    }

    pub fn push(&self, s: String) {
        lock(&self.log).push(s);
        bump_progress();
    }

    pub fn snapshot(&self) -> Vec<String> {
        lock(&self.log).clone()
    }

    pub fn log_contains(&self, s: &str) -> bool {
        lock(&self.log).iter().any(|e| e == s)
    }

    pub fn count_prefix(&self, prefix: &str) -> usize {
        lock(&self.log).iter().filter(|e| e.starts_with(prefix)).count()
    }

    /// Overlap detector of the plain actor. Call first thing in every method.
    pub fn enter(&self) -> MethodGuard<'_> {
        if self.in_method.fetch_add(1, SeqCst) != 0 {
            self.push("overlap".to_string());
        }
        MethodGuard(self)
    }

    /// Family actor, `&mut self` method entry: nobody else may be inside.
    pub fn enter_writer(&self) -> WriterGuard<'_> {
        let w = self.writers_inside.fetch_add(1, SeqCst);
        let r = self.readers_inside.load(SeqCst);
        if w != 0 || r != 0 {
            self.overlap_writer.store(true, SeqCst);
            self.push("overlap".to_string());
        }
        WriterGuard(self)
    }

    /// Family actor, `&self` method entry: no writer may be inside.
    pub fn enter_reader(&self) -> ReaderGuard<'_> {
        self.readers_inside.fetch_add(1, SeqCst);
        if self.writers_inside.load(SeqCst) != 0 {
            self.overlap_writer.store(true, SeqCst);
            self.push("overlap".to_string());
        }
        ReaderGuard(self)
    }

    /// Blocks (plain OS blocking) until `open_gate` was called.
    pub fn wait_gate(&self) {
        let mut g = lock(&self.gate);
        while !*g {
            g = self.gate_cv.wait(g).unwrap_or_else(|e| e.into_inner());
        }
    }

    pub fn open_gate(&self) {
        *lock(&self.gate) = true;
        self.gate_cv.notify_all();
        bump_progress();
    }

    /// `slow_read` rendezvous: count me in, wait up to 1 s until two readers
    /// were inside at the same time (sticky flag, so that the partner leaving
    /// early cannot be missed). Returns true when the rendezvous happened.
    pub fn rendezvous(&self) -> bool {
        let mut g = lock(&self.rdv);
        g.0 += 1;
        if g.0 >= 2 {
            g.1 = true;
        }
        self.rdv_cv.notify_all();
        let deadline = Instant::now() + Duration::from_secs(1);
        while !g.1 {
            let now = Instant::now();
            if now >= deadline {
                break;
            }
            let (g2, _) = self
                .rdv_cv
                .wait_timeout(g, deadline - now)
                .unwrap_or_else(|e| e.into_inner());
            g = g2;
        }
        let ok = g.1;
        g.0 -= 1;
        ok
    }
}

pub struct MethodGuard<'a>(&'a Rec);
impl Drop for MethodGuard<'_> {
    fn drop(&mut self) {
        self.0.in_method.fetch_sub(1, SeqCst);
    }
}
pub struct WriterGuard<'a>(&'a Rec);
impl Drop for WriterGuard<'_> {
    fn drop(&mut self) {
        self.0.writers_inside.fetch_sub(1, SeqCst);
    }
}
pub struct ReaderGuard<'a>(&'a Rec);
impl Drop for ReaderGuard<'_> {
    fn drop(&mut self) {
        self.0.readers_inside.fetch_sub(1, SeqCst);
    }
}

// ---------------------------------------------------------------- panics

pub fn panic_msg(p: Box<dyn Any + Send>) -> String {
    if let Some(s) = p.downcast_ref::<&str>() {
        s.to_string()
    } else if let Some(s) = p.downcast_ref::<String>() {
        s.clone()
    } else {
        "<non-string panic payload>".to_string()
    }
}

/// Run `f`, turning a panic into `Err(message)`.
pub fn catch<T>(f: impl FnOnce() -> T) -> Result<T, String> {
    catch_unwind(AssertUnwindSafe(f)).map_err(panic_msg)
}

/// Future adapter: a panic inside `poll` becomes `Err(message)`.
pub struct CatchUnwind<F: Future>(Pin<Box<F>>);

impl<F: Future> CatchUnwind<F> {
    pub fn new(f: F) -> Self {
        CatchUnwind(Box::pin(f))
    }
}

impl<F: Future> Future for CatchUnwind<F> {
    type Output = Result<F::Output, String>;
    fn poll(mut self: Pin<&mut Self>, cx: &mut Context<'_>) -> Poll<Self::Output> {
        let inner = self.0.as_mut();
        match catch_unwind(AssertUnwindSafe(|| inner.poll(cx))) {
            Ok(Poll::Ready(v)) => Poll::Ready(Ok(v)),
            Ok(Poll::Pending) => Poll::Pending,
            Err(p) => Poll::Ready(Err(panic_msg(p))),
        }
    }
}

// ---------------------------------------------------------------- slots

#[derive(Clone, Debug, PartialEq)]
pub enum Outcome {
    Running,
    Returned,
    Panicked(String),
}

/// One per client thread/task. The spawn helpers set the final state, the
/// client body stores values.
pub struct Slot {
    state: Mutex<Outcome>,
    pub value: Mutex<Option<i64>>,
    /// (kind, caller, seq, returned value)
    pub returns: Mutex<Vec<(String, u32, u32, i64)>>,
    pub calls_done: AtomicUsize,
}

impl Slot {
    pub fn new() -> Arc<Slot> {
        Arc::new(Slot {
            state: Mutex::new(Outcome::Running),
            value: Mutex::new(None),
            returns: Mutex::new(Vec::new()),
            calls_done: AtomicUsize::new(0),
        })
    }
    pub fn finish(&self, r: Result<(), String>) {
        *lock(&self.state) = match r {
            Ok(()) => Outcome::Returned,
            Err(m) => Outcome::Panicked(m),
        };
        bump_progress();
    }
    pub fn outcome(&self) -> Outcome {
        lock(&self.state).clone()
    }
    pub fn finished(&self) -> bool {
        self.outcome() != Outcome::Running
    }
    pub fn set_value(&self, v: i64) {
        *lock(&self.value) = Some(v);
    }
    pub fn get_value(&self) -> Option<i64> {
        *lock(&self.value)
    }
    pub fn ret(&self, kind: &str, caller: u32, seq: u32, v: i64) {
        lock(&self.returns).push((kind.to_string(), caller, seq, v));
    }
    pub fn call_done(&self) {
        self.calls_done.fetch_add(1, SeqCst);
        bump_progress();
    }
}

pub fn all_finished(slots: &[Arc<Slot>]) -> bool {
    slots.iter().all(|s| s.finished())
}

pub fn count_returned(slots: &[Arc<Slot>]) -> usize {
    slots.iter().filter(|s| s.outcome() == Outcome::Returned).count()
}

/// (returned, panic messages, hung)
pub fn summarize(slots: &[Arc<Slot>]) -> (usize, Vec<String>, usize) {
    let mut returned = 0;
    let mut panicked = Vec::new();
    let mut hung = 0;
    for s in slots {
        match s.outcome() {
            Outcome::Returned => returned += 1,
            Outcome::Panicked(m) => panicked.push(m),
            Outcome::Running => hung += 1,
        }
    }
    (returned, panicked, hung)
}

/// Result of an orchestrator call executed as a throw-away client.
pub enum Timed<T> {
    Ok(T),
    Panicked(String),
    Hung,
}

impl<T> Timed<T> {
    pub fn describe(&self) -> String {
        match self {
            Timed::Ok(_) => "returned".to_string(),
            Timed::Panicked(m) => format!("panicked: {m}"),
            Timed::Hung => "hung".to_string(),
        }
    }
}

// ---------------------------------------------------------------- waiting

pub const W0: Duration = Duration::from_millis(300);
const POLL: Duration = Duration::from_millis(5);

/// A pause that works on every runtime: the future is pending until the deadline, a helper thread wakes the task.
pub struct PauseFor {
    until: Instant,
}

pub fn pause_for(ms: u64) -> PauseFor {
    PauseFor { until: Instant::now() + Duration::from_millis(ms) }
}

impl Future for PauseFor {
    type Output = ();
    fn poll(self: Pin<&mut Self>, cx: &mut Context<'_>) -> Poll<()> {
        let now = Instant::now();
        if now >= self.until {
            return Poll::Ready(());
        }
        let (w, left) = (cx.waker().clone(), self.until - now);
        std::thread::spawn(move || {
            std::thread::sleep(left);
            w.wake();
        });
        Poll::Pending
    }
}

pub fn wait_until(cond: impl Fn() -> bool, max: Duration) -> bool {
    let start = Instant::now();
    loop {
        if cond() {
            return true;
        }
        if start.elapsed() >= max {
            return false;
        }
        std::thread::sleep(POLL);
    }
}

/// Returns when `done()` holds, or when the progress counter did not move
/// for `window`, or after `cap`. The result is `done()`.
fn quiet_or_done(done: &dyn Fn() -> bool, window: Duration, cap: Duration) -> bool {
    let start = Instant::now();
    let mut last = PROGRESS.load(SeqCst);
    let mut last_change = Instant::now();
    loop {
        if done() {
            return true;
        }
        std::thread::sleep(POLL);
        let p = PROGRESS.load(SeqCst);
        if p != last {
            last = p;
            last_change = Instant::now();
        }
        if last_change.elapsed() >= window || start.elapsed() >= cap {
            return done();
        }
    }
}

/// Quiescence rule of the spec: window W0 (300 ms); when the decision would
/// be "blocked" (`done()` false) the window is doubled once and re-checked.
pub fn settle(done: &dyn Fn() -> bool, cap: Duration) -> bool {
    if quiet_or_done(done, W0, cap) {
        return true;
    }
    quiet_or_done(done, W0 * 2, cap)
}

// ---------------------------------------------------------------- runtimes

static TOKIO_RT: OnceLock<tokio::runtime::Runtime> = OnceLock::new();

/// Multi-thread tokio runtime with 4 workers.
pub fn tokio_rt() -> &'static tokio::runtime::Runtime {
    TOKIO_RT.get_or_init(|| {
        tokio::runtime::Builder::new_multi_thread()
            .worker_threads(4)
            .enable_all()
            .build()
            .expect("tokio runtime")
    })
}

pub fn spawn_std<F: FnOnce() + Send + 'static>(slot: Arc<Slot>, f: F) {
    std::thread::spawn(move || {
        let r = catch(f);
        slot.finish(r);
    });
}

pub fn spawn_tokio<F: Future<Output = ()> + Send + 'static>(slot: Arc<Slot>, f: F) {
    tokio_rt().spawn(async move {
        let r = CatchUnwind::new(f).await;
        slot.finish(r);
    });
}

pub fn spawn_async_std<F: Future<Output = ()> + Send + 'static>(slot: Arc<Slot>, f: F) {
    async_std::task::spawn(async move {
        let r = CatchUnwind::new(f).await;
        slot.finish(r);
    });
}

pub fn spawn_smol<F: Future<Output = ()> + Send + 'static>(slot: Arc<Slot>, f: F) {
    smol::spawn(async move {
        let r = CatchUnwind::new(f).await;
        slot.finish(r);
    })
    .detach();
}

// ---------------------------------------------------------------- params

pub struct Params {
    pub scenario: String,
    pub lib: String,
    pub chan: usize,
    pub kv: HashMap<String, String>,
}

impl Params {
    pub fn num(&self, key: &str, default: u64) -> Result<u64, String> {
        match self.kv.get(key) {
            None => Ok(default),
            Some(v) => v.parse::<u64>().map_err(|_| format!("bad value for {key}: {v}")),
        }
    }
    pub fn text(&self, key: &str, default: &str) -> String {
        self.kv.get(key).cloned().unwrap_or_else(|| default.to_string())
    }
}

// ---------------------------------------------------------------- LCG

pub struct Lcg(u64);

impl Lcg {
    pub fn new(seed: u64, client: u32) -> Lcg {
        let mut l = Lcg(seed ^ ((client as u64 + 1).wrapping_mul(0x9E37_79B9_7F4A_7C15)));
        l.next();
        l
    }
    pub fn next(&mut self) -> u32 {
        self.0 = self
            .0
            .wrapping_mul(6364136223846793005)
            .wrapping_add(1442695040888963407);
        (self.0 >> 33) as u32
    }
    pub fn below(&mut self, n: u32) -> u32 {
        self.next() % n
    }
}

// ---------------------------------------------------------------- JSON

pub fn jstr(s: &str) -> String {
    let mut o = String::with_capacity(s.len() + 2);
    o.push('"');
    for c in s.chars() {
        match c {
            '"' => o.push_str("\\\""),
            '\\' => o.push_str("\\\\"),
            '\n' => o.push_str("\\n"),
            '\r' => o.push_str("\\r"),
            '\t' => o.push_str("\\t"),
            c if (c as u32) < 0x20 => o.push_str(&format!("\\u{:04x}", c as u32)),
            c => o.push(c),
        }
    }
    o.push('"');
    o
}

pub fn jarr_str(v: &[String]) -> String {
    let items: Vec<String> = v.iter().map(|s| jstr(s)).collect();
    format!("[{}]", items.join(","))
}

pub fn jopt_num(v: Option<i64>) -> String {
    match v {
        Some(n) => n.to_string(),
        None => "null".to_string(),
    }
}

pub fn jopt_str(v: Option<&str>) -> String {
    match v {
        Some(s) => jstr(s),
        None => "null".to_string(),
    }
}

/// Tiny JSON object builder; values passed to `raw` must already be JSON.
pub struct Obj(Vec<String>);

impl Obj {
    pub fn new(p: &Params) -> Obj {
        Obj(Vec::new())
            .s("scenario", &p.scenario)
            .s("lib", &p.lib)
            .n("chan", p.chan as i64)
    }
    pub fn bare() -> Obj {
        Obj(Vec::new())
    }
    pub fn raw(mut self, k: &str, v: String) -> Obj {
        self.0.push(format!("{}:{}", jstr(k), v));
        self
    }
    pub fn s(self, k: &str, v: &str) -> Obj {
        self.raw(k, jstr(v))
    }
    pub fn n(self, k: &str, v: i64) -> Obj {
        self.raw(k, v.to_string())
    }
    pub fn b(self, k: &str, v: bool) -> Obj {
        self.raw(k, v.to_string())
    }
    pub fn strs(self, k: &str, v: &[String]) -> Obj {
        self.raw(k, jarr_str(v))
    }
    pub fn done(self) -> String {
        format!("{{{}}}", self.0.join(","))
    }
}

// ---------------------------------------------------------------- mixed checks

/// Harness-side consistency checks of a `mixed` run; returns a JSON object.
/// * `replay_ok`: replaying the log entry by entry reproduces every logged
///   accumulator value (`get`, `add`, `asy`; `gen` entries are taken over since
///   the log does not carry their argument);
/// * `final_ok`: the replayed accumulator equals the final `get()`;
/// * `returns_match_log`: every recorded return value equals the value logged
///   for the same (kind, caller, seq) (`get` is matched by occurrence order per
///   value since its log entry carries no caller);
/// * `per_client_order_ok`: entries carrying (caller, seq) appear with
///   increasing seq per caller;
/// * `entries`: number of log entries excluding the final get.
pub fn check_mixed(
    log: &[String],
    returns: &[(String, u32, u32, i64)],
    final_v: Option<i64>,
    clients: u32,
) -> String {
    let mut acc: i64 = 0;
    let mut replay_ok = true;
    let mut logged: HashMap<(String, u32, u32), i64> = HashMap::new();
    let mut logged_gets: HashMap<i64, usize> = HashMap::new();
    let mut last_seq: Vec<Option<u32>> = vec![None; clients as usize];
    let mut order_ok = true;
    let mut note_seq = |caller: u32, seq: u32, order_ok: &mut bool| {
        if let Some(slot) = last_seq.get_mut(caller as usize) {
            if let Some(prev) = *slot {
                if seq <= prev {
                    *order_ok = false;
                }
            }
            *slot = Some(seq);
        } else {
            *order_ok = false;
        }
    };
    for e in log {
        let f: Vec<&str> = e.split(':').collect();
        let num = |i: usize| -> i64 { f.get(i).and_then(|s| s.parse::<i64>().ok()).unwrap_or(i64::MIN) };
        match f[0] {
            "tick" => {
                acc = acc.wrapping_mul(31).wrapping_add(num(1) * 1000 + num(2));
                note_seq(num(1) as u32, num(2) as u32, &mut order_ok);
            }
            "put" => {
                acc = acc.wrapping_mul(31).wrapping_add(num(1) * 100 + num(2) * 10 + num(3));
            }
            "get" => {
                if num(1) != acc {
                    replay_ok = false;
                }
                *logged_gets.entry(num(1)).or_insert(0) += 1;
            }
            "add" | "asy" => {
                acc = acc.wrapping_add(num(3));
                if num(4) != acc {
                    replay_ok = false;
                }
                logged.insert((f[0].to_string(), num(1) as u32, num(2) as u32), num(4));
                note_seq(num(1) as u32, num(2) as u32, &mut order_ok);
            }
            "gen" => {
                acc = num(3);
                logged.insert(("gen".to_string(), num(1) as u32, num(2) as u32), num(3));
                note_seq(num(1) as u32, num(2) as u32, &mut order_ok);
            }
            _ => {}
        }
    }
    let mut returns_match = true;
    for (k, c, s, v) in returns {
        if k == "get" {
            match logged_gets.get_mut(v) {
                Some(n) if *n > 0 => *n -= 1,
                _ => returns_match = false,
            }
        } else if logged.get(&(k.clone(), *c, *s)) != Some(v) {
            returns_match = false;
        }
    }
    let final_ok = final_v == Some(acc);
    Obj::bare()
        .b("replay_ok", replay_ok)
        .b("final_ok", final_ok)
        .b("returns_match_log", returns_match)
        .b("per_client_order_ok", order_ok)
        .n("replayed_final", acc)
        .done()
}


// ---------------------------------------------------------------- fault injection: the OS refuses new threads
#[repr(C)]
#[derive(Clone, Copy)]
struct RLimit { cur: u64, max: u64 }
extern "C" {
    fn getrlimit(resource: i32, rlim: *mut RLimit) -> i32;
    fn setrlimit(resource: i32, rlim: *const RLimit) -> i32;
}
const RLIMIT_AS: i32 = 9;

fn vm_size_bytes() -> Option<u64> {
    let status = std::fs::read_to_string("/proc/self/status").ok()?;
    let line = status.lines().find(|l| l.starts_with("VmSize:"))?;
    let kb: u64 = line.split_whitespace().nth(1)?.parse().ok()?;
    Some(kb * 1024)
}

/// Runs `f` at a moment when thread creation fails (address-space limit lowered to the current size plus 1 MiB, cached thread
/// stacks used up by parked threads).  Returns None when the fault could not be injected.  Linux only.
pub fn with_no_threads<R>(f: impl FnOnce() -> R) -> Option<R> {
    let mut parked = Vec::with_capacity(64);
    let (release, gate) = std::sync::mpsc::channel::<()>();
    let gate = Arc::new(Mutex::new(gate));
    let mut old = RLimit { cur: 0, max: 0 };
    if unsafe { getrlimit(RLIMIT_AS, &mut old) } != 0 { return None; }
    let tight = RLimit { cur: vm_size_bytes()? + (1 << 20), max: old.max };
    if unsafe { setrlimit(RLIMIT_AS, &tight) } != 0 { return None; }
    let mut refused = false;
    for _ in 0..64 {
        let gate = gate.clone();
        match std::thread::Builder::new().spawn(move || { let _ = gate.lock().unwrap().recv(); }) {
            Ok(h) => parked.push(h),
            Err(_) => { refused = true; break; }
        }
    }
    let out = if refused { Some(f()) } else { None };
    unsafe { setrlimit(RLIMIT_AS, &old); }
    drop(release);
    for h in parked { let _ = h.join(); }
    out
}
