(* C19 -- invalid or contradictory configuration is rejected, valid configuration is accepted, no option is silently ignored.
   Statements only; the parser model is Gen/Attr.v, the reference validator (written from the documented option tables)
   Gen/AttrSpec.v, proofs Gen/AttrThm.v, concrete instances Gen/AttrWitness.v.
   fexists / fcount (does a path exist; how many macros of the file carry `file` markers) are universally quantified.
   All statements are unguarded: the former known-finding classes (name-not-ident, leaf-not-bare, edit-empty-list,
   example-unknown-option, family-edit-form) were repaired in the crate and are rule lemmas / instances now. *)
From Coq Require Import List String Bool.
Import ListNotations.
From IT Require Import Gen.Attr Gen.AttrSpec Gen.AttrThm Gen.AttrWitness.
Open Scope string_scope.

Section C19.
Variable fexists : string -> bool.
Variable fcount : string -> fcnt.

(* ---- accept <-> valid ---- *)
Theorem C19_actor_accept_iff_valid : forall l,
  is_ok (parse_args fexists fcount Actor l) = valid_actor fexists fcount l.
Proof. exact (actor_accept_iff_valid fexists fcount). Qed.

Theorem C19_family_accept_iff_valid : forall l,
  is_ok (parse_args fexists fcount Family l) = valid_family fexists fcount l.
Proof. exact (family_accept_iff_valid fexists fcount). Qed.

Theorem C19_example_accept_iff_valid : forall l,
  is_ok (parse_example fexists l) = valid_example fexists l.
Proof. exact (example_accept_iff_valid fexists). Qed.

(* ---- a rejected configuration gets a diagnostic, never a panic ---- *)
Theorem C19_never_panics : forall mc l, parse_args fexists fcount mc l <> Panic.
Proof. exact (parse_args_never_panics fexists fcount). Qed.

Theorem C19_invalid_gets_diagnostic : forall l, valid_actor fexists fcount l = false ->
  exists d, parse_args fexists fcount Actor l = Diag d.
Proof.
  intros l V. apply not_ok_diag. rewrite (actor_accept_iff_valid fexists fcount l). exact V.
  exact (parse_args_never_panics fexists fcount Actor l).
Qed.

Theorem C19_family_invalid_gets_diagnostic : forall l, valid_family fexists fcount l = false ->
  exists d, parse_args fexists fcount Family l = Diag d.
Proof.
  intros l V. apply not_ok_diag. rewrite (family_accept_iff_valid fexists fcount l). exact V.
  exact (parse_args_never_panics fexists fcount Family l).
Qed.

Theorem C19_example_invalid_gets_diagnostic : forall l, valid_example fexists l = false -> exists d, parse_example fexists l = Diag d.
Proof.
  intros l V. apply not_ok_diag. rewrite (example_accept_iff_valid fexists l). exact V. exact (example_never_panics fexists l).
Qed.

Theorem C19_example_never_panics : forall l, parse_example fexists l <> Panic.
Proof. exact (example_never_panics fexists). Qed.

(* ---- faithfulness: the accepted configuration is the documented meaning of the options, every field, nothing else ---- *)
Theorem C19_actor_faithful : forall l c, parse_args fexists fcount Actor l = Ok c -> c = denote_actor l.
Proof. exact (actor_faithful fexists fcount). Qed.

Theorem C19_family_faithful : forall l c, parse_args fexists fcount Family l = Ok c -> c = denote_family l.
Proof. exact (family_faithful fexists fcount). Qed.

Theorem C19_actor_lib : forall l c, parse_args fexists fcount Actor l = Ok c ->
  a_lib (c_top c) = match find_key KLib l with Some m => lib_den m | None => Std end.
Proof. exact (actor_lib_reflected fexists fcount). Qed.

Theorem C19_actor_channel : forall l c, parse_args fexists fcount Actor l = Ok c ->
  a_chan (c_top c) = match find_key KChannel l with Some m => chan_den m | None => Unbounded end.
Proof. exact (actor_channel_reflected fexists fcount). Qed.

Theorem C19_actor_name : forall l c, parse_args fexists fcount Actor l = Ok c ->
  a_name (c_top c) = match find_key KName l with Some m => v_str m | None => None end.
Proof. exact (actor_name_reflected fexists fcount). Qed.

Theorem C19_actor_file : forall l c, parse_args fexists fcount Actor l = Ok c ->
  a_file (c_top c) = match find_key KFile l with Some m => v_str m | None => None end.
Proof. exact (actor_file_reflected fexists fcount). Qed.

Theorem C19_actor_flags : forall l c, parse_args fexists fcount Actor l = Ok c ->
  a_debut (c_top c) = has_key KDebut l /\ a_interact (c_top c) = has_key KInteract l /\ a_show (c_top c) = has_key KShow l
  /\ a_debug (c_top c) = has_key KDebug l.
Proof. exact (actor_flags_reflected fexists fcount). Qed.

Theorem C19_actor_filter : forall l c, parse_args fexists fcount Actor l = Ok c -> has_key KExclude l = false ->
  a_filter (c_top c) = match find_key KInclude l with Some m => Some (filter_den true m) | None => None end.
Proof. exact (actor_filter_reflected fexists fcount). Qed.

Theorem C19_family_member_channel : forall l c, parse_args fexists fcount Family l = Ok c ->
  map (fun p => a_chan (snd p)) (c_members c) =
  map (fun mem => match find_key KChannel (member_list mem) with Some m => chan_den m
                  | None => match find_key KChannel l with Some m => chan_den m | None => Unbounded end end) (members_of l).
Proof. exact (family_member_channel fexists fcount). Qed.

Theorem C19_family_member_lib : forall l c, parse_args fexists fcount Family l = Ok c ->
  map (fun p => a_lib (snd p)) (c_members c) =
  map (fun mem => match find_key KLib (member_list mem) with Some m => lib_den m | None => fam_lib l end) (members_of l).
Proof. exact (family_member_lib fexists fcount). Qed.

Theorem C19_family_member_show : forall l c, parse_args fexists fcount Family l = Ok c ->
  map (fun p => a_show (snd p)) (c_members c) = map (fun mem => has_key KShow (member_list mem)) (members_of l).
Proof. exact (family_member_show fexists fcount). Qed.

Theorem C19_family_lock : forall l c, parse_args fexists fcount Family l = Ok c -> a_rcv (c_top c) <> RSlf.
Proof. exact (family_lock_reflected fexists fcount). Qed.

Theorem C19_example_main : forall l e, parse_example fexists l = Ok e -> x_main e = has_xkey XMain l.
Proof. exact (example_main_faithful fexists). Qed.

(* ---- one lemma per documented rule ---- *)
Theorem C19_rule_duplicate_key : forall l, nodupb (map mpath l) = false -> is_ok (parse_args fexists fcount Actor l) = false.
Proof. exact (actor_rule_duplicate fexists fcount). Qed.

Theorem C19_rule_family_duplicate_key : forall l, nodupb (filter not_actor_path (map mpath l)) = false -> is_ok (parse_args fexists fcount Family l) = false.
Proof. exact (family_rule_duplicate fexists fcount). Qed.

(* unknown key, or a known key with the wrong value kind *)
Theorem C19_rule_invalid_option : forall l m, In m l -> item_valid fexists Actor m = false ->
  is_ok (parse_args fexists fcount Actor l) = false.
Proof. exact (actor_rule_invalid_item fexists fcount). Qed.

Theorem C19_rule_unknown_key : forall l m, In m l -> mkey m = KOther ->
  is_ok (parse_args fexists fcount Actor l) = false.
Proof. intros l m I U. exact (actor_rule_invalid_item fexists fcount l m I (unknown_key_invalid fexists Actor m U)). Qed.

Theorem C19_rule_include_exclude : forall l, has_key KInclude l = true -> has_key KExclude l = true ->
  is_ok (parse_args fexists fcount Actor l) = false.
Proof. exact (actor_rule_include_exclude fexists fcount). Qed.

Theorem C19_rule_file_marker_needs_path : forall l, markers l = true -> has_key KFile l = false ->
  is_ok (parse_args fexists fcount Actor l) = false.
Proof. exact (actor_rule_marker_needs_file fexists fcount). Qed.

Theorem C19_rule_file_marker_one_macro : forall l m f, markers l = true ->
  find_key KFile l = Some m -> v_str m = Some f -> fcount f <> FOne -> is_ok (parse_args fexists fcount Actor l) = false.
Proof. exact (actor_rule_marker_one_macro fexists fcount). Qed.

Theorem C19_rule_family_invalid_option : forall l m, In m l -> fam_item_valid fexists m = false ->
  is_ok (parse_args fexists fcount Family l) = false.
Proof. exact (family_rule_invalid_item fexists fcount). Qed.

Theorem C19_rule_family_smol : forall l, fam_lib l = Smol -> is_ok (parse_args fexists fcount Family l) = false.
Proof. exact (family_rule_smol fexists fcount). Qed.

Theorem C19_rule_family_without_members : forall l, members_of l = [] -> is_ok (parse_args fexists fcount Family l) = false.
Proof. exact (family_rule_no_members fexists fcount). Qed.

Theorem C19_rule_member_without_first_name : forall l p ml, In (MList p ml) (members_of l) -> has_key KFirstName ml = false ->
  is_ok (parse_args fexists fcount Family l) = false.
Proof. intros l p ml I H. exact (family_rule_member_invalid fexists fcount l (MList p ml) I (member_needs_first_name fexists p ml H)). Qed.

Theorem C19_rule_family_file_marker_needs_path : forall l, fam_markers l = true -> has_key KFile l = false ->
  is_ok (parse_args fexists fcount Family l) = false.
Proof. exact (family_rule_marker_needs_file fexists fcount). Qed.

(* former known-finding classes, now rules *)
Theorem C19_rule_name_must_be_identifier : forall l m, In m l -> mkey m = KName -> v_name m = false ->
  exists d, parse_args fexists fcount Actor l = Diag d.
Proof.
  intros l m I K V. apply not_ok_diag. exact (actor_rule_invalid_item fexists fcount l m I (name_not_ident_invalid fexists Actor m K V)).
  exact (parse_args_never_panics fexists fcount Actor l).
Qed.

Theorem C19_rule_first_name_must_be_identifier : forall l p ml m, In (MList p ml) (members_of l) -> In m ml -> mkey m = KFirstName -> v_name m = false ->
  exists d, parse_args fexists fcount Family l = Diag d.
Proof.
  intros l p ml m I J K V. apply not_ok_diag.
  apply (family_rule_member_invalid fexists fcount l (MList p ml) I). apply (member_item_invalid fexists p ml m J). unfold item_valid. rewrite K. exact V.
  exact (parse_args_never_panics fexists fcount Family l).
Qed.

Theorem C19_rule_Debug_word_only : forall l m, In m l -> mkey m = KDebug -> v_flag m = false -> is_ok (parse_args fexists fcount Actor l) = false.
Proof. intros l m I K V. exact (actor_rule_invalid_item fexists fcount l m I (word_only_invalid fexists Actor m K V)). Qed.

Theorem C19_rule_filter_names_words_only : forall l m, In m l -> (mkey m = KInclude \/ mkey m = KExclude) -> v_filter m = false ->
  is_ok (parse_args fexists fcount Actor l) = false.
Proof. intros l m I K V. exact (actor_rule_invalid_item fexists fcount l m I (filter_names_words_only fexists Actor m K V)). Qed.

Theorem C19_rule_lock_word_only : forall l m, In m l -> (mkey m = KMutex \/ mkey m = KRwLock) -> v_flag m = false ->
  is_ok (parse_args fexists fcount Family l) = false.
Proof. intros l m I K V. exact (family_rule_invalid_item fexists fcount l m I (lock_word_only fexists m K V)). Qed.

Theorem C19_rule_example_invalid_option : forall l m, In m l -> ex_item_valid fexists m = false -> is_ok (parse_example fexists l) = false.
Proof. exact (example_rule_invalid_item fexists). Qed.

Theorem C19_rule_example_unknown_option : forall l m, In m l -> xclassify m = XOther -> is_ok (parse_example fexists l) = false.
Proof. intros l m I U. exact (example_rule_invalid_item fexists l m I (example_unknown_invalid fexists m U)). Qed.

End C19.

(* edit grammar: nesting `file` is not permitted; an unknown edit option is rejected *)
Theorem C19_rule_edit_nested_file : forall e p l1 l2 inner,
  is_ok (edit_parse e (MList p [MList ["file"] (l1 ++ MList ["file"] inner :: l2)])) = false.
Proof. exact edit_rule_nested_file_top. Qed.

Theorem C19_rule_edit_nested_file_in_part : forall e sol l1 l2 inner, (sol = "script" \/ sol = "live") ->
  is_ok (parse_sol e (MList [sol] (l1 ++ MList ["file"] inner :: l2)) true) = false.
Proof. exact edit_rule_nested_file_in_sol. Qed.

Theorem C19_rule_edit_unknown_option : forall e p x, is_ident (mpath x) "script" = false -> is_ident (mpath x) "live" = false ->
  is_ident (mpath x) "file" = false -> is_ok (edit_parse e (MList p [x])) = false.
Proof. exact edit_rule_unknown_option. Qed.

(* former finding edit-empty-list: an empty list is rejected wherever the edit grammar reads a list *)
Theorem C19_rule_edit_empty_list : forall e p,
  is_ok (edit_parse e (MList p [])) = false /\ is_ok (edit_parse_family e (MList p [])) = false
  /\ (forall f, is_ok (parse_sol e (MList p []) f) = false)
  /\ (forall os f, is_ok (nested_idents os (MList p []) f) = false)
  /\ is_ok (get_file_list (MList p [])) = false.
Proof. exact edit_rule_empty_list. Qed.

Print Assumptions C19_actor_accept_iff_valid.
Print Assumptions C19_family_accept_iff_valid.
Print Assumptions C19_example_accept_iff_valid.
Print Assumptions C19_never_panics.
Print Assumptions C19_invalid_gets_diagnostic.
Print Assumptions C19_family_invalid_gets_diagnostic.
Print Assumptions C19_example_never_panics.
Print Assumptions C19_actor_faithful.
Print Assumptions C19_family_faithful.
Print Assumptions C19_actor_lib.
Print Assumptions C19_actor_channel.
Print Assumptions C19_actor_name.
Print Assumptions C19_actor_file.
Print Assumptions C19_actor_flags.
Print Assumptions C19_actor_filter.
Print Assumptions C19_family_member_channel.
Print Assumptions C19_family_member_lib.
Print Assumptions C19_family_member_show.
Print Assumptions C19_family_lock.
Print Assumptions C19_example_main.
Print Assumptions C19_rule_duplicate_key.
Print Assumptions C19_rule_family_duplicate_key.
Print Assumptions C19_rule_invalid_option.
Print Assumptions C19_rule_unknown_key.
Print Assumptions C19_rule_include_exclude.
Print Assumptions C19_rule_file_marker_needs_path.
Print Assumptions C19_rule_file_marker_one_macro.
Print Assumptions C19_rule_family_invalid_option.
Print Assumptions C19_rule_family_smol.
Print Assumptions C19_rule_family_without_members.
Print Assumptions C19_rule_member_without_first_name.
Print Assumptions C19_rule_family_file_marker_needs_path.
Print Assumptions C19_rule_edit_nested_file.
Print Assumptions C19_rule_edit_nested_file_in_part.
Print Assumptions C19_rule_edit_unknown_option.
Print Assumptions C19_example_invalid_gets_diagnostic.
Print Assumptions C19_rule_name_must_be_identifier.
Print Assumptions C19_rule_first_name_must_be_identifier.
Print Assumptions C19_rule_Debug_word_only.
Print Assumptions C19_rule_filter_names_words_only.
Print Assumptions C19_rule_lock_word_only.
Print Assumptions C19_rule_example_invalid_option.
Print Assumptions C19_rule_example_unknown_option.
Print Assumptions C19_rule_edit_empty_list.
