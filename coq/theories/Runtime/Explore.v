(* Executable scenarios over the runtime LTS with a concrete user type, used only for
   failing-input search on instances whose wf premise no longer checks (never in place of a theorem). *)
From Coq Require Import List Arith Bool.
Import ListNotations.
From IT Require Import Runtime.Actor.

(* the probe actor: state = log hash, every method returns the state it saw; argument 999 makes it panic *)
Definition sem0 (k : nat) (a : nat) (vs : list nat) : option (nat * nat) :=
  if existsb (Nat.eqb 999) vs then None else Some ((a * 7 + k * 3 + fold_right plus 0 vs + 1) mod 1009, a).
Definition sem_slf0 (k : nat) (a : nat) (vs : list nat) : nat := a.
Definition run0 := @run nat nat sem0 sem_slf0 0.
Definition st0 := @st nat nat.

Fixpoint round_robin (n : nat) (k : nat) : list choice :=   (* k rounds over clients 0..n-1 *)
  match k with 0 => [] | S k' => map Cl (seq 0 n) ++ round_robin n k' end.

(* n callers, each owning one handle, each issuing one call of method k with a distinct argument; the actor is never scheduled *)
Definition burst (m : rmodel) (k n : nat) : st0 :=
  run0 m 0 (map (fun i => ([Call k [i + 1]], 1)) (seq 0 n)) (round_robin n 3).

Definition returned_count (s : st0) : nat :=
  length (filter (fun c => match c_rets c with [] => false | _ => true end) (clients s)).
Definition is_void (m : rmodel) (k : nat) : bool := match nth_error (r_meths m) k with Some rm => negb (rm_reply rm) | None => false end.
Definition callee_ok (m : rmodel) (k : nat) : bool := match nth_error (r_meths m) k with Some rm => rm_msg rm | None => false end.
Definition messaging (m : rmodel) : list nat := filter (callee_ok m) (seq 0 (length (r_meths m))).

(* C08 monitor against the capacity the *option* asks for: returns the offending method and observation *)
Definition c08_search (m : rmodel) (want : option nat) : list (nat * nat * nat * nat) :=
  flat_map (fun k =>
    let n := match want with Some n => n | None => 6 end in
    let s := burst m k (n + 3) in
    let bad := match want with
               | Some n => (n <? length (queue s)) || negb (Nat.eqb (length (lost s)) 0)
               | None => negb (Nat.eqb (length (queue s)) (n + 3)) || negb (Nat.eqb (length (lost s)) 0) end in
    if bad then [(k, length (queue s), length (lost s), returned_count s)] else []) (messaging m).

(* ---- mixed scenario: two clients, each calling every messaging method once with distinct, position-tagged arguments ---- *)
Definition arity (m : rmodel) (k : nat) : nat := match nth_error (r_meths m) k with Some rm => length (rm_args rm) | None => 0 end.
Definition tagged (who k n : nat) : list nat := map (fun p => 100 * (who + 1) + 10 * k + p + 1) (seq 0 n).
Definition mixed_progs (m : rmodel) : list (list (@op nat) * nat) :=
  map (fun who => (map (fun k => Call k (tagged who k (arity m k))) (messaging m), 1)) [0; 1].
Fixpoint fair (rounds : nat) : list choice :=
  match rounds with 0 => [] | S r => [Cl 0; Ac; Cl 1; Ac; Ac] ++ fair r end.
Definition mixed (m : rmodel) : st0 := run0 m 0 (mixed_progs m) (fair (4 * length (messaging m) + 6)).

Definition nat_list_eqb (a b : list nat) : bool := (length a =? length b) && forallb (fun p => fst p =? snd p) (combine a b).
Definition find_issued (s : st0) (c : callid) : option (nat * list nat) :=
  match filter (fun e => callid_eqb (fst (fst e)) c) (issued s) with e :: _ => Some (snd (fst e), snd e) | [] => None end.
Definition find_applied (s : st0) (c : callid) : option nat :=
  match filter (fun e => callid_eqb (fst (fst (fst e))) c) (applied s) with e :: _ => Some (snd e) | [] => None end.

(* C01/C03/C07 monitor: (what, client, seq) for each anomaly *)
Definition c03_search (m : rmodel) : list (nat * nat * nat) :=
  let s := mixed m in
  (* executed with another method or other argument values *)
  flat_map (fun e => match e with (c, callee, args, _) =>
      match find_issued s c with
      | Some (k, vs) => if (callee =? k) && nat_list_eqb args vs then [] else [(1, fst c, snd c)]
      | None => [(2, fst c, snd c)] end end) (applied s)
  (* issued but never executed although the actor is alive and everything was scheduled *)
  ++ flat_map (fun e => let c := fst (fst e) in
        if alive s && negb (existsb (callid_eqb c) (applied_ids s)) then [(3, fst c, snd c)] else []) (issued s)
  (* executed twice *)
  ++ flat_map (fun c => if 1 <? length (filter (callid_eqb c) (applied_ids s)) then [(4, fst c, snd c)] else []) (applied_ids s)
  (* a returned value that is not the result of that call *)
  ++ flat_map (fun cl => flat_map (fun r => match r with
        | (c, Returned v) => match find_applied s c with Some v' => if v =? v' then [] else [(5, fst c, snd c)] | None => [(6, fst c, snd c)] end
        | (c, Panicked) => [(7, fst c, snd c)]
        | _ => [] end) (c_rets cl)) (clients s).

(* C02 monitor: a call whose handle method returned while the actor is alive must already be in the channel, and the
   execution order of each client's calls must be its issue order *)
Definition c02_search (m : rmodel) : list (nat * nat * nat) :=
  let s := mixed m in
  flat_map (fun ev => match ev with
      | ERet c => if alive s && negb (existsb (callid_eqb c) (enq s)) then [(1, fst c, snd c)] else []
      | _ => [] end) (hist s)
  ++ flat_map (fun who =>
        let mine := filter (fun c => fst c =? who) (applied_ids s) in
        if nat_list_eqb (map snd mine) (seq 0 (length mine)) then [] else [(2, who, 0)]) [0; 1].

(* C20 monitor: client 0 makes the first messaging method panic (argument 999); afterwards clients 1 and 2 call every
   method; anomalies: a completed call that was neither executed nor panicked (silently discarded / fabricated value),
   or a caller still inside a call at the end although the actor is dead *)
Definition fault_progs (m : rmodel) : list (list (@op nat) * nat) :=
  match messaging m with
  | [] => []
  | k0 :: _ => ([Call k0 (repeat 999 (Nat.max 1 (arity m k0)))], 1)
               :: map (fun who => (map (fun k => Call k (tagged who k (arity m k))) (messaging m), 1)) [1; 2]
  end.
Fixpoint fair3 (rounds : nat) : list choice :=
  match rounds with 0 => [] | S r => [Cl 1; Cl 2; Ac] ++ fair3 r end.
Definition faulted (m : rmodel) : st0 :=
  run0 m 0 (fault_progs m) ([Cl 0; Cl 0; Ac; Ac; Ac] ++ fair3 (4 * length (messaging m) + 6)).
Definition c20_search (m : rmodel) : list (nat * nat * nat) :=
  let s := faulted m in
  if alive s then [(0, 0, 0)] else
  flat_map (fun cl => flat_map (fun r => match r with
        | (c, RetUnit) => if existsb (callid_eqb c) (applied_ids s) then [] else [(1, fst c, snd c)]
        | (c, Returned v) => match find_applied s c with Some v' => if v =? v' then [] else [(2, fst c, snd c)] | None => [(2, fst c, snd c)] end
        | _ => [] end) (c_rets cl)) (clients s)
  ++ flat_map (fun tc => match c_pc (snd tc) with Ready | Dead => [] | _ => [(3, fst tc, 0)] end) (combine (seq 0 3) (clients s)).

(* ---- the probe harness scenarios, for model / implementation correspondence ---- *)
(* outcome class of a client's single call: 0 returned, 1 panicked, 2 still inside the call (hung), 3 nothing recorded *)
Definition outcome_class (cl : @client nat) : nat :=
  match c_pc cl with
  | Sending _ _ _ _ | Waiting _ _ | StopSend _ _ _ | StopWait _ _ _ => 2
  | _ => match c_rets cl with
         | (_, Panicked) :: _ => 1
         | (_, Returned _) :: _ | (_, RetUnit) :: _ => 0
         | _ => 3 end
  end.
Definition twice (t : nat) : list choice := [Cl t; Cl t].

(* `fault boom_first`: the actor is parked in hold (taken, not finished); boom is queued; wn value-returning adds are sent
   (queued, or blocked on a full queue); the gate opens: hold finishes, boom is taken and panics; the in-flight callers run
   on; then `later` callers arrive, alternately fire-and-forget tick and value-returning get.  Result: outcome class per
   add caller, then per later caller. *)
Definition fault_scn (m : rmodel) (mode : nat) (k_hold k_boom k_add k_tick k_get wn later : nat) : list nat :=
  let progs := ([Call k_hold []], 1) :: ([Call k_boom [999]], 1)
               :: map (fun i => ([Call k_add [i; 0; 1]], 1)) (seq 0 wn)
               ++ map (fun j => ([if Nat.even j then Call k_tick [j; 1] else Call k_get []], 1)) (seq 0 later) in
  let adds := seq 2 wn in
  let laters := seq (2 + wn) later in
  (* mode 0: the adds are sent, then hold returns, boom is taken and panics; mode 1: blocked senders slip in after boom was
     taken; mode 2: the adds are delayed (a loaded machine) and only start after the actor died *)
  let sched := twice 0 ++ [Ac] ++ twice 1 ++ (if Nat.eqb mode 2 then [] else flat_map twice adds)
               ++ [Ac; Ac] ++ (if Nat.eqb mode 1 then map Cl adds else []) ++ [Ac]
               ++ flat_map (fun t => [Cl t; Cl t; Cl t]) adds
               ++ flat_map (fun t => [Cl t; Cl t; Cl t]) laters in
  let s := @run nat nat (fun k a vs => if k =? k_boom then None else sem0 k a vs) sem_slf0 0 m 0 progs sched in
  map (fun t => match nth_error (clients s) t with Some cl => outcome_class cl | None => 3 end) (adds ++ laters).

(* `burst`: the actor is parked in hold; k callers send one fire-and-forget tick each: how many have returned *)
Definition burst_scn (m : rmodel) (k_hold k_tick k : nat) : nat :=
  let progs := ([Call k_hold []], 1) :: map (fun i => ([Call k_tick [i; 0]], 1)) (seq 0 k) in
  let s := run0 m 0 progs (twice 0 ++ [Ac] ++ flat_map (fun t => [Cl t; Cl t; Cl t]) (seq 1 k)) in
  length (filter (fun cl => Nat.eqb (outcome_class cl) 0) (skipn 1 (clients s))).

(* ---- bounded depth-first search over schedules (failing-input search only; never in place of a theorem) ---- *)
Section Search.
Variable m : rmodel.
Variable bad : st0 -> bool.
Variable nclients : nat.
Definition choices : list choice := Ac :: map Cl (seq 0 nclients).
(* returns the first schedule (in reverse) reaching a bad state; disabled choices are pruned *)
Fixpoint dfs (depth : nat) (s : st0) (path : list choice) : option (list choice) :=
  if bad s then Some path else
  match depth with
  | 0 => None
  | S d =>
      (fix try (cs : list choice) : option (list choice) :=
         match cs with
         | [] => None
         | c :: rest =>
             match step sem0 sem_slf0 0 m s c with
             | Some s' => match dfs d s' (c :: path) with Some p => Some p | None => try rest end
             | None => try rest
             end
         end) choices
  end.
End Search.

Definition render_choice (c : choice) : nat := match c with Ac => 0 | Cl t => S t end.   (* 0 = actor step, t+1 = client t *)
(* generic monitors *)
Definition bad_loss (s : st0) : bool := alive s && negb (Nat.eqb (length (lost s)) 0).
Definition bad_cap (want : option nat) (s : st0) : bool := match want with Some n => n <? length (queue s) | None => false end.
Definition bad_silent (s : st0) : bool :=
  negb (alive s) && existsb (fun cl => existsb (fun r => match r with
        | (c, RetUnit) => negb (existsb (callid_eqb c) (applied_ids s)) && negb (existsb (callid_eqb c) (enq s))
        | _ => false end) (c_rets cl)) (clients s).
(* a caller inside a call that has no enabled step although the actor is dead: it waits forever (C20_no_hang) *)
Definition in_call_b (pc : @pc nat) : bool :=
  match pc with Sending _ _ _ _ | Waiting _ _ | StopSend _ _ _ | StopWait _ _ _ => true | _ => false end.
Definition bad_hang (m : rmodel) (s : st0) : bool :=
  negb (alive s) && existsb (fun t => match nth_error (clients s) t with
        | Some cl => in_call_b (c_pc cl) && match step sem0 sem_slf0 0 m s (Cl t) with None => true | Some _ => false end
        | None => false end) (seq 0 (length (clients s))).
Definition bad_c20 (m : rmodel) (s : st0) : bool := bad_silent s || bad_hang m s.
(* search with 3 clients calling method k (client 0 with a panicking argument when [boom]) *)
Definition search (m : rmodel) (bad : st0 -> bool) (k : nat) (boom : bool) (depth : nat) : option (list nat) :=
  let progs := map (fun i => ([Call k (if boom && Nat.eqb i 0 then repeat 999 (Nat.max 1 (arity m k)) else tagged i k (arity m k))], 1)) (seq 0 3) in
  match dfs m bad 3 depth (init 0 progs) [] with Some p => Some (map render_choice (rev p)) | None => None end.

(* C04 / C09 monitor: two clients hold one handle each, client 0 calls a self-consuming method; anomaly = the loop ends with
   `Stopped` although the other handle still exists.  Returns (senders before the actor step, senders after). *)
Definition sole_search (m : rmodel) : list (nat * nat) :=
  let s := run0 m 0 [([Consume 0 []], 1); ([], 1)] [Cl 0; Cl 0] in
  match Actor.step sem0 sem_slf0 0 m s Ac with
  | Some s' => match exited s' with
               | Some Stopped => if 1 <? senders s then [(senders s, senders s')] else []
               | _ => [] end
  | None => [] end.
