(* Runtime half of C14: a small transition system for handle methods that create a oneshot per call, fill message
   fields with its ends / getter values / arguments and return one of the ends.

   A handle method is given in resolved form ([imeth]: what every message field and the returned expression are bound
   to); Sdpl/WfC14.v computes it from the real expansion.  The `let (tx, rx) = channel()` statement stands inside the
   method body, so each call evaluates it once: the channel of call c is identified with c (call ids are (client,
   per-client sequence number)).  Modelled, not verified: a oneshot delivers to the receiving end of the SAME channel
   the value put on its sending end, at most once ([slots]).

   Executions: any interleaving of calls (any client, any method, any arguments), `inter_set_*` on any handle clone,
   deliveries to the actor, sends and receives on any end by whoever holds it ([step], [reach]). *)
From Coq Require Import List Arith Bool Lia.
Import ListNotations.

Section Rt.
Variable G : Type.                     (* getter names *)
Variable gv : G -> nat -> nat.         (* getter g applied to the state of one handle clone *)

Definition callid := (nat * nat)%type.
Inductive endk := Tx | Rx.
Inductive fval := FVal (v : nat) | FEnd (ch : callid) (k : endk) | FBad.
Inductive bnd := BdTx | BdRx | BdGet (g : G) | BdArg (i : nat) | BdNone.
Record imeth := { im_fields : list bnd; im_ret : bnd }.
Variable meths : list imeth.

Definition evalb (c : callid) (h : nat) (args : list nat) (b : bnd) : fval :=
  match b with BdTx => FEnd c Tx | BdRx => FEnd c Rx | BdGet g => FVal (gv g h) | BdArg i => FVal (nth i args 0) | BdNone => FBad end.

Inductive who := WActor (c : callid) | WClient (c : callid).   (* the user method invocation of call c | the caller of call c *)
Definition message := (callid * nat * list fval)%type.

Record st := {
  hs : nat -> nat;                              (* state of each client's handle clone (what its getters read) *)
  seqs : nat -> nat;
  queue : list message;
  delivered : list message;                     (* messages the user method has been invoked with *)
  rets : list (callid * fval);                  (* what each call returned to its caller *)
  issued : list (callid * nat * nat * list nat);(* ghost: call, method, handle state at the call, arguments *)
  slots : callid -> option (nat * who);         (* oneshot channel -> value in flight and who sent it *)
  got : list (who * nat * who) }.               (* receiver, value, sender *)

Definition init : st := {| hs := fun _ => 0; seqs := fun _ => 0; queue := []; delivered := []; rets := []; issued := [];
                           slots := fun _ => None; got := [] |}.

Definition holds (s : st) (w : who) (ch : callid) (k : endk) : Prop :=
  match w with
  | WActor c => exists m fs, In (c, m, fs) (delivered s) /\ In (FEnd ch k) fs
  | WClient c => In (c, FEnd ch k) (rets s)
  end.

Definition cid_eqb (a b : callid) := Nat.eqb (fst a) (fst b) && Nat.eqb (snd a) (snd b).

Inductive step : st -> st -> Prop :=
| s_call : forall s t m im args, nth_error meths m = Some im ->
    let c := (t, seqs s t) in let h := hs s t in
    step s {| hs := hs s; seqs := fun t' => if Nat.eqb t' t then S (seqs s t) else seqs s t';
              queue := queue s ++ [(c, m, map (evalb c h args) (im_fields im))]; delivered := delivered s;
              rets := (c, evalb c h args (im_ret im)) :: rets s; issued := (c, m, h, args) :: issued s;
              slots := slots s; got := got s |}
| s_set : forall s t v,
    step s {| hs := fun t' => if Nat.eqb t' t then v else hs s t'; seqs := seqs s; queue := queue s; delivered := delivered s;
              rets := rets s; issued := issued s; slots := slots s; got := got s |}
| s_deliver : forall s x q, queue s = x :: q ->
    step s {| hs := hs s; seqs := seqs s; queue := q; delivered := x :: delivered s; rets := rets s; issued := issued s;
              slots := slots s; got := got s |}
| s_send : forall s w ch v, holds s w ch Tx -> slots s ch = None ->
    step s {| hs := hs s; seqs := seqs s; queue := queue s; delivered := delivered s; rets := rets s; issued := issued s;
              slots := fun ch' => if cid_eqb ch' ch then Some (v, w) else slots s ch'; got := got s |}
| s_recv : forall s r ch v w, holds s r ch Rx -> slots s ch = Some (v, w) ->
    step s {| hs := hs s; seqs := seqs s; queue := queue s; delivered := delivered s; rets := rets s; issued := issued s;
              slots := slots s; got := (r, v, w) :: got s |}.

Inductive reach : st -> Prop :=
| r_init : reach init
| r_step : forall s s', reach s -> step s s' -> reach s'.

(* ---- invariant ---- *)
Definition iid (x : callid * nat * nat * list nat) : callid := fst (fst (fst x)).

Record Inv (s : st) : Prop := {
  i_msg : forall c m fs, In (c, m, fs) (queue s ++ delivered s) ->
            exists im h args, nth_error meths m = Some im /\ In (c, m, h, args) (issued s) /\ fs = map (evalb c h args) (im_fields im);
  i_ret : forall c rv, In (c, rv) (rets s) -> exists m im h args, nth_error meths m = Some im /\ In (c, m, h, args) (issued s) /\ rv = evalb c h args (im_ret im);
  i_iss : forall x, In x (issued s) -> snd (iid x) < seqs s (fst (iid x)) /\ exists im, nth_error meths (snd (fst (fst x))) = Some im
            /\ In (iid x, evalb (iid x) (snd (fst x)) (snd x) (im_ret im)) (rets s);
  i_nodup : NoDup (map iid (issued s));
  i_rnodup : NoDup (map fst (rets s));
  i_rfresh : forall c rv, In (c, rv) (rets s) -> snd c < seqs s (fst c);
  i_slot : forall ch v w, slots s ch = Some (v, w) -> holds s w ch Tx;
  i_got : forall r v w, In (r, v, w) (got s) -> exists ch, holds s r ch Rx /\ holds s w ch Tx }.

Lemma cid_eqb_eq : forall a b, cid_eqb a b = true <-> a = b.
Proof.
  intros [a1 a2] [b1 b2]. unfold cid_eqb; simpl. rewrite andb_true_iff, !Nat.eqb_eq. split; [intros [-> ->]; reflexivity|intro H; inversion H; auto].
Qed.

Lemma holds_mono : forall s s' w ch k, incl (delivered s) (delivered s') -> incl (rets s) (rets s') -> holds s w ch k -> holds s' w ch k.
Proof.
  intros s s' [c|c] ch k D R H; simpl in *.
  - destruct H as (m & fs & A & B). exists m, fs. split; auto.
  - auto.
Qed.

Lemma inv_init : Inv init.
Proof. constructor; simpl; intros; try contradiction; try constructor; try discriminate. Qed.

Lemma inv_step : forall s s', Inv s -> step s s' -> Inv s'.
Proof.
  intros s s' I ST. destruct I as [IM IR II IN IRN IRF IS IG]. destruct ST.
  - (* call *)
    assert (FR : ~ In c (map iid (issued s))).
    { intro HI. apply in_map_iff in HI. destruct HI as (x & E & HI). destruct (II x HI) as [L _]. rewrite E in L. unfold c in L; simpl in L. lia. }
    assert (FR2 : ~ In c (map fst (rets s))).
    { intro HI. apply in_map_iff in HI. destruct HI as ([c' rv] & E & HI). simpl in E; subst c'. apply IRF in HI. unfold c in HI; simpl in HI. lia. }
    constructor; simpl.
    + intros c0 m0 fs HI. rewrite <- app_assoc in HI. apply in_app_or in HI. destruct HI as [HI|HI].
      * destruct (IM c0 m0 fs) as (im0 & h0 & a0 & A & B & C); [apply in_or_app; left; exact HI|]. exists im0, h0, a0. auto.
      * simpl in HI. destruct HI as [HI|HI].
        -- inversion HI; subst. exists im, h, args. auto.
        -- destruct (IM c0 m0 fs) as (im0 & h0 & a0 & A & B & C); [apply in_or_app; right; exact HI|]. exists im0, h0, a0. auto.
    + intros c0 rv [HI|HI].
      * inversion HI; subst. exists m, im, h, args. auto.
      * destruct (IR _ _ HI) as (m0 & im0 & h0 & a0 & A & B & C). exists m0, im0, h0, a0. auto.
    + intros x [HI|HI].
      * subst x. unfold iid; simpl. rewrite Nat.eqb_refl. split; [lia|]. exists im. auto.
      * destruct (II x HI) as [L (im0 & A & B)]. split.
        -- destruct (Nat.eqb (fst (iid x)) t) eqn:E; [apply Nat.eqb_eq in E; rewrite E in L; lia|exact L].
        -- exists im0. auto.
    + constructor; assumption.
    + constructor; assumption.
    + intros c0 rv [HI|HI].
      * inversion HI; subst. simpl. rewrite Nat.eqb_refl. lia.
      * apply IRF in HI. destruct (Nat.eqb (fst c0) t) eqn:E; [apply Nat.eqb_eq in E; rewrite E in HI; lia|exact HI].
    + intros ch v w HS. eapply holds_mono; [| |apply (IS _ _ _ HS)]; simpl; [apply incl_refl|intros z Hz; right; exact Hz].
    + intros r v w HG. destruct (IG _ _ _ HG) as (ch & A & B). exists ch.
      split; (eapply holds_mono; [| |eassumption]; simpl; [apply incl_refl|intros z Hz; right; exact Hz]).
  - (* set *)
    constructor; simpl; auto.
  - (* deliver *)
    assert (EQ : forall z, In z (q ++ x :: delivered s) <-> In z (queue s ++ delivered s)).
    { intro z. rewrite H. simpl. rewrite !in_app_iff. simpl. tauto. }
    constructor; simpl; auto.
    + intros c m fs HI. apply EQ in HI. auto.
    + intros ch v w HS. eapply holds_mono; [| |apply (IS _ _ _ HS)]; simpl; [intros z Hz; right; exact Hz|apply incl_refl].
    + intros r v w HG. destruct (IG _ _ _ HG) as (ch & A & B). exists ch.
      split; (eapply holds_mono; [| |eassumption]; simpl; [intros z Hz; right; exact Hz|apply incl_refl]).
  - (* send *)
    constructor; simpl; auto.
    intros ch' v' w' HS. destruct (cid_eqb ch' ch) eqn:E.
    + apply cid_eqb_eq in E. subst ch'. inversion HS; subst. destruct w'; exact H.
    + destruct w'; apply (IS _ _ _ HS).
  - (* recv *)
    constructor; simpl; auto.
    intros r' v' w' [HG|HG].
    + inversion HG; subst. exists ch. split; [destruct r'; exact H|]. pose proof (IS _ _ _ H0) as HT. destruct w'; exact HT.
    + destruct (IG _ _ _ HG) as (ch' & A & B). exists ch'. split; [destruct r'; exact A|destruct w'; exact B].
Qed.

Lemma reach_inv : forall s, reach s -> Inv s.
Proof. induction 1; [apply inv_init|eapply inv_step; eauto]. Qed.

(* ---- consequences ---- *)
Lemma evalb_end : forall c h a b ch k, evalb c h a b = FEnd ch k -> ch = c /\ b = match k with Tx => BdTx | Rx => BdRx end.
Proof. intros c h a b ch k H. destruct b; simpl in H; inversion H; subst; auto. Qed.

Lemma issued_unique : forall s, Inv s -> forall c m h a m' h' a', In (c, m, h, a) (issued s) -> In (c, m', h', a') (issued s) -> m = m' /\ h = h' /\ a = a'.
Proof.
  intros s I c m h a m' h' a' H1 H2. pose proof (i_nodup _ I) as ND.
  assert (forall l : list (callid * nat * nat * list nat), NoDup (map iid l) -> In (c, m, h, a) l -> In (c, m', h', a') l -> (c, m, h, a) = (c, m', h', a')) as U.
  { induction l as [|x l IH]; intros N A B; [destruct A|]. simpl in N. inversion N; subst.
    destruct A as [A|A], B as [B|B].
    - congruence.
    - subst x. exfalso. apply H3. apply in_map_iff. exists (c, m', h', a'). auto.
    - subst x. exfalso. apply H3. apply in_map_iff. exists (c, m, h, a). auto.
    - auto. }
  specialize (U _ ND H1 H2). inversion U; auto.
Qed.

Lemma rets_unique : forall s, Inv s -> forall c v v', In (c, v) (rets s) -> In (c, v') (rets s) -> v = v'.
Proof.
  intros s I c v v' H1 H2. pose proof (i_rnodup _ I) as ND.
  assert (forall l : list (callid * fval), NoDup (map fst l) -> In (c, v) l -> In (c, v') l -> v = v') as U.
  { induction l as [|x l IH]; intros N A B; [destruct A|]. simpl in N. inversion N; subst.
    destruct A as [A|A], B as [B|B].
    - congruence.
    - subst x. exfalso. apply H3. apply in_map_iff. exists (c, v'). auto.
    - subst x. exfalso. apply H3. apply in_map_iff. exists (c, v). auto.
    - auto. }
  eapply U; eauto.
Qed.

(* a method is well formed when its message carries at most one channel end *)
Definition is_endb (b : bnd) : bool := match b with BdTx | BdRx => true | _ => false end.
Definition im_ok (im : imeth) : bool := Nat.leb (List.length (filter is_endb (im_fields im))) 1.

Lemma one_end : forall l, List.length (filter is_endb l) <= 1 -> In BdTx l -> In BdRx l -> False.
Proof.
  induction l as [|b l IH]; intros L A B; [destruct A|]. simpl in L.
  destruct A as [A|A], B as [B|B]; subst; try discriminate; simpl in L.
  - assert (In BdRx (filter is_endb l)) by (apply filter_In; auto). destruct (filter is_endb l); [contradiction|simpl in L; lia].
  - assert (In BdTx (filter is_endb l)) by (apply filter_In; auto). destruct (filter is_endb l); [contradiction|simpl in L; lia].
  - destruct (is_endb b); simpl in L; [apply IH; auto; lia|apply IH; auto].
Qed.

(* whoever holds an end obtained through call c holds an end of the channel created by call c *)
Lemma holds_own : forall s, Inv s -> forall w ch k, holds s w ch k -> ch = match w with WActor c => c | WClient c => c end.
Proof.
  intros s I [c|c] ch k H; simpl in H.
  - destruct H as (m & fs & A & B). destruct (i_msg _ I c m fs) as (im & h & a & _ & _ & E); [apply in_or_app; right; exact A|].
    subst fs. apply in_map_iff in B. destruct B as (b & B & _). apply evalb_end in B. tauto.
  - destruct (i_ret _ I _ _ H) as (m & im & h & a & _ & _ & E). symmetry in E. apply evalb_end in E. tauto.
Qed.

(* T-pairing: a value received on an end obtained through call c was sent through the other end of call c's own
   channel, by the other party of that same call - never by another call *)
Theorem no_crosstalk : forallb im_ok meths = true -> forall s, reach s ->
  forall r v w, In (r, v, w) (got s) ->
    match r with WClient c => w = WActor c | WActor c => w = WClient c end.
Proof.
  intros WF s R r v w HG. pose proof (reach_inv _ R) as I.
  destruct (i_got _ I _ _ _ HG) as (ch & HR & HT).
  pose proof (holds_own _ I _ _ _ HR) as E1. pose proof (holds_own _ I _ _ _ HT) as E2.
  destruct r as [c|c], w as [c'|c']; subst ch; subst; try reflexivity; exfalso.
  - (* one message with both ends *)
    simpl in HR, HT. destruct HR as (m & fs & A & B). destruct HT as (m' & fs' & A' & B').
    destruct (i_msg _ I c' m fs) as (im & h & a & N & IS1 & E); [apply in_or_app; right; exact A|].
    destruct (i_msg _ I c' m' fs') as (im' & h' & a' & N' & IS2 & E'); [apply in_or_app; right; exact A'|].
    destruct (issued_unique _ I _ _ _ _ _ _ _ IS1 IS2) as (-> & -> & ->). rewrite N in N'. inversion N'; subst im'.
    subst fs fs'. apply in_map_iff in B. destruct B as (b & B & BI). apply in_map_iff in B'. destruct B' as (b' & B' & BI').
    apply evalb_end in B. apply evalb_end in B'. destruct B as [_ ->]. destruct B' as [_ ->].
    rewrite forallb_forall in WF. apply nth_error_In in N. specialize (WF _ N). unfold im_ok in WF. apply Nat.leb_le in WF.
    eapply one_end; eauto.
  - (* the caller holds both ends *)
    simpl in HR, HT. pose proof (rets_unique _ I _ _ _ HR HT). discriminate.
Qed.

(* T-ends: when the handle method returns an end, the message of the same call carries the opposite end of the same channel *)
Theorem ends_paired : forall s, reach s -> forall c m fs im, In (c, m, fs) (queue s ++ delivered s) -> nth_error meths m = Some im ->
  forall k, im_ret im = (match k with Tx => BdTx | Rx => BdRx end) ->
    In (c, FEnd c k) (rets s) /\
    (In (match k with Tx => BdRx | Rx => BdTx end) (im_fields im) -> In (FEnd c (match k with Tx => Rx | Rx => Tx end)) fs).
Proof.
  intros s R c m fs im HI N k HR. pose proof (reach_inv _ R) as I.
  destruct (i_msg _ I _ _ _ HI) as (im' & h & a & N' & IS & E). rewrite N in N'. inversion N'; subst im'.
  destruct (i_iss _ I _ IS) as [_ (im2 & N2 & RI)]. simpl in N2, RI. rewrite N in N2. inversion N2; subst im2.
  unfold iid in RI; simpl in RI. rewrite HR in RI. split.
  - destruct k; exact RI.
  - intro HF. subst fs. apply in_map_iff. eexists; split; [|exact HF]. destruct k; reflexivity.
Qed.

(* T-getter: the value of a getter field in the message of call c is the getter applied to the state the calling
   clone had when the call was made (recorded in [issued] by the call step itself), whatever `inter_set_*` calls follow *)
Theorem getter_at_call_time : forall s, reach s -> forall c m fs, In (c, m, fs) (queue s ++ delivered s) ->
  exists im h args, nth_error meths m = Some im /\ In (c, m, h, args) (issued s) /\
    (forall h' m' a', In (c, m', h', a') (issued s) -> h' = h) /\
    forall j g, nth_error (im_fields im) j = Some (BdGet g) -> nth_error fs j = Some (FVal (gv g h)).
Proof.
  intros s R c m fs HI. pose proof (reach_inv _ R) as I.
  destruct (i_msg _ I _ _ _ HI) as (im & h & a & N & IS & E). exists im, h, a. repeat split; auto.
  - intros h' m' a' IS'. destruct (issued_unique _ I _ _ _ _ _ _ _ IS IS') as (_ & -> & _). reflexivity.
  - intros j g HJ. subst fs. rewrite nth_error_map, HJ. reflexivity.
Qed.
End Rt.
