(* C07 -- arguments reach the user method unchanged for any parameter shape or name; no capture.
   Statements only; proofs live in Gen/FlattenThm.v, Sdpl/WfC07.v, Runtime/Combined.v.

   Full-strength statement that is FALSE of the faithful model (and of the real macro):
     forall ps qs, flat_arguments ps = Some qs -> NoDup (flat_map binders (map fst ps)) -> NoDup (map fst qs)
   (distinct binders always give distinct generated identifiers) - see C07_distinct_guarded / C07_distinct_refuted. *)
From Coq Require Import List String Arith Bool.
Import ListNotations.
From IT Require Import Sdpl.IR Sdpl.Elab Sdpl.Wf Sdpl.WfC07 Runtime.Actor Runtime.ActorInv Runtime.Combined Gen.Flatten Gen.FlattenThm.

(* ---- generator: pattern flattening, for all parameter lists (types T opaque) ---- *)

(* one identifier per parameter, in the same position, with the same type; an identifier pattern keeps its name whatever its ref / mut *)
Theorem C07_flatten_positions : forall (T : Type) (ps : list (pat * T)) qs, live_args ps = Some qs ->
  List.length qs = List.length ps /\ map snd qs = map snd ps /\
  (forall i r m x t, nth_error ps i = Some (PIdent r m x, t) -> nth_error qs i = Some (x, t)).
Proof.
  intros T ps qs H. rewrite live_args_flat in H. destruct (flat_positions ps qs H) as (L & M & N). repeat split; auto.
  intros i r m x t Hn. destruct (N i _ _ Hn) as (s & E & Hq). cbn in E. injection E as <-. exact Hq.
Qed.

(* the identifier of a flattened pattern is its binders joined by `_` (`__` for a composite pattern that binds nothing) *)
Theorem C07_flatten_names : forall (T : Type) (ps : list (pat * T)) qs, live_args ps = Some qs ->
  map fst qs = map (fun q => join (words (fst q))) ps.
Proof. intros T ps qs H. rewrite live_args_flat in H. exact (flat_names ps qs H). Qed.

(* the macro aborts exactly when a parameter is outside the documented pattern forms *)
Theorem C07_flatten_total : forall (T : Type) (ps : list (pat * T)),
  live_args ps = None <-> forallb (fun q => supported_param (fst q)) ps = false.
Proof. intros T ps. rewrite live_args_flat. apply flat_total. Qed.

(* `ref` / `mut` anywhere in a pattern never changes the generated identifier *)
Theorem C07_ref_mut_irrelevant : forall p, flat_pat (strip_all p) = flat_pat p.
Proof. exact strip_all_flat. Qed.

(* distinct binders give distinct generated identifiers - when no binder contains `_` and no composite pattern is empty *)
Theorem C07_distinct_guarded : forall (T : Type) (ps : list (pat * T)) qs, live_args ps = Some qs ->
  plain_words (map fst ps) = true -> NoDup (flat_map binders (map fst ps)) -> NoDup (map fst qs).
Proof. intros T ps qs H. rewrite live_args_flat in H. exact (flat_distinct_guarded ps qs H). Qed.

Theorem C07_distinct_refuted : exists (ps : list (pat * unit)) qs, live_args ps = Some qs /\
  NoDup (flat_map binders (map fst ps)) /\ ~ NoDup (map fst qs).
Proof. destruct flat_distinct_refuted as (ps & qs & H & R). exists ps, qs. rewrite live_args_flat. auto. Qed.

(* ---- the real expansion (named IR), for all instances that satisfy the decidable premise ---- *)
Section C07.
Context {A V : Type} (sem : nat -> A -> list V -> option (A * V)) (sem_slf : nat -> A -> list V -> V) (dv : V).

(* in every reachable state of every schedule of every client program: each execution of a user method belongs to an issued
   call of the handle method of the same index and receives exactly the supplied values, position by position *)
Theorem C07_arguments_unchanged : forall (m : model), wf_C07 m = true ->
  forall a0 progs sched, let s := run sem sem_slf dv (elab m) a0 progs sched in
  forall c callee args r, In (c, callee, args, r) (applied s) ->
  exists k vs lm, In (c, k, vs) (issued s) /\ nth_error (m_methods m) k = Some lm /\ callee = k
    /\ (forall rb, lm_body lm = BRef rb -> List.length vs = List.length (lm_params lm) -> args = vs).
Proof. intros m W. exact (arguments_unchanged sem sem_slf dv m W). Qed.

(* the result is handed back unchanged, to the caller of that very call *)
Theorem C07_result_unchanged : forall (m : model), wf_C07 m = true ->
  forall a0 progs sched, let s := run sem sem_slf dv (elab m) a0 progs sched in
  forall t cl c v, nth_error (clients s) t = Some cl -> In (c, Returned v) (c_rets cl) ->
  fst c = t /\ exists callee args, In (c, callee, args, v) (applied s).
Proof.
  intros m W a0 progs sched. apply own_reply.
  apply wf_C07_C01 in W. unfold wf_C01 in W. apply andb_prop in W. exact (proj2 W).
Qed.
End C07.

(* static methods delegate directly to the user's function with their own parameters in order *)
Theorem C07_static_delegates : forall m, wf_C07 m = true ->
  forall k lm path f args aw, nth_error (m_methods m) k = Some lm -> lm_body lm = BStat path f args aw ->
  f = lm_name lm /\ last_seg path = last_seg (m_actor_ty m) /\ args = map SVar (pnames lm) /\
  forall (X : Type) (vs : list X), List.length vs = List.length (lm_params lm) ->
    map (eval_src (combine (pnames lm) vs)) args = map Some vs.
Proof. exact static_delegates. Qed.

(* self-consuming methods bind only the actor (under a name that is no parameter) and pass their own parameters in order *)
Theorem C07_slf_delegates : forall m, wf_C07 m = true ->
  forall k lm sb, nth_error (m_methods m) k = Some lm -> lm_body lm = BSlf sb ->
  exists a rest f args, sb_binds sb = a :: rest /\ Forall (eq "_"%string) rest /\ a <> "_"%string /\ ~ In a (pnames lm)
    /\ (sb_call sb = UMethod (SVar a) f args \/ exists p, sb_call sb = UStatic p f (SVar a :: args))
    /\ f = lm_name lm /\ args = map SVar (pnames lm)
    /\ forall (X : Type) (act : X) (vs : list X), List.length vs = List.length (lm_params lm) ->
         let env := (a, act) :: combine (pnames lm) vs in
         eval_src env (SVar a) = Some act /\ map (eval_src env) args = map Some vs.
Proof. exact slf_delegates. Qed.

(* capture: a message field named like the `direct` parameter takes the receiver position; no such arm passes the premise *)
Theorem C07_capture_rejected : forall dp binds lk f args, mem dp binds = true ->
  recv_ok dp binds lk (UMethod (SVar dp) f args) = false.
Proof. exact capture_rejected. Qed.

Print Assumptions C07_flatten_positions.
Print Assumptions C07_flatten_names.
Print Assumptions C07_flatten_total.
Print Assumptions C07_ref_mut_irrelevant.
Print Assumptions C07_distinct_guarded.
Print Assumptions C07_distinct_refuted.
Print Assumptions C07_arguments_unchanged.
Print Assumptions C07_result_unchanged.
Print Assumptions C07_static_delegates.
Print Assumptions C07_slf_delegates.
Print Assumptions C07_capture_rejected.
