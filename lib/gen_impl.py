"""Seeded generators of impl blocks and attribute lists (Rust text + a description of what was generated)."""
import random

TYPES = ["i8", "u8", "u32", "i64", "String", "(u8, u8)", "Vec<u8>", "Option<u8>", "bool"]
RET_TYPES = ["i8", "u32", "String", "Vec<u8>", "Option<u8>", "(u8, i8)", "bool", "()"]
NAMES = ["a", "b", "c", "x", "y", "n", "val", "key", "item", "count"]
METHOD_NAMES = ["inc", "add", "get", "put", "swap", "reset", "total", "push", "peek", "mix", "scan", "fold_it", "at_most", "q1", "zed"]


def default_of(ty):
    return {"i8": "0", "u8": "0", "u32": "0", "i64": "0", "String": "String::new()", "(u8, u8)": "(0, 0)", "Vec<u8>": "Vec::new()",
            "Option<u8>": "None", "bool": "false", "(u8, i8)": "(0, 0)", "()": "()"}.get(ty, "Default::default()")


def gen_params(rng, k, used=None):
    """k parameters: (pattern text, type text, kind)"""
    out = []
    names = list(NAMES)
    rng.shuffle(names)
    for i in range(k):
        r = rng.random()
        if r < 0.7:
            nm = names.pop()
            pat = nm if rng.random() < 0.8 else "mut " + nm
            out.append((pat, rng.choice(TYPES), "ident"))
        elif r < 0.9:
            n1, n2 = names.pop(), names.pop()
            out.append(("(%s, %s)" % (n1, n2), "(u8, i8)", "tuple"))
        else:
            n1 = names.pop()
            out.append(("[%s, ..]" % n1, "[u8; 3]", "slice"))
    return out


def gen_method(rng, name, lib, allow=("ref", "mut", "stat", "gen", "async"), family=False):
    kind = rng.choice([k for k in ("ref", "mut", "stat") if k in allow])
    nparams = rng.choice([0, 0, 1, 1, 2, 3, 4])
    params = gen_params(rng, nparams)
    ret = rng.choice([None, None, rng.choice(RET_TYPES), rng.choice(RET_TYPES)])
    is_async = ("async" in allow) and lib != "std" and rng.random() < 0.25
    generic = ("gen" in allow) and kind != "stat" and rng.random() < 0.2
    vis = rng.choice(["pub", "pub", "pub", "pub(crate)"])
    recv = {"ref": "&self", "mut": "&mut self", "stat": ""}[kind]
    gtxt = ""
    plist = ["%s: %s" % (p, t) for p, t, _ in params]
    if generic:
        gtxt = "<T: Into<u32> + Send + 'static>"
        plist.append("gq: T")
    sig_params = ", ".join(([recv] if recv else []) + plist)
    body = default_of(ret) if ret else ""
    txt = "%s %sfn %s%s(%s)%s { %s }" % (vis, "async " if is_async else "", name, gtxt, sig_params, (" -> " + ret) if ret else "", body)
    return {"name": name, "kind": kind, "params": params, "ret": ret, "async": is_async, "generic": generic, "vis": vis, "text": txt}


def probe_impl(lib, slf=False, generic_actor=False):
    """fixed impl block with all six call kinds (void, input-only, output-only, input+output, method-generic, async where legal)"""
    asy = "" if lib == "std" else "pub async fn asy(&mut self, n: i8) -> i8 { n }"
    fin = "pub fn fin(self, x: u8) -> Option<i8> { None }" if slf else ""
    if generic_actor:
        hdr, ty = "impl<Q: Send + 'static> A<Q>", "A<Q>"
    else:
        hdr, ty = "impl A", "A"
    item = hdr + """ {
    pub fn new(v: i8) -> Self { todo!() }
    pub fn inc(&mut self) {}
    pub fn add(&mut self, (a, b): (i8, i8), c: u8) {}
    pub fn get(&self) -> i8 { 0 }
    pub fn io(&self, n: i8, s: String) -> i8 { n }
    pub fn gen<T: Into<i8> + Send + 'static>(&mut self, t: T) -> i8 { 0 }
    pub fn vgen<T: Into<i8> + Send + 'static>(&mut self, t: T) {}
    pub fn stat(x: u8) -> u8 { x }
    pub fn note(&self, n: i8) {}
    pub fn unit(&mut self, n: i8) -> () {}
    pub fn unit0(&self) -> () {}
    fn private(&self) {}
    %s
    %s
}""" % (asy, fin)
    return {"item": item, "actor_ty": "A", "slf": slf}


def random_impl(rng, lib, slf_prob=0.2):
    k = rng.randint(1, 6)
    names = rng.sample(METHOD_NAMES, k)
    ms = [gen_method(rng, n, lib) for n in names]
    slf = rng.random() < slf_prob
    ctor = rng.choice(["pub fn new() -> Self { todo!() }", "pub fn new(seed: u32, tag: String) -> Self { todo!() }",
                       "pub fn try_new(v: u8) -> Option<Self> { None }", "pub fn try_new(v: u8) -> Result<Self, String> { Err(String::new()) }"])
    extra = []
    if slf:
        extra.append(rng.choice(["pub fn fin(self) -> Option<u8> { None }", "pub fn fin(self, k: u8) -> Result<u8, String> { Ok(k) }",
                                 "pub fn fin(mut self) -> u8 { 0 }"]))
    item = "impl A {\n    %s\n%s\n}" % (ctor, "\n".join("    " + m["text"] for m in ms + [{"text": e} for e in extra]))
    return {"item": item, "actor_ty": "A", "slf": slf, "methods": ms}


def actor_attr(lib, channel, debut=False, interact=False, extra=()):
    parts = []
    if lib != "std" or False:
        parts.append('lib = "%s"' % lib)
    if channel is not None:
        parts.append("channel = %s" % channel)
    if debut:
        parts.append("debut")
    if interact:
        parts.append("interact")
    parts += list(extra)
    return ", ".join(parts)


LIBS = ["std", "tokio", "async_std", "smol"]


def generic_impl(lib, slf=False):
    """generic actor: a type parameter used in method signatures, a private one (PhantomData field in the handle), a const parameter"""
    asy = "" if lib == "std" else "pub async fn asy(&mut self, t: T) -> T { t }"
    fin = "pub fn fin(self) -> Option<T> { None }" if slf else ""
    item = """impl<T: Clone + Send + 'static, P: Send + 'static, const N: usize> A<T, P, N> where P: Default {
    pub fn new(t: T) -> Self { todo!() }
    pub fn put(&mut self, t: T, n: [u8; N]) {}
    pub fn get(&self) -> Option<T> { None }
    pub fn me(&self, other: Self) -> Self { todo!() }
    pub fn gen<X: Into<T> + Send + 'static>(&mut self, x: X) -> T { todo!() }
    %s
    %s
}""" % (asy, fin)
    return {"item": item, "actor_ty": "A", "slf": slf}


def harness_impl(lib):
    """the impl block of harness/probe's probe actor (signatures only): lets the LTS predict the harness scenarios"""
    asy = "" if lib == "std" else "pub async fn asy(&mut self, caller: u32, seq: u32, x: i64) -> i64 { x }"
    item = """impl Probe {
    pub fn new(rec: Arc<Rec>) -> Self { todo!() }
    pub fn tick(&mut self, caller: u32, seq: u32) {}
    pub fn put(&mut self, (a, b): (u32, u32), c: u32) {}
    pub fn get(&self) -> i64 { 0 }
    pub fn add(&mut self, caller: u32, seq: u32, x: i64) -> i64 { x }
    pub fn gen<T: Into<i64> + Send + 'static>(&mut self, caller: u32, seq: u32, t: T) -> i64 { 0 }
    pub fn hold(&mut self) {}
    pub fn boom(&mut self) {}
    pub fn log(&self) -> Vec<String> { Vec::new() }
    pub fn unit(&mut self, caller: u32, seq: u32) -> () {}
    %s
}""" % asy
    return {"item": item, "actor_ty": "Probe"}
