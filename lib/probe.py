"""Run the real generated code (harness/probe) on the four runtimes and judge the observations with the
properties' oracles.  Used for the runtime correspondence and for the implementation-side failing-input search."""
import os, json, subprocess
from concurrent.futures import ThreadPoolExecutor
from common import *
import hook

PROBE_DIR = os.path.join(VERIF, "harness", "probe")
PROBE_TARGET = os.path.join(CACHE, "probe_target")
_bin = {}


def build():
    """(re)build the probe against /repo's current working tree; returns path of the binary or raises Infra.
    A compile error of the generated code inside the probe is reported as ProbeCompileError (it is data)."""
    if "bin" in _bin:
        return _bin["bin"]
    env = dict(os.environ, CARGO_NET_OFFLINE="true", CARGO_TARGET_DIR=PROBE_TARGET)
    rc, out = sh(["cargo", "build", "--offline", "--manifest-path", os.path.join(PROBE_DIR, "Cargo.toml")], env=env, timeout=1500)
    if rc != 0:
        raise ProbeCompileError(out[-6000:])
    _bin["bin"] = os.path.join(PROBE_TARGET, "debug", "probe")
    return _bin["bin"]


class ProbeCompileError(Exception):
    pass


def run_one(args, timeout=40):
    b = build()
    env = dict(os.environ, SMOL_THREADS="4", ASYNC_STD_THREAD_COUNT="4")
    try:
        r = subprocess.run([b] + [str(a) for a in args], stdout=subprocess.PIPE, stderr=subprocess.DEVNULL, text=True, timeout=timeout, env=env)
    except subprocess.TimeoutExpired:
        return {"error": "probe process timed out", "args": args}
    lines = [l for l in r.stdout.splitlines() if l.strip()]
    if not lines:
        return {"error": "no output (exit %d)" % r.returncode, "args": args}
    try:
        d = json.loads(lines[-1])
    except Exception:
        return {"error": "unparsable output: " + lines[-1][:300], "args": args}
    d["_exit"] = r.returncode
    d["_args"] = [str(a) for a in args]
    return d


def run_many(arglists, workers=8):
    build()
    with ThreadPoolExecutor(workers) as ex:
        return list(ex.map(run_one, arglists))


# ---- oracles: each returns a list of problems (empty = the observation satisfies the property) ----

def closed_msg(m):
    return m is not None and "closed" in m.lower()


def oracle_burst(d, cap):
    """C08 (+C02/C03 on the applied list). cap: None = unbounded"""
    p = []
    if "error" in d:
        return ["harness: " + d["error"]]
    k = d["k"]
    want = k if cap is None else min(cap, k)
    if d["returned_before_release"] != want:
        p.append("C08: %d of %d fire-and-forget callers returned while the actor was held busy, capacity %s allows exactly %d" % (
            d["returned_before_release"], k, cap, want))
    if d["hung"] or d["panicked"]:
        p.append("C08: callers hung=%d panicked=%s after the actor was released (a waiting caller must be served, without error)" % (d["hung"], d["panicked"][:2]))
    ap = d.get("applied")
    if ap is None or sorted(ap) != sorted("tick:%d:0" % i for i in range(k)):
        p.append("C03/C08: applied calls %s are not exactly the %d issued ones (lost or duplicated)" % (ap, k))
    return p


def oracle_mixed(d):
    """C01 C02 C03 C07"""
    if "error" in d:
        return ["harness: " + d["error"]]
    p = []
    ch = d.get("checks", {})
    if d.get("overlap"):
        p.append("C01: two methods executed on the actor at the same time (overlap detector)")
    if not ch.get("replay_ok", False) or not ch.get("final_ok", False):
        p.append("C01: replaying the actor's own log sequentially does not reproduce the logged states / final state (replay_ok=%s final_ok=%s)" % (ch.get("replay_ok"), ch.get("final_ok")))
    if not ch.get("returns_match_log", False):
        p.append("C03: a returned value differs from the value produced by the execution of that call")
    if not ch.get("per_client_order_ok", False):
        p.append("C02: a client's calls were applied out of issue order")
    if d.get("panicked") or d.get("hung"):
        p.append("C03: callers panicked=%s hung=%s while the actor is alive" % (d.get("panicked")[:2], d.get("hung")))
    done = d.get("calls_done")
    if done is not None and any(x != d["calls"] for x in done):
        p.append("C03: not every client completed its %d calls: %s" % (d["calls"], done))
    return p


def oracle_lifecycle(d):
    """C04"""
    if "error" in d:
        return ["harness: " + d["error"]]
    p = []
    if d["ctor_runs"] != 1:
        p.append("C04: constructor ran %d times" % d["ctor_runs"])
    if not d["only_hold_before_release"]:
        p.append("C04: queued calls executed before the gate opened: %s" % d["log_before_release"])
    if d["drops_before_release"] != 0:
        p.append("C04: actor dropped while a method was still executing")
    want = ["hold"] + ["tick:0:%d" % i for i in range(d["queued"])] + ["drop"]
    if d["log"] != want:
        p.append("C04: after the last handle was dropped the accepted calls were not all executed before the single drop: log %s, expected %s" % (d["log"], want))
    if d["drops"] != 1 or not d["dropped_in_time"]:
        p.append("C04: actor value dropped %d times (in time: %s)" % (d["drops"], d["dropped_in_time"]))
    return p


def oracle_napdrop(d):
    """C04: the last handle goes away while an accepted reply-less call is suspended at an await point and others are queued behind it"""
    if "error" in d:
        return ["harness: " + d["error"]]
    p = []
    want = ["nap:start:0:0", "nap:end:0:0"] + ["tick:0:%d" % i for i in range(d["queued"])] + ["drop"]
    if d["log"] != want:
        p.append("C04: the last handle was dropped while an accepted call was suspended inside the user's async method (%d more queued): the accepted calls did not all "
                 "run to completion before the single drop: log %s, expected %s" % (d["queued"], d["log"], want))
    if d["drops"] != 1 or not d["dropped_in_time"]:
        p.append("C04: actor value dropped %d times (in time: %s)" % (d["drops"], d["dropped_in_time"]))
    if d["ctor_runs"] != 1:
        p.append("C04: constructor ran %d times" % d["ctor_runs"])
    return p


def oracle_fault(d, known_hang_libs=()):
    """C20. Returns (problems, known) where known lists occurrences of the recorded async-channel finding."""
    if "error" in d:
        return ["harness: " + d["error"]], []
    p, known = [], []
    if not d.get("actor_reached_boom"):
        return ["harness: actor never reached boom"], []
    for c in d["calls"]:
        if c["kind"] == "boom":
            continue
        if c["outcome"] == "panicked":
            if not closed_msg(c.get("msg")):
                p.append("C20: %s call of client %s panicked without reporting the closed channel: %s" % (c["kind"], c["who"], c.get("msg")))
        elif c["outcome"] == "hung":
            txt = "C20: %s %s call of client %s blocks forever after the actor died" % (c["phase"], c["kind"], c["who"])
            if d["lib"] in known_hang_libs and c["phase"] == "inflight" and c["kind"] == "add":
                known.append(txt)
            else:
                p.append(txt)
        else:
            # a call that was executed before the actor died legitimately returns the value that execution produced
            executed = [l for l in d.get("log", []) if l.startswith("%s:%s:" % (c["kind"], c["who"]))]
            if c["phase"] == "inflight" and c["kind"] == "add" and executed and executed[0].split(":")[-1] == str(c.get("value")):
                continue
            if c["phase"] == "inflight" and c["kind"] == "unit" and executed:
                continue
            p.append("C20: %s %s call of client %s returned normally (value %s) although the actor was dead: silently discarded / fabricated" % (
                c["phase"], c["kind"], c["who"], c.get("value")))
    return p, known


def oracle_consume(d):
    """C09"""
    if "error" in d:
        return ["harness: " + d["error"]]
    p = []
    h = d["handles"]
    pend = d.get("pending", 0)
    if d.get("nofin"):
        # C04: a model with a consuming method whose handles are all dropped without calling it
        want = ["tick:0:0", "tick:0:1", "add:0:2:5:6"] + (["hold"] + ["tick:9:%d" % i for i in range(pend)] if pend else []) + ["drop"]
        if d["drops"] != 1 or not d["dropped_in_time"] or d["log_after"] != want:
            p.append("C04: every handle of an actor with a self-consuming method was dropped (the method never called): actor value dropped %d times (in time: %s), log %s, expected %s"
                     % (d["drops"], d["dropped_in_time"], d["log_after"], want))
        return p
    if d.get("dead"):
        # C20: the actor died before the consuming call: the call must fail loudly, it can neither run the method nor make up a refusal
        if d["fin_outcome"] != "panicked" or not closed_msg(d.get("fin_msg")):
            p.append("C20: a self-consuming call on a dead actor gave %s/%s (%s): expected a panic reporting the closed channel, nothing ran and nothing may be returned"
                     % (d["fin_outcome"], d["result"], d.get("fin_msg")))
        if any(x.startswith("fin:") for x in d["log_after"]):
            p.append("C20: the consuming method ran although the actor was dead: %s" % d["log_after"])
        return p
    if h == 1 and pend:
        # the consuming call was issued while `pend` calls were still queued behind a parked actor: all of them are applied
        # first, then the actor is handed over exactly once with the state those calls produced
        want = ["tick:0:0", "tick:0:1", "add:0:2:5:6", "hold"] + ["tick:9:%d" % i for i in range(pend)]
        la = d["log_after"]
        if d["fin_outcome"] != "returned" or d["result"] is None:
            p.append("C09/C01: sole owner with %d queued calls: fin(7) gave %s/%s (%s), expected the value of the sequential run" % (pend, d["fin_outcome"], d["result"], d.get("fin_msg")))
        if la != want + ["fin:7:%s" % d["result"], "drop"]:
            p.append("C09/C01: log %s is not the sequential run %s + [fin:7:<returned value>, drop]" % (la, want))
        if d["drops_after_fin"] != 1:
            p.append("C09/C04: actor dropped %s times after the hand-over" % d["drops_after_fin"])
        return p
    if h == 1:
        if d["fin_outcome"] != "returned" or d["result"] != 13:
            p.append("C09: sole owner: fin(7) gave %s/%s, expected Some(13) (all earlier calls applied first)" % (d["fin_outcome"], d["result"]))
        if d["log_after"][:3] != ["tick:0:0", "tick:0:1", "add:0:2:5:6"] or d["drops_after_fin"] != 1:
            p.append("C09: hand-over did not happen after the earlier calls / actor not dropped exactly once: log %s drops %s" % (d["log_after"], d["drops_after_fin"]))
    else:
        if d["fin_outcome"] != "returned" or d["result"] is not None:
            p.append("C09: with %d handles fin must return None, got %s/%s" % (h, d["fin_outcome"], d["result"]))
        if not d.get("still_alive"):
            p.append("C09: actor no longer usable through the other clones after a refused self-consuming call")
        if d["drops_after_fin"] != 0:
            p.append("C09: actor dropped although another handle exists")
    return p


def oracle_family(d):
    """C10"""
    if "error" in d:
        return ["harness: " + d["error"]]
    p = []
    if d["overlap_writer"]:
        p.append("C10: a mutating call overlapped another call of a different member")
    if not d["per_member_order_ok"] or not d["all_bumps_applied"]:
        p.append("C10: member calls not applied in that member's issue order / lost")
    if not d.get("note_order_ok", True):
        p.append("C10/C02: calls issued one after another through one member handle were not applied in that order: %s (expected 8 notes, then mark)" % d.get("note_log"))
    if d.get("abandon_tested") and not d.get("abandoned_applied", True):
        p.append("C10/C03: a mutating call accepted by member R while member W held the lock was never applied after its caller gave up waiting (total afterwards %s)" % d.get("total_after_abandon"))
    if d["ctor_runs"] != 1:
        p.append("C10: %d constructor runs for one family" % d["ctor_runs"])
    if d["final"] != 100:
        p.append("C10: final state %s differs from the sequential result 100" % d["final"])
    want = "ok" if d["lock"] == "RwLock" else "timeout"
    if d["rendezvous"] != want:
        p.append("C10: two non-mutating calls from different members %s under %s (rendezvous=%s)" % (
            "could not be in progress simultaneously" if want == "ok" else "overlapped", d["lock"], d["rendezvous"]))
    if d.get("panicked") or d.get("hung"):
        p.append("C10: panicked=%s hung=%s" % (d.get("panicked"), d.get("hung")))
    return p


def oracle_slowreply(d):
    """C01 / C03: a caller whose reply takes long simply waits; it gets the value its call produced and the actor lives on"""
    if "error" in d:
        return ["harness: " + d["error"]]
    p = []
    unit = "kind=unit" in d.get("_args", [])
    if d.get("finished_before_release"):
        p.append("C01/C02: a call of a method that declares a return type%s returned while the actor was still busy with an earlier call - before the method was executed "
                 "(a later call of the same caller could observe the state without it)" % (" (`-> ()`)" if unit else ""))
    want_log = [l for l in d.get("log", []) if l.startswith("unit:0:0" if unit else "add:0:0:")]
    if unit:
        if d["outcome"] != "returned" or not want_log:
            p.append("C01/C03: the `-> ()` call ended as %s (%s), log %s" % (d["outcome"], d.get("msg"), d.get("log")))
    elif d["outcome"] != "returned" or d.get("value") is None:
        p.append("C01/C03: a value-returning call whose reply took %d ms ended as %s (%s) although the actor was alive and executed it: %s" % (d["ms"], d["outcome"], d.get("msg"), want_log))
    elif not want_log or want_log[0].split(":")[-1] != str(d["value"]):
        p.append("C03: returned value %s is not the one the call produced (%s)" % (d["value"], want_log))
    if d.get("get_after") != "returned":
        p.append("C01: the actor is no longer usable after a slow reply: get() -> %s (log %s, drops %s)" % (d.get("get_after"), d.get("log"), d.get("drops")))
    return p


def oracle_nothread(d):
    """C04: a handle exists only together with its one running actor - when the thread cannot be created the constructor fails loudly"""
    if "error" in d:
        return ["harness: " + d["error"]]
    if not d.get("injected"):
        return ["harness: the OS never refused a thread (fault not injected)"]
    if d["outcome"] == "handle" and (not d["served"] or d["drops_while_handle_exists"] != 0):
        return ["C04: the constructor returned a handle although no actor thread could be started: the actor value was dropped %d time(s) while the handle exists, "
                "a call through the handle is %s" % (d["drops_while_handle_exists"], "served" if d["served"] else "not served")]
    return []


def oracle_chain(d):
    """C01: a method of one actor may use the handle of another actor of the same type like any client: the call returns the value the
    other actor computed and both actors live on"""
    if "error" in d:
        return ["harness: " + d["error"]]
    p = []
    if d["outcome"] != "returned" or d.get("value") != 5:
        p.append("C01: relay(5) through actor A, which calls add(5) on actor B of the same type, ended as %s / %s (expected 5): log A %s, log B %s" % (d["outcome"], d.get("value"), d.get("log_a"), d.get("log_b")))
    if d.get("a_after") != "returned" or d.get("b_after") != "returned":
        p.append("C01: after the relayed call actor A is %s and actor B is %s (both must still serve calls)" % (d.get("a_after"), d.get("b_after")))
    return p
