(* Gen/EditSplitThm.v -- theorems about model::select / ModelPart::split_edit (C15): partition, withheld = named,
   to-file = marked, unknown names rejected, known names accepted. *)
From Coq Require Import List String Bool Permutation Arith Lia.
Import ListNotations.
From IT Require Import Gen.Edit.
Open Scope string_scope.

Section SplitThm.
Variable A : Type.
Implicit Types (l kept rem tf taken : list (string * A)).

Definition names (l : list (string * A)) : list string := map fst l.
Definition inb (ids : list (string * bool)) (n : string) : bool := existsb (fun p => String.eqb (fst p) n) ids.
Definition flagb (ids : list (string * bool)) (n : string) : bool := existsb (fun p => String.eqb (fst p) n && snd p) ids.

Lemma inb_false : forall ids n, ~ In n (map fst ids) -> inb ids n = false.
Proof.
  induction ids as [|[m b] ids IH]; simpl; intros n H; auto.
  apply orb_false_iff. split.
  - apply String.eqb_neq. intro E. apply H. left. exact E.
  - apply IH. intro K. apply H. right. exact K.
Qed.

Lemma inb_true : forall ids n, In n (map fst ids) -> inb ids n = true.
Proof.
  induction ids as [|[m b] ids IH]; simpl; intros n H. contradiction.
  destruct H as [H|H].
  - subst. rewrite String.eqb_refl. reflexivity.
  - rewrite (IH _ H). apply orb_true_r.
Qed.

Lemma inb_In : forall ids n, inb ids n = true -> In n (map fst ids).
Proof.
  induction ids as [|[m b] ids IH]; simpl; intros n H. discriminate.
  apply orb_true_iff in H. destruct H as [H|H].
  - left. apply String.eqb_eq. exact H.
  - right. apply IH. exact H.
Qed.

Lemma flagb_false : forall ids n, ~ In n (map fst ids) -> flagb ids n = false.
Proof.
  induction ids as [|[m b] ids IH]; simpl; intros n H; auto.
  apply orb_false_iff. split.
  - apply andb_false_iff. left. apply String.eqb_neq. intro E. apply H. left. exact E.
  - apply IH. intro K. apply H. right. exact K.
Qed.

Lemma filter_all : forall (f : string * A -> bool) l, (forall x, In x l -> f x = true) -> filter f l = l.
Proof.
  induction l as [|a l IH]; simpl; intros H; auto.
  rewrite (H a (or_introl eq_refl)). f_equal. apply IH. intros x Hx. apply H. right. exact Hx.
Qed.

Lemma filter_none : forall (f : string * A -> bool) l, (forall x, In x l -> f x = false) -> filter f l = [].
Proof.
  induction l as [|a l IH]; simpl; intros H; auto.
  rewrite (H a (or_introl eq_refl)). apply IH. intros x Hx. apply H. right. exact Hx.
Qed.

Lemma filter_partition_perm : forall (f : string * A -> bool) l,
  Permutation (filter (fun x => negb (f x)) l ++ filter f l) l.
Proof.
  induction l as [|a l IH]; simpl; auto.
  destruct (f a); simpl.
  - apply Permutation_sym. apply Permutation_cons_app. apply Permutation_sym. exact IH.
  - constructor. exact IH.
Qed.

Lemma remove_first_some : forall n l x r, remove_first n l = Some (x, r) ->
  fst x = n /\ exists l1 l2, l = (l1 ++ x :: l2)%list /\ r = (l1 ++ l2)%list /\ ~ In n (names l1).
Proof.
  induction l as [|a l IH]; simpl; intros x r H. discriminate.
  destruct (String.eqb (fst a) n) eqn:E.
  - inversion H; subst. apply String.eqb_eq in E. split; auto. exists [], r. simpl. auto.
  - destruct (remove_first n l) as [[y r']|] eqn:R; try discriminate.
    inversion H; subst. destruct (IH _ _ eq_refl) as [F [l1 [l2 [E1 [E2 N]]]]].
    split; auto. exists (a :: l1), l2. subst. simpl. repeat split; auto.
    intros [K|K]; auto. apply String.eqb_neq in E. auto.
Qed.

Lemma remove_first_none : forall n l, remove_first n l = None <-> ~ In n (names l).
Proof.
  induction l as [|a l IH]; simpl.
  - split; auto.
  - destruct (String.eqb (fst a) n) eqn:E.
    + apply String.eqb_eq in E. split. discriminate. intro H. exfalso. apply H. left. exact E.
    + apply String.eqb_neq in E. destruct (remove_first n l) as [[y r]|].
      * split. discriminate. intro H. exfalso. destruct IH as [_ IH].
        assert (K : ~ In n (names l)) by (intro K; apply H; right; exact K). specialize (IH K). discriminate.
      * split; auto. intros _ [K|K]; auto. destruct IH as [IH _]. apply (IH eq_refl). exact K.
Qed.

Lemma names_app : forall l1 l2, names (l1 ++ l2) = (names l1 ++ names l2)%list.
Proof. intros. unfold names. apply map_app. Qed.

(* the loop of model::select *)
Lemma select_fold : forall scope ids kept rem tf kept' rem' tf',
  NoDup (names kept) ->
  foldM (select_step scope) (kept, rem, tf) ids = Ok (kept', rem', tf') ->
  exists taken, rem' = (rem ++ taken)%list /\ names taken = map fst ids
    /\ kept' = filter (fun x => negb (inb ids (fst x))) kept
    /\ Permutation (kept' ++ taken) kept
    /\ tf' = (tf ++ filter (fun x => scope || flagb ids (fst x)) taken)%list.
Proof.
  induction ids as [|[n b] ids IH]; intros kept rem tf kept' rem' tf' ND H.
  - simpl in H. inversion H; subst. exists []. rewrite !app_nil_r. simpl.
    repeat split; auto. symmetry. apply filter_all. auto.
  - simpl in H. destruct (remove_first n kept) as [[x k1]|] eqn:R; try discriminate.
    destruct (remove_first_some _ _ _ _ R) as [Fx [l1 [l2 [E1 [E2 N1]]]]].
    assert (ND1 : NoDup (names k1)).
    { subst kept k1. rewrite names_app in *. simpl in ND. apply NoDup_remove_1 in ND. exact ND. }
    assert (NI : ~ In n (names k1)).
    { subst kept k1. rewrite names_app in *. simpl in ND. apply NoDup_remove_2 in ND. rewrite Fx in ND. exact ND. }
    apply IH in H; auto. destruct H as [taken [Hr [Hn [Hk [Hp Ht]]]]].
    assert (NT : forall y, In y taken -> fst y <> n).
    { intros y Hy E. apply NI. rewrite <- E. apply in_map.
      eapply Permutation_in. exact Hp. apply in_or_app. right. exact Hy. }
    assert (Nids : ~ In n (map fst ids)).
    { rewrite <- Hn. intro K. apply in_map_iff in K. destruct K as [y [Ey Hy]]. exact (NT y Hy Ey). }
    exists (x :: taken). split; [|split; [|split; [|split]]].
    + rewrite Hr, <- app_assoc. reflexivity.
    + simpl. rewrite Hn, Fx. reflexivity.
    + rewrite Hk. subst kept k1. rewrite !filter_app. simpl.
      replace (String.eqb n (fst x)) with true by (rewrite Fx; symmetry; apply String.eqb_refl). simpl.
      f_equal; apply filter_ext_in; intros y Hy;
        (replace (String.eqb n (fst y)) with false; [reflexivity|];
         symmetry; apply String.eqb_neq; intro E; apply NI; rewrite E; apply in_map; apply in_or_app; auto).
    + subst kept k1. apply Permutation_trans with (x :: kept' ++ taken)%list.
      * apply Permutation_sym. apply Permutation_middle.
      * apply Permutation_trans with (x :: l1 ++ l2)%list. constructor. exact Hp. apply Permutation_middle.
    + rewrite Ht. simpl. rewrite Fx. rewrite String.eqb_refl. simpl. rewrite (flagb_false _ _ Nids), (orb_false_r b).
      assert (FE : filter (fun y => scope || flagb ids (fst y)) taken
                 = filter (fun y => scope || (String.eqb n (fst y) && b || flagb ids (fst y))) taken).
      { apply filter_ext_in. intros y Hy.
        replace (String.eqb n (fst y)) with false. reflexivity.
        symmetry. apply String.eqb_neq. intro E. exact (NT y Hy (eq_sym E)). }
      rewrite <- FE. destruct (scope || b); simpl; [rewrite <- app_assoc|]; reflexivity.
Qed.

(* C15 for one section (methods or traits) of one struct *)
Theorem select_spec : forall spec l kept rem tf,
  NoDup (names l) -> select spec l = Ok (kept, rem, tf) ->
     kept = filter (fun x => negb (named spec (fst x))) l
  /\ Permutation rem (filter (fun x => named spec (fst x)) l)
  /\ tf = filter (fun x => marked spec (fst x)) rem
  /\ Permutation (kept ++ rem) l
  /\ (forall ids, fst spec = Some ids -> ids <> [] -> names rem = map fst ids).
Proof.
  intros [o scope] l kept rem tf ND H. unfold select in H. simpl in H.
  unfold named, marked. simpl.
  destruct o as [ids|].
  - destruct ids as [|id ids'].
    + simpl in H. inversion H; subst. repeat split.
      * symmetry. apply filter_none. auto.
      * rewrite filter_all; auto.
      * destruct scope; simpl. symmetry; apply filter_all; auto. symmetry; apply filter_none; auto.
      * simpl. apply Permutation_refl.
      * intros ids E. inversion E; subst. intro K. exfalso. apply K. reflexivity.
    + remember (id :: ids') as ids.
      assert (H' : foldM (select_step scope) (l, [], []) ids = Ok (kept, rem, tf)) by (subst ids; exact H).
      destruct (select_fold _ _ _ _ _ _ _ _ ND H') as [taken [Hr [Hn [Hk [Hp Ht]]]]].
      simpl in Hr, Ht. subst rem.
      assert (KE : kept = filter (fun x => negb (match ids with [] => true | _ :: _ => existsb (fun p => String.eqb (fst p) (fst x)) ids end)) l).
      { rewrite Hk. subst ids. reflexivity. }
      assert (PE : Permutation taken (filter (fun x => inb ids (fst x)) l)).
      { apply Permutation_app_inv_l with (l := kept). rewrite Hk at 2.
        apply Permutation_trans with l. exact Hp. apply Permutation_sym. apply filter_partition_perm. }
      repeat split.
      * subst ids. exact KE.
      * subst ids. exact PE.
      * exact Ht.
      * exact Hp.
      * intros ids0 E. inversion E; subst ids0. intros _. exact Hn.
  - inversion H; subst. repeat split.
    + symmetry. apply filter_all. auto.
    + rewrite filter_none; auto.
    + rewrite app_nil_r. apply Permutation_refl.
    + intros ids E. discriminate.
Qed.

(* nothing in both: with distinct names in the model, no name is both emitted and withheld *)
Corollary select_disjoint : forall spec l kept rem tf,
  NoDup (names l) -> select spec l = Ok (kept, rem, tf) ->
  forall n, In n (names kept) -> ~ In n (names rem).
Proof.
  intros spec l kept rem tf ND H n Hk Hr.
  destruct (select_spec _ _ _ _ _ ND H) as [_ [_ [_ [Hp _]]]].
  assert (ND' : NoDup (names (kept ++ rem))).
  { eapply Permutation_NoDup. apply Permutation_map. apply Permutation_sym. exact Hp. exact ND. }
  rewrite names_app in ND'. revert ND' Hk Hr. generalize (names kept) (names rem). clear.
  induction l as [|a l IH]; simpl; intros l0 ND Hk Hr. contradiction.
  inversion ND; subst. destruct Hk as [E|Hk].
  - subst. apply H1. apply in_or_app. right. exact Hr.
  - exact (IH _ H2 Hk Hr).
Qed.

(* a listed name that matches nothing is rejected *)
Lemma select_fold_unknown : forall scope ids kept rem tf n,
  In n (map fst ids) -> ~ In n (names kept) ->
  exists d, foldM (select_step scope) (kept, rem, tf) ids = Diag d.
Proof.
  induction ids as [|[m b] ids IH]; simpl; intros kept rem tf n Hin Hn. contradiction.
  destruct (remove_first m kept) as [[x k1]|] eqn:R.
  - destruct (remove_first_some _ _ _ _ R) as [Fx [l1 [l2 [E1 [E2 N1]]]]].
    destruct Hin as [E|Hin].
    + subst m. exfalso. apply Hn. subst kept. rewrite names_app. apply in_or_app. right. left. exact Fx.
    + apply (IH k1 _ _ n Hin). intro K. apply Hn. subst kept k1. rewrite names_app in *. apply in_app_or in K.
      apply in_or_app. destruct K; auto. right. right. exact H.
  - eexists. reflexivity.
Qed.

Theorem select_unknown_rejected : forall spec l n,
  In n (listed spec) -> ~ In n (names l) -> exists d, select spec l = Diag d.
Proof.
  intros [o scope] l n Hin Hn. unfold listed in Hin. simpl in Hin. unfold select. simpl.
  destruct o as [ids|]; [|contradiction].
  destruct ids as [|id ids']. contradiction.
  apply select_fold_unknown with (n := n); auto.
Qed.

(* the only diagnostic is "unknown ident", and it names a listed identifier *)
Lemma select_fold_diag : forall scope ids (st : sel_state A) d,
  foldM (select_step scope) st ids = Diag d -> exists n, d = DUnknownIdent n /\ In n (map fst ids).
Proof.
  induction ids as [|[m b] ids IH]; simpl; intros [[kept rem] tf] d H. discriminate.
  simpl in H. destruct (remove_first m kept) as [[x k1]|] eqn:R.
  - destruct (IH _ _ H) as [n [E I]]. exists n. auto.
  - inversion H. exists m. auto.
Qed.

Theorem select_diag_only_unknown : forall spec l d,
  select spec l = Diag d -> exists n, d = DUnknownIdent n /\ In n (listed spec).
Proof.
  intros [o scope] l d H. unfold select in H. simpl in H. unfold listed. simpl.
  destruct o as [ids|]; [|discriminate].
  apply select_fold_diag in H. exact H.
Qed.

(* no false rejection: distinct listed names that all occur in the model are accepted *)
Lemma select_fold_total : forall scope ids kept rem tf,
  NoDup (map fst ids) -> (forall n, In n (map fst ids) -> In n (names kept)) ->
  exists st, foldM (select_step scope) (kept, rem, tf) ids = Ok st.
Proof.
  induction ids as [|[m b] ids IH]; simpl; intros kept rem tf ND Hall.
  - eexists. reflexivity.
  - destruct (remove_first m kept) as [[x k1]|] eqn:R.
    + destruct (remove_first_some _ _ _ _ R) as [Fx [l1 [l2 [E1 [E2 N1]]]]].
      inversion ND; subst. apply IH; auto.
      intros n Hn. assert (K := Hall n (or_intror Hn)). rewrite names_app in *. apply in_app_or in K.
      apply in_or_app. destruct K as [K|[K|K]]; auto. exfalso. apply H1. simpl in K. rewrite K. exact Hn.
    + exfalso. apply remove_first_none in R. apply R. apply Hall. left. reflexivity.
Qed.

Theorem select_known_accepted : forall spec l,
  NoDup (listed spec) -> (forall n, In n (listed spec) -> In n (names l)) -> exists st, select spec l = Ok st.
Proof.
  intros [o scope] l ND Hall. unfold listed in *. simpl in *. unfold select. simpl.
  destruct o as [ids|]; [|eexists; reflexivity].
  destruct ids as [|id ids']. eexists; reflexivity.
  apply select_fold_total; auto.
Qed.

(* ------------------------------------------------------------------------------------------ *)
(* the whole struct                                                                             *)
(* ------------------------------------------------------------------------------------------ *)
Definition part_nodup (p : part A) : Prop := NoDup (names (p_mets p)) /\ NoDup (names (p_trts p)).

Theorem split_edit_spec : forall (t : tuples) (p kept rem tf : part A),
  part_nodup p -> split_edit t p = Ok (kept, rem, tf) ->
  let '(d, i, r) := t in
  (* definition: withheld iff `def`; written iff marked; never in both *)
     p_def kept = (if fst d then None else p_def p)
  /\ p_def rem = (if fst d then p_def p else None)
  /\ p_def tf = (if snd d then p_def rem else None)
  (* methods *)
  /\ p_mets kept = filter (fun x => negb (named i (fst x))) (p_mets p)
  /\ Permutation (p_mets rem) (filter (fun x => named i (fst x)) (p_mets p))
  /\ p_mets tf = filter (fun x => marked i (fst x)) (p_mets rem)
  /\ Permutation (p_mets kept ++ p_mets rem) (p_mets p)
  (* traits *)
  /\ p_trts kept = filter (fun x => negb (named r (fst x))) (p_trts p)
  /\ Permutation (p_trts rem) (filter (fun x => named r (fst x)) (p_trts p))
  /\ p_trts tf = filter (fun x => marked r (fst x)) (p_trts rem)
  /\ Permutation (p_trts kept ++ p_trts rem) (p_trts p).
Proof.
  intros [[d i] r] p kept rem tf [NDm NDt] H. unfold split_edit in H.
  destruct (select i (p_mets p)) as [[[mk mr] mf]|] eqn:Sm; simpl in H; try discriminate.
  destruct (select r (p_trts p)) as [[[tk tr] tf']|] eqn:St; simpl in H; try discriminate.
  inversion H; subst; clear H. simpl.
  destruct (select_spec _ _ _ _ _ NDm Sm) as [M1 [M2 [M3 [M4 _]]]].
  destruct (select_spec _ _ _ _ _ NDt St) as [T1 [T2 [T3 [T4 _]]]].
  repeat split; auto.
  destruct (fst d), (snd d); reflexivity.
Qed.

Theorem split_edit_unknown_rejected : forall (t : tuples) (p : part A) n,
  let '(_, i, r) := t in
  (In n (listed i) /\ ~ In n (names (p_mets p))) \/ (In n (listed r) /\ ~ In n (names (p_trts p))) ->
  exists d, split_edit t p = Diag d.
Proof.
  intros [[d i] r] p n H. unfold split_edit.
  destruct H as [[H1 H2]|[H1 H2]].
  - destruct (select_unknown_rejected i _ n H1 H2) as [d' E]. rewrite E. simpl. eexists. reflexivity.
  - destruct (select i (p_mets p)) as [ms|d'] eqn:Sm; simpl.
    + destruct (select_unknown_rejected r _ n H1 H2) as [d'' E]. rewrite E. simpl. eexists. reflexivity.
    + eexists. reflexivity.
Qed.

Theorem split_edit_known_accepted : forall (t : tuples) (p : part A),
  let '(_, i, r) := t in
  NoDup (listed i) -> NoDup (listed r) ->
  (forall n, In n (listed i) -> In n (names (p_mets p))) -> (forall n, In n (listed r) -> In n (names (p_trts p))) ->
  exists x, split_edit t p = Ok x.
Proof.
  intros [[d i] r] p Ni Nr Hi Hr. unfold split_edit.
  destruct (select_known_accepted i _ Ni Hi) as [[[mk mr] mf] E1]. rewrite E1. simpl.
  destruct (select_known_accepted r _ Nr Hr) as [[[tk tr] tf] E2]. rewrite E2. simpl.
  eexists. reflexivity.
Qed.

(* what is handed to the writer: exactly the items of the to-file parts, script first, then live *)
Theorem actor_code_edit_inv : forall e (s lv : part A) code edit,
  actor_code_edit e s lv = Ok (code, edit) ->
  exists sk sr sf lk lr lf,
    split_edit (ea_script e) s = Ok (sk, sr, sf) /\ split_edit (ea_live e) lv = Ok (lk, lr, lf)
    /\ code = (items_of sk ++ items_of lk)%list /\ edit = (items_of sf ++ items_of lf)%list.
Proof.
  intros e s lv code edit H. unfold actor_code_edit in H.
  destruct (split_edit (ea_script e) s) as [[[sk sr] sf]|] eqn:S1; simpl in H; try discriminate.
  destruct (split_edit (ea_live e) lv) as [[[lk lr] lf]|] eqn:S2; simpl in H; try discriminate.
  inversion H; subst. exists sk, sr, sf, lk, lr, lf. auto.
Qed.

(* nothing is edited without an `edit` option: the emitted code is the full model, the file part is empty *)
Theorem no_edit_identity : forall (p : part A), split_edit empty_t p = Ok (p, Build_part None [] [], Build_part None [] []).
Proof. intros [d m t]. reflexivity. Qed.

End SplitThm.
