(* C10 -- family members share one actor under its lock, each in its own order.  Statements only.
   For every family runtime model m (any number of members and methods, any lock modes), every user type and every schedule of the
   environment (clients of any member getting messages accepted, in any order) and the member loops. *)
From Coq Require Import List Arith Bool String.
Import ListNotations.
From IT Require Import Sdpl.IR Sdpl.ElabFamily Runtime.Family Runtime.FamilyInv.

Section C10.
Context {A V : Type} (sem : nat -> A -> list V -> option (A * V)).
Notation frun := (frun sem).

(* one actor: a single constructor run; all members act on the one shared value *)
Theorem C10_one_actor : forall (f : family) lockname, wf_C10 lockname f = true ->
  forall a0 sched, fctor_runs (frun (elab_family (fa_members f)) a0 sched) = 1.
Proof. intros f l _ a0 sched. apply one_constructor_run. Qed.

(* lock discipline: at most one exclusive holder and then nobody else *)
Theorem C10_exclusion : forall (f : family) lockname, wf_C10 lockname f = true ->
  forall a0 sched, let s := frun (elab_family (fa_members f)) a0 sched in
  forall i l j l', In (i, l) (holders s) -> In (j, l') (holders s) -> (i, l) <> (j, l') -> exclusive l = false /\ exclusive l' = false.
Proof. intros f ln _ a0 sched. apply mutating_calls_never_overlap. Qed.

(* ... hence calls arriving through different members never overlap when either of them mutates: a member that is executing a
   mutating user method holds the lock alone *)
Theorem C10_mutating_alone : forall (f : family) lockname, wf_C10 lockname f = true ->
  forall a0 sched, let m := elab_family (fa_members f) in let s := frun m a0 sched in
  forall i mb x fm, nth_error (members s) i = Some mb -> mbusy mb = Some (x, Holding) -> meth_of m i (g_meth x) = Some fm ->
  fm_mut fm = true -> forall j l', In (j, l') (holders s) -> j = i.
Proof.
  intros f ln W a0 sched m s i mb x fm Hn Hb Hm Hmut j l' Hj.
  unfold wf_C10 in W. apply andb_prop in W. destruct W as [_ W].
  assert (E : exclusive (fm_mode fm) = true).
  { unfold fmodes_ok in W. rewrite forallb_forall in W. unfold meth_of in Hm.
    destruct (nth_error (f_members m) i) as [row|] eqn:Er; [|discriminate].
    specialize (W row (nth_error_In _ _ Er)). rewrite forallb_forall in W. specialize (W fm (nth_error_In _ _ Hm)).
    rewrite Hmut in W. exact W. }
  destruct (excl_reachable sem m a0 sched) as [(N & X & NN) Hh]. fold s in N, X, NN, Hh.
  (* member i is among the holders iff its mode locks; an exclusive mode is never LNone, and it was appended at acquisition *)
  destruct (Hh j l' Hj) as (mbj & xj & fmj & Hnj & Hbj & Hmj & Hlj).
  destruct (Nat.eq_dec j i) as [->|Ne]; [reflexivity|exfalso].
  (* show (i, fm_mode fm) is a holder: by the hold invariant's converse, proved in FamilyInv as holding_is_holder *)
  pose proof (holding_is_holder sem m a0 sched i mb x fm Hn Hb Hm) as Hi.
  destruct (fm_mode fm) eqn:Em; try discriminate E.
  - specialize (Hi ltac:(discriminate)). pose proof (X i LWrite Hi eq_refl) as One. fold s in One. rewrite One in Hj. destruct Hj as [Q|[]]. injection Q as <- _. congruence.
  - specialize (Hi ltac:(discriminate)). pose proof (X i LMutex Hi eq_refl) as One. fold s in One. rewrite One in Hj. destruct Hj as [Q|[]]. injection Q as <- _. congruence.
Qed.

(* under a Mutex nothing overlaps at all *)
Theorem C10_mutex : forall (m : fmodel), (forall i k fm, meth_of m i k = Some fm -> fm_mode fm = LMutex) ->
  forall a0 sched, List.length (holders (frun m a0 sched)) <= 1.
Proof. intros m H a0 sched. apply mutex_one_at_a_time. exact H. Qed.

(* any outcome equals an interleaving of the members' call sequences applied to the user's own type: the executed calls, in
   execution (lock) order, replayed sequentially give the shared actor's state and every result *)
Theorem C10_sequential : forall (f : family) lockname, wf_C10 lockname f = true ->
  forall a0 sched, let s := frun (elab_family (fa_members f)) a0 sched in FReplay sem a0 (fapplied s) (factor s).
Proof. intros f ln _ a0 sched. apply family_sequential. Qed.

(* each member's calls are executed in the order its loop took them from its own queue (its channel's FIFO order) *)
Theorem C10_member_order : forall (f : family) lockname, wf_C10 lockname f = true ->
  forall a0 sched, member_order_ok (frun (elab_family (fa_members f)) a0 sched).
Proof. intros f ln _ a0 sched. apply member_order_reachable. Qed.

(* under the read-write lock two non-mutating calls from different members can be in progress simultaneously *)
Theorem C10_readers_can_overlap : exists (m : fmodel) sched, let s := @Family.frun nat nat (fun _ a _ => Some (a, a)) m 0 sched in
  exists i j, i <> j /\ In (i, LRead) (holders s) /\ In (j, LRead) (holders s).
Proof. exact readers_can_overlap. Qed.
End C10.

Print Assumptions C10_one_actor.
Print Assumptions C10_exclusion.
Print Assumptions C10_mutating_alone.
Print Assumptions C10_mutex.
Print Assumptions C10_sequential.
Print Assumptions C10_member_order.
Print Assumptions C10_readers_can_overlap.
