"""C13 -- debut stamps are unique and ordered; comparisons follow them."""
import random, itertools, ast, re, json
import hook, inst, gen_impl, debut_xlate as dx, debut_harness as dh
from common import *

PID = "C13"
RULE = ("T-tie instances = real expansions with `debut` over lib x actor|family x channel x impl blocks (debut() body -> debut_ir, trait bodies / "
        "inter_get_count / derive(Clone) / Arc::new -> cmp_ir, kernel lemmas wf_debut / wf_cmp); runtime = the real expansion text on a scripted mock clock: "
        "every reading sequence of length <= 6 with steps -1/0/+1 (exhaustive), random wider steps, 2-4 concurrent constructors on one shared script, "
        "clone/drop/rename histories, compared with run_items / trace / wrun of the Coq model evaluated on the translated real body; "
        "non-trivial = distinct (lib, kind, channel) expansion classes + distinct (equal, behind, ahead) reading patterns + history shapes")

IMPORTS = ("From Coq Require Import List NArith Bool Arith String.\nImport ListNotations.\n"
           "From IT Require Import Debut.Debut Debut.DebutThm Debut.Conc Debut.Cmp.\nOpen Scope string_scope.\nOpen Scope N_scope.\n")
DEFS = """
Definition enc_tr (l : list (option (N * nat))) : list (N * N) := map (fun o => match o with None => (0, 0) | Some (t, p) => (t, N.of_nat p + 1) end) l.
Definition enc_ob (o : option bool) : N := match o with None => 9 | Some true => 1 | Some false => 0 end.
Definition enc_c (c : comparison) : N := match c with Eq => 0 | Lt => 1 | Gt => 2 end.
Definition enc_oc (o : option comparison) : N := match o with None => 9 | Some c => enc_c c end.
Definition enc_ooc (o : option (option comparison)) : N := match o with None => 9 | Some None => 8 | Some (Some c) => enc_c c end.
Definition enc_on (o : option nat) : N := match o with None => 0 | Some n => N.of_nat n + 1 end.
Definition hist (dir : debut_ir) (cir : cmp_ir) (rs : list N) (d : N) (ops : list hop) :=
  let w := wrun dir 400 (clock_up rs d) (w0 0 0) ops in
  (map (fun h => (h_stamp h, enc_on (run_count cir w h))) (w_live w),
   flat_map (fun a => map (fun b => enc_ob (run_eq cir a b) * 1000 + enc_oc (run_cmp cir a b) * 100 + enc_ooc (run_partial cir a b) * 10 + enc_ob (run_lt cir a b)) (w_live w)) (w_live w),
   N.of_nat (w_pos w)).
"""
FUEL = 400


def lit(s):
    """Coq printed value built from N, pairs and lists -> python"""
    return ast.literal_eval(s.replace(";", ","))


def configs(rng, tier):
    cs = []
    nrand = 1 if tier == "quick" else 5
    for lib in gen_impl.LIBS:
        for ch in (None, 2):
            impls = [gen_impl.probe_impl(lib), gen_impl.probe_impl(lib, generic_actor=True)] + [gen_impl.random_impl(rng, lib, slf_prob=0.0) for _ in range(nrand)]
            for im in impls:
                cs.append({"kind": "actor", "lib": lib, "attr": gen_impl.actor_attr(lib, ch, debut=True), "item": im["item"],
                           "label": "actor lib=%s channel=%s" % (lib, ch), "cls": (lib, "actor", ch)})
    for lib in ("std", "tokio", "async_std"):
        for lock in (None, "Mutex"):
            fam = (['lib = "%s"' % lib] if lib != "std" else []) + ([lock] if lock else []) + ["debut"]
            attr = ", ".join(fam + ['actor(first_name = "U")', 'actor(first_name = "V", channel = 1)'])
            cs.append({"kind": "family", "lib": lib, "attr": attr, "item": gen_impl.probe_impl(lib)["item"],
                       "label": "family lib=%s lock=%s" % (lib, lock), "cls": (lib, "family", lock)})
    # self-consuming method with debut (inter_play_stop returns the Arc)
    cs.append({"kind": "actor", "lib": "std", "attr": "debut", "item": gen_impl.probe_impl("std", slf=True)["item"], "label": "actor std slf", "cls": ("std", "actor-slf", None)})
    return cs


# ------------------------------------------------------------------------------------------------------------
# the property's oracle on observations of the real code (written from the property text)
# ------------------------------------------------------------------------------------------------------------
def oracle_call(prev_max, readings, dflt, stamp, consumed):
    """a constructor returned `stamp` after reading `consumed` values: strictly later than every stamp issued before, and
    completed no later than the first reading at which the clock had moved forward past them"""
    p = []
    if not stamp > prev_max:
        p.append("stamp %d is not strictly greater than an earlier stamp %d" % (stamp, prev_max))
    first_fwd = next((j for j, r in enumerate(readings) if r > prev_max), len(readings) if dflt > prev_max else None)
    if first_fwd is not None and consumed > first_fwd + 1:
        p.append("creation did not complete when the clock moved forward: reading #%d is past every earlier stamp (%d) but %d readings were consumed" % (first_fwd, prev_max, consumed))
    return p


def oracle_hist(ops, handles, matrix):
    """handles: [(stamp, count, name)] newest first; matrix: row-major list of (flags, cmp, partial).
    Replays the history on ids only (which actor each live handle belongs to) and demands: count = number of live clones,
    clones equal, different actors differ, order = reverse creation order, consistent across == != < <= > >= cmp partial_cmp"""
    p = []
    live, nact = [], 0
    for op in ops:
        if op[0] == "N":
            live.insert(0, nact)
            nact += 1
        elif op[0] == "C" and op[1] < len(live):
            live.insert(0, live[op[1]])
        elif op[0] == "D" and op[1] < len(live):
            live.pop(op[1])
    if len(live) != len(handles):
        return ["%d live handles expected, %d observed" % (len(live), len(handles))]
    for i, (st, cnt, nm) in enumerate(handles):
        if cnt != live.count(live[i]):
            p.append("handle #%d: inter_get_count = %d but %d clones of it are alive" % (i, cnt, live.count(live[i])))
    n = len(live)
    for i in range(n):
        for j in range(n):
            flags, c, pc = matrix[i * n + j]
            # actor created earlier is the greater one
            want = 0 if live[i] == live[j] else (1 if live[i] < live[j] else -1)
            wf = "%d%d%d%d%d%d" % (want == 0, want != 0, want < 0, want <= 0, want > 0, want >= 0)
            if flags != wf or c != want or pc != str(want):
                p.append("handles #%d (actor %d) and #%d (actor %d): ==,!=,<,<=,>,>= = %s cmp = %s partial_cmp = %s, expected %s / %d" % (i, live[i], j, live[j], flags, c, pc, wf, want))
    return p[:6]


# ------------------------------------------------------------------------------------------------------------
def step_seqs(maxlen, steps=(-1, 0, 1)):
    out = []
    for L in range(1, maxlen + 1):
        out += list(itertools.product(steps, repeat=L))
    return out


def pattern(last, readings):
    return "".join("=" if r == last else ("<" if r < last else ">") for r in readings)


def coq_list(xs):
    return "[" + "; ".join(str(x) for x in xs) + "]"


def async_debut_part(rep, rng, quick):
    """the generated `debut()` of the async runtimes (their expansions cannot be compiled without the runtime crates, the function
    itself only needs std): sequential calls and concurrent calls, also with a clock that lets two readers meet.  Oracle only:
    stamps pairwise distinct and later than every stamp issued before."""
    libs = ("tokio", "async_std", "smol")
    jobs = [("actor", ['lib = "%s", debut' % l, dh.ITEM]) for l in libs] + [("family", ['lib = "tokio", debut, actor(first_name = "U"), actor(first_name = "V")', dh.ITEM])]
    res = hook.run_batch(jobs, tag="c13a")
    mods = []
    for (kind, (attr, _)), (cls, f) in zip(jobs, res):
        txt = dh.debut_fn_text(f[0]) if cls == "TOKENS" else None
        if txt is None:
            rep.oblige(False)
            rep.violation("async_debut_" + attr[:20], {"what": "no `fn debut` found in the expansion", "attr": attr, "class": cls}, found=False)
            continue
        mods.append(("a%d" % len(mods), txt, True, "DEBUT-ONLY", attr))
    if not mods:
        return
    try:
        binp = dh.build([m[:4] + ("",) for m in mods])
    except dh.CompileError as e:
        rep.oblige(False)
        rep.violation("async_debut_compile", {"what": "the generated debut() of an async runtime does not compile next to the mock clock", "rustc": str(e)[-2000:]}, found=False)
        return
    runs = []
    for name, txt, _, _, attr in mods:
        lines, info = [], []
        for k in range(6 if quick else 40):
            base = 1000 * (k + 1)
            lines.append("call %d %d" % (base + 500, base))
            info.append(("call", [base]))
            nthr = rng.choice((2, 2, 3))
            rd = [base + rng.choice((0, 0, 0, 1, -1)) for _ in range(rng.randint(2, 6))]
            mode = "concr" if k % 2 == 0 else "conc"
            lines.append("%s %d %d %s" % (mode, nthr, base + 500, ",".join(map(str, rd))))
            info.append((mode, rd, nthr))
        runs.append((name, attr, lines, info))
    outs = dh.run_many(binp, [(r[0], r[2]) for r in runs], timeout=180)
    for (name, attr, lines, info), (out, err) in zip(runs, outs):
        if err:
            rep.notes.append("async debut harness %s: %s" % (name, err))
            continue
        prev = 0
        for line_in, inf, line in zip(lines, info, out):
            rep.evaluations += 1
            if inf[0] == "call":
                st = int(line.split()[0])
                ok = rep.oblige(st > prev)
                vs = [st]
            else:
                vs = [int(a.split(":")[1]) for a in line.split(",") if a]
                ok = rep.oblige(len(set(vs)) == len(vs) and min(vs) > prev)
                rep.count("async_debut", inf[0])
                rep.nontrivial.add(("async-debut", attr[:14], inf[0], inf[2]))
            if not ok:
                rep.violation("async_debut_%s_%s" % (name, inf[0]), {
                    "what": "debut() of `%s` issued stamps %s after the earlier maximum %d: stamps must be pairwise distinct and later than every earlier one" % (attr, vs, prev),
                    "attr": attr, "item": dh.ITEM, "scenario": line_in, "meaning": "<mode> <threads> <clock afterwards> <clock readings>; concr = the mock clock lets the first two readers meet (bounded wait)",
                    "observed": line}, found=True)
            prev = max([prev] + vs)


def run(rep):
    rng = random.Random(rep.seed)
    rep.extra["rule"] = RULE
    quick = rep.tier == "quick"
    # ---- 1. universal theorems
    nthm, problems, _ = property_theorems(PID)
    rep.checker_cmds.append("make -C coq theories/Properties/C13.vo (Print Assumptions must be closed)")
    for _ in range(nthm):
        rep.oblige(not problems)
    bad = hygiene()
    rep.oblige(not bad)
    if problems or bad:
        rep.violation("theorems", {"what": "property theorem file no longer checks", "problems": problems, "hygiene": bad}, found=False)

    # ---- 2. T-tie: translate what the macro emits now
    cs = inst.expand_configs(configs(rng, rep.tier), tag="c13")
    dirs, cirs = {}, {}          # distinct terms -> name
    owners = []                  # (config, what, debut term or None, cmp term or None)
    for c in cs:
        rep.evaluations += 1
        rep.count("lib", c["lib"])
        rep.count("kind", c["kind"])
        if c["class"] != "TOKENS" or c["ex"] is None:
            rep.oblige(False)
            rep.violation("expansion_" + c["label"], {"what": "valid configuration with debut not expanded / not parsed", "class": c["class"], "attr": c["attr"], "item": c["item"],
                                                     "output": c["text"][:1500], "parse_error": c.get("parse_error")}, found=(c["class"] != "TOKENS"))
            continue
        ex = c["ex"]
        rep.nontrivial.add(c["cls"])
        if c["kind"] == "actor":
            for j, mdl in enumerate(ex["models"]):
                dt, notes = dx.debut_ir(mdl["debut_fn"])
                ct, facts = dx.cmp_ir(mdl, member_of_family=False)
                owners.append((c, "model %d" % j, dt, ct, notes, facts))
            if len(ex["models"]) != 1:
                rep.oblige(False)
                rep.violation("shape_" + c["label"], {"what": "expected one model", "attr": c["attr"], "item": c["item"]}, found=False)
        else:
            fam = ex["family"]
            fd = [m for m in (fam["impl"]["methods"] if fam and fam["impl"] else []) if m.get("name") == "debut"]
            dt, notes = dx.debut_ir(fd[0] if len(fd) == 1 else None)
            okc = dx.family_ctor_ok(fam)
            if not okc:
                dt, notes = "DUnknown", notes + ["family constructor does not call Self::debut() exactly once and pass its value to every member"]
            owners.append((c, "family", dt, None, notes, {}))
            for j, mdl in enumerate(ex["models"]):
                ct, facts = dx.cmp_ir(mdl, member_of_family=True)
                owners.append((c, "member %d" % j, dt if mdl["debut_fn"] is None else dx.debut_ir(mdl["debut_fn"])[0], ct, [], facts))
    for (c, what, dt, ct, notes, facts) in owners:
        if dt is not None:
            dirs.setdefault(dt, "real_d%d" % len(dirs))
        if ct is not None:
            cirs.setdefault(ct, "real_c%d" % len(cirs))
    defs = DEFS + "".join("Definition %s : debut_ir := %s.\n" % (n, t) for t, n in dirs.items()) + "".join("Definition %s : cmp_ir := %s.\n" % (n, t) for t, n in cirs.items())
    items = []
    for t, n in dirs.items():
        items += [("wf_" + n, "wf_debut " + n), ("bump_" + n, "bump_of " + n), ("search_" + n, "search_single %s 5" % n)]
    for t, n in cirs.items():
        items.append(("wf_" + n, "wf_cmp " + n))
    vals = inst.coq_values("C13_inst", IMPORTS, items, defs=defs)
    rep.checker_cmds.append("coqc generated/C13_inst.v; coqc generated/C13_oblig.v; coqc generated/C13_run.v")
    wf_fail = []
    for (c, what, dt, ct, notes, facts) in owners:
        okd = dt is None or vals["wf_" + dirs[dt]] == "true"
        okc = ct is None or vals["wf_" + cirs[ct]] == "true"
        rep.oblige(okd)
        rep.oblige(okc)
        if not (okd and okc):
            wf_fail.append((c, what, dt, ct, notes, facts, okd, okc))
    rep.sample({"distinct debut bodies": len(dirs), "distinct cmp irs": len(cirs), "debut_ir": list(dirs)[0][:400], "cmp_ir": list(cirs)[0][:400] if cirs else None,
                "bump_of": [vals["bump_" + n] for n in dirs.values()]})
    good_d = [n for t, n in dirs.items() if vals["wf_" + n] == "true"]
    good_c = [n for t, n in cirs.items() if vals["wf_" + n] == "true"]
    # kernel-checked lemmas + the universal theorems instantiated at what the code emits now
    text = IMPORTS + "From IT Require Import Properties.C13.\n" + defs
    for n in good_d:
        text += "Lemma %s_wf : wf_debut %s = true. Proof. vm_compute. reflexivity. Qed.\n" % (n, n)
        for th in ("C13_strict", "C13_value", "C13_completes", "C13_sequence", "C13_distinct", "C13_interleavings", "C13_lock_order"):
            text += "Definition %s_%s := %s %s %s_wf.\n" % (n, th, th, n, n)
    for n in good_c:
        text += "Lemma %s_wf : wf_cmp %s = true. Proof. vm_compute. reflexivity. Qed.\n" % (n, n)
        for th in ("C13_cmp", "C13_name_irrelevant", "C13_lawful"):
            text += "Definition %s_%s := %s %s %s_wf.\n" % (n, th, th, n, n)
        for d in good_d:
            for th in ("C13_clones_equal_actors_differ", "C13_order_reverse_creation", "C13_count"):
                text += "Definition %s_%s_%s := %s %s %s %s_wf %s_wf.\n" % (n, d, th, th, d, n, d, n)
    ok, out = inst.coq_check_file("C13_oblig", text)
    for _ in good_d + good_c:
        rep.oblige(ok)
    if not ok:
        rep.violation("obligations", {"what": "kernel rejected instance lemmas", "output": out[-2000:]}, found=False)

    # ---- 3. runtime correspondence: the real expansion text on the mock clock
    def pick(kind, cls_pred):
        for c in cs:
            if c["kind"] == kind and c["class"] == "TOKENS" and cls_pred(c):
                return c
        return None
    hjobs = hook.run_batch([("actor", ["debut", dh.ITEM]), ("family", ['debut, actor(first_name = "U"), actor(first_name = "V")', dh.ITEM]),
                            ("actor", ["debut, channel = 2", dh.ITEM]), ("family", ['debut, Mutex, actor(first_name = "U"), actor(first_name = "V")', dh.ITEM]),
                            ("actor", ["debut", dh.ITEM_G]), ("actor", ["debut", dh.ITEM_T])], tag="c13h")
    mods_src = [("m0", hjobs[0], "ALive", "ALive::new()", "actor", None), ("m1", hjobs[1], "UALive", "AFamily::new().u", "family", None),
                ("m2", hjobs[2], "ALive", "ALive::new()", "actor", None), ("m3", hjobs[3], "VALive", "AFamily::new().v", "family", None),
                ("m4", hjobs[4], "ALive<u8>", "ALive::<u8>::new()", "actor", dh.DECL_G), ("m5", hjobs[5], "ALive<String>", "ALive::<String>::new()", "actor", dh.DECL_T)]
    mods, mod_ir = [], {}
    for name, (cls, f), hty, ctor, kind, decl in mods_src:
        if cls != "TOKENS":
            rep.oblige(False)
            rep.violation("harness_expansion_" + name, {"what": "harness item with debut not expanded", "class": cls, "output": f[0][:1500], "item": dh.ITEM}, found=True)
            continue
        mods.append((name, f[0], True, hty, ctor) + ((decl,) if decl else ()))
        import ir as irm
        ex = irm.parse_expansion(f[0])
        if kind == "actor":
            dt = dx.debut_ir(ex["models"][0]["debut_fn"])[0]
            ct = dx.cmp_ir(ex["models"][0])[0]
        else:
            fd = [m for m in ex["family"]["impl"]["methods"] if m.get("name") == "debut"]
            dt = dx.debut_ir(fd[0] if len(fd) == 1 else None)[0]
            ct = dx.cmp_ir(ex["models"][0 if hty.startswith("U") else 1], member_of_family=True)[0]
        mod_ir[name] = (dt, ct)
    if hjobs[0][0] == "TOKENS":
        mods.append(("r0", hjobs[0][1][0], False, "ALive", "ALive::new()"))
    if hjobs[1][0] == "TOKENS":
        mods.append(("r1", hjobs[1][1][0], False, "UALive", "AFamily::new().u"))
    try:
        binp = dh.build(mods)
    except dh.CompileError as e:
        rep.oblige(False)
        rep.violation("harness_compile", {"what": "the real expansion (debut) no longer compiles next to the mock clock: runtime correspondence cannot be established",
                                          "rustc": str(e)[-2500:], "item": dh.ITEM}, found=False)
        binp = None
    async_debut_part(rep, rng, quick)
    failing = []       # oracle failures on the real code
    drift = []         # model != real while the oracle holds
    if binp is not None:
        run_scenarios(rep, rng, binp, [m[0] for m in mods], mod_ir, failing, drift, quick)
    for name, data in failing[:6]:
        rep.violation(name, data, found=True)
    if not failing:
        for name, data in drift[:4]:
            rep.violation(name, data, found=False)
    # a broken instance premise: the concrete failing input is whatever the oracle found on the real code; otherwise none found
    seen = set()
    for (c, what, dt, ct, notes, facts, okd, okc) in wf_fail:
        if (c["label"], what) in seen or len(seen) >= 4:
            continue
        seen.add((c["label"], what))
        srch = vals.get("search_" + dirs[dt]) if dt is not None else None
        rep.violation("inst_%s_%s" % (c["label"], what), {
            "what": "instance premise no longer checks: wf_debut=%s wf_cmp=%s for %s of %s" % (okd, okc, what, c["label"]),
            "attr": c["attr"], "item": c["item"], "translated_debut": dt, "translated_cmp": ct, "notes": notes, "facts": facts,
            "model_side_search (scripts of readings, LAST = 100, on which one call of the translated body violates the oracle)": srch,
            "real_code_failures": [n for n, _ in failing[:6]],
            "theorem": "premise wf_debut / wf_cmp of the theorems in Properties/C13.v"}, found=bool(failing))
    rep.assumptions += ["SystemTime + 1 ns is representable and distinct on the platform (true for Linux timespec; the mock clock uses u128 ns)",
                        "the Mutex around LAST gives mutual exclusion and is not poisoned (no statement of the body can panic short of SystemTime overflow)",
                        "std Arc::strong_count / derive(Clone) semantics (one strong reference per live clone) are modelled, not verified",
                        "runtime correspondence runs lib = std expansions (the debut / trait bodies of the other libs are covered by the T-tie: same translated terms)"]


def run_scenarios(rep, rng, binp, modnames, mod_ir, failing, drift, quick):
    seqs = step_seqs(6)
    jobs, meta = [], []
    # ---- 3a. exhaustive single calls (m0 actor, m1 family), random subset for m2 / m3
    for mod in [m for m in modnames if m.startswith("m")]:
        mine = seqs if mod in ("m0", "m1") else rng.sample(seqs, 120 if quick else 600)
        extra = []
        for _ in range(60 if quick else 600):   # wider steps, longer scripts
            L = rng.randint(1, 9)
            extra.append(tuple(rng.choice((-3, -2, -1, 0, 0, 1, 2, 5)) for _ in range(L)))
        for _ in range(40 if quick else 400):   # the clock is set back / forward by seconds (operator or NTP corrections), around the 1 s mark too
            L = rng.randint(1, 6)
            extra.append(tuple(rng.choice((-3_000_000_000, -1_000_000_001, -1_000_000_000, -999_999_999, -1, 0, 1, 1_000_000_000, 2_500_000_000)) for _ in range(L)))
        scen = list(mine) + extra
        nchunks = 8 if len(scen) > 400 else 2
        for ci in range(nchunks):
            part = scen[ci::nchunks]
            lines, items, info = [], [], []
            for k, steps in enumerate(part):
                base = 100_000_000_000 * (k + 1)          # nanoseconds; far enough apart for regressions of several seconds
                rd, cur = [], base
                for s in steps:
                    cur += s
                    rd.append(cur)
                dflt = base + 30_000_000_000
                lines += ["call %d %d" % (dflt, base), "call %d %s" % (dflt, ",".join(map(str, rd)))]
                items += [([base], dflt, 1), (rd, dflt, 1)]
                info += [("prime", [base], dflt), ("call", rd, dflt)]
            jobs.append((mod, lines))
            meta.append(("seq", mod, items, info))
    # ---- 3b. concurrent constructors on one shared script
    for mod in [m for m in modnames if m in ("m0", "m1")]:
        for ci in range(4 if quick else 16):
            lines, items, info = [], [], []
            for k in range(12):
                base = 1000 * (k + 1)
                nthr = rng.choice((2, 3, 4))
                L = rng.randint(0, 8)
                rd, cur = [], base
                for _ in range(L):
                    cur += rng.choice((-1, -1, 0, 0, 1, 1, 2))
                    rd.append(cur)
                dflt = base + 500
                lines += ["call %d %d" % (dflt, base), "conc %d %d %s" % (nthr, dflt, ",".join(map(str, rd)))]
                items += [([base], dflt, 1), (rd, dflt, nthr)]
                info += [("prime", [base], dflt), ("conc", rd, dflt, nthr)]
            jobs.append((mod, lines))
            meta.append(("seq", mod, items, info))
    # ---- 3c. histories (fresh process each: LAST = epoch)
    for mod in [m for m in modnames if m.startswith("m")]:
        for hi in range(10 if quick else 60):
            nops = rng.randint(3, 14)
            ops, nlive = [], 0
            for _ in range(nops):
                r = rng.random()
                if nlive == 0 or r < 0.3:
                    ops.append(("N",))
                    nlive += 1
                elif r < 0.6:
                    ops.append(("C", rng.randrange(nlive)))
                    nlive += 1
                elif r < 0.8:
                    ops.append(("D", rng.randrange(nlive)))
                    nlive -= 1
                else:
                    ops.append(("R", rng.randrange(nlive), rng.choice(["Alice", "Bob", "x", "Alice"])))
            nnew = sum(1 for o in ops if o[0] == "N")
            rd, cur = [], 100
            for _ in range(rng.randint(0, 2 * nnew + 2)):
                cur += rng.choice((-1, 0, 0, 1, 1, 3))
                rd.append(cur)
            dflt = 5000
            optxt = ",".join(o[0] + (str(o[1]) if len(o) > 1 else "") + ("=" + o[2] if len(o) > 2 else "") for o in ops)
            jobs.append((mod, ["hist %d %s %s" % (dflt, ",".join(map(str, rd)), optxt)]))
            meta.append(("hist", mod, ops, rd, dflt))
    # ---- 3c'. liveness: the clock steps back by seconds, its very next reading is past the last stamp again: creation completes at that reading, the
    #      generated code must not commit itself to a wait measured when it saw the regression (waits it asks for are recorded by the mock clock)
    for mod in [m for m in modnames if not m.startswith("r")]:
        lines, info = ["slept"], []
        for k, (back, fwd) in enumerate(((6_000_000_000, 60_000_000_000), (1_500_000_000, 1), (40_000_000, 1_000_000_000))):
            base = 900_000_000_000 * (k + 1)
            rd = [base - back, base + fwd]
            lines += ["call %d %d" % (base + 500_000_000_000, base), "call %d %s" % (base + 500_000_000_000, ",".join(map(str, rd))), "slept"]
            info.append((base, rd))
        jobs.append((mod, lines))
        meta.append(("waits", mod, info))
    # ---- 3d. real clock
    for mod in [m for m in modnames if m.startswith("r")]:
        jobs.append((mod, ["real 8 %d" % (1500 if quick else 12500), "real 3 200"]))
        meta.append(("real", mod))
    # sentinel phase: the first chunk of every module; a constructor that never returns would otherwise cost one timeout per process
    first = {}
    for k, m in enumerate(meta):
        if m[0] == "seq" and m[1] not in first:
            first[m[1]] = k
    results = [(None, "skipped")] * len(jobs)
    for k, r in zip(first.values(), dh.run_many(binp, [jobs[k] for k in first.values()], timeout=30)):
        results[k] = r
    if not any(r[1] == "timeout" for r in results):
        rest = [k for k in range(len(jobs)) if k not in first.values()]
        for k, r in zip(rest, dh.run_many(binp, [jobs[k] for k in rest], timeout=90)):
            results[k] = r
    else:
        rep.notes.append("a harness process timed out in the sentinel phase: remaining scenarios skipped")
    # ---- model side: one coqc run
    dterms, cterms = {}, {}
    for dt, ct in mod_ir.values():
        dterms.setdefault(dt, "hd%d" % len(dterms))
        cterms.setdefault(ct, "hc%d" % len(cterms))
    defs = DEFS + "".join("Definition %s : debut_ir := %s.\n" % (n, t) for t, n in dterms.items()) + "".join("Definition %s : cmp_ir := %s.\n" % (n, t) for t, n in cterms.items())
    citems = []
    for k, m in enumerate(meta):
        if m[0] == "seq":
            d = dterms[mod_ir[m[1]][0]]
            its = "[" + "; ".join("(%s, %d, %d%%nat)" % (coq_list(rd), dflt, n) for rd, dflt, n in m[2]) + "]"
            citems.append(("j%d" % k, "map enc_tr (run_items %s %d 0 %s)" % (d, FUEL, its)))
        elif m[0] == "hist":
            d, c = dterms[mod_ir[m[1]][0]], cterms[mod_ir[m[1]][1]]
            ops = "[" + "; ".join({"N": lambda o: "HNew", "C": lambda o: "HClone %d" % o[1], "D": lambda o: "HDrop %d" % o[1],
                                  "R": lambda o: "HRename %d \"%s\"" % (o[1], o[2])}[o[0]](o) for o in m[2]) + "]"
            citems.append(("j%d" % k, "hist %s %s %s %d %s" % (d, c, coq_list(m[3]), m[4], ops)))
    cvals = inst.coq_values("C13_run", IMPORTS, citems, defs=defs, timeout=1500)
    # ---- compare
    for k, (m, (out, err)) in enumerate(zip(meta, results)):
        mod = m[1]
        if err == "skipped":
            continue
        if err is not None and m[0] != "real" and out is None:
            rep.oblige(False)
            failing.append(("runtime_%s_%d" % (mod, k), {"what": "harness process did not finish (a constructor never returned although the scripted clock moves far ahead of LAST after the script)",
                                                         "error": err, "stdin": jobs[k][1][:6]}))
            continue
        if m[0] == "seq":
            model = lit(cvals["j%d" % k])
            prev_max = 0
            for idx, info in enumerate(m[3]):
                rep.evaluations += 1
                if out is None or idx >= len(out):
                    rep.oblige(False)
                    failing.append(("runtime_%s_%d_%d" % (mod, k, idx), {"what": "constructor did not return (process ended: %s)" % err, "module": mod, "scenario": info, "earlier_max_stamp": prev_max,
                                                                        "replay": "echo '%s' | %s %s" % ("\\n".join(jobs[k][1][:idx + 1]), binp, mod)}))
                    break
                line = out[idx]
                rd, dflt = info[1], info[2]
                if info[0] in ("prime", "call"):
                    st, consumed = [int(x) for x in line.split()]
                    real = [(st, consumed + 1)]
                    probs = oracle_call(prev_max, rd, dflt, st, consumed)
                    if info[0] == "call":
                        rep.count("reading_pattern_len", str(len(rd)))
                        rep.nontrivial.add(("pat", pattern(prev_max, rd)))
                    prev_max = max(prev_max, st)
                else:
                    left, right = line.split(" | ")
                    stamps = dict((int(a.split(":")[0]), int(a.split(":")[1])) for a in left.split(","))
                    lg = [(int(a.split(":")[0]), int(a.split(":")[1])) for a in right.split(",") if a]
                    order = []
                    for t, i in lg:
                        if t not in order:
                            order.append(t)
                    order += [t for t in sorted(stamps) if t not in order]
                    probs = []
                    # oracle: every stamp later than all issued before, pairwise distinct
                    vs = list(stamps.values())
                    if len(set(vs)) != len(vs):
                        probs.append("concurrent constructors received equal stamps %s" % stamps)
                    if min(vs) <= prev_max:
                        probs.append("a concurrent constructor received stamp %d, not later than the earlier stamp %d" % (min(vs), prev_max))
                    real = [(stamps[t], max(i for (tt, i) in lg if tt == t) + 2) if any(tt == t for tt, _ in lg) else (stamps[t], 0) for t in order]
                    rep.count("concurrent_threads", str(info[3]))
                    rep.nontrivial.add(("conc", info[3], pattern(prev_max, rd)))
                    prev_max = max([prev_max] + vs)
                    rep.traces += 1
                same = [tuple(x) for x in model[idx]] == real
                if probs:
                    rep.oblige(False)
                    failing.append(("runtime_%s_%d_%d" % (mod, k, idx), {
                        "what": probs, "module": mod + " (" + ("actor" if mod in ("m0", "m2") else "family") + ", real expansion on the mock clock)", "scenario": info[0],
                        "clock_readings": rd, "clock_afterwards": dflt, "observed": line, "model": model[idx],
                        "replay": "printf '%s\\n' | %s %s" % ("\\n".join(jobs[k][1][:idx + 1]), binp, mod)}))
                elif not same:
                    rep.oblige(False)
                    drift.append(("correspondence_%s_%d_%d" % (mod, k, idx), {
                        "what": "Coq interpreter on the translated body and the real code disagree (the property's oracle holds on the real output): correspondence no longer checks",
                        "module": mod, "scenario": info, "observed (stamp, readings consumed + 1)": real, "model": model[idx]}))
                else:
                    rep.oblige(True)
                if len(rep.samples) < 5 and info[0] != "prime" and idx % 37 == 3:
                    rep.sample({"module": mod, "scenario": info[0], "readings": rd, "observed": line, "model": model[idx]})
        elif m[0] == "waits":
            rep.evaluations += 1
            rep.traces += 1
            sl = [l for l in (out or []) if l.startswith("slept")]
            if out is None or len(sl) != len(m[2]) + 1:
                rep.notes.append("wait scenario of module %s gave no usable output (%s): %s" % (mod, err, (out or [])[:4]))
                continue
            for (base, rd), l in zip(m[2], sl[1:]):
                waits = [int(x) for x in l.split()[1].split(",") if x] if len(l.split()) > 1 else []
                long = [w for w in waits if w >= 20_000_000]
                rep.nontrivial.add(("waits", mod, base - rd[0]))
                if rep.oblige(not long):
                    continue
                failing.append(("runtime_waits_%s_%d" % (mod, base), {
                    "what": "creation does not complete as soon as the clock moves forward again: after the clock reading %d (the last stamp is %d, %d ns later) the generated debut() asks to "
                            "wait for %s ns although the clock's next reading %d is already past the last stamp" % (rd[0], base, base - rd[0], long, rd[1]),
                    "module": mod, "last_stamp": base, "clock_readings": rd, "waits_requested_ns": waits,
                    "replay": "printf '%s\\n' | %s %s" % ("\\n".join(jobs[k][1]), binp, mod)}))
        elif m[0] == "hist":
            rep.evaluations += 1
            rep.traces += 1
            ops, rd, dflt = m[2], m[3], m[4]
            if out is None or not out:
                rep.oblige(False)
                failing.append(("runtime_hist_%s_%d" % (mod, k), {"what": "history did not finish: " + str(err), "ops": ops, "clock_readings": rd}))
                continue
            a, b, c = out[0].split(" | ")
            handles = [(int(x.split(":")[0]), int(x.split(":")[1]), x.split(":", 2)[2]) for x in a.split(",") if x]
            matrix = [(x.split(":")[0], int(x.split(":")[1]), x.split(":")[2]) for x in b.split(",") if x]
            probs = oracle_hist(ops, handles, matrix)
            # names must be what was set (clones inherit)
            mh, mm, mpos = lit(cvals["j%d" % k])
            real_h = [(st, cnt + 1) for st, cnt, _ in handles]
            enc = {"-1": 1, "0": 0, "1": 2}
            real_m = [int(f[0]) * 1000 + enc[str(cv)] * 100 + enc.get(pc, 8) * 10 + int(f[2]) for f, cv, pc in matrix]
            same = [tuple(x) for x in mh] == real_h and list(mm) == real_m and mpos == int(c)
            rep.nontrivial.add(("hist", len(handles), len(set(h[0] for h in handles)), sum(1 for o in ops if o[0] == "D") > 0))
            rep.count("history_ops", str(len(ops)))
            if probs:
                rep.oblige(False)
                failing.append(("runtime_hist_%s_%d" % (mod, k), {"what": probs, "module": mod, "ops (N new, C i clone, D i drop, R i rename; indices into the live list, newest first)": ops,
                                                                  "clock_readings": rd, "clock_afterwards": dflt, "observed": out[0], "replay": "echo '%s' | %s %s" % (jobs[k][1][0], binp, mod)}))
            elif not same:
                rep.oblige(False)
                drift.append(("correspondence_hist_%s_%d" % (mod, k), {"what": "Coq history model and the real code disagree (oracle holds on the real output)", "ops": ops, "clock_readings": rd,
                                                                       "observed": out[0], "model": [mh, mm, mpos]}))
            else:
                rep.oblige(True)
            if len(rep.samples) < 8 and k % 7 == 0:
                rep.sample({"module": mod, "history": ops, "readings": rd, "observed": out[0]})
        else:
            for line, what in zip(out or [], jobs[k][1]):
                rep.evaluations += 1
                rep.traces += 1
                total, distinct, mono = line.split()
                ok = total == distinct and mono == "true"
                rep.oblige(ok)
                rep.count("real_clock", what)
                if not ok:
                    failing.append(("runtime_realclock_%s" % mod, {"what": "on the real clock %s constructions from concurrent threads produced %s distinct stamps, per-thread increasing = %s" % (total, distinct, mono),
                                                                   "replay": "echo '%s' | %s %s" % (what, binp, mod)}))
            if out is None or len(out) < len(jobs[k][1]):
                rep.notes.append("real-clock smoke run inconclusive: %s" % err)
