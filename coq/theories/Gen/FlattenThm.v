(* Theorems about parameter flattening (Gen/Flatten.v), for all parameter lists. *)
From Coq Require Import List String Ascii Bool Arith Lia.
Import ListNotations.
From IT Require Import Gen.Flatten.
Open Scope string_scope.

(* ---- induction principle with the nested lists ---- *)
Section PatInd.
Variable P : pat -> Prop.
Hypothesis Hid : forall r m x, P (PIdent r m x).
Hypothesis Htu : forall l, Forall P l -> P (PTuple l).
Hypothesis Hts : forall q l, Forall P l -> P (PTupleStruct q l).
Hypothesis Hst : forall q f l r, Forall P l -> P (PStruct q f l r).
Hypothesis Hsl : forall l, Forall P l -> P (PSlice l).
Hypothesis Hre : P PRest.
Hypothesis Hwi : P PWild.
Hypothesis Hot : forall t, P (POther t).
Fixpoint pat_ind' (p : pat) : P p :=
  let fix all (l : list pat) : Forall P l :=
    match l with [] => Forall_nil P | q :: t => Forall_cons q (pat_ind' q) (all t) end in
  match p with
  | PIdent r m x => Hid r m x
  | PTuple l => Htu l (all l)
  | PTupleStruct q l => Hts q l (all l)
  | PStruct q f l r => Hst q f l r (all l)
  | PSlice l => Hsl l (all l)
  | PRest => Hre
  | PWild => Hwi
  | POther t => Hot t
  end.
End PatInd.

(* ---- strings ---- *)
Lemma sapp_assoc (a b c : string) : ((a ++ b) ++ c = a ++ b ++ c)%string.
Proof. induction a as [|x a IH]; cbn; [reflexivity|]. rewrite IH. reflexivity. Qed.

Lemma no_us_app_us a b : no_us (a ++ String underscore b) = false.
Proof.
  induction a as [|c a IH]; cbn.
  - try rewrite Ascii.eqb_refl; reflexivity.
  - rewrite IH. apply andb_false_r.
Qed.

Lemma split_unique : forall w w' r r', no_us w = true -> no_us w' = true ->
  (w ++ String underscore r = w' ++ String underscore r')%string -> w = w' /\ r = r'.
Proof.
  induction w as [|c w IH]; intros [|c' w'] r r' N N' E; cbn in *.
  - injection E as ->. auto.
  - injection E as <- _. rewrite Ascii.eqb_refl in N'. discriminate.
  - injection E as -> _. rewrite Ascii.eqb_refl in N. discriminate.
  - injection E as -> E. apply andb_prop in N. apply andb_prop in N'.
    destruct (IH w' r r' (proj2 N) (proj2 N') E) as [-> ->]. auto.
Qed.

(* ---- join ---- *)
Lemma join_cons2 w x t : join (w :: x :: t) = (w ++ String underscore (join (x :: t)))%string.
Proof. reflexivity. Qed.

Lemma join_app : forall ws vs, ws <> [] -> vs <> [] -> join (ws ++ vs)%list = (join ws ++ String underscore (join vs))%string.
Proof.
  induction ws as [|w t IH]; intros vs Hw Hv; [congruence|].
  destruct t as [|x t].
  - cbn [app]. destruct vs as [|v vs]; [congruence|]. reflexivity.
  - change ((w :: x :: t) ++ vs)%list with (w :: x :: (t ++ vs)%list). rewrite !join_cons2.
    change (x :: (t ++ vs)%list) with ((x :: t) ++ vs)%list. rewrite (IH vs) by (congruence || assumption).
    rewrite sapp_assoc. reflexivity.
Qed.

Lemma join_concat : forall wss, Forall (fun ws => ws <> []) wss -> join (map join wss) = join (List.concat wss).
Proof.
  induction wss as [|ws r IH]; intros F; [reflexivity|].
  inversion F as [|? ? Hn Fr]; subst. cbn [map List.concat].
  destruct r as [|ws2 r].
  - cbn. rewrite app_nil_r. reflexivity.
  - change (map join (ws2 :: r)) with (join ws2 :: map join r). rewrite join_cons2.
    change (join ws2 :: map join r) with (map join (ws2 :: r)). rewrite (IH Fr).
    rewrite join_app; auto.
    inversion Fr; subst. cbn. destruct ws2; [congruence|discriminate].
Qed.

Lemma combined_join : forall ws, ws <> [] -> combined ws = join ws.
Proof.
  intros [|w t] H; [congruence|]. cbn [combined]. clear H.
  enough (G : forall t w pre, fold_left (fun acc x => acc ++ "_" ++ x) t (pre ++ w) = pre ++ join (w :: t)) by exact (G t w "").
  clear. induction t as [|x t IH]; intros w pre; [reflexivity|].
  cbn [fold_left]. rewrite join_cons2.
  replace ((pre ++ w) ++ "_" ++ x) with ((pre ++ w ++ "_") ++ x) by (rewrite !sapp_assoc; reflexivity).
  rewrite IH. rewrite !sapp_assoc. reflexivity.
Qed.

Lemma join_inj : forall ws ws', forallb no_us ws = true -> forallb no_us ws' = true -> ws <> [] -> ws' <> [] ->
  join ws = join ws' -> ws = ws'.
Proof.
  induction ws as [|w t IH]; intros ws' N N' H H' E; [congruence|].
  destruct ws' as [|w' t']; [congruence|].
  cbn [forallb] in N, N'. apply andb_prop in N. apply andb_prop in N'. destruct N as [Nw Nt], N' as [Nw' Nt'].
  destruct t as [|x t], t' as [|x' t'].
  - cbn in E. congruence.
  - rewrite join_cons2 in E. cbn [join] in E. rewrite E, no_us_app_us in Nw. discriminate.
  - rewrite join_cons2 in E. cbn [join] in E. rewrite <- E, no_us_app_us in Nw'. discriminate.
  - rewrite !join_cons2 in E. destruct (split_unique _ _ _ _ Nw Nw' E) as [-> E2].
    f_equal. apply IH; auto; congruence.
Qed.

(* ---- flat_pat against its specification ---- *)
Lemma flat_composite (l : list pat) :
  (forall q, flat_pat (PTupleStruct q l) = flat_pat (PTuple l)) /\
  (forall q f r, flat_pat (PStruct q f l r) = flat_pat (PTuple l)) /\
  flat_pat (PSlice l) = flat_pat (PTuple l) /\
  flat_pat (PTuple l) = match flat_list l with Some ws => FName (combined ws) | None => FAbort end.
Proof.
  split; [reflexivity|]. split; [reflexivity|]. split; [reflexivity|].
  cbn [flat_pat].
  match goal with |- match ?g l with _ => _ end = _ => assert (E : forall k, g k = flat_list k) end.
  { induction k as [|q t IH]; [reflexivity|]. cbn [flat_list]. rewrite <- IH. reflexivity. }
  rewrite E. reflexivity.
Qed.

Definition nonrest (p : pat) : bool := negb (is_rest p).
Definition spec_name (p : pat) : string := join (words p).

Definition flat_spec (p : pat) : fres :=
  if supported p then (if is_rest p then FSkip else FName (spec_name p)) else FAbort.

Lemma flat_list_spec l : Forall (fun p => flat_pat p = flat_spec p) l ->
  flat_list l = if forallb supported l then Some (map spec_name (filter nonrest l)) else None.
Proof.
  induction l as [|q t IH]; intros F; [reflexivity|].
  inversion F as [|? ? Hq Ft]; subst. cbn [flat_list forallb filter]. rewrite Hq, (IH Ft). unfold flat_spec, nonrest.
  destruct (supported q); cbn; [|reflexivity].
  destruct (is_rest q); cbn; destruct (forallb supported t); reflexivity.
Qed.

Lemma words_nonempty p : supported p = true -> is_rest p = false -> words p <> [].
Proof.
  destruct p; cbn; intros S R; try discriminate.
  all: destruct (flat_map words l); discriminate.
Qed.

Lemma flat_map_words_filter l : flat_map words l = List.concat (map words (filter nonrest l)).
Proof.
  induction l as [|q t IH]; [reflexivity|]. cbn [flat_map filter]. unfold nonrest at 1.
  destruct q; cbn [is_rest negb map List.concat words]; rewrite IH; reflexivity.
Qed.

Lemma composite_name l : forallb supported l = true ->
  combined (map spec_name (filter nonrest l)) = join (match flat_map words l with [] => ["__"] | ws => ws end).
Proof.
  intros S. rewrite flat_map_words_filter.
  assert (F : Forall (fun ws => ws <> []) (map words (filter nonrest l))).
  { apply Forall_forall. intros ws Hin. apply in_map_iff in Hin. destruct Hin as (q & <- & Hq).
    apply filter_In in Hq. destruct Hq as [Hq Hn]. rewrite forallb_forall in S.
    apply words_nonempty; [apply S, Hq|]. unfold nonrest in Hn. destruct (is_rest q); [discriminate|reflexivity]. }
  destruct (filter nonrest l) as [|q t] eqn:E; [reflexivity|].
  assert (N : List.concat (map words (q :: t)) <> []).
  { cbn. inversion F; subst. destruct (words q); [congruence|discriminate]. }
  destruct (List.concat (map words (q :: t))) as [|c cs] eqn:Ec; [congruence|]. rewrite <- Ec.
  rewrite combined_join by discriminate.
  unfold spec_name. rewrite <- map_map. apply join_concat. exact F.
Qed.

Theorem flat_pat_spec : forall p, flat_pat p = flat_spec p.
Proof.
  assert (C : forall l, Forall (fun p => flat_pat p = flat_spec p) l ->
              flat_pat (PTuple l) = flat_spec (PTuple l)).
  { intros l F. destruct (flat_composite l) as (_ & _ & _ & ->). rewrite (flat_list_spec l F).
    unfold flat_spec. cbn [supported is_rest]. destruct (forallb supported l) eqn:S; [|reflexivity].
    rewrite composite_name by exact S. reflexivity. }
  induction p using pat_ind'; try reflexivity.
  - apply C. assumption.
  - destruct (flat_composite l) as (-> & _). rewrite (C l) by assumption. reflexivity.
  - destruct (flat_composite l) as (_ & -> & _). rewrite (C l) by assumption. reflexivity.
  - destruct (flat_composite l) as (_ & _ & -> & _). rewrite (C l) by assumption. reflexivity.
Qed.

(* ---- ref / mut ---- *)
Lemma strip_all_flat : forall p, flat_pat (strip_all p) = flat_pat p.
Proof.
  assert (L : forall l, Forall (fun p => flat_pat (strip_all p) = flat_pat p) l -> flat_list (map strip_all l) = flat_list l).
  { induction l as [|q t IH]; intros F; [reflexivity|]. inversion F; subst. cbn [map flat_list]. rewrite H1, IH by assumption. reflexivity. }
  induction p using pat_ind'; try reflexivity; cbn [strip_all].
  - destruct (flat_composite (map strip_all l)) as (_ & _ & _ & ->). destruct (flat_composite l) as (_ & _ & _ & ->). rewrite L by assumption. reflexivity.
  - destruct (flat_composite (map strip_all l)) as (-> & _ & _ & ->). destruct (flat_composite l) as (-> & _ & _ & ->). rewrite L by assumption. reflexivity.
  - destruct (flat_composite (map strip_all l)) as (_ & -> & _ & ->). destruct (flat_composite l) as (_ & -> & _ & ->). rewrite L by assumption. reflexivity.
  - destruct (flat_composite (map strip_all l)) as (_ & _ & -> & ->). destruct (flat_composite l) as (_ & _ & -> & ->). rewrite L by assumption. reflexivity.
Qed.

Lemma clear_ref_mut_flat p : match clear_ref_mut p with Some p' => flat_pat p' = flat_pat p | None => flat_pat p = FAbort end.
Proof. destruct p; reflexivity. Qed.

Lemma clear_ref_mut_ident p p' : clear_ref_mut p = Some p' -> is_ident p' = is_ident p.
Proof. destruct p; cbn; intros E; inversion E; reflexivity. Qed.

Lemma smem_In x l : smem x l = true <-> In x l.
Proof.
  unfold smem. rewrite existsb_exists. split.
  - intros (y & Hy & E). apply String.eqb_eq in E. subst. exact Hy.
  - intros H. exists x. split; [exact H|apply String.eqb_refl].
Qed.
Lemma smem_false x l : smem x l = false <-> ~ In x l.
Proof. rewrite <- smem_In. destruct (smem x l); split; congruence. Qed.

Section Args.
Context {T : Type}.
Notation params := (list (pat * T)).
Definition names (ps : params) : list string := map (fun q => spec_name (fst q)) ps.
(* a flattened (non-identifier) pattern does not produce a name the generated code binds itself *)
Definition no_flat_reserved (ps : params) : Prop :=
  Forall (fun q => is_ident (fst q) = false -> ~ In (spec_name (fst q)) reserved_flat) ps.

(* stripping `ref` / `mut` first never changes what the flattening produces *)
Lemma clean_flat_from : forall (ps ps' : params) seen, clean_pats ps = Some ps' -> flat_args_from seen ps' = flat_args_from seen ps.
Proof.
  induction ps as [|[p t] r IH]; intros ps' seen H; cbn [clean_pats] in H.
  - injection H as <-. reflexivity.
  - pose proof (clear_ref_mut_flat p) as F. pose proof (clear_ref_mut_ident p) as I.
    destruct (clear_ref_mut p) as [p'|]; [|discriminate]. destruct (clean_pats r) as [r'|] eqn:E; [|discriminate].
    injection H as <-. cbn [flat_args_from]. rewrite F, (I p' eq_refl).
    destruct (flat_pat p); try reflexivity. destruct (smem s seen); [reflexivity|].
    destruct (negb (is_ident p) && smem s reserved_flat); [reflexivity|]. rewrite (IH r' (s :: seen) eq_refl). reflexivity.
Qed.

Lemma clean_none_not_ok : forall (ps : params), clean_pats ps = None -> forall seen qs, flat_args_from seen ps <> AOk qs.
Proof.
  induction ps as [|[p t] r IH]; intros H seen qs; cbn [clean_pats] in H; [discriminate|].
  pose proof (clear_ref_mut_flat p) as F. cbn [flat_args_from].
  destruct (clear_ref_mut p) as [p'|].
  - destruct (clean_pats r) as [r'|]; [discriminate|].
    destruct (flat_pat p); try discriminate. destruct (smem s seen); [discriminate|].
    destruct (negb (is_ident p) && smem s reserved_flat); [discriminate|].
    destruct (flat_args_from (s :: seen) r) eqn:E; try discriminate. exfalso. exact (IH eq_refl _ _ E).
  - rewrite F. discriminate.
Qed.

Theorem live_args_ok : forall (ps : params) qs, live_args ps = AOk qs <-> flat_arguments ps = AOk qs.
Proof.
  intros ps qs. unfold live_args, flat_arguments. destruct (clean_pats ps) as [ps'|] eqn:E.
  - rewrite (clean_flat_from ps ps' [] E). tauto.
  - split; [discriminate|]. intros H. exfalso. exact (clean_none_not_ok ps E _ _ H).
Qed.

(* one identifier per parameter, same position, same type *)
Lemma flat_from_positions : forall (ps : params) seen qs, flat_args_from seen ps = AOk qs ->
  List.length qs = List.length ps /\ map snd qs = map snd ps /\
  forall i p t, nth_error ps i = Some (p, t) -> exists s, flat_pat p = FName s /\ nth_error qs i = Some (s, t).
Proof.
  induction ps as [|[p t] r IH]; intros seen qs H; cbn [flat_args_from] in H.
  - injection H as <-. repeat split; auto. intros [|i] p t H; discriminate H.
  - destruct (flat_pat p) as [s| |] eqn:E; try discriminate. destruct (smem s seen); [discriminate|].
    destruct (negb (is_ident p) && smem s reserved_flat); [discriminate|].
    destruct (flat_args_from (s :: seen) r) as [q| |] eqn:Er; try discriminate.
    injection H as <-. destruct (IH _ q Er) as (L & M & N). cbn. repeat split; [congruence|congruence|].
    intros [|i] p0 t0 Hn; cbn in Hn.
    + injection Hn as <- <-. exists s. auto.
    + exact (N i p0 t0 Hn).
Qed.

Lemma flat_from_names : forall (ps : params) seen qs, flat_args_from seen ps = AOk qs -> map fst qs = names ps.
Proof.
  induction ps as [|[p t] r IH]; intros seen qs H; cbn [flat_args_from] in H.
  - injection H as <-. reflexivity.
  - rewrite flat_pat_spec in H. unfold flat_spec in H. destruct (supported p); [|discriminate].
    destruct (is_rest p); [discriminate|]. destruct (smem (spec_name p) seen); [discriminate|].
    destruct (negb (is_ident p) && smem (spec_name p) reserved_flat); [discriminate|].
    destruct (flat_args_from (spec_name p :: seen) r) as [q| |] eqn:Er; try discriminate.
    injection H as <-. cbn. rewrite (IH _ q Er). reflexivity.
Qed.

(* the repaired flattening succeeds exactly when every pattern is of a documented form, the identifiers are pairwise distinct
   (and new w.r.t. [seen]) and no flattened pattern produces a reserved name; otherwise it is a diagnostic *)
Definition ok_params (seen : list string) (ps : params) : Prop :=
  forallb (fun q => supported_param (fst q)) ps = true /\ NoDup (names ps) /\ (forall x, In x (names ps) -> ~ In x seen) /\ no_flat_reserved ps.

Theorem flat_from_ok_iff : forall (ps : params) seen, (exists qs, flat_args_from seen ps = AOk qs) <-> ok_params seen ps.
Proof.
  unfold ok_params, no_flat_reserved. induction ps as [|[p t] r IH]; intros seen.
  - cbn. split; [intros _; split; [reflexivity|]; split; [constructor|]; split; [intros x []|constructor]|intros _; eauto].
  - cbn [flat_args_from forallb names map fst]. rewrite flat_pat_spec. unfold flat_spec, supported_param.
    destruct (supported p); cbn [andb]; [|split; [intros (qs & H); discriminate|intros (H & _); discriminate]].
    destruct (is_rest p); cbn [negb andb]; [split; [intros (qs & H); discriminate|intros (H & _); discriminate]|].
    destruct (smem (spec_name p) seen) eqn:S.
    { split; [intros (qs & H); discriminate|]. intros (_ & _ & D & _). exfalso. apply (D (spec_name p)); [left; reflexivity|apply smem_In, S]. }
    apply smem_false in S.
    destruct (is_ident p) eqn:Ii; cbn [negb andb].
    + specialize (IH (spec_name p :: seen)). split.
      * intros (qs & H). destruct (flat_args_from (spec_name p :: seen) r) as [q| |] eqn:Er; try discriminate.
        destruct (proj1 IH (ex_intro _ q eq_refl)) as (A1 & A2 & A3 & A4).
        split; [exact A1|]. split; [|split].
        -- constructor; [|exact A2]. intros Hin. apply (A3 _ Hin). left. reflexivity.
        -- intros x [<-|Hx]; [exact S|]. intros Hs. apply (A3 x Hx). right. exact Hs.
        -- constructor; [cbn; congruence|exact A4].
      * intros (A1 & A2 & A3 & A4). inversion A2 as [|? ? N1 N2]; subst. inversion A4 as [|? ? R1 R2]; subst.
        destruct (proj2 IH) as (q & Hq).
        { split; [exact A1|]. split; [exact N2|]. split; [|exact R2]. intros x Hx [<-|Hs]; [contradiction|]. apply (A3 x); [right; exact Hx|exact Hs]. }
        rewrite Hq. eauto.
    + destruct (smem (spec_name p) reserved_flat) eqn:R.
      { split; [intros (qs & H); discriminate|]. intros (_ & _ & _ & F). inversion F as [|? ? R1 R2]; subst. exfalso. apply (R1 Ii). apply smem_In, R. }
      apply smem_false in R. specialize (IH (spec_name p :: seen)). split.
      * intros (qs & H). destruct (flat_args_from (spec_name p :: seen) r) as [q| |] eqn:Er; try discriminate.
        destruct (proj1 IH (ex_intro _ q eq_refl)) as (A1 & A2 & A3 & A4).
        split; [exact A1|]. split; [|split].
        -- constructor; [|exact A2]. intros Hin. apply (A3 _ Hin). left. reflexivity.
        -- intros x [<-|Hx]; [exact S|]. intros Hs. apply (A3 x Hx). right. exact Hs.
        -- constructor; [cbn; intros _; exact R|exact A4].
      * intros (A1 & A2 & A3 & A4). inversion A2 as [|? ? N1 N2]; subst. inversion A4 as [|? ? R1 R2]; subst.
        destruct (proj2 IH) as (q & Hq).
        { split; [exact A1|]. split; [exact N2|]. split; [|exact R2]. intros x Hx [<-|Hs]; [contradiction|]. apply (A3 x); [right; exact Hx|exact Hs]. }
        rewrite Hq. eauto.
Qed.

(* the identifiers of a successful flattening are pairwise distinct - unconditionally *)
Theorem flat_distinct : forall (ps : params) qs, flat_arguments ps = AOk qs -> NoDup (map fst qs) /\ no_flat_reserved ps.
Proof.
  intros ps qs H. destruct (proj1 (flat_from_ok_iff ps []) (ex_intro _ qs H)) as (_ & N & _ & R).
  rewrite (flat_from_names ps [] qs H). auto.
Qed.
End Args.

(* ---- distinct binders give distinct identifiers (guarded) ---- *)
Lemma words_binders : forall p, forallb no_us (words p) = true -> words p = binders p.
Proof.
  assert (L : forall l, Forall (fun p => forallb no_us (words p) = true -> words p = binders p) l ->
              forallb no_us (flat_map words l) = true -> flat_map words l = flat_map binders l).
  { induction l as [|q t IH]; intros F N; [reflexivity|]. inversion F; subst. cbn [flat_map] in *.
    rewrite forallb_app in N. apply andb_prop in N. destruct N. rewrite H1, IH; auto. }
  assert (C : forall l, Forall (fun p => forallb no_us (words p) = true -> words p = binders p) l ->
              forallb no_us (match flat_map words l with [] => ["__"] | ws => ws end) = true ->
              match flat_map words l with [] => ["__"] | ws => ws end = flat_map binders l).
  { intros l F N. destruct (flat_map words l) eqn:E; [discriminate N|]. rewrite <- E in *. apply L; assumption. }
  induction p using pat_ind'; try reflexivity; cbn [words binders]; apply C; assumption.
Qed.

Lemma nodup_app_disjoint {X} (a b : list X) x : NoDup (a ++ b)%list -> In x a -> In x b -> False.
Proof.
  induction a as [|y a IH]; cbn; intros N Ha Hb; [contradiction|].
  inversion N; subst. destruct Ha as [->|Ha]; [apply H1, in_or_app; auto|]. apply IH; auto.
Qed.
Lemma nodup_app_r {X} (a b : list X) : NoDup (a ++ b)%list -> NoDup b.
Proof. induction a; cbn; intros N; [assumption|]. inversion N; auto. Qed.

Lemma nodup_concat_nonempty {X} (ls : list (list X)) : NoDup (List.concat ls) -> Forall (fun l => l <> []) ls -> NoDup ls.
Proof.
  induction ls as [|l r IH]; intros N F; [constructor|]. inversion F; subst. cbn in N. constructor.
  - intros Hin. destruct l as [|h l]; [congruence|].
    apply (nodup_app_disjoint _ _ h N); [left; reflexivity|]. apply in_concat. exists (h :: l). split; [assumption|left; reflexivity].
  - apply IH; [exact (nodup_app_r _ _ N)|assumption].
Qed.

Lemma nodup_map_inj {X Y} (f : X -> Y) (l : list X) :
  NoDup l -> (forall x y, In x l -> In y l -> f x = f y -> x = y) -> NoDup (map f l).
Proof.
  induction l as [|a l IH]; intros N I; [constructor|]. inversion N; subst. cbn. constructor.
  - intros Hin. apply in_map_iff in Hin. destruct Hin as (y & E & Hy).
    assert (y = a) by (apply I; cbn; auto). subst. contradiction.
  - apply IH; auto. intros x y Hx Hy. apply I; cbn; auto.
Qed.

Section Distinct.
Context {T : Type}.
Lemma names_distinct_guarded : forall (ps : list (pat * T)), forallb (fun q => supported_param (fst q)) ps = true ->
  plain_words (map fst ps) = true -> NoDup (flat_map binders (map fst ps)) -> NoDup (names ps).
Proof.
  intros ps S P N. unfold names.
  unfold plain_words in P. rewrite forallb_forall in P, S.
  assert (W : forall q, In q ps -> words (fst q) = binders (fst q)).
  { intros q Hq. apply words_binders, P, in_map, Hq. }
  replace (map (fun q => spec_name (fst q)) ps) with (map join (map (fun q => words (fst q)) ps)) by (rewrite map_map; reflexivity).
  assert (NE : Forall (fun l => l <> []) (map (fun q => words (fst q)) ps)).
  { apply Forall_forall. intros l Hl. apply in_map_iff in Hl. destruct Hl as (q & <- & Hq).
    specialize (S q Hq). unfold supported_param in S. apply andb_prop in S. destruct S as [S1 S2].
    apply words_nonempty; [assumption|]. destruct (is_rest (fst q)); [discriminate|reflexivity]. }
  apply nodup_map_inj.
  - apply nodup_concat_nonempty; [|exact NE].
    replace (List.concat (map (fun q => words (fst q)) ps)) with (flat_map binders (map fst ps)); [exact N|].
    rewrite flat_map_concat_map, map_map. f_equal. apply map_ext_in. intros q Hq. symmetry. apply W, Hq.
  - intros x y Hx Hy E. apply in_map_iff in Hx. apply in_map_iff in Hy.
    destruct Hx as (qx & <- & Hqx), Hy as (qy & <- & Hqy).
    apply join_inj; auto.
    + apply P, in_map, Hqx.
    + apply P, in_map, Hqy.
    + rewrite Forall_forall in NE. apply NE, in_map_iff. eauto.
    + rewrite Forall_forall in NE. apply NE, in_map_iff. eauto.
Qed.

(* no spurious diagnostic: documented patterns, distinct `_`-free binders, no empty composite pattern, no flattened reserved name *)
Theorem flat_no_spurious : forall (ps : list (pat * T)), forallb (fun q => supported_param (fst q)) ps = true ->
  plain_words (map fst ps) = true -> NoDup (flat_map binders (map fst ps)) -> no_flat_reserved ps ->
  exists qs, flat_arguments ps = AOk qs.
Proof.
  intros ps S P N R. apply (flat_from_ok_iff ps []). repeat split; auto.
  apply names_distinct_guarded; assumption.
Qed.
End Distinct.

(* the former counterexamples of "distinct binders give distinct identifiers" are now naming-conflict diagnostics *)
Definition collide_witness : list (pat * unit) :=
  [(PTuple [PIdent false false "a"; PIdent false false "b"], tt); (PIdent false false "a_b", tt)].
Definition collide_witness2 : list (pat * unit) := [(PTuple [PRest], tt); (PSlice [PRest], tt)].
Definition collide_witness3 : list (pat * unit) := [(PTuple [PIdent false false "inter"; PIdent false false "send"], tt)].
Lemma collide_diag : live_args collide_witness = AConflict "a_b" /\ NoDup (flat_map binders (map fst collide_witness))
  /\ live_args collide_witness2 = AConflict "__" /\ live_args collide_witness3 = AConflict "inter_send".
Proof. repeat split; try (vm_compute; reflexivity). cbn. repeat constructor; cbn; intuition discriminate. Qed.

(* a plain parameter named `actor` (the former internal binder) is an ordinary identifier *)
Example actor_is_plain : live_args [(PIdent false false "actor", tt); (PTuple [PIdent false true "actor2"], tt)] = AOk [("actor", tt); ("actor2", tt)].
Proof. vm_compute. reflexivity. Qed.

(* the hypotheses of flat_no_spurious are satisfiable by a non-trivial parameter list *)
Example flat_distinct_example :
  let ps := [(PTuple [PIdent true true "k"; PRest; PTupleStruct "T" [PIdent false false "actor"]], 1);
             (PStruct "P" ["a"; "b"] [PIdent false false "a"; PSlice [PIdent false true "c"; PRest]] true, 2);
             (PIdent false true "msg", 3)] in
  flat_arguments ps = AOk [("k_actor", 1); ("a_c", 2); ("msg", 3)]
  /\ forallb (fun q => supported_param (fst q)) ps = true
  /\ plain_words (map fst ps) = true /\ NoDup (flat_map binders (map fst ps)) /\ no_flat_reserved ps.
Proof.
  cbn. repeat split.
  - repeat constructor; cbn; intuition discriminate.
  - unfold no_flat_reserved. repeat constructor; cbn; intuition discriminate.
Qed.
