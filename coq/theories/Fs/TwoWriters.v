(* Fs/TwoWriters.v -- two compiler processes (a terminal build and an IDE check) rewrite the same source
   file at the same time (C17).

   Each process executes its own flat operation list `real_ops p tX newX` (Fs/CrashThm.v) from the front; a
   schedule interleaves the two lists operation by operation and may kill either process at any operation
   boundary or any byte offset inside its write.

   Result: with process-private temp files (tA <> tB, which is what `tmp_of p (real_suffix pid)` gives for two
   different pids) the target always holds the old content or one of the two new contents, whatever the
   schedule.  With a SHARED temp file this is false: there is a schedule that leaves the target empty. *)
From Coq Require Import List String Ascii NArith Bool Arith Lia.
Import ListNotations.
From IT Require Import Fs.Crash Fs.CrashThm.

(* ------------------------------------------------------------------------------------------ *)
(* interleaving semantics                                                                       *)
(* ------------------------------------------------------------------------------------------ *)
(* The state of one process is the list of operations it still has to execute; [] = finished, killed or
   stopped on its error path.

   One pick of a process (own temp file t) with choice c:
     - nothing left: no-op;
     - c = Some k: the next operation takes its partial effect k, then the process is dead;
     - c = None, next operation enabled: its full effect, the process advances;
     - c = None, next operation not enabled (ENOENT): the process takes its error path and stops.  The error
       path of src/write.rs is `remove_file(tmp)` (Crash.v `cleanup`); `cl = true` models it as `upd d t None`
       (executed in the same step as the failing operation), `cl = false` models it as just stopping (the
       removal itself failed or the process was killed first).  Everything below is proved for BOTH. *)
Definition step1 (cl : bool) (t : path) (rem : list fs_op) (c : option nat) (d : disk) : list fs_op * disk :=
  match rem with
  | [] => ([], d)
  | o :: r =>
      match c with
      | Some k => ([], partial_effect o k d)
      | None => if enabled o d then (r, full_effect o d)
                else ([], if cl then upd d t None else d)
      end
  end.

(* the two processes from arbitrary remaining lists; who = true picks A, who = false picks B *)
Fixpoint run2_from (cl : bool) (tA tB : path) (remA remB : list fs_op)
                   (sched : list (bool * option nat)) (d : disk) : disk :=
  match sched with
  | [] => d
  | (who, c) :: s =>
      if who then let '(remA', d') := step1 cl tA remA c d in run2_from cl tA tB remA' remB s d'
      else let '(remB', d') := step1 cl tB remB c d in run2_from cl tA tB remA remB' s d'
  end.

Definition run2_gen (cl : bool) (p tA : path) (newA : content) (tB : path) (newB : content)
                    (sched : list (bool * option nat)) (d : disk) : disk :=
  run2_from cl tA tB (real_ops p tA newA) (real_ops p tB newB) sched d.

(* the model: the error path removes the process's own temp file (what the real code does) *)
Definition run2 (p tA : path) (newA : content) (tB : path) (newB : content)
                (sched : list (bool * option nat)) (d : disk) : disk :=
  run2_gen true p tA newA tB newB sched d.

(* the variant in which the error path does nothing *)
Definition run2_stop (p tA : path) (newA : content) (tB : path) (newB : content)
                     (sched : list (bool * option nat)) (d : disk) : disk :=
  run2_gen false p tA newA tB newB sched d.

(* ------------------------------------------------------------------------------------------ *)
(* the invariant                                                                                *)
(* ------------------------------------------------------------------------------------------ *)
(* what a process at program counter pc knows about its OWN temp file:
     pc = 0 (nothing done yet) : nothing (absent / stale file of an earlier run / anything)
     pc = 1 (created)          : exists and is empty
     pc = 2..5 (written)       : holds exactly the new content
     pc >= 6 (done / dead)     : nothing *)
Definition tmp_inv (t : path) (new : content) (pc : nat) (d : disk) : Prop :=
  match pc with
  | 0 => True
  | 1 => d t = Some []
  | 2 | 3 | 4 | 5 => d t = Some new
  | _ => True
  end.

(* how far the process is (its remaining list is the suffix of real_ops from pc on; pc >= 6 gives []),
   and what its temp file holds *)
Definition proc_inv (p t : path) (new : content) (rem : list fs_op) (d : disk) : Prop :=
  exists pc, rem = skipn pc (real_ops p t new) /\ tmp_inv t new pc d.

Definition target_ok (p : path) (old newA newB : content) (d : disk) : Prop :=
  d p = Some old \/ d p = Some newA \/ d p = Some newB.

Definition inv2 (p tA : path) (newA : content) (tB : path) (newB : content) (old : content)
                (remA remB : list fs_op) (d : disk) : Prop :=
  target_ok p old newA newB d /\ proc_inv p tA newA remA d /\ proc_inv p tB newB remB d.

Lemma proc_inv_dead : forall p t new d, proc_inv p t new [] d.
Proof. intros p t new d. exists 6. split; [reflexivity | exact I]. Qed.

Lemma proc_inv_start : forall p t new d, proc_inv p t new (real_ops p t new) d.
Proof. intros p t new d. exists 0. split; [reflexivity | exact I]. Qed.

(* the invariant of a process only looks at its own temp file *)
Lemma proc_inv_ext : forall p t new rem d d', d' t = d t -> proc_inv p t new rem d -> proc_inv p t new rem d'.
Proof.
  intros p t new rem d d' E [pc [Hrem Ht]]. exists pc. split; [exact Hrem|].
  do 7 (try destruct pc as [|pc]); simpl in *; try rewrite E; auto.
Qed.

(* one step of a process: it keeps its own invariant, leaves the target alone or puts its new content
   there, and touches no other path *)
Lemma step1_own : forall cl p t new rem c d rem' d',
  t <> p -> proc_inv p t new rem d -> step1 cl t rem c d = (rem', d') ->
  proc_inv p t new rem' d'
  /\ (d' p = d p \/ d' p = Some new)
  /\ (forall q, q <> t -> q <> p -> d' q = d q).
Proof.
  intros cl p t new rem c d rem' d' Hne [pc [Hrem Ht]] Hs.
  assert (Hne' : p <> t) by congruence.
  assert (E : String.eqb t p = false) by (apply String.eqb_neq; exact Hne).
  assert (Dead : forall x, proc_inv p t new [] x) by (intro x; apply proc_inv_dead).
  assert (Cl : forall x : disk, (if cl then upd x t None else x) p = x p)
    by (intro x; destruct cl; [apply upd_other; exact Hne' | reflexivity]).
  assert (ClQ : forall (x : disk) q, q <> t -> (if cl then upd x t None else x) q = x q)
    by (intros x q Hq; destruct cl; [apply upd_other; exact Hq | reflexivity]).
  unfold real_ops in Hrem.
  do 6 (try destruct pc as [|pc]); simpl in Hrem, Ht; try rewrite skipn_nil in Hrem; subst rem; unfold step1 in Hs.
  - (* pc = 0: OpenCreateTrunc t *)
    destruct c as [k|]; simpl in Hs; injection Hs as <- <-.
    + split; [apply Dead|]. split; [left; reflexivity | intros; reflexivity].
    + split; [|split].
      * exists 1. split; [reflexivity|]. simpl. apply upd_same.
      * left. apply upd_other; exact Hne'.
      * intros q Hq _. apply upd_other; exact Hq.
  - (* pc = 1: Write t new *)
    destruct c as [k|].
    + simpl in Hs; injection Hs as <- <-. split; [apply Dead|].
      split; [left; apply append_at_other; exact Hne' | intros q Hq _; apply append_at_other; exact Hq].
    + unfold enabled, exists_at in Hs. rewrite Ht in Hs. simpl in Hs. injection Hs as <- <-.
      split; [|split].
      * exists 2. split; [reflexivity|]. simpl. rewrite (append_at_same d t new [] Ht). reflexivity.
      * left. apply append_at_other; exact Hne'.
      * intros q Hq _. apply append_at_other; exact Hq.
  - (* pc = 2: Fsync t *)
    destruct c as [k|].
    + simpl in Hs; injection Hs as <- <-. split; [apply Dead|]. split; [left; reflexivity | intros; reflexivity].
    + unfold enabled, exists_at in Hs. rewrite Ht in Hs. simpl in Hs. injection Hs as <- <-.
      split; [|split; [left; reflexivity | intros; reflexivity]].
      exists 3. split; [reflexivity | exact Ht].
  - (* pc = 3: Stat p *)
    destruct c as [k|].
    + simpl in Hs; injection Hs as <- <-. split; [apply Dead|]. split; [left; reflexivity | intros; reflexivity].
    + destruct (enabled (Stat p) d); simpl in Hs; injection Hs as <- <-.
      * split; [|split; [left; reflexivity | intros; reflexivity]].
        exists 4. split; [reflexivity | exact Ht].
      * split; [apply Dead|]. split; [left; apply Cl | intros q Hq _; apply ClQ; exact Hq].
  - (* pc = 4: SetPerm t *)
    destruct c as [k|].
    + simpl in Hs; injection Hs as <- <-. split; [apply Dead|]. split; [left; reflexivity | intros; reflexivity].
    + unfold enabled, exists_at in Hs. rewrite Ht in Hs. simpl in Hs. injection Hs as <- <-.
      split; [|split; [left; reflexivity | intros; reflexivity]].
      exists 5. split; [reflexivity | exact Ht].
  - (* pc = 5: Rename t p *)
    destruct c as [k|].
    + simpl in Hs; injection Hs as <- <-. split; [apply Dead|]. split; [left; reflexivity | intros; reflexivity].
    + unfold enabled, exists_at in Hs. rewrite Ht in Hs. simpl in Hs. rewrite Ht, E in Hs. injection Hs as <- <-.
      split; [apply Dead|]. split.
      * right. rewrite upd_other by exact Hne'. apply upd_same.
      * intros q Hq Hqp. rewrite upd_other by exact Hq. apply upd_other; exact Hqp.
  - (* pc >= 6: nothing left *)
    simpl in Hs. injection Hs as <- <-.
    split; [apply Dead|]. split; [left; reflexivity | intros; reflexivity].
Qed.

(* the invariant is preserved along every schedule, hence holds of the final disk *)
Lemma run2_from_inv : forall cl p tA newA tB newB old sched remA remB d,
  tA <> p -> tB <> p -> tA <> tB ->
  inv2 p tA newA tB newB old remA remB d ->
  target_ok p old newA newB (run2_from cl tA tB remA remB sched d).
Proof.
  intros cl p tA newA tB newB old sched.
  induction sched as [|[who c] s IH]; intros remA remB d HA HB HAB [Ht [IA IB]].
  - exact Ht.
  - assert (HBA : tB <> tA) by congruence.
    simpl. destruct who.
    + destruct (step1 cl tA remA c d) as [remA' d'] eqn:Hs.
      destruct (step1_own cl p tA newA remA c d remA' d' HA IA Hs) as [IA' [Hp Hfr]].
      apply IH; try assumption. split; [|split].
      * destruct Hp as [Hp | Hp]; [|right; left; exact Hp].
        unfold target_ok. rewrite Hp. exact Ht.
      * exact IA'.
      * apply (proc_inv_ext p tB newB remB d d'); [apply Hfr; assumption | exact IB].
    + destruct (step1 cl tB remB c d) as [remB' d'] eqn:Hs.
      destruct (step1_own cl p tB newB remB c d remB' d' HB IB Hs) as [IB' [Hp Hfr]].
      apply IH; try assumption. split; [|split].
      * destruct Hp as [Hp | Hp]; [|right; right; exact Hp].
        unfold target_ok. rewrite Hp. exact Ht.
      * apply (proc_inv_ext p tA newA remA d d'); [apply Hfr; assumption | exact IA].
      * exact IB'.
Qed.

Theorem two_writers_private_gen : forall cl p tA tB old newA newB d sched,
  tA <> p -> tB <> p -> tA <> tB -> d p = Some old ->
  let d' := run2_gen cl p tA newA tB newB sched d in
  d' p = Some old \/ d' p = Some newA \/ d' p = Some newB.
Proof.
  intros cl p tA tB old newA newB d sched HA HB HAB Hd. simpl. unfold run2_gen.
  apply (run2_from_inv cl p tA newA tB newB old sched); try assumption.
  split; [left; exact Hd|]. split; apply proc_inv_start.
Qed.

(* the main theorem: process-private temp files *)
Theorem two_writers_private : forall p tA tB old newA newB d sched,
  tA <> p -> tB <> p -> tA <> tB -> d p = Some old ->
  let d' := run2 p tA newA tB newB sched d in
  d' p = Some old \/ d' p = Some newA \/ d' p = Some newB.
Proof. intros p tA tB old newA newB d sched. apply (two_writers_private_gen true). Qed.

(* the same when the error path does nothing *)
Theorem two_writers_private_stop : forall p tA tB old newA newB d sched,
  tA <> p -> tB <> p -> tA <> tB -> d p = Some old ->
  let d' := run2_stop p tA newA tB newB sched d in
  d' p = Some old \/ d' p = Some newA \/ d' p = Some newB.
Proof. intros p tA tB old newA newB d sched. apply (two_writers_private_gen false). Qed.

(* ------------------------------------------------------------------------------------------ *)
(* temp files of different pids differ                                                          *)
(* ------------------------------------------------------------------------------------------ *)
Lemma string_append_inj_l : forall p a b : string, (p ++ a)%string = (p ++ b)%string -> a = b.
Proof.
  induction p as [|ch p IH]; intros a b H.
  - exact H.
  - change ((String ch p ++ a)%string) with (String ch (p ++ a)%string) in H.
    change ((String ch p ++ b)%string) with (String ch (p ++ b)%string) in H.
    injection H as H. apply IH; exact H.
Qed.

Theorem real_tmp_pid_differs : forall p a b, a <> b -> tmp_of p (real_suffix a) <> tmp_of p (real_suffix b).
Proof.
  intros p a b Hab H. unfold tmp_of, real_suffix in H.
  apply string_append_inj_l in H. apply string_append_inj_l in H. exact (Hab H).
Qed.

Corollary two_writers_real_tmp : forall p pidA pidB old newA newB d sched,
  pidA <> pidB -> d p = Some old ->
  let d' := run2 p (tmp_of p (real_suffix pidA)) newA (tmp_of p (real_suffix pidB)) newB sched d in
  d' p = Some old \/ d' p = Some newA \/ d' p = Some newB.
Proof.
  intros p pidA pidB old newA newB d sched Hpid Hd.
  apply two_writers_private.
  - apply real_tmp_differs.
  - apply real_tmp_differs.
  - apply real_tmp_pid_differs; exact Hpid.
  - exact Hd.
Qed.

(* ------------------------------------------------------------------------------------------ *)
(* refutation: a shared temp file                                                               *)
(* ------------------------------------------------------------------------------------------ *)
(* A: create temp, write, fsync;  B: create/truncate the same temp, then killed before its write;
   A: stat, set permissions, rename  ->  the target is EMPTY.
   No operation is ever disabled in this schedule, so the error-path choice plays no role. *)
Definition shared_sched : list (bool * option nat) :=
  [(true, None); (true, None); (true, None);        (* A: OpenCreateTrunc t; Write t newA; Fsync t *)
   (false, None); (false, Some 0);                  (* B: OpenCreateTrunc t; killed 0 bytes into Write t newB *)
   (true, None); (true, None); (true, None)].       (* A: Stat p; SetPerm t; Rename t p *)

Definition w_newB : content := [98;121;101]%N.      (* "bye" *)

Theorem two_writers_shared_refuted :
  let p := "src/lib.rs"%string in
  let t := "src/lib.rs.inter_tmp"%string in
  let d := disk0 p w_old in
  t <> p /\ d p = Some w_old /\ w_old <> [] /\ w_new <> [] /\ w_newB <> []
  /\ run2 p t w_new t w_newB shared_sched d p = Some []
  /\ run2_stop p t w_new t w_newB shared_sched d p = Some [].
Proof.
  vm_compute. repeat split; try discriminate.
Qed.

(* hence the hypothesis tA <> tB of two_writers_private cannot be dropped *)
Theorem two_writers_shared_not_atomic :
  ~ (forall p tA tB old newA newB d sched,
       tA <> p -> tB <> p -> d p = Some old ->
       let d' := run2 p tA newA tB newB sched d in
       d' p = Some old \/ d' p = Some newA \/ d' p = Some newB).
Proof.
  intros H.
  destruct two_writers_shared_refuted as [Hne [Hd [_ [_ [_ [R _]]]]]].
  specialize (H _ _ _ _ w_new w_newB _ shared_sched Hne Hne Hd). simpl in H.
  rewrite R in H. destruct H as [H | [H | H]]; vm_compute in H; discriminate.
Qed.

(* the private schedule is not vacuous: with distinct temp files the same schedule ends with A's content,
   and letting both run to completion ends with the content of whoever renamed last *)
Example ex_private_same_sched :
  run2 "src/lib.rs"%string "src/lib.rs.inter_tmp_1"%string w_new "src/lib.rs.inter_tmp_2"%string w_newB
       shared_sched (disk0 "src/lib.rs"%string w_old) "src/lib.rs"%string = Some w_new.
Proof. vm_compute. reflexivity. Qed.

Example ex_private_both_finish :
  let d' := run2 "src/lib.rs"%string "src/lib.rs.inter_tmp_1"%string w_new "src/lib.rs.inter_tmp_2"%string w_newB
       (flat_map (fun _ => [(true, None); (false, None)]) (seq 0 6)) (disk0 "src/lib.rs"%string w_old) in
  d' "src/lib.rs"%string = Some w_newB
  /\ d' "src/lib.rs.inter_tmp_1"%string = None /\ d' "src/lib.rs.inter_tmp_2"%string = None.
Proof. vm_compute. repeat split. Qed.
