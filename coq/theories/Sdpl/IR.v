(* SDPL-IR: named abstract syntax of one generated model (message enum, direct, play,
   handle struct and its methods).  Produced per run by the translator from the real
   expansion; identifiers are kept as written, resolution happens in Elab.v. *)
From Coq Require Import List String NArith Bool.
Import ListNotations.
Open Scope string_scope.

Inductive lib := Std | Tokio | AsyncStd | Smol | LibOther.
Inductive src := SVar (x : string) | SSelfField (f : string) | SOther (t : string).
Inductive onclosed := ClosedPanic (mentions_closed : bool) | ClosedIgnore | ClosedOther.
Inductive sendkind := SendBlocking | SendTry | SendOtherK.
Inductive lockkind := LkRead | LkWrite | LkMutex.
Record lock_stmt := { lk_binder : string; lk_mut : bool; lk_on : src; lk_kind : lockkind; lk_wait : string }.
Inductive ucall := UMethod (recv : src) (m : string) (args : list src)
                 | UStatic (path : string) (m : string) (args : list src)
                 | UOtherCall (t : string).
Record arm_body := { ab_lock : option lock_stmt; ab_call : ucall; ab_await : bool; ab_reply : option (src * onclosed) }.
Inductive arm := ArmStruct (v : string) (binds : list string) (b : arm_body)
               | ArmClosure (v : string) (bind : string) (arg : src) (aw : bool)
               | ArmSkip (v : string)
               | ArmUnknown (t : string).
Inductive msgb := MVariant (script : string) (v : string) (fields : list (string * src))
                | MClosure (script : string) (v : string) (param : string) (pty : string) (b : arm_body) (is_async : bool)
                | MUnknown (t : string).
Inductive tail := TWait (rx : src) (how : string) (oc : onclosed) | TRet (e : src) | TNone | TUnknown (t : string).
Record send_stmt := { sd_chan : src; sd_msg : src; sd_kind : sendkind; sd_await : bool; sd_closed : onclosed }.
Inductive pre_stmt := POneshot (tx rx : string) (path : string) (turbo : string) | PGetter (x : string) (getter : string).
Record ref_body := { rb_pre : list pre_stmt; rb_msgvar : string; rb_msg : msgb; rb_send : send_stmt; rb_tail : tail }.
Record slf_body := { sb_guard : option (string * string * string) (* op, constant, receiver *);
                     sb_binds : list string; sb_stop_on : string; sb_stop_await : bool;
                     sb_call : ucall; sb_await : bool; sb_else : option string }.
Inductive chan_ctor := ChUnbounded (path : string) | ChBounded (n : N) (path : string) | ChOther (t : string).
Record spawn_stmt := { sp_via : string; sp_callee : string; sp_args : list src }.
Record user_ctor_call := { uc_bind : string; uc_path : string; uc_method : string; uc_args : list src; uc_try : bool }.
Record member_new := { mn_bind : string; mn_live : string; mn_args : list string }.
Record ctor_body := { cb_user : option user_ctor_call; cb_debut : option (string * string); cb_phantoms : list string;
                      cb_chan : option chan_ctor; cb_chan_binds : option (string * string);
                      cb_spawns : list spawn_stmt; cb_wrap : string; cb_fields : list (string * src);
                      cb_wrapped : option (string * string * string); cb_members : list member_new; cb_extra : list string;
                      cb_order : list string; cb_ret : string }.
Inductive body := BRef (b : ref_body) | BStat (path : string) (m : string) (args : list src) (aw : bool)
                | BSlf (b : slf_body) | BCtor (b : ctor_body)
                | BStop (b : ref_body) (binds : list string) (ret : list src)
                | BInter (name : string) (t : string) | BUnknown (t : string).
Record lmethod := { lm_name : string; lm_vis : string; lm_async : bool; lm_generics : string; lm_self : string;
                    lm_params : list (string * string); lm_ret : string; lm_where : string; lm_docs : list string; lm_body : body }.
Record stop_branch := { stp_variant : string; stp_tx : string; stp_scrut : string; stp_send_on : string;
                        stp_payload : list src; stp_closed : onclosed; stp_returns : bool }.
Record play_shape := { pl_pat : string; pl_msg : string; pl_rx : string; pl_recv : string; pl_await : bool;
                       pl_stop : option stop_branch; pl_disp_on : string; pl_disp_arg : string; pl_disp_mut : bool; pl_disp_await : bool;
                       pl_drain : option (string * lib)   (* drain guard: receiver whose clone is closed and emptied when play ends, and the runtime of its type *) }.
Record play := { pl_params : list (string * string); pl_async : bool; pl_shape : play_shape + string }.
Record variant := { v_name : string; v_tuple : bool; v_fields : list (string * string) }.
Record model := { m_lib : lib; m_actor_ty : string; m_script : string; m_live : string; m_variants : list variant;
                  m_direct_param : string; m_direct_param_ty : string; m_direct_async : bool; m_arms : list arm;
                  m_play : option play; m_methods : list lmethod;
                  m_live_attrs : list string; m_live_vis : string; m_live_fields : list (string * string);
                  m_traits : list string; m_script_fns : list string; m_roots : list string; m_unknown : list string;
                  m_user_async : list string   (* the user's own `async fn` methods of the impl block *);
                  m_user_ret : list string     (* the user's methods that declare a return type (`-> ()` included) *) }.
Record family := { fa_name : string; fa_fields : list (string * string); fa_ctor : option lmethod; fa_methods : list lmethod;
                   fa_members : list model; fa_unknown : list string }.
