(* Call ids are well formed: ids_ok is an invariant of the runtime LTS. *)
From Coq Require Import List Arith Bool Lia.
Import ListNotations.
From IT Require Import Runtime.Actor Runtime.Lists Runtime.ActorInv Runtime.InvDefs.

Section Inv.
Context {A V : Type}.
Variable sem : nat -> A -> list V -> option (A * V).
Variable sem_slf : nat -> A -> list V -> V.
Variable dv : V.
Notation st := (@st A V).
Notation step := (step sem sem_slf dv).
Notation step' := (step' sem sem_slf dv).
Notation run_from := (run_from sem sem_slf dv).
Notation run := (run sem sem_slf dv).

(* case analysis of one step: one goal per transition *)
Ltac step_cases H :=
  unfold Actor.step, step_client, step_actor in H;
  repeat match type of H with
  | context [match ?x with _ => _ end] => destruct x eqn:?; try discriminate H
  end;
  try (injection H as <-).

(* ---- fresh_lt along an update of one client whose counter does not decrease ---- *)
Lemma fresh_upd (s s' : st) t c c' x :
  nth_error (clients s) t = Some c -> clients s' = upd (clients s) t c' -> c_seq c <= c_seq c' ->
  fresh_lt s x -> fresh_lt s' x.
Proof.
  intros Hc E L (cl & Hn & Hl). unfold fresh_lt. rewrite E.
  destruct (Nat.eq_dec t (fst x)) as [Q|N].
  - exists c'. rewrite <- Q in *. rewrite upd_same by (eapply nth_error_lt; eauto).
    split; [reflexivity|]. rewrite Hc in Hn. injection Hn as <-. lia.
  - exists cl. rewrite upd_other by exact N. auto.
Qed.

Lemma fresh_new (s s' : st) t c c' :
  nth_error (clients s) t = Some c -> clients s' = upd (clients s) t c' -> c_seq c < c_seq c' ->
  fresh_lt s' (t, c_seq c).
Proof.
  intros Hc E L. exists c'. cbn [fst snd]. rewrite E.
  rewrite upd_same by (eapply nth_error_lt; eauto). auto.
Qed.

Lemma not_fresh (s : st) t c : nth_error (clients s) t = Some c -> ~ fresh_lt s (t, c_seq c).
Proof. intros Hc (cl & Hn & Hl). cbn [fst snd] in *. rewrite Hc in Hn. injection Hn as <-. lia. Qed.

(* ---- the two "not yet handed over" clauses as one ---- *)
Definition sendcid (p : @pc V) : list callid :=
  match p with Sending c _ _ _ | StopSend c _ _ => [c] | _ => [] end.

Definition send_ok (s : st) :=
  forall t cl x, nth_error (clients s) t = Some cl -> In x (sendcid (c_pc cl)) -> ~ In x (enq s) /\ ~ In x (lost s).

Lemma sendcid_pc (p : @pc V) x : In x (sendcid p) -> In x (pc_cids p).
Proof. destruct p; cbn; auto. Qed.

Lemma send_ok_of (s : st) :
  (forall t cl c k vs ab, nth_error (clients s) t = Some cl -> c_pc cl = Sending c k vs ab -> ~ In c (enq s) /\ ~ In c (lost s)) ->
  (forall t cl c k vs, nth_error (clients s) t = Some cl -> c_pc cl = StopSend c k vs -> ~ In c (enq s) /\ ~ In c (lost s)) ->
  send_ok s.
Proof.
  intros H5 H6 t cl x Hn Hx. destruct (c_pc cl) eqn:P; cbn in Hx; try contradiction.
  - destruct Hx as [<-|[]]. eapply H5; eauto.
  - destruct Hx as [<-|[]]. eapply H6; eauto.
Qed.

Lemma send_ok_5 (s : st) : send_ok s ->
  forall t cl c k vs ab, nth_error (clients s) t = Some cl -> c_pc cl = Sending c k vs ab -> ~ In c (enq s) /\ ~ In c (lost s).
Proof. intros H t cl c k vs ab Hn P. apply (H t cl c Hn). rewrite P. cbn. auto. Qed.

Lemma send_ok_6 (s : st) : send_ok s ->
  forall t cl c k vs, nth_error (clients s) t = Some cl -> c_pc cl = StopSend c k vs -> ~ In c (enq s) /\ ~ In c (lost s).
Proof. intros H t cl c k vs Hn P. apply (H t cl c Hn). rewrite P. cbn. auto. Qed.

(* ---- states that agree on the observed fields ---- *)
Lemma ids_ext (s s' : st) :
  clients s' = clients s -> enq s' = enq s -> lost s' = lost s -> issued s' = issued s ->
  ids_ok s -> ids_ok s'.
Proof. unfold ids_ok, fresh_lt. intros -> -> -> -> H. exact H. Qed.

(* ---- per clause, for one client step described abstractly ---- *)
Section ClientStep.
Variables (s s' : st) (t : nat) (c c' : @client V).
Hypothesis I : ids_ok s.
Hypothesis Hc : nth_error (clients s) t = Some c.
Hypothesis E : clients s' = upd (clients s) t c'.
Hypothesis L : c_seq c <= c_seq c'.
Hypothesis Hpc : forall x, In x (pc_cids (c_pc c')) ->
  In x (pc_cids (c_pc c)) \/ (x = (t, c_seq c) /\ c_seq c < c_seq c').
Hypothesis Hel :
  (enq s' = enq s /\ lost s' = lost s /\
     (forall x, In x (sendcid (c_pc c')) -> In x (sendcid (c_pc c)) \/ (x = (t, c_seq c) /\ c_seq c < c_seq c')))
  \/ (exists x, In x (sendcid (c_pc c)) /\ sendcid (c_pc c') = [] /\
        ((enq s' = enq s ++ [x] /\ lost s' = lost s) \/ (enq s' = enq s /\ lost s' = lost s ++ [x]))).
Hypothesis His :
  issued s' = issued s \/ exists k vs, issued s' = issued s ++ [((t, c_seq c), k, vs)] /\ c_seq c < c_seq c'.

Let mono x : fresh_lt s x -> fresh_lt s' x.
Proof. intros F. eapply fresh_upd; eauto. Qed.

Let own x : In x (pc_cids (c_pc c)) -> fst x = t /\ fresh_lt s x.
Proof.
  intros Hx. destruct I as (_ & _ & _ & I4 & _). destruct (I4 _ _ _ Hc Hx) as [F1 F2].
  split; [exact F1|]. exists c. rewrite F1. auto.
Qed.

Let S0 : send_ok s.
Proof. destruct I as (_ & _ & _ & _ & I5 & I6 & _). apply send_ok_of; auto. Qed.

Lemma cs_enq x : In x (enq s') -> fresh_lt s' x.
Proof.
  destruct I as (I1 & _). intros Hx. apply mono.
  destruct Hel as [(-> & _ & _)|(y & Hy & _ & [(-> & _)|(-> & _)])] in Hx; auto.
  apply in_app_or in Hx. destruct Hx as [Hx|[<-|[]]]; auto.
  apply own, sendcid_pc, Hy.
Qed.

Lemma cs_lost x : In x (lost s') -> fresh_lt s' x.
Proof.
  destruct I as (_ & I2 & _). intros Hx. apply mono.
  destruct Hel as [(_ & -> & _)|(y & Hy & _ & [(_ & ->)|(_ & ->)])] in Hx; auto.
  apply in_app_or in Hx. destruct Hx as [Hx|[<-|[]]]; auto.
  apply own, sendcid_pc, Hy.
Qed.

Lemma cs_issued e : In e (issued s') -> fresh_lt s' (fst (fst e)).
Proof.
  destruct I as (_ & _ & I3 & _). intros He.
  destruct His as [->|(k & vs & -> & Lt)] in He; [apply mono; auto|].
  apply in_app_or in He. destruct He as [He|[<-|[]]]; [apply mono; auto|].
  cbn [fst]. eapply fresh_new; eauto.
Qed.

Lemma cs_pc t0 cl x : nth_error (clients s') t0 = Some cl -> In x (pc_cids (c_pc cl)) -> fst x = t0 /\ snd x < c_seq cl.
Proof.
  destruct I as (_ & _ & _ & I4 & _). rewrite E. intros Hn Hx.
  apply upd_nth in Hn. destruct Hn as [(<- & -> & _)|(N & Hn)]; [|eapply I4; eauto].
  destruct (Hpc _ Hx) as [Hx'|(-> & Lt)]; [|cbn; auto].
  destruct (I4 _ _ _ Hc Hx'). split; [assumption|lia].
Qed.

Lemma cs_send : send_ok s'.
Proof.
  destruct I as (I1 & I2 & _ & I4 & _). intros t0 cl x Hn Hx. rewrite E in Hn.
  apply upd_nth in Hn. destruct Hn as [(<- & -> & _)|(N & Hn)].
  - destruct Hel as [(-> & -> & Hs)|(y & _ & Hnil & _)]; [|rewrite Hnil in Hx; destruct Hx].
    destruct (Hs _ Hx) as [Hx'|(-> & _)]; [eapply S0; eauto|].
    pose proof (not_fresh s t c Hc) as NF. split; intros Hin; apply NF; auto.
  - destruct (S0 _ _ _ Hn Hx) as [N1 N2].
    destruct Hel as [(-> & -> & _)|(y & Hy & _ & [(-> & ->)|(-> & ->)])]; auto.
    + split; [|exact N2]. intros Hin. apply in_app_or in Hin. destruct Hin as [Hin|[<-|[]]]; [auto|].
      apply sendcid_pc in Hx, Hy. destruct (own _ Hy) as [F _]. destruct (I4 _ _ _ Hn Hx) as [F' _]. congruence.
    + split; [exact N1|]. intros Hin. apply in_app_or in Hin. destruct Hin as [Hin|[<-|[]]]; [auto|].
      apply sendcid_pc in Hx, Hy. destruct (own _ Hy) as [F _]. destruct (I4 _ _ _ Hn Hx) as [F' _]. congruence.
Qed.

Lemma cs_nodup_enq : NoDup (enq s').
Proof.
  destruct I as (_ & _ & _ & _ & _ & _ & I7 & _).
  destruct Hel as [(-> & _)|(y & Hy & _ & [(-> & _)|(-> & _)])]; auto.
  apply NoDup_snoc; auto. apply (S0 _ _ _ Hc Hy).
Qed.

Lemma cs_nodup_issued : NoDup (map (fun e => fst (fst e)) (issued s')).
Proof.
  destruct I as (_ & _ & I3 & _ & _ & _ & _ & I8).
  destruct His as [->|(k & vs & -> & _)]; auto.
  rewrite map_app. cbn [map fst]. apply NoDup_snoc; auto.
  intros Hin. apply in_map_iff in Hin. destruct Hin as (e & Q & He).
  apply (not_fresh s t c Hc). rewrite <- Q. apply I3, He.
Qed.

Lemma ids_client : ids_ok s'.
Proof.
  pose proof cs_send as S'.
  split; [exact cs_enq|]. split; [exact cs_lost|]. split; [exact cs_issued|]. split; [exact cs_pc|].
  split; [apply send_ok_5, S'|]. split; [apply send_ok_6, S'|]. split; [exact cs_nodup_enq|exact cs_nodup_issued].
Qed.
End ClientStep.

Lemma ids_init (a0 : A) (progs : list (list (@op V) * nat)) : ids_ok (Actor.init a0 progs).
Proof.
  unfold ids_ok. cbn [Actor.init enq lost issued clients].
  assert (P : forall t cl, nth_error (map (fun p : list op * nat => @mk_client V Ready (fst p) (snd p) 0 []) progs) t = Some cl -> c_pc cl = Ready).
  { intros t cl Hn. apply nth_error_In, in_map_iff in Hn. destruct Hn as (p & <- & _). reflexivity. }
  split; [intros c []|]. split; [intros c []|]. split; [intros e []|].
  split; [intros t cl c Hn Hx; rewrite (P _ _ Hn) in Hx; destruct Hx|].
  split; [intros t cl c k vs ab Hn Hp; rewrite (P _ _ Hn) in Hp; discriminate|].
  split; [intros t cl c k vs Hn Hp; rewrite (P _ _ Hn) in Hp; discriminate|].
  split; apply NoDup_nil.
Qed.

(* side conditions of [ids_client] in a concrete transition *)
Ltac use_pc := try match goal with P : c_pc _ = _ |- _ => rewrite P end.
Ltac side_cids :=
  let x := fresh "x" in let Hx := fresh "Hx" in
  intros x Hx; cbn in Hx; use_pc; cbn;
  repeat match goal with
  | D : _ \/ _ |- _ => destruct D
  | D : False |- _ => destruct D
  end; subst;
  first [ left; left; reflexivity | right; split; [reflexivity|lia] ].
Ltac side_el :=
  first
  [ left; split; [reflexivity|]; split; [reflexivity|]; side_cids
  | right; eexists; split; [use_pc; cbn; left; reflexivity|]; split; [reflexivity|];
    first [ left; split; reflexivity | right; split; reflexivity ] ].
Ltac side_is :=
  first [ left; reflexivity | right; eexists; eexists; split; [reflexivity|lia] ].

Lemma ids_step m s ch s' : ids_ok s -> step m s ch = Some s' -> ids_ok s'.
Proof.
  intros I H. destruct ch as [t|]; cbn [Actor.step] in H.
  - step_cases H.
    all: match goal with Hc : nth_error (clients ?s0) ?t0 = Some ?c, I0 : ids_ok ?s0 |- _ =>
           eapply (ids_client s0 _ t0 c); [exact I0 | exact Hc | cbn; reflexivity | cbn; lia | cbn | cbn | cbn ] end.
    all: first [ side_cids | side_el | side_is ].
  - step_cases H; (eapply ids_ext; [ | | | | exact I]; reflexivity).
Qed.

Theorem ids_reachable m (a0 : A) progs sched : ids_ok (run m a0 progs sched).
Proof. unfold Actor.run. apply (inv_run sem sem_slf dv ids_ok m (ids_step m)). apply ids_init. Qed.
End Inv.
