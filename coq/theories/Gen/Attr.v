(* Gen/Attr.v -- executable model of the option parsers of interthread (C19).

   Mirrors, function by function:
     src/model/attribute/mod.rs      get_list, get_lit, get_lit_str, get_ident, get_idents, check_path_set, meta_get_path, to_usize
     src/model/attribute/actor.rs    ActorAttributeArguments::{from, parse_nested_actor, parse_nested_family, parse_shared_options, cross_check, is_active}
     src/model/attribute/example.rs  ExampleAttributeArguments::{from, parse_nested, arguments_cross_check}
     src/model/argument/edit.rs      EditActor::{parse, parse_family, parse_sol, parse_sol_nested, parse_sol_nested_idents, add_if_unique, is_any_active}
     src/model/argument/include_exclude.rs  FilterSet::parse
     src/model/argument/mod.rs       Lib::from
   Definitions only (no proofs), so the model still runs when a proof breaks.
   The file system is a pair of section variables (universally quantified in every theorem):
     fexists p  -- `PathBuf::from(p).exists()`
     fcount p   -- how many file-active interthread macros `file::active_file_count` finds in the file p. *)
From Coq Require Import List String Ascii NArith ZArith Bool DecimalString.
Import ListNotations.
Open Scope string_scope.

(* ---------- input: syn::Meta at the granularity the macro inspects ---------- *)
Definition path := list string.          (* segments; a leading `::` is an empty first segment; [x] is a bare identifier *)
Inductive value := VStr (s : string) | VInt (z : Z) | VLit (* float, bool, char, byte string literal *) | VExpr (* not a literal *).
Inductive meta :=
| MPath (p : path)
| MList (p : path) (l : list meta)
| MRaw (p : path)                         (* p(tokens) whose tokens are not a comma separated list of Meta *)
| MNV (p : path) (v : value).

Definition mpath (m : meta) : path := match m with MPath p | MList p _ | MRaw p | MNV p _ => p end.

Inductive dtag := DDup | DExpectIdent | DUnknown | DValue | DEmpty | DFilter | DEdit | DNestedFile | DFile | DFamily | DLib | DSmol | DReqFile | DFileCount | DExample.
Inductive res (A : Type) := Ok (a : A) | Diag (d : dtag) | Panic.
Arguments Ok {A} a. Arguments Diag {A} d. Arguments Panic {A}.

Definition bind {A B} (r : res A) (f : A -> res B) : res B := match r with Ok a => f a | Diag d => Diag d | Panic => Panic end.
Notation "x <- r ;; k" := (bind r (fun x => k)) (at level 61, r at next level, right associativity).

Definition is_ok {A} (r : res A) : bool := match r with Ok _ => true | _ => false end.
Definition is_diag {A} (r : res A) : bool := match r with Diag _ => true | _ => false end.
Definition is_panic {A} (r : res A) : bool := match r with Panic => true | _ => false end.

(* `for x in l { f(&mut st, x) }` with abort! / panic! leaving the loop *)
Fixpoint fold_res {S X} (f : S -> X -> res S) (l : list X) (s : S) : res S :=
  match l with [] => Ok s | x :: r => s' <- f s x ;; fold_res f r s' end.

Definition is_ident (p : path) (s : string) : bool := match p with [x] => String.eqb x s | _ => false end.
Definition get_ident (m : meta) : res string := match mpath m with [x] => Ok x | _ => Diag DExpectIdent end.
Definition get_idents (l : list meta) : res (list string) :=
  fold_res (fun acc m => x <- get_ident m ;; Ok (acc ++ [x])%list) l [].

(* get_list(meta, help): Path -> None; List -> Some; NameValue -> abort when a help text is passed, else None *)
Definition get_list (m : meta) (help : bool) : res (option (list meta)) :=
  match m with
  | MPath _ => Ok None
  | MList _ l => Ok (Some l)
  | MRaw _ => Diag DValue
  | MNV _ _ => if help then Diag DValue else Ok None
  end.

(* expect_word: a bare word, not `w(..)` nor `w = v` *)
Definition expect_word (m : meta) : res unit := match m with MPath _ => Ok tt | _ => Diag DValue end.
(* edit.rs get_list: an empty list `name()` has no meaning inside edit *)
Definition get_list_ne (m : meta) (help : bool) : res (option (list meta)) :=
  o <- get_list m help ;; match o with Some [] => Diag DEmpty | _ => Ok o end.

Definition get_lit (m : meta) : res value :=
  match m with MNV _ VExpr => Diag DValue | MNV _ v => Ok v | _ => Diag DValue end.
Definition get_lit_str (m : meta) : res string :=
  v <- get_lit m ;; match v with VStr s => if String.eqb s "" then Diag DEmpty else Ok s | _ => Diag DValue end.

Fixpoint path_eqb (p q : path) : bool :=
  match p, q with [], [] => true | a :: p', b :: q' => String.eqb a b && path_eqb p' q' | _, _ => false end.
Definition path_mem (p : path) (l : list path) : bool := existsb (path_eqb p) l.

(* check_path_set: pops metas from the back; a popped path that also occurs earlier aborts unless excepted.
   `cps` takes the REVERSED path list. *)
Fixpoint cps (rev_paths : list path) (except : list path) : bool :=
  match rev_paths with
  | [] => true
  | p :: rest => if path_mem p rest && negb (path_mem p except) then false else cps rest except
  end.
Definition check_path_set (l : list meta) (except : list path) : bool := cps (rev (map mpath l)) except.

(* ---------- identifiers (ASCII envelope) : what proc_macro::Ident::new accepts ---------- *)
Definition is_start (c : ascii) : bool :=
  let n := nat_of_ascii c in (Nat.leb 65 n && Nat.leb n 90) || (Nat.leb 97 n && Nat.leb n 122) || Nat.eqb n 95.
Definition is_cont (c : ascii) : bool := is_start c || (let n := nat_of_ascii c in Nat.leb 48 n && Nat.leb n 57).
Fixpoint all_cont (s : string) : bool := match s with EmptyString => true | String c r => is_cont c && all_cont r end.
Definition is_ident_str (s : string) : bool := match s with EmptyString => false | String c r => is_start c && all_cont r end.
(* attribute::str_to_ident: the string must lex as one identifier, else a diagnostic *)
Definition format_ident (s : string) : res string := if is_ident_str s then Ok s else Diag DValue.

(* ---------- configuration ---------- *)
Inductive lib := Std | Smol | Tokio | AsyncStd.
Inductive chan := Unbounded | Buffer (n : N).
Inductive fset := FInclude (l : list string) | FExclude (l : list string).
Inductive rcv := RSlf | RRwLock | RMutex.
Inductive mac := Actor | Family.
Inductive fcnt := FZero | FOne | FMany.

Definition names := option (list (string * bool)).                 (* (name, written-to-file) *)
Record etuple := { t_def : bool; t_def_f : bool; t_imp : names; t_imp_f : bool; t_trt : names; t_trt_f : bool }.
Record edit := { e_remove : bool; e_script : etuple; e_live : etuple }.
Definition etuple0 := {| t_def := false; t_def_f := false; t_imp := None; t_imp_f := false; t_trt := None; t_trt_f := false |}.
Definition edit0 := {| e_remove := false; e_script := etuple0; e_live := etuple0 |}.

Record acfg := { a_name : option string; a_first : option string; a_lib : lib; a_show : bool; a_chan : chan; a_edit : edit;
                 a_debut : bool; a_file : option string; a_interact : bool; a_filter : option fset; a_rcv : rcv; a_debug : bool;
                 a_mac : mac; a_attr : bool }.
Record cfg := { c_top : acfg; c_members : list (string * acfg) }.

Definition acfg0 := {| a_name := None; a_first := None; a_lib := Std; a_show := false; a_chan := Unbounded; a_edit := edit0;
                       a_debut := false; a_file := None; a_interact := false; a_filter := None; a_rcv := RSlf; a_debug := false;
                       a_mac := Actor; a_attr := false |}.

Definition set_name v c := {| a_name := v; a_first := a_first c; a_lib := a_lib c; a_show := a_show c; a_chan := a_chan c; a_edit := a_edit c; a_debut := a_debut c; a_file := a_file c; a_interact := a_interact c; a_filter := a_filter c; a_rcv := a_rcv c; a_debug := a_debug c; a_mac := a_mac c; a_attr := a_attr c |}.
Definition set_first v c := {| a_name := a_name c; a_first := v; a_lib := a_lib c; a_show := a_show c; a_chan := a_chan c; a_edit := a_edit c; a_debut := a_debut c; a_file := a_file c; a_interact := a_interact c; a_filter := a_filter c; a_rcv := a_rcv c; a_debug := a_debug c; a_mac := a_mac c; a_attr := a_attr c |}.
Definition set_lib v c := {| a_name := a_name c; a_first := a_first c; a_lib := v; a_show := a_show c; a_chan := a_chan c; a_edit := a_edit c; a_debut := a_debut c; a_file := a_file c; a_interact := a_interact c; a_filter := a_filter c; a_rcv := a_rcv c; a_debug := a_debug c; a_mac := a_mac c; a_attr := a_attr c |}.
Definition set_show v c := {| a_name := a_name c; a_first := a_first c; a_lib := a_lib c; a_show := v; a_chan := a_chan c; a_edit := a_edit c; a_debut := a_debut c; a_file := a_file c; a_interact := a_interact c; a_filter := a_filter c; a_rcv := a_rcv c; a_debug := a_debug c; a_mac := a_mac c; a_attr := a_attr c |}.
Definition set_chan v c := {| a_name := a_name c; a_first := a_first c; a_lib := a_lib c; a_show := a_show c; a_chan := v; a_edit := a_edit c; a_debut := a_debut c; a_file := a_file c; a_interact := a_interact c; a_filter := a_filter c; a_rcv := a_rcv c; a_debug := a_debug c; a_mac := a_mac c; a_attr := a_attr c |}.
Definition set_edit v c := {| a_name := a_name c; a_first := a_first c; a_lib := a_lib c; a_show := a_show c; a_chan := a_chan c; a_edit := v; a_debut := a_debut c; a_file := a_file c; a_interact := a_interact c; a_filter := a_filter c; a_rcv := a_rcv c; a_debug := a_debug c; a_mac := a_mac c; a_attr := a_attr c |}.
Definition set_debut v c := {| a_name := a_name c; a_first := a_first c; a_lib := a_lib c; a_show := a_show c; a_chan := a_chan c; a_edit := a_edit c; a_debut := v; a_file := a_file c; a_interact := a_interact c; a_filter := a_filter c; a_rcv := a_rcv c; a_debug := a_debug c; a_mac := a_mac c; a_attr := a_attr c |}.
Definition set_file v c := {| a_name := a_name c; a_first := a_first c; a_lib := a_lib c; a_show := a_show c; a_chan := a_chan c; a_edit := a_edit c; a_debut := a_debut c; a_file := v; a_interact := a_interact c; a_filter := a_filter c; a_rcv := a_rcv c; a_debug := a_debug c; a_mac := a_mac c; a_attr := a_attr c |}.
Definition set_interact v c := {| a_name := a_name c; a_first := a_first c; a_lib := a_lib c; a_show := a_show c; a_chan := a_chan c; a_edit := a_edit c; a_debut := a_debut c; a_file := a_file c; a_interact := v; a_filter := a_filter c; a_rcv := a_rcv c; a_debug := a_debug c; a_mac := a_mac c; a_attr := a_attr c |}.
Definition set_filter v c := {| a_name := a_name c; a_first := a_first c; a_lib := a_lib c; a_show := a_show c; a_chan := a_chan c; a_edit := a_edit c; a_debut := a_debut c; a_file := a_file c; a_interact := a_interact c; a_filter := v; a_rcv := a_rcv c; a_debug := a_debug c; a_mac := a_mac c; a_attr := a_attr c |}.
Definition set_rcv v c := {| a_name := a_name c; a_first := a_first c; a_lib := a_lib c; a_show := a_show c; a_chan := a_chan c; a_edit := a_edit c; a_debut := a_debut c; a_file := a_file c; a_interact := a_interact c; a_filter := a_filter c; a_rcv := v; a_debug := a_debug c; a_mac := a_mac c; a_attr := a_attr c |}.
Definition set_debug v c := {| a_name := a_name c; a_first := a_first c; a_lib := a_lib c; a_show := a_show c; a_chan := a_chan c; a_edit := a_edit c; a_debut := a_debut c; a_file := a_file c; a_interact := a_interact c; a_filter := a_filter c; a_rcv := a_rcv c; a_debug := v; a_mac := a_mac c; a_attr := a_attr c |}.
Definition set_mac v c := {| a_name := a_name c; a_first := a_first c; a_lib := a_lib c; a_show := a_show c; a_chan := a_chan c; a_edit := a_edit c; a_debut := a_debut c; a_file := a_file c; a_interact := a_interact c; a_filter := a_filter c; a_rcv := a_rcv c; a_debug := a_debug c; a_mac := v; a_attr := a_attr c |}.
Definition set_attr v c := {| a_name := a_name c; a_first := a_first c; a_lib := a_lib c; a_show := a_show c; a_chan := a_chan c; a_edit := a_edit c; a_debut := a_debut c; a_file := a_file c; a_interact := a_interact c; a_filter := a_filter c; a_rcv := a_rcv c; a_debug := a_debug c; a_mac := a_mac c; a_attr := v |}.

(* ---------- edit (argument/edit.rs) ---------- *)
Definition sel (sol : bool) (e : edit) : etuple := if sol then e_script e else e_live e.
Definition put (sol : bool) (t : etuple) (e : edit) : edit :=
  if sol then {| e_remove := e_remove e; e_script := t; e_live := e_live e |}
  else {| e_remove := e_remove e; e_script := e_script e; e_live := t |}.
Definition set_all (t : etuple) : etuple :=
  {| t_def := true; t_def_f := t_def_f t; t_imp := Some []; t_imp_f := t_imp_f t; t_trt := Some []; t_trt_f := t_trt_f t |}.
Definition set_all_active (t : etuple) : etuple :=
  {| t_def := t_def t; t_def_f := true; t_imp := t_imp t; t_imp_f := true; t_trt := t_trt t; t_trt_f := true |}.
Definition is_none (t : etuple) : bool :=
  negb (t_def t) && match t_imp t with None => true | _ => false end && match t_trt t with None => true | _ => false end.

Definition abort_if_is_file (m : meta) : res unit := if is_ident (mpath m) "file" then Diag DNestedFile else Ok tt.
Definition get_file_list (m : meta) : res (list meta) :=
  o <- get_list_ne m true ;; match o with Some l => Ok l | None => Diag DEdit end.

Definition add_if_unique (v : names) (m : meta) (file : bool) : res names :=
  _ <- expect_word m ;;
  x <- get_ident m ;;
  match v with
  | Some l => if existsb (fun p => String.eqb x (fst p)) l then Diag DDup else Ok (Some (l ++ [(x, file)])%list)
  | None => Ok (Some [(x, file)])
  end.

(* parse_sol_nested_idents on the pair (names, scope-flag) *)
Definition nested_idents (os : names * bool) (m : meta) (file : bool) : res (names * bool) :=
  o <- get_list_ne m true ;;
  match o with
  | Some l =>
      v <- fold_res (fun (v : names) (x : meta) =>
             if is_ident (mpath x) "file" then
               ofl <- get_list_ne x true ;;
               match ofl with
               | Some fl => fold_res (fun (v : names) (fm : meta) => if file then Diag DNestedFile else add_if_unique v fm true) fl v
               | None => add_if_unique v x file
               end
             else add_if_unique v x file) l (fst os) ;;
      Ok (v, snd os)
  | None => Ok (Some [], if file then true else snd os)
  end.

Definition sol_nested (e : edit) (m : meta) (sol file : bool) : res edit :=
  let t := sel sol e in
  let p := mpath m in
  if is_ident p "def" then
    _ <- expect_word m ;;
    if t_def t then Diag DDup
    else Ok (put sol {| t_def := true; t_def_f := if file then true else t_def_f t; t_imp := t_imp t; t_imp_f := t_imp_f t; t_trt := t_trt t; t_trt_f := t_trt_f t |} e)
  else if is_ident p "imp" then
    match t_imp t with
    | None => r <- nested_idents (t_imp t, t_imp_f t) m file ;;
              Ok (put sol {| t_def := t_def t; t_def_f := t_def_f t; t_imp := fst r; t_imp_f := snd r; t_trt := t_trt t; t_trt_f := t_trt_f t |} e)
    | Some _ => Diag DDup
    end
  else if is_ident p "trt" then
    match t_trt t with
    | None => r <- nested_idents (t_trt t, t_trt_f t) m file ;;
              Ok (put sol {| t_def := t_def t; t_def_f := t_def_f t; t_imp := t_imp t; t_imp_f := t_imp_f t; t_trt := fst r; t_trt_f := snd r |} e)
    | Some _ => Diag DDup
    end
  else Diag DEdit.

Definition parse_sol (e : edit) (m : meta) (file : bool) : res edit :=
  let p := mpath m in
  sol <- (if is_ident p "script" then (if is_none (e_script e) then Ok true else Diag DDup)
          else if is_ident p "live" then (if is_none (e_live e) then Ok false else Diag DDup)
          else Diag DEdit) ;;
  o <- get_list_ne m true ;;
  match o with
  | Some l =>
      fold_res (fun (e : edit) (met : meta) =>
        if is_ident (mpath met) "file" then
          if file then Diag DNestedFile
          else fl <- get_file_list met ;;
               fold_res (fun (e : edit) (x : meta) => _ <- abort_if_is_file x ;; sol_nested e x sol true) fl e
        else sol_nested e met sol file) l e
  | None =>
      let t := sel sol e in
      Ok (put sol (set_all (if file then set_all_active t else t)) e)
  end.

Definition all_everything (e : edit) : edit :=
  {| e_remove := true; e_script := set_all_active (set_all (e_script e)); e_live := set_all_active (set_all (e_live e)) |}.

(* EditActor::parse (macro `actor`) *)
Definition edit_parse (e : edit) (m : meta) : res edit :=
  o <- get_list_ne m true ;;
  match o with
  | Some [mv] =>
      if is_ident (mpath mv) "file" then
        ol <- get_list_ne mv true ;;
        match ol with
        | Some l => fold_res (fun (e : edit) (x : meta) => _ <- abort_if_is_file x ;; parse_sol e x true) l e
        | None => Ok (all_everything e)
        end
      else parse_sol e mv false
  | Some l =>
      fold_res (fun (e : edit) (x : meta) =>
        if is_ident (mpath x) "file" then
          fl <- get_file_list x ;;
          fold_res (fun (e : edit) (y : meta) => _ <- abort_if_is_file y ;; parse_sol e y true) fl e
        else parse_sol e x false) l e
  | None => Ok {| e_remove := e_remove e; e_script := set_all (e_script e); e_live := set_all (e_live e) |}
  end.

(* EditActor::parse_family (options of the macro `family` itself; its `actor(..)` members use edit_parse) *)
Definition edit_parse_family (e : edit) (m : meta) : res edit :=
  o <- get_list_ne m true ;;
  match o with
  | Some [mv] =>
      if is_ident (mpath mv) "file" then
        ol <- get_list_ne mv true ;;
        match ol with
        | Some l => fold_res (fun (e : edit) (x : meta) => _ <- abort_if_is_file x ;; sol_nested e x false true) l e
        | None => Ok (put false (set_all_active (set_all (e_live e))) e)
        end
      else sol_nested e mv false false
  | Some l =>
      fold_res (fun (e : edit) (x : meta) =>
        if is_ident (mpath x) "file" then
          fl <- get_file_list x ;;
          fold_res (fun (e : edit) (y : meta) => _ <- abort_if_is_file y ;; sol_nested e y false true) fl e
        else sol_nested e x false false) l e
  | None => Ok (put false (set_all (e_live e)) e)
  end.

Definition names_active (n : names) : bool := match n with Some l => existsb snd l | None => false end.
Definition tuple_active (t : etuple) : bool :=
  t_def_f t || t_imp_f t || t_trt_f t || names_active (t_imp t) || names_active (t_trt t).
Definition edit_active (e : edit) : bool := e_remove e || tuple_active (e_script e) || tuple_active (e_live e).

(* ---------- option keys ---------- *)
Inductive okey := KName | KLib | KShow | KChannel | KEdit | KDebut | KFile | KFirstName | KInteract | KInclude | KExclude
                | KDebug | KdebugLower | KActor | KRwLock | KMutex | KOther.
Definition classify (s : string) : okey :=
  if String.eqb s "name" then KName else if String.eqb s "lib" then KLib else if String.eqb s "show" then KShow
  else if String.eqb s "channel" then KChannel else if String.eqb s "edit" then KEdit else if String.eqb s "debut" then KDebut
  else if String.eqb s "file" then KFile else if String.eqb s "first_name" then KFirstName else if String.eqb s "interact" then KInteract
  else if String.eqb s "include" then KInclude else if String.eqb s "exclude" then KExclude else if String.eqb s "Debug" then KDebug
  else if String.eqb s "debug" then KdebugLower else if String.eqb s "actor" then KActor else if String.eqb s "RwLock" then KRwLock
  else if String.eqb s "Mutex" then KMutex else KOther.

Definition lib_of (s : string) : res lib :=
  if String.eqb s "std" then Ok Std else if String.eqb s "smol" then Ok Smol else if String.eqb s "tokio" then Ok Tokio
  else if String.eqb s "async_std" then Ok AsyncStd else Diag DLib.

Definition usize_max : Z := 18446744073709551615%Z.
Definition chan_of (v : value) : res chan :=
  match v with
  | VInt z => if ((0 <=? z) && (z <=? usize_max))%Z then Ok (if (0 <? z)%Z then Buffer (Z.to_N z) else Unbounded) else Diag DValue
  | _ => Diag DValue
  end.

Definition is_ctor_name (s : string) : bool := String.eqb s "new" || String.eqb s "try_new".

(* FilterSet::parse *)
Definition filter_parse (m : meta) (incl : bool) : res fset :=
  o <- get_list m false ;;
  match o with
  | Some l =>
      if check_path_set l [] then
        _ <- fold_res (fun (_ : unit) x => expect_word x) l tt ;;
        ids <- get_idents l ;;
        if existsb is_ctor_name ids then Diag DFilter
        else Ok (if incl then FInclude ids else FExclude ids)
      else Diag DDup
  | None => Diag DFilter
  end.

Section FS.
Variable fexists : string -> bool.
Variable fcount : string -> fcnt.

Definition meta_get_path (m : meta) : res string :=
  s <- get_lit_str m ;; if fexists s then Ok s else Diag DFile.

(* parse_shared_options: None = not a shared option *)
Definition parse_shared (c : acfg) (m : meta) (k : okey) : option (res acfg) :=
  match k with
  | KName => Some (s <- get_lit_str m ;; x <- format_ident s ;; Ok (set_name (Some x) c))
  | KLib => Some (s <- get_lit_str m ;; l <- lib_of s ;; Ok (set_lib l c))
  | KShow => Some (match m with MPath _ => Ok (set_show true c) | _ => Diag DValue end)
  | KChannel => Some (v <- get_lit m ;; ch <- chan_of v ;; Ok (set_chan ch c))
  | KEdit => Some (e <- (match a_mac c with Family => edit_parse_family (a_edit c) m | Actor => edit_parse (a_edit c) m end) ;; Ok (set_edit e c))
  | KDebut => Some (match m with MPath _ => Ok (set_debut true c) | _ => Diag DValue end)
  | KFile => Some (p <- meta_get_path m ;; Ok (set_file (Some p) c))
  | _ => None
  end.

Definition step_actor (c : acfg) (m : meta) : res acfg :=
  x <- get_ident m ;;
  let k := classify x in
  match k with
  | KEdit => e <- edit_parse (a_edit c) m ;; Ok (set_edit e c)      (* `actor` and family members share the actor grammar *)
  | _ =>
  match parse_shared c m k with
  | Some r => r
  | None =>
      match k with
      | KFirstName =>
          match a_mac c with
          | Family => s <- get_lit_str m ;; y <- format_ident s ;; Ok (set_first (Some y) c)
          | Actor => Diag DUnknown
          end
      | KInteract => match m with MPath _ => Ok (set_interact true c) | _ => Diag DValue end
      | KInclude => match a_filter c with Some _ => Diag DFilter | None => f <- filter_parse m true ;; Ok (set_filter (Some f) c) end
      | KExclude => match a_filter c with Some _ => Diag DFilter | None => f <- filter_parse m false ;; Ok (set_filter (Some f) c) end
      | KDebug => _ <- expect_word m ;; Ok (set_debug true c)
      | _ => Diag DUnknown
      end
  end
  end.

Definition parse_nested_actor (c : acfg) (l : list meta) : res acfg :=
  if check_path_set l [] then fold_res step_actor l c else Diag DDup.

(* the family loop: state = (configuration, `actor(..)` metas met so far) *)
Definition step_family (st : acfg * list meta) (m : meta) : res (acfg * list meta) :=
  let (c, mems) := st in
  x <- get_ident m ;;
  let k := classify x in
  match parse_shared c m k with
  | Some r => c' <- r ;; Ok (c', mems)
  | None =>
      match k with
      | KActor => Ok (c, (mems ++ [m])%list)
      | KRwLock => _ <- expect_word m ;; Ok (set_rcv RRwLock c, mems)
      | KMutex => _ <- expect_word m ;; Ok (set_rcv RMutex c, mems)
      | _ => Diag DUnknown
      end
  end.

Definition parse_member (proto : acfg) (mem : meta) : res (string * acfg) :=
  o <- get_list mem false ;;
  match o with
  | Some l =>
      other <- parse_nested_actor proto l ;;
      match a_first other with
      | Some fn => Ok (fn, set_mac Actor other)
      | None => Diag DFamily
      end
  | None => Diag DFamily
  end.

Definition proto_of (c : acfg) : acfg := set_edit edit0 (set_show false c).

Definition parse_nested_family (c0 : acfg) (l : list meta) : res cfg :=
  if check_path_set l [["actor"]] then
    st <- fold_res step_family l (c0, []) ;;
    let (c1, mems) := st in
    let c := match a_rcv c1 with RSlf => set_rcv RRwLock c1 | _ => c1 end in
    match mems with
    | [] => Diag DFamily
    | _ =>
        ms <- fold_res (fun acc mem => x <- parse_member (proto_of c) mem ;; Ok (acc ++ [x])%list) mems [] ;;
        Ok {| c_top := c; c_members := ms |}
    end
  else Diag DDup.

Definition cfg_active (c : cfg) : bool :=
  edit_active (a_edit (c_top c)) ||
  match a_mac (c_top c) with Family => existsb (fun p => edit_active (a_edit (snd p))) (c_members c) | Actor => false end.

Definition cross_check (c : cfg) : res cfg :=
  c' <- (if cfg_active c then
           match a_file (c_top c) with
           | Some f => match fcount f with FOne => Ok {| c_top := set_attr true (c_top c); c_members := c_members c |} | _ => Diag DFileCount end
           | None => Diag DReqFile
           end
         else Ok c) ;;
  match a_mac (c_top c'), a_lib (c_top c') with
  | Family, Smol => Diag DSmol
  | _, _ => Ok c'
  end.

(* ActorAttributeArguments::from followed by cross_check, as the entry points `actor` / `family` do *)
Definition parse_args (mc : mac) (l : list meta) : res cfg :=
  c <- (match mc with
        | Actor => a <- parse_nested_actor (set_mac Actor acfg0) l ;; Ok {| c_top := a; c_members := [] |}
        | Family => parse_nested_family (set_mac Family acfg0) l
        end) ;;
  cross_check c.

(* ---------- example ---------- *)
Record ecfg := { x_path : option string; x_main : bool; x_expand : list mac }.
Definition ecfg0 := {| x_path := None; x_main := false; x_expand := [Actor; Family] |}.

Definition mac_from_ident (s : string) : option mac :=
  if String.eqb s "actor" then Some Actor else if String.eqb s "family" then Some Family else None.

Definition step_example (e : ecfg) (m : meta) : res ecfg :=
  let p := mpath m in
  if is_ident p "main" then _ <- expect_word m ;; Ok {| x_path := x_path e; x_main := true; x_expand := x_expand e |}
  else if is_ident p "path" then s <- meta_get_path m ;; Ok {| x_path := Some s; x_main := x_main e; x_expand := x_expand e |}
  else if is_ident p "expand" then
    o <- get_list m false ;;
    match o with
    | Some ml =>
        _ <- fold_res (fun (_ : unit) x => expect_word x) ml tt ;;
        ids <- get_idents ml ;;
        ms <- fold_res (fun acc s => match mac_from_ident s with Some k => Ok (acc ++ [k])%list | None => Diag DExample end) ids [] ;;
        Ok {| x_path := x_path e; x_main := x_main e; x_expand := ms |}
    | None => Diag DExample
    end
  else Diag DUnknown.

Definition parse_example (l : list meta) : res ecfg :=
  if check_path_set l [] then
    e <- fold_res step_example l ecfg0 ;;
    match x_path e with Some _ => Ok e | None => Diag DExample end
  else Diag DDup.

End FS.

(* ---------- canonical text of a configuration (same format as the hook's `attr_args` / `example_args` dump) ---------- *)
Definition b01 (b : bool) : string := if b then "1" else "0".
Definition ostr (o : option string) : string := match o with Some s => s | None => "-" end.
Definition nstr (n : N) : string := NilZero.string_of_uint (N.to_uint n).
Fixpoint join (sep : string) (l : list string) : string :=
  match l with [] => "" | [x] => x | x :: r => x ++ sep ++ join sep r end.
Definition r_names (n : names) : string :=
  match n with None => "-" | Some l => "(" ++ join "," (map (fun p => fst p ++ "+" ++ b01 (snd p)) l) ++ ")" end.
Definition r_tuple (t : etuple) : string :=
  b01 (t_def t) ++ b01 (t_def_f t) ++ "." ++ r_names (t_imp t) ++ "." ++ b01 (t_imp_f t) ++ "." ++ r_names (t_trt t) ++ "." ++ b01 (t_trt_f t).
Definition r_lib (l : lib) : string := match l with Std => "std" | Smol => "smol" | Tokio => "tokio" | AsyncStd => "async_std" end.
Definition r_acfg (a : acfg) : string :=
  "n=" ++ ostr (a_name a) ++ ";f=" ++ ostr (a_first a) ++ ";l=" ++ r_lib (a_lib a) ++ ";s=" ++ b01 (a_show a)
  ++ ";c=" ++ (match a_chan a with Unbounded => "u" | Buffer n => nstr n end)
  ++ ";e=" ++ b01 (e_remove (a_edit a)) ++ "/" ++ r_tuple (e_script (a_edit a)) ++ "/" ++ r_tuple (e_live (a_edit a))
  ++ ";d=" ++ b01 (a_debut a) ++ ";p=" ++ ostr (a_file a) ++ ";i=" ++ b01 (a_interact a)
  ++ ";x=" ++ (match a_filter a with None => "-" | Some (FInclude l) => "I:" ++ join "," l | Some (FExclude l) => "E:" ++ join "," l end)
  ++ ";r=" ++ (match a_rcv a with RSlf => "S" | RRwLock => "R" | RMutex => "M" end)
  ++ ";g=" ++ b01 (a_debug a) ++ ";m=" ++ (match a_mac a with Actor => "A" | Family => "F" end) ++ ";at=" ++ b01 (a_attr a).
Definition r_cfg (c : cfg) : string :=
  r_acfg (c_top c) ++ "[" ++ join "" (map (fun p => fst p ++ "{" ++ r_acfg (snd p) ++ "}") (c_members c)) ++ "]".
Definition r_ecfg (e : ecfg) : string :=
  "p=" ++ ostr (x_path e) ++ ";m=" ++ b01 (x_main e) ++ ";x=" ++ join "," (map (fun k => match k with Actor => "A" | Family => "F" end) (x_expand e)).

Definition r_res {A} (f : A -> string) (r : res A) : string :=
  match r with Ok a => "OK " ++ f a | Diag _ => "DIAG" | Panic => "PANIC" end.
