(* Invariants of the family LTS of Family.v, proved for every schedule. *)
From Coq Require Import List Arith Bool Lia.
Import ListNotations.
From IT Require Import Runtime.Family.

Section FamilyInv.
Context {A V : Type}.
Variable sem : nat -> A -> list V -> option (A * V).

Ltac fstep_cases H :=
  unfold fstep in H;
  repeat match type of H with
  | context [match ?x with _ => _ end] => destruct x eqn:?; try discriminate H
  end;
  try (injection H as <-).

(* ---- list lemmas (Family.v has its own upd) ---- *)
Lemma fupd_length {X} (l : list X) i x : length (upd l i x) = length l.
Proof. revert i; induction l as [|h t IH]; intros [|i]; cbn; auto. Qed.

Lemma fupd_same {X} (l : list X) i x : i < length l -> nth_error (upd l i x) i = Some x.
Proof. revert i; induction l as [|h t IH]; intros [|i] H; cbn in *; try lia; auto. apply IH; lia. Qed.

Lemma fupd_other {X} (l : list X) i j x : i <> j -> nth_error (upd l i x) j = nth_error l j.
Proof.
  revert i j; induction l as [|h t IH]; intros [|i] [|j] H; cbn; try reflexivity.
  - exfalso; apply H; reflexivity.
  - apply IH; congruence.
Qed.

Lemma nth_some_lt {X} (l : list X) i x : nth_error l i = Some x -> i < length l.
Proof. intro H. apply nth_error_Some. congruence. Qed.

Lemma fupd_same' {X} (l : list X) i x y : nth_error l i = Some y -> nth_error (upd l i x) i = Some x.
Proof. intro H. apply fupd_same. eapply nth_some_lt; eauto. Qed.

Lemma NoDup_snoc' {X} (l : list X) x : NoDup l -> ~ In x l -> NoDup (l ++ [x]).
Proof.
  induction l as [|h t IH]; cbn; intros Hd Hn.
  - constructor; [intros []|constructor].
  - inversion Hd as [|? ? Hh Ht]; subst. constructor.
    + rewrite in_app_iff. cbn. intros [H|[H|[]]]; [auto|]. apply Hn; left; auto.
    + apply IH; auto.
Qed.

(* ---- generic lifting ---- *)
Lemma frun_inv (P : @fstate A V -> Prop) m :
  (forall s ch s', P s -> fstep sem m s ch = Some s' -> P s') ->
  forall sched s, P s -> P (frun_from sem m s sched).
Proof.
  intros Hstep sched. induction sched as [|ch t IH]; intros s Hs; cbn; [exact Hs|].
  apply IH. unfold fstep'. destruct (fstep sem m s ch) eqn:E; [eapply Hstep; eauto|exact Hs].
Qed.

(* ---- release is a filter ---- *)
Lemma release_In hs i j l : In (j, l) (release hs i) <-> In (j, l) hs /\ j <> i.
Proof. unfold release. rewrite filter_In. cbn. rewrite negb_true_iff, Nat.eqb_neq. tauto. Qed.

Lemma release_NoDup hs i : NoDup (map fst hs) -> NoDup (map fst (release hs i)).
Proof.
  induction hs as [|[j l] t IH]; cbn; intro H; [constructor|].
  inversion H as [|? ? Hn Hd]; subst.
  destruct (negb (j =? i)); cbn; auto. constructor; auto.
  intro Hin. apply Hn. apply in_map_iff in Hin as [[j' l'] [E Hin]]. cbn in E; subst.
  apply filter_In in Hin as [Hin _]. apply in_map_iff. exists (j, l'); auto.
Qed.

Lemma release_single i j l : j <> i -> release [(j, l)] i = [(j, l)].
Proof. intro H. unfold release; cbn. apply Nat.eqb_neq in H. rewrite H. reflexivity. Qed.

(* ---- exclusion and holding ---- *)
Definition holds (m : fmodel) (ms : list (@member V)) (i : nat) (l : lockmode) :=
  exists mb x fm, nth_error ms i = Some mb /\ mbusy mb = Some (x, Holding) /\
                  meth_of m i (g_meth x) = Some fm /\ fm_mode fm = l.

Lemma holds_other m ms i mb' j l : j <> i -> holds m ms j l -> holds m (upd ms i mb') j l.
Proof. intros Hn (mb & x & fm & H). exists mb, x, fm. rewrite fupd_other by auto. exact H. Qed.

Lemma not_holder m (s : @fstate A V) i mb :
  hold_ok m s -> nth_error (members s) i = Some mb -> (forall x, mbusy mb <> Some (x, Holding)) ->
  forall l, ~ In (i, l) (holders s).
Proof.
  intros Hh Hn Hb l Hin. destruct (Hh _ _ Hin) as (mb' & x & fm & E & B & _).
  rewrite Hn in E; injection E as <-. exact (Hb _ B).
Qed.

Lemma not_holder_ne m (s : @fstate A V) i mb :
  hold_ok m s -> nth_error (members s) i = Some mb -> (forall x, mbusy mb <> Some (x, Holding)) ->
  forall j l, In (j, l) (holders s) -> j <> i.
Proof. intros Hh Hn Hb j l Hin ->. eapply not_holder; eauto. Qed.

Definition excl_l (hs : list (nat * lockmode)) :=
  NoDup (map fst hs) /\
  (forall i l, In (i, l) hs -> exclusive l = true -> hs = [(i, l)]) /\
  (forall i l, In (i, l) hs -> l <> LNone).
Definition hold_l m (hs : list (nat * lockmode)) (ms : list (@member V)) :=
  forall i l, In (i, l) hs -> holds m ms i l.

Lemma hold_l_idle m hs ms i mb mb' :
  hold_l m hs ms -> nth_error ms i = Some mb -> (forall x, mbusy mb <> Some (x, Holding)) ->
  hold_l m hs (upd ms i mb').
Proof.
  intros Hh Hn Hb j l Hin. apply holds_other; [|apply Hh; exact Hin].
  intros ->. destruct (Hh _ _ Hin) as (mb0 & x & fm & E & B & _).
  rewrite Hn in E; injection E as <-. exact (Hb _ B).
Qed.

Lemma hold_l_env m hs ms i mb mb' :
  hold_l m hs ms -> nth_error ms i = Some mb -> mbusy mb' = mbusy mb -> hold_l m hs (upd ms i mb').
Proof.
  intros Hh Hn Hb j l Hin. destruct (Nat.eq_dec j i) as [->|Hne].
  - destruct (Hh _ _ Hin) as (mb0 & x & fm & E & B & M & F).
    rewrite Hn in E; injection E as <-. exists mb', x, fm.
    rewrite (fupd_same' _ _ _ _ Hn), Hb. auto.
  - apply holds_other; auto.
Qed.

Lemma compatible_read hs : compatible hs LRead = true -> forall j l, In (j, l) hs -> exclusive l = false.
Proof.
  cbn. intros H j l Hin. rewrite forallb_forall in H. specialize (H _ Hin). cbn in H.
  apply negb_true_iff in H. exact H.
Qed.

Lemma compatible_excl hs l : exclusive l = true -> compatible hs l = true -> hs = [].
Proof. destruct l; cbn; try discriminate; destruct hs; auto; discriminate. Qed.

Lemma acquire_ok m hs ms i mb mb' x fm l :
  excl_l hs -> hold_l m hs ms -> nth_error ms i = Some mb -> mbusy mb = Some (x, Taken) ->
  meth_of m i (g_meth x) = Some fm -> fm_mode fm = l -> l <> LNone -> compatible hs l = true ->
  mbusy mb' = Some (x, Holding) ->
  excl_l (hs ++ [(i, l)]) /\ hold_l m (hs ++ [(i, l)]) (upd ms i mb').
Proof.
  intros (Hnd & Hex & Hnn) Hh Hn Hb Hm Hf Hl Hc Hb'.
  assert (Hni : forall l', ~ In (i, l') hs).
  { intros l' Hin. destruct (Hh _ _ Hin) as (mb0 & x0 & fm0 & E & B & _).
    rewrite Hn in E; injection E as <-. congruence. }
  split; [split; [|split]|].
  - rewrite map_app. cbn. apply NoDup_snoc'; auto.
    intro Hin. apply in_map_iff in Hin as [[j l'] [E Hin]]. cbn in E; subst j. exact (Hni _ Hin).
  - intros j l' Hin He. destruct (exclusive l) eqn:El.
    + rewrite (compatible_excl _ _ El Hc) in *. cbn in *. destruct Hin as [E|[]]. rewrite E. reflexivity.
    + assert (l = LRead) as -> by (destruct l; cbn in El; congruence).
      apply in_app_iff in Hin as [Hin|[E|[]]].
      * rewrite (compatible_read _ Hc _ _ Hin) in He. discriminate.
      * injection E as <- <-. discriminate.
  - intros j l' Hin. apply in_app_iff in Hin as [Hin|[E|[]]]; [eauto|]. injection E as <- <-. exact Hl.
  - intros j l' Hin. apply in_app_iff in Hin as [Hin|[E|[]]].
    + apply holds_other; [|apply Hh; exact Hin]. intros ->. exact (Hni _ Hin).
    + injection E as <- <-. exists mb', x, fm. rewrite (fupd_same' _ _ _ _ Hn). auto.
Qed.

Lemma release_excl hs i : excl_l hs -> excl_l (release hs i).
Proof.
  intros (Hnd & Hex & Hnn). split; [|split].
  - apply release_NoDup; exact Hnd.
  - intros j l Hin He. apply release_In in Hin as [Hin Hne].
    rewrite (Hex _ _ Hin He). apply release_single; exact Hne.
  - intros j l Hin. apply release_In in Hin as [Hin _]. eauto.
Qed.

Lemma release_hold m hs ms i mb' : hold_l m hs ms -> hold_l m (release hs i) (upd ms i mb').
Proof.
  intros Hh j l Hin. apply release_In in Hin as [Hin Hne]. apply holds_other; auto.
Qed.

Definition eh_inv m (s : @fstate A V) := excl_ok s /\ hold_ok m s.

Lemma eh_step m s ch s' : eh_inv m s -> fstep sem m s ch = Some s' -> eh_inv m s'.
Proof.
  intros [He Hh] H.
  change (excl_l (holders s)) in He. change (hold_l m (holders s) (members s)) in Hh.
  unfold eh_inv. change (excl_l (holders s') /\ hold_l m (holders s') (members s')).
  fstep_cases H; cbn [holders members].
  - split; [exact He|]. eapply hold_l_env; eauto.
  - eapply acquire_ok; eauto; cbn; congruence.
  - eapply acquire_ok; eauto; cbn; congruence.
  - eapply acquire_ok; eauto; cbn; congruence.
  - split; [exact He|]. eapply hold_l_idle; eauto. intros; congruence.
  - split; [apply release_excl; exact He|apply release_hold; exact Hh].
  - split; [apply release_excl; exact He|apply release_hold; exact Hh].
  - split; [exact He|]. eapply hold_l_idle; eauto. intros; congruence.
Qed.

Lemma eh_init m a0 k : eh_inv m (@finit A V a0 k).
Proof.
  split.
  - split; [constructor|split]; intros i l [].
  - intros i l [].
Qed.

Theorem excl_reachable m a0 sched : excl_ok (frun sem m a0 sched) /\ hold_ok m (frun sem m a0 sched).
Proof. unfold frun. apply (frun_inv (eh_inv m) m (eh_step m)). apply eh_init. Qed.

Corollary mutating_calls_never_overlap m a0 sched :
  let s := frun sem m a0 sched in
  forall i l j l', In (i, l) (holders s) -> In (j, l') (holders s) -> (i, l) <> (j, l') ->
    exclusive l = false /\ exclusive l' = false.
Proof.
  intros s i l j l' H1 H2 Hne.
  destruct (excl_reachable m a0 sched) as [(_ & Hex & _) _]. fold s in Hex.
  split.
  - destruct (exclusive l) eqn:E; [|reflexivity]. exfalso.
    rewrite (Hex _ _ H1 E) in H2. destruct H2 as [H2|[]]. auto.
  - destruct (exclusive l') eqn:E; [|reflexivity]. exfalso.
    rewrite (Hex _ _ H2 E) in H1. destruct H1 as [H1|[]]. auto.
Qed.

Corollary mutex_one_at_a_time m a0 sched :
  (forall i k fm, meth_of m i k = Some fm -> fm_mode fm = LMutex) ->
  length (holders (frun sem m a0 sched)) <= 1.
Proof.
  intro Hall. destruct (excl_reachable m a0 sched) as [(_ & Hex & _) Hh].
  destruct (holders (frun sem m a0 sched)) as [|[i l] t] eqn:E; [cbn; lia|].
  assert (Hin : In (i, l) (holders (frun sem m a0 sched))) by (rewrite E; left; reflexivity).
  destruct (Hh _ _ Hin) as (mb & x & fm & _ & _ & Hm & Hf).
  rewrite (Hall _ _ _ Hm) in Hf. subst l.
  rewrite (Hex i LMutex) by (cbn; auto). cbn. lia.
Qed.

(* ---- the shared value is the sequential replay of the applied calls ---- *)
Definition seq_inv a0 (s : @fstate A V) := FReplay sem a0 (fapplied s) (factor s).

Lemma seq_step a0 m s ch s' : seq_inv a0 s -> fstep sem m s ch = Some s' -> seq_inv a0 s'.
Proof.
  unfold seq_inv. intros Hr H. fstep_cases H; cbn [fapplied factor]; try exact Hr.
  eapply frp_snoc; eauto.
Qed.

Theorem family_sequential m a0 sched :
  FReplay sem a0 (fapplied (frun sem m a0 sched)) (factor (frun sem m a0 sched)).
Proof. unfold frun. apply (frun_inv (seq_inv a0) m (seq_step a0 m)). constructor. Qed.

Theorem one_constructor_run m a0 sched : fctor_runs (frun sem m a0 sched) = 1.
Proof.
  unfold frun. apply (frun_inv (fun s => fctor_runs s = 1) m); [|reflexivity].
  intros s ch s' Hs H. fstep_cases H; cbn; exact Hs.
Qed.

(* ---- per-member order ---- *)
Lemma of_member_snoc {X} i (l : list (nat * X)) j c :
  of_member i (l ++ [(j, c)]) = of_member i l ++ (if Nat.eqb j i then [c] else []).
Proof.
  unfold of_member. rewrite filter_app, map_app. cbn. destruct (j =? i); reflexivity.
Qed.

Lemma of_member_snoc_same {X} i (l : list (nat * X)) c : of_member i (l ++ [(i, c)]) = of_member i l ++ [c].
Proof. rewrite of_member_snoc, Nat.eqb_refl. reflexivity. Qed.

Lemma of_member_snoc_other {X} i (l : list (nat * X)) j c : j <> i -> of_member i (l ++ [(j, c)]) = of_member i l.
Proof. intro H. rewrite of_member_snoc. apply Nat.eqb_neq in H. rewrite H. apply app_nil_r. Qed.

Definition pend_ok (tk ap : list nat) (omb : option (@member V)) : Prop :=
  match omb with
  | None => tk = [] /\ ap = []
  | Some mb =>
      match mbusy mb with
      | Some (x, _) => tk = ap ++ [g_id x]
      | None => if mdead mb then exists rest, tk = ap ++ rest /\ length rest <= 1 else tk = ap
      end
  end.

Definition ord_inv (s : @fstate A V) :=
  forall i, pend_ok (of_member i (ftaken s)) (of_member i (applied_pairs s)) (nth_error (members s) i).

Lemma applied_pairs_snoc (s : @fstate A V) l i c k args r :
  map (fun e : nat * nat * nat * list V * V => match e with (i, c, _, _, _) => (i, c) end) (l ++ [(i, c, k, args, r)]) =
  map (fun e : nat * nat * nat * list V * V => match e with (i, c, _, _, _) => (i, c) end) l ++ [(i, c)].
Proof. rewrite map_app. reflexivity. Qed.

Lemma ord_step m s ch s' : ord_inv s -> fstep sem m s ch = Some s' -> ord_inv s'.
Proof.
  intros Ho H j. specialize (Ho j). unfold applied_pairs in *.
  fstep_cases H; cbn [ftaken fapplied members];
    (destruct (Nat.eq_dec j i) as [->|Hne];
     [ rewrite (fupd_same' _ _ _ _ Heqo); rewrite Heqo in Ho; cbn [pend_ok] in Ho;
       try match goal with E : mbusy _ = _ |- _ => rewrite E in Ho end;
       try match goal with E : mdead _ = _ |- _ => rewrite E in Ho end;
       rewrite ?map_app; cbn [map]; rewrite ?of_member_snoc_same; cbn [pend_ok mbusy mdead]
     | rewrite (fupd_other _ _ _ _ (not_eq_sym Hne));
       rewrite ?map_app; cbn [map]; rewrite ?of_member_snoc_other by congruence; exact Ho ]);
    try exact Ho.
  - eexists; split; [exact Ho|cbn; lia].
  - rewrite Ho; reflexivity.
Qed.

Lemma nth_error_repeat {X} (x y : X) k i : nth_error (repeat x k) i = Some y -> y = x.
Proof. intro H. apply nth_error_In in H. apply repeat_spec in H. exact H. Qed.

Lemma ord_init a0 k : ord_inv (@finit A V a0 k).
Proof.
  intro i. cbn. destruct (nth_error _ i) as [mb|] eqn:E; cbn; [|auto].
  apply nth_error_repeat in E. subst mb. reflexivity.
Qed.

Lemma ord_inv_order s : ord_inv s -> member_order_ok s.
Proof.
  intros Ho i. specialize (Ho i). unfold pend_ok in Ho.
  destruct (nth_error (members s) i) as [mb|].
  - destruct (mbusy mb) as [[x ph]|].
    + exists [g_id x]. split; [exact Ho|cbn; lia].
    + destruct (mdead mb); [exact Ho|]. exists []. rewrite app_nil_r. split; [exact Ho|cbn; lia].
  - destruct Ho as [-> ->]. exists []. split; [reflexivity|cbn; lia].
Qed.

Theorem member_order_reachable m a0 sched : member_order_ok (frun sem m a0 sched).
Proof.
  apply ord_inv_order. unfold frun. apply (frun_inv ord_inv m (ord_step m)). apply ord_init.
Qed.

(* ---- converse of hold_ok: a member in phase Holding with a locking mode is among the holders ---- *)
Definition conv_inv m (s : @fstate A V) :=
  forall i mb x fm, nth_error (members s) i = Some mb -> mbusy mb = Some (x, Holding) ->
    meth_of m i (g_meth x) = Some fm -> fm_mode fm <> LNone -> In (i, fm_mode fm) (holders s).

Lemma fupd_nth {X} (l : list X) i x j y z :
  nth_error l i = Some z -> nth_error (upd l i x) j = Some y ->
  (j = i /\ y = x) \/ (j <> i /\ nth_error l j = Some y).
Proof.
  intros Hz H. destruct (Nat.eq_dec j i) as [->|Hne].
  - rewrite (fupd_same' _ _ _ _ Hz) in H. injection H as <-. left; auto.
  - rewrite fupd_other in H by congruence. right; auto.
Qed.

Lemma conv_step m s ch s' : conv_inv m s -> fstep sem m s ch = Some s' -> conv_inv m s'.
Proof.
  intros Hc H j mb x fm Hn Hb Hm Hl.
  fstep_cases H; cbn [holders members] in *;
    (destruct (fupd_nth _ _ _ _ _ _ Heqo Hn) as [[-> ->]|[Hne Hn']];
     [ cbn [mbusy] in Hb
     | specialize (Hc _ _ _ _ Hn' Hb Hm Hl);
       first [ exact Hc
             | apply in_app_iff; left; exact Hc
             | apply release_In; split; [exact Hc|exact Hne] ] ]);
    try discriminate Hb.
  - eapply Hc; eauto.
  - injection Hb as <-. rewrite Heqo1 in Hm; injection Hm as <-.
    apply in_app_iff; right; left. congruence.
  - injection Hb as <-. rewrite Heqo1 in Hm; injection Hm as <-.
    apply in_app_iff; right; left. congruence.
  - injection Hb as <-. rewrite Heqo1 in Hm; injection Hm as <-.
    apply in_app_iff; right; left. congruence.
  - injection Hb as <-. rewrite Heqo1 in Hm; injection Hm as <-. congruence.
Qed.

Lemma conv_init m a0 k : conv_inv m (@finit A V a0 k).
Proof.
  intros i mb x fm Hn Hb. cbn in Hn. apply nth_error_repeat in Hn. subst mb. discriminate Hb.
Qed.

Theorem holding_is_holder m a0 sched i mb x fm :
  let s := frun sem m a0 sched in
  nth_error (members s) i = Some mb -> mbusy mb = Some (x, Holding) -> meth_of m i (g_meth x) = Some fm ->
  fm_mode fm <> LNone -> In (i, fm_mode fm) (holders s).
Proof.
  intro s. revert i mb x fm. change (conv_inv m s). unfold s, frun.
  apply (frun_inv (conv_inv m) m (conv_step m)). apply conv_init.
Qed.

End FamilyInv.

Example readers_can_overlap :
  exists (m : fmodel) sched,
    let s := @frun nat nat (fun _ a _ => Some (a, a)) m 0 sched in
    exists i j, i <> j /\ In (i, LRead) (holders s) /\ In (j, LRead) (holders s).
Proof.
  exists {| f_members := [[{| fm_mode := LRead; fm_callee := 0; fm_mut := false |}]; [{| fm_mode := LRead; fm_callee := 0; fm_mut := false |}]] |}.
  exists [Env 0 {| g_id := 0; g_meth := 0; g_args := [] |};
          Env 1 {| g_id := 1; g_meth := 0; g_args := [] |};
          Mem 0; Mem 0; Mem 1; Mem 1].
  vm_compute. exists 0, 1.
  split; [discriminate|]. split; [left; reflexivity|right; left; reflexivity].
Qed.

