(* C08 -- channel = n bounds the queue; channel = 0 or absent never blocks callers.
   Statements only; proofs live in Runtime/ActorInv.v. *)
From Coq Require Import List Arith NArith.
From Coq Require String Ascii.
Import ListNotations.
From IT Require Import Sdpl.IR Sdpl.Elab Sdpl.Wf Runtime.Actor Runtime.ActorInv Runtime.InvUnblock Gen.Channel Gen.Literal.

Section C08.
Context {A V : Type} (sem : nat -> A -> list V -> option (A * V)) (sem_slf : nat -> A -> list V -> V) (dv : V).

(* at most n calls accepted but not yet taken by the actor, in every reachable state of every schedule
   of every client program *)
Theorem C08_bound : forall (m : model) n, wf_C08 m = true -> cap_of m = Some n ->
  forall a0 progs sched, length (queue (run sem sem_slf dv (elab m) a0 progs sched)) <= n.
Proof. intros m n _ Hc a0 progs sched. exact (cap_reachable sem sem_slf dv (elab m) a0 progs sched n Hc). Qed.

(* a further caller waits: no error, its call neither dropped nor duplicated, state unchanged *)
Theorem C08_blocked_waits : forall (m : model), wf_C08 m = true ->
  forall s t cid k vs ab rm, at_send s t cid k vs ab -> meth (elab m) k = Some rm -> alive s = true ->
  room (r_cap (elab m)) (queue s) = false ->
  step sem sem_slf dv (elab m) s (Cl t) = None /\ step' sem sem_slf dv (elab m) s (Cl t) = s.
Proof.
  intros m W s t cid k vs ab rm Ha Hm Al R.
  apply (blocked_waits sem sem_slf dv (elab m) s t cid k vs ab rm Ha Hm); auto.
  unfold wf_C08 in W. apply andb_prop in W. destruct W as [_ W]. exact (meth_blocking (elab m) k rm W Hm).
Qed.

(* ... until space frees; then it is accepted at the tail (served in order) *)
Theorem C08_unblocked_enqueues : forall (m : model) s t cid k vs ab rm,
  at_send s t cid k vs ab -> meth (elab m) k = Some rm -> alive s = true -> room (r_cap (elab m)) (queue s) = true ->
  exists s', step sem sem_slf dv (elab m) s (Cl t) = Some s'
    /\ queue s' = queue s ++ [Msg cid k (route dv (rm_fields rm) vs)] /\ enq s' = enq s ++ [cid] /\ lost s' = lost s.
Proof. intros m. exact (unblocked_enqueues sem sem_slf dv (elab m)). Qed.

(* nothing is discarded on the handle side while the actor is alive *)
Theorem C08_not_lost : forall (m : model), wf_C08 m = true ->
  forall a0 progs sched, no_loss (run sem sem_slf dv (elab m) a0 progs sched).
Proof.
  intros m W a0 progs sched. apply no_loss_reachable.
  unfold wf_C08 in W. apply andb_prop in W. exact (proj2 W).
Qed.

(* channel = 0 or absent: capacity never makes a caller wait *)
Theorem C08_unbounded_never_waits : forall (m : model), cap_of m = None ->
  forall s t cid k vs ab rm, at_send s t cid k vs ab -> meth (elab m) k = Some rm -> alive s = true ->
  step sem sem_slf dv (elab m) s (Cl t) <> None.
Proof. intros m Hc s t cid k vs ab rm. exact (unbounded_never_waits sem sem_slf dv (elab m) s t cid k vs ab rm Hc). Qed.
(* progress under a bound: a caller blocked on the full queue is released by the actor's next take -- in every
   reachable state with an idle live actor, the take is enabled (a full queue has a head), removes exactly the head,
   and the blocked caller's send then succeeds at the tail: accepted once, nothing lost, order kept *)
Theorem C08_blocked_until_take : forall (m : model) n, cap_of m = Some n ->
  forall a0 progs sched x q t cid k vs ab rm,
  let s := run sem sem_slf dv (elab m) a0 progs sched in
  alive s = true -> busy s = None -> queue s = x :: q -> is_stop x = false ->
  at_send s t cid k vs ab -> meth (elab m) k = Some rm ->
  exists s1 s2, step sem sem_slf dv (elab m) s Ac = Some s1 /\ step sem sem_slf dv (elab m) s1 (Cl t) = Some s2
    /\ deq s1 = deq s ++ [msg_id x]
    /\ queue s2 = q ++ [Msg cid k (route dv (rm_fields rm) vs)]
    /\ enq s2 = enq s ++ [cid] /\ lost s2 = lost s.
Proof. intros m n Hc a0 progs sched x q t cid k vs ab rm. exact (reachable_take_unblocks sem sem_slf dv (elab m) a0 progs sched n x q t cid k vs ab rm Hc). Qed.

(* a blocked caller implies a non-empty queue whenever the capacity is positive (the generator never emits a zero bound:
   channel = 0 is the unbounded constructor, C08_literal_value_decides) *)
Theorem C08_blocked_queue_has_head : forall (m : model) n, cap_of m = Some n -> 0 < n ->
  forall (s : @st A V), room (r_cap (elab m)) (queue s) = false -> exists x q, queue s = x :: q.
Proof. intros m n Hc Pn s. exact (blocked_queue_has_head (elab m) s n Hc Pn). Qed.
(* channel = 0 or absent, full strength: the send of a live actor's caller is not merely enabled - it is accepted at the tail,
   exactly once, and nothing is discarded, whatever the queue already holds *)
Theorem C08_unbounded_accepts : forall (m : model), cap_of m = None ->
  forall s t cid k vs ab rm, at_send s t cid k vs ab -> meth (elab m) k = Some rm -> alive s = true ->
  exists s', step sem sem_slf dv (elab m) s (Cl t) = Some s'
    /\ queue s' = queue s ++ [Msg cid k (route dv (rm_fields rm) vs)] /\ enq s' = enq s ++ [cid] /\ lost s' = lost s.
Proof.
  intros m Hc s t cid k vs ab rm Hat Hm Al.
  apply (unblocked_enqueues sem sem_slf dv (elab m) s t cid k vs ab rm Hat Hm Al).
  change (r_cap (elab m)) with (cap_of m). rewrite Hc. reflexivity.
Qed.
End C08.

(* generator side: the option decides the capacity as documented; a family member inherits or overrides (0 included) *)
Theorem C08_option_to_cap : forall opt, cap_of_chan (actor_chan opt) = spec_cap None opt.
Proof. exact option_to_cap. Qed.
Theorem C08_member_inherit_override : forall f m, cap_of_chan (member_chan f m) = spec_cap f m.
Proof. exact member_inherit_override. Qed.
Theorem C08_ctor_table : forall l c, l <> LibOther -> cap_of_ctor (mpsc_ctor l c) = cap_of_chan c.
Proof. exact ctor_table. Qed.

(* ---- the literal after `channel =` (Gen/Literal.v): only its value matters ---- *)
Theorem C08_literal_value_decides : forall cur s k, lit_value s = Some k ->
  literal_chan cur s = Some (if (0 <? k)%N then Buffer k else Unbounded).
Proof. exact literal_chan_by_value. Qed.

Theorem C08_literal_cap : forall s, option_map cap_of_chan (literal_chan Unbounded s) = literal_cap s.
Proof. exact literal_cap_chan. Qed.

(* `_` separators between digits do not change what is scanned *)
Theorem C08_literal_separators : forall base cs acc nd,
  (forall c, In c cs -> is_us c = true \/ digit_in base c <> None) ->
  scan base cs acc nd = scan base (filter (fun c => negb (is_us c)) cs) acc nd.
Proof. exact scan_separators. Qed.

(* an integer type suffix does not change the value *)
Theorem C08_literal_suffix_irrelevant : forall base ds sfx acc,
  (forall c, In c ds -> is_us c = true \/ digit_in base c <> None) ->
  In sfx suffixes ->
  match String.list_ascii_of_string sfx with c :: _ => is_us c = false /\ digit_in base c = None | [] => False end ->
  finish (scan base (ds ++ String.list_ascii_of_string sfx) acc 0) = finish (scan base ds acc 0).
Proof. exact suffix_irrelevant. Qed.

(* reading only the leading decimal digits of the text is a different function: `0x2` has value 2 and leading decimal digits 0 *)
Theorem C08_literal_leading_decimal_refuted : exists s k, lit_value s = Some k /\ (0 < k)%N /\ leading_decimal s = 0%N.
Proof. exact leading_decimal_refuted. Qed.

Print Assumptions C08_bound.
Print Assumptions C08_option_to_cap.
Print Assumptions C08_member_inherit_override.
Print Assumptions C08_ctor_table.
Print Assumptions C08_blocked_waits.
Print Assumptions C08_unblocked_enqueues.
Print Assumptions C08_not_lost.
Print Assumptions C08_unbounded_never_waits.
Print Assumptions C08_unbounded_accepts.
Print Assumptions C08_blocked_until_take.
Print Assumptions C08_blocked_queue_has_head.
Print Assumptions C08_literal_value_decides.
Print Assumptions C08_literal_cap.
Print Assumptions C08_literal_separators.
Print Assumptions C08_literal_suffix_irrelevant.
Print Assumptions C08_literal_leading_decimal_refuted.
