"""C08 -- channel = n bounds the queue; channel = 0 or absent never blocks callers."""
import random, json, os
import hook, inst, gen_impl
from common import *

PID = "C08"
RULE = ("instances = real expansions for lib x channel option x impl blocks (+ families with inherited / overridden member channel); "
        "non-trivial = distinct (lib, channel option, family role, number of messaging methods) classes")


def configs(rng, tier):
    cs = []
    chans = [None, 0, 1, 2, 3, 4, 7]
    for lib in gen_impl.LIBS:
        for ch in chans:
            impls = [gen_impl.probe_impl(lib, slf=(ch in (1, 3)))]
            nrand = 1 if tier == "quick" else 6
            impls += [gen_impl.random_impl(rng, lib) for _ in range(nrand)]
            for im in impls:
                cs.append({"kind": "actor", "lib": lib, "attr": gen_impl.actor_attr(lib, ch, debut=rng.random() < 0.3), "item": im["item"],
                           "want": [ch if ch else None], "opts": [(None, ch)], "label": "actor lib=%s channel=%s" % (lib, ch)})
    # large capacities: the option is passed through unchanged whatever its size (one impl block each, no burst search)
    for lib in gen_impl.LIBS:
        for ch in (65536, 65537, 100000):
            cs.append({"kind": "actor", "lib": lib, "attr": gen_impl.actor_attr(lib, ch), "item": gen_impl.probe_impl(lib)["item"],
                       "want": [ch], "opts": [(None, ch)], "label": "actor lib=%s channel=%s" % (lib, ch), "big": True})
    # spellings of the literal: the capacity is the literal's value whatever its radix, separators or suffix
    for lib in gen_impl.LIBS:
        for sp, ch in (("0x2", 2), ("0b11", 3), ("0o2", 2), ("3usize", 3), ("1_0", 10), ("2_usize", 2), ("0x0", 0), ("0_0", 0), ("0x1_0", 16)):
            cs.append({"kind": "actor", "lib": lib, "attr": gen_impl.actor_attr(lib, sp), "item": gen_impl.probe_impl(lib)["item"],
                       "want": [ch if ch else None], "opts": [(None, ch)], "txt": [(None, sp)], "label": "actor lib=%s channel=%s" % (lib, sp)})
    for sp, ch in (("0x2", 2), ("0b11", 3)):
        cs.append({"kind": "family", "lib": "std", "attr": 'channel = %s, actor(first_name = "U", channel = %s), actor(first_name = "V")' % (sp, "0o4"),
                   "item": gen_impl.probe_impl("std")["item"], "want": [4, ch], "opts": [(ch, 4), (ch, None)], "txt": [(sp, "0o4"), (sp, None)],
                   "label": "family lib=std channel=%s member channel=0o4" % sp})
    # families: inherited and overridden member capacity
    for lib in ("std", "tokio", "async_std"):
        for fam_ch in (None, 0, 2, 3):
            for mem_ch in (None, 0, 1, 4):
                fam = ['lib = "%s"' % lib] if lib != "std" else []
                if fam_ch is not None:
                    fam.append("channel = %d" % fam_ch)
                m1 = 'actor(first_name = "U"%s)' % ("" if mem_ch is None else ", channel = %d" % mem_ch)
                m2 = 'actor(first_name = "V")'
                want_u = (mem_ch if mem_ch else None) if mem_ch is not None else (fam_ch if fam_ch else None)
                want_v = fam_ch if fam_ch else None
                cs.append({"kind": "family", "lib": lib, "attr": ", ".join(fam + [m1, m2]), "item": gen_impl.probe_impl(lib)["item"],
                           "want": [want_u, want_v], "opts": [(fam_ch, mem_ch), (fam_ch, None)], "label": "family lib=%s channel=%s member channel=%s" % (lib, fam_ch, mem_ch)})
    return cs


def coq_opt(n):
    return "None" if n is None else "(Some %d)" % n


def run(rep):
    rng = random.Random(rep.seed)
    rep.extra["rule"] = RULE
    # 1. universal theorems
    nthm, problems, _ = property_theorems(PID)
    rep.checker_cmds.append("make -C coq theories/Properties/C08.vo (Print Assumptions must be closed)")
    for _ in range(nthm):
        rep.oblige(not problems)
    bad = hygiene()
    rep.oblige(not bad)
    if problems or bad:
        rep.violation("theorems", {"what": "property theorem file no longer checks", "problems": problems, "hygiene": bad}, found=False)
    # 2. T-tie: instance premises on what the macro emits now
    cs = inst.expand_configs(configs(rng, rep.tier), tag="c08")
    terms, owners = [], []
    for c in cs:
        rep.evaluations += 1
        rep.count("lib", c["lib"])
        rep.count("kind", c["kind"])
        if c["class"] != "TOKENS":
            rep.oblige(False)
            rep.violation("expansion_" + c["label"], {"what": "valid configuration not expanded", "class": c["class"], "attr": c["attr"], "item": c["item"], "output": c["text"][:2000]})
            continue
        ms = inst.coq_models(c)
        if len(ms) != len(c["want"]) or any(m is None for m in ms):
            rep.oblige(False)
            rep.violation("shape_" + c["label"], {"what": "expansion not recognised as %d model(s)" % len(c["want"]), "attr": c["attr"], "item": c["item"],
                                                  "errors": c.get("render_errors"), "parse_error": c.get("parse_error")}, found=False)
            continue
        for j, m in enumerate(ms):
            terms.append(m)
            owners.append((c, j))
    def nopt(x):
        return "None" if x is None else "(Some %d%%N)" % x
    funs = [("wf", "wf_C08 {i}"), ("cap", "capN_of {i}"), ("search", "c08_search (elab {i}) {a}")]
    res, mod = inst.coq_eval(PID, terms, funs, extra_imports="From IT Require Import Runtime.Explore Gen.Channel.", per_inst_args=[coq_opt(None if c.get("big") else c["want"][j]) for c, j in owners])
    # the generator model (Gen/Channel.v) predicts the constructor of every instance from the options it was given
    def topt(x):
        return "None" if x is None else '(Some "%s"%%string)' % x
    # options written with a spelled literal are handed to Coq as TEXT: Gen/Literal.v `lit_value` decides what capacity they ask for
    vals = inst.coq_values("C08_ctor", inst.HEADER + "From IT Require Import Gen.Channel Gen.Literal.\nFrom ITG Require Import C08_inst.",
                           [("m%d" % k, ("ctor_matches_lit inst_%d %s %s" % (k, topt(c["txt"][j][0]), topt(c["txt"][j][1]))) if c.get("txt") else
                                        ("ctor_matches inst_%d %s %s" % (k, nopt(c["opts"][j][0]), nopt(c["opts"][j][1])))) for k, (c, j) in enumerate(owners)])
    rep.checker_cmds.append("coqc generated/C08_inst.v; coqc generated/C08_oblig.v")
    good = []
    for k, ((c, j), r) in enumerate(zip(owners, res)):
        want = c["want"][j]
        ok_wf = rep.oblige(r["wf"] == "true")
        ok_cap = rep.oblige(r["cap"].replace("%N", "") == ("None" if want is None else "Some %d" % want)) and rep.oblige(vals["m%d" % k] == "true")
        rep.nontrivial.add((c["lib"], want, c["kind"], j))
        if k % 17 == 0:
            rep.sample({"config": c["label"], "attr": c["attr"], "model": j, "wf_C08": r["wf"], "cap_of": r["cap"], "expected_cap": want})
        if ok_wf and ok_cap:
            good.append(k)
            continue
        # failing-input search on the model elaborated from the real expansion
        # the constructor / capacity literal of the real expansion contradicting the option is itself the failing input
        found = r["search"] != "[]" or (r["wf"] == "true" and not ok_cap)
        rep.violation("inst_%s_%d" % (c["label"], j), {
            "what": "instance premise no longer checks: wf_C08=%s cap_of=%s expected capacity=%s" % (r["wf"], r["cap"], want),
            "attr": c["attr"], "item": c["item"], "kind": c["kind"], "model_index": j,
            "model_side_search": {"scenario": "capacity+3 callers, one call each of method k, actor never scheduled (Runtime/Explore.v burst)",
                                  "offending (method, queue length, discarded, returned)": r["search"]},
            "theorem": "C08_bound / C08_not_lost premise wf_C08 inst = true, cap_of inst = option"}, found=found)
    ok, out = inst.prove_instances(PID, mod, good, "wf_C08",
                                   ["fun (A V : Type) sem sem_slf dv => @C08_not_lost A V sem sem_slf dv {i} {w}",
                                    "fun (A V : Type) sem sem_slf dv => @C08_blocked_waits A V sem sem_slf dv {i} {w}",
                                    "fun (A V : Type) sem sem_slf dv n (H : cap_of {i} = Some n) => @C08_blocked_until_take A V sem sem_slf dv {i} n H",
                                    "fun (A V : Type) sem sem_slf dv (H : cap_of {i} = None) => @C08_unbounded_accepts A V sem sem_slf dv {i} H"],
                                   extra_imports="From IT Require Import Properties.C08.")
    for _ in good:
        rep.oblige(ok)
    if not ok:
        rep.violation("obligations", {"what": "kernel rejected instance lemmas", "output": out[-2000:]}, found=False)
    # 3. runtime correspondence on the real runtimes: actor parked in a method, n+3 fire-and-forget callers
    import rt_common, probe
    runs = []
    for lib in gen_impl.LIBS:
        for ch in ((0, 2) if rep.tier == "quick" else (0, 1, 2, 3)):
            runs.append(["burst", lib, ch, "k=%d" % (ch + 3 if ch else 7)])
    rt_common.impl_side(rep, PID, runs, lambda a, d: probe.oracle_burst(d, None if a[2] == 0 else a[2]))
    rt_common.model_vs_probe(rep, PID, 'burst', [(lib, ch, {'k': (ch + 3 if ch else 7)}) for lib in gen_impl.LIBS for ch in (0, 1, 2)])
    rep.assumptions += ["channel primitives of std/tokio/async-channel behave as bounded FIFO queues of the stated capacity (Runtime/Actor.v `room`)",
                        "impl blocks inside the documented envelope (no typed self receivers, no cfg attributes on methods)"]


def replay(rep, path):
    import rt_common, probe
    return rt_common.replay_generic(rep, path, lambda a, d: probe.oracle_burst(d, None if str(a[2]) == '0' else int(a[2])))
