(* Text/UseMacro.v -- model of `src/use_macro.rs` (struct UseMacro): the `use`-tree algebra with which
   `file::expand_macro` recognises the attribute paths that name an interthread macro.

   Rust                                   here
   syn::UseTree::{Path,Name,Rename,Glob,Group}   utree
   UseMacro { mac_name, imp_path: Vec }   um  (mod_name is the constant "interthread",
                                               mac_path the constant interthread::<mac_name>;
                                               imp_path is kept as two lists: um_imp, the one-segment names `n`,
                                               and um_alias, the crate aliases `it` of the two-segment paths `it::<mac_name>`)
   UseMacro::file_self_use                fsu  (returned path, pushed names, remaining tree)  +  aliases  (pushed alias paths)
   UseMacro::update                       update
   UseMacro::is                           is_mac      (syn::Path equality: leading colon + segments)
   UseMacro::exclude                      exclude     (in Text/Example.v, over attributes)

   State of the code modelled: with the fixes dup-attr / abs-path / glob-both / reimport / late-import / crate-alias applied.
   Identifiers are strings; a `syn::Path` of an attribute is (leading `::`?, segments). *)
From Coq Require Import List String Bool Permutation Lia PeanoNat.
Import ListNotations.
Open Scope string_scope.
Open Scope list_scope.

Definition INTERTHREAD : string := "interthread".

Inductive utree : Type :=
| UPath (id : string) (t : utree)          (* id :: t *)
| UName (id : string)                      (* id *)
| URename (id al : string)                 (* id as al *)
| UGlob                                    (* * *)
| UGroup (ts : list utree).                (* { t, .. } *)

Section utree_induction.
  Variable P : utree -> Prop.
  Hypothesis HPath : forall id t, P t -> P (UPath id t).
  Hypothesis HName : forall id, P (UName id).
  Hypothesis HRename : forall id al, P (URename id al).
  Hypothesis HGlob : P UGlob.
  Hypothesis HGroup : forall ts, Forall P ts -> P (UGroup ts).
  Fixpoint utree_ind' (t : utree) : P t :=
    match t with
    | UPath id s => HPath id s (utree_ind' s)
    | UName id => HName id
    | URename id al => HRename id al
    | UGlob => HGlob
    | UGroup ts => HGroup ts ((fix go (l : list utree) : Forall P l :=
                                 match l with [] => Forall_nil P | x :: r => Forall_cons x (utree_ind' x) (go r) end) ts)
    end.
End utree_induction.

(* ---- file_self_use ----------------------------------------------------------------------- *)

Definition opt_list {T} (o : option T) : list T := match o with Some x => [x] | None => [] end.

(* result: (returned path, paths pushed onto self.imp_path during the call, remaining tree).
   The group arm scans ALL its elements (pop from the end, re-insert what is left at the front: the order is
   preserved), pushes every import it finds and returns the last one found; a glob stays in the tree. *)
Definition fres : Type := (option string * list string * option utree)%type.

Fixpoint fsu (mac : string) (t : utree) : fres :=
  match t with
  | UPath id sub =>
      if id =? INTERTHREAD then
        match fsu mac sub with
        | (Some p, ps, Some t') => (Some p, ps, Some (UPath id t'))
        | (None, ps, Some t') => (None, ps, Some (UPath id t'))
        | (Some p, ps, None) => (Some p, ps, None)
        | (None, ps, None) => (None, ps, None)
        end
      else (None, [], Some t)
  | UName id => if id =? mac then (Some mac, [], None) else (None, [], Some t)
  | URename id al => if id =? mac then (Some al, [], None) else (None, [], Some t)
  | UGlob => (Some mac, [], Some UGlob)
  | UGroup ts =>
      match (fix go (l : list utree) : option string * list string * list utree :=
               match l with
               | [] => (None, [], [])
               | x :: rest =>
                   match go rest with
                   | (path, ps, items) =>
                       match fsu mac x with
                       | (p, ps', t') =>
                           (match p with Some n => Some n | None => path end, ps ++ ps' ++ opt_list p, opt_list t' ++ items)
                       end
                   end
               end) ts with
      | (Some p, ps, []) => (Some p, ps, None)
      | (Some p, ps, items) => (Some p, ps, Some (UGroup items))
      | (None, ps, _) => (None, ps, Some t)
      end
  end.

Fixpoint group_loop (mac : string) (l : list utree) : option string * list string * list utree :=
  match l with
  | [] => (None, [], [])
  | x :: rest =>
      match group_loop mac rest with
      | (path, ps, items) =>
          match fsu mac x with
          | (p, ps', t') => (match p with Some n => Some n | None => path end, ps ++ ps' ++ opt_list p, opt_list t' ++ items)
          end
      end
  end.

Lemma fsu_group : forall mac ts,
  fsu mac (UGroup ts) =
  match group_loop mac ts with
  | (Some p, ps, []) => (Some p, ps, None)
  | (Some p, ps, items) => (Some p, ps, Some (UGroup items))
  | (None, ps, _) => (None, ps, Some (UGroup ts))
  end.
Proof.
  intros mac ts. simpl.
  assert (E : (fix go (l : list utree) : option string * list string * list utree :=
               match l with
               | [] => (None, [], [])
               | x :: rest =>
                   match go rest with
                   | (path, ps, items) =>
                       match fsu mac x with
                       | (p, ps', t') =>
                           (match p with Some n => Some n | None => path end, ps ++ ps' ++ opt_list p, opt_list t' ++ items)
                       end
                   end
               end) ts = group_loop mac ts).
  { induction ts as [|x r IH]; simpl; auto. rewrite IH. reflexivity. }
  rewrite E. reflexivity.
Qed.

(* the crate under another name (the NEW arm of `Rename` in file_self_use): `use interthread as it;`, `use interthread::{self as it};`.
   The arm pushes the path `it::<mac>` onto imp_path and returns (None, Some tree): `fsu` above is unchanged by it (same
   returned path, same names, same remaining tree); `aliases` collects the `it`s pushed during the call.  As in `fsu`, a `Path`
   recurses only below the segment `interthread`, a `Group` visits every element, and the test `ident == mac_name` comes first. *)
Fixpoint aliases (mac : string) (t : utree) : list string :=
  match t with
  | UPath id s => if id =? INTERTHREAD then aliases mac s else []
  | URename id al => if id =? mac then [] else if (id =? INTERTHREAD) || (id =? "self") then [al] else []
  | UGroup ts => flat_map (aliases mac) ts
  | _ => []
  end.

(* ---- leaves: what a use tree imports ------------------------------------------------------ *)

Inductive leaf : Type := LName (id : string) | LRename (id al : string) | LGlob.

Definition pleaf : Type := (list string * leaf)%type.      (* prefix path, leaf *)

Definition push (id : string) (pl : pleaf) : pleaf := (id :: fst pl, snd pl).

Fixpoint leaves (t : utree) : list pleaf :=
  match t with
  | UPath id s => map (push id) (leaves s)
  | UName id => [([], LName id)]
  | URename id al => [([], LRename id al)]
  | UGlob => [([], LGlob)]
  | UGroup ts => flat_map leaves ts
  end.

Definition oleaves (o : option utree) : list pleaf := match o with Some t => leaves t | None => [] end.

(* the leaves `file_self_use` takes for an import of the macro: every prefix segment is `interthread`
   (zero or more of them) and the leaf is the macro name, a rename of it, or a glob *)
Definition leaf_is (mac : string) (l : leaf) : bool :=
  match l with LName id => id =? mac | LRename id _ => id =? mac | LGlob => true end.

Definition is_glob (l : leaf) : bool := match l with LGlob => true | _ => false end.

Definition vis (mac : string) (pl : pleaf) : bool :=
  forallb (fun s => s =? INTERTHREAD) (fst pl) && leaf_is mac (snd pl).

(* the importing leaves that are taken out of the tree: all but the globs *)
Definition keep (mac : string) (pl : pleaf) : bool := negb (vis mac pl) || is_glob (snd pl).

(* the name under which the leaf binds the macro *)
Definition bind (mac : string) (l : leaf) : string :=
  match l with LName _ => mac | LRename _ al => al | LGlob => mac end.

(* bindings of the macro-importing leaves, in source order *)
Definition vis_binds (mac : string) (ls : list pleaf) : list string :=
  map (fun pl => bind mac (snd pl)) (filter (vis mac) ls).

Lemma vis_push_inter : forall mac pl, vis mac (push INTERTHREAD pl) = vis mac pl.
Proof. intros mac [p l]. unfold vis, push. simpl. reflexivity. Qed.

Lemma vis_push_other : forall mac id pl, (id =? INTERTHREAD) = false -> vis mac (push id pl) = false.
Proof. intros mac id [p l] H. unfold vis, push. simpl. rewrite H. reflexivity. Qed.

Lemma vis_binds_app : forall mac a b, vis_binds mac (a ++ b) = vis_binds mac a ++ vis_binds mac b.
Proof. intros. unfold vis_binds. rewrite filter_app, map_app. reflexivity. Qed.

Lemma vis_binds_push_inter : forall mac l, vis_binds mac (map (push INTERTHREAD) l) = vis_binds mac l.
Proof.
  intros mac l. unfold vis_binds. induction l as [|pl l IH]; simpl; auto.
  rewrite vis_push_inter. destruct (vis mac pl); simpl; rewrite IH; reflexivity.
Qed.

Lemma vis_binds_push_other : forall mac id l, (id =? INTERTHREAD) = false -> vis_binds mac (map (push id) l) = [].
Proof.
  intros mac id l H. unfold vis_binds. induction l as [|pl l IH]; simpl; auto.
  rewrite vis_push_other; auto.
Qed.

Lemma filter_keep_push_inter : forall mac l, filter (keep mac) (map (push INTERTHREAD) l) = map (push INTERTHREAD) (filter (keep mac) l).
Proof.
  intros mac l. induction l as [|pl l IH]; simpl; auto.
  assert (K : keep mac (push INTERTHREAD pl) = keep mac pl) by (unfold keep; rewrite vis_push_inter; reflexivity).
  rewrite K. destruct (keep mac pl); simpl; rewrite IH; reflexivity.
Qed.

Lemma filter_keep_push_other : forall mac id l, (id =? INTERTHREAD) = false -> filter (keep mac) (map (push id) l) = map (push id) l.
Proof.
  intros mac id l H. induction l as [|pl l IH]; simpl; auto.
  unfold keep at 1. rewrite vis_push_other; auto. simpl. rewrite IH. reflexivity.
Qed.

Lemma flat_map_app' : forall {A B} (f : A -> list B) l1 l2, flat_map f (l1 ++ l2) = flat_map f l1 ++ flat_map f l2.
Proof. intros. induction l1; simpl; auto. rewrite IHl1, app_assoc. reflexivity. Qed.

(* ---- the specification of file_self_use ---------------------------------------------------- *)

Definition seteq (a b : list string) : Prop := incl a b /\ incl b a.

Definition names (r : fres) : list string := snd (fst r) ++ opt_list (fst (fst r)).

(* what `file_self_use mac t` does:
   - the paths it reports (pushed or returned) are exactly the names bound by the importing leaves of t;
   - the remaining tree has exactly the leaves that are kept (everything but the importing names and renames), in order;
   - nothing found: nothing pushed, the tree is returned untouched. *)
Definition fsu_post (mac : string) (t : utree) (r : fres) : Prop :=
  seteq (names r) (vis_binds mac (leaves t))
  /\ oleaves (snd r) = filter (keep mac) (leaves t)
  /\ (fst (fst r) = None -> snd (fst r) = [] /\ snd r = Some t /\ vis_binds mac (leaves t) = []).

Definition gl_post (mac : string) (l : list utree) (g : option string * list string * list utree) : Prop :=
  match g with
  | (path, ps, items) =>
      seteq ps (vis_binds mac (flat_map leaves l))
      /\ flat_map leaves items = filter (keep mac) (flat_map leaves l)
      /\ (forall n, path = Some n -> In n ps)
      /\ (path = None -> ps = [] /\ vis_binds mac (flat_map leaves l) = [])
  end.

Lemma seteq_nil_l : forall b, seteq [] b -> b = [].
Proof. intros b [_ H]. destruct b; auto. exfalso. apply (H s). left. reflexivity. Qed.

Lemma group_loop_spec : forall mac l, Forall (fun t => fsu_post mac t (fsu mac t)) l -> gl_post mac l (group_loop mac l).
Proof.
  intros mac l H. induction H as [|x r Hx Hr IH]; simpl.
  - repeat split; try (intros ? ?; contradiction); try discriminate; auto.
  - destruct (group_loop mac r) as [[path ps] items]. destruct IH as (S & F & P & N).
    destruct (fsu mac x) as [[p ps'] t'] eqn:Ex. destruct Hx as (Sx & Fx & Nx). unfold names in Sx. simpl in *.
    rewrite vis_binds_app, filter_app. repeat split.
    + intros n I. apply in_app_or in I. apply in_or_app. destruct I as [I|I].
      * right. apply (proj1 S). exact I.
      * left. apply (proj1 Sx). exact I.
    + intros n I. apply in_app_or in I. apply in_or_app. destruct I as [I|I].
      * right. apply (proj2 Sx). exact I.
      * left. apply (proj2 S). exact I.
    + rewrite flat_map_app'. rewrite F.
      replace (flat_map leaves (opt_list t')) with (oleaves t') by (destruct t'; simpl; rewrite ?app_nil_r; reflexivity).
      rewrite Fx. reflexivity.
    + intros n E. destruct p as [q|].
      * inversion E; subst. apply in_or_app. right. apply in_or_app. right. left. reflexivity.
      * apply in_or_app. left. apply P. exact E.
    + destruct p; try discriminate. destruct (N H) as [N1 N2]. destruct (Nx eq_refl) as (X1 & X2 & X3).
      subst. reflexivity.
    + destruct p; try discriminate. destruct (N H) as [N1 N2]. destruct (Nx eq_refl) as (X1 & X2 & X3).
      rewrite X3, N2. reflexivity.
Qed.

Theorem fsu_spec : forall mac t, fsu_post mac t (fsu mac t).
Proof.
  intros mac t. induction t as [id s IH | id | id al | | ts IH] using utree_ind'.
  - (* path *) simpl. destruct (id =? INTERTHREAD) eqn:Ei.
    + apply String.eqb_eq in Ei. subst id. destruct IH as (S & F & N).
      assert (Q : fsu_post mac (UPath INTERTHREAD s)
                    (fst (fst (fsu mac s)), snd (fst (fsu mac s)), option_map (UPath INTERTHREAD) (snd (fsu mac s)))).
      { unfold fsu_post, names in *. simpl. rewrite vis_binds_push_inter, filter_keep_push_inter. repeat split.
        - apply S. - apply S.
        - destruct (snd (fsu mac s)); simpl in *; rewrite <- F; reflexivity.
        - apply N; assumption.
        - destruct (N H) as (_ & E & _). rewrite E. reflexivity.
        - apply N; assumption. }
      destruct (fsu mac s) as [[[p|] ps] [s'|]]; exact Q.
    + unfold fsu_post, names. simpl. rewrite vis_binds_push_other, filter_keep_push_other; auto.
      repeat split; auto; intros ? ?; assumption.
  - (* name *) simpl. unfold fsu_post, names, vis_binds, keep, vis. destruct (id =? mac) eqn:E; simpl; rewrite E; simpl;
      repeat split; auto; try discriminate; intros ? ?; assumption.
  - (* rename *) simpl. unfold fsu_post, names, vis_binds, keep, vis. destruct (id =? mac) eqn:E; simpl; rewrite E; simpl;
      repeat split; auto; try discriminate; intros ? ?; assumption.
  - (* glob *) simpl. unfold fsu_post, names, vis_binds, keep, vis. simpl. repeat split; auto; try discriminate; intros ? ?; assumption.
  - (* group *) rewrite fsu_group. pose proof (group_loop_spec mac ts IH) as G.
    destruct (group_loop mac ts) as [[path ps] items]. destruct G as (S & F & P & N).
    destruct path as [n|].
    + assert (Q : fsu_post mac (UGroup ts) (Some n, ps, match items with [] => None | _ => Some (UGroup items) end)).
      { unfold fsu_post, names. simpl. repeat split.
        - intros m I. apply in_app_or in I. destruct I as [I|[I|[]]]. + apply S; exact I. + subst. apply S. apply P. reflexivity.
        - intros m I. apply in_or_app. left. apply S. exact I.
        - rewrite <- F. destruct items; reflexivity.
        - discriminate. - discriminate. - discriminate. }
      destruct items; exact Q.
    + destruct (N eq_refl) as [N1 N2]. subst ps. unfold fsu_post, names. simpl. rewrite N2. repeat split; auto; try (intros ? ?; assumption).
      (* nothing found: every leaf is kept *)
      clear - N2. unfold vis_binds in N2. apply map_eq_nil in N2.
      induction (flat_map leaves ts) as [|pl l IHl]; simpl in *; auto.
      unfold keep at 1. destruct (vis mac pl); try discriminate. simpl. f_equal. apply IHl. exact N2.
Qed.

Corollary fsu_none_unchanged : forall mac t ps r, fsu mac t = (None, ps, r) -> ps = [] /\ r = Some t.
Proof. intros mac t ps r H. pose proof (fsu_spec mac t) as S. rewrite H in S. destruct S as (_ & _ & N). destruct (N eq_refl) as (A & B & _). auto. Qed.

(* an import of ANOTHER macro (or of the crate) is never taken out: in particular a glob survives the pass of the first macro *)
Definition imports_mac (mac : string) (pl : pleaf) : bool :=
  (match fst pl with [c] => c =? INTERTHREAD | _ => false end) && leaf_is mac (snd pl).

(* ---- the remaining import still compiles: Rust accepts `self` only as a direct member of a braced list (E0429 otherwise);
   file_self_use never takes the braces away from a list it keeps, so a valid tree stays valid ---- *)
Fixpoint self_valid (in_group : bool) (t : utree) : bool :=
  match t with
  | UPath _ s => self_valid false s
  | UName id => negb (id =? "self") || in_group
  | URename id _ => negb (id =? "self") || in_group
  | UGlob => true
  | UGroup ts => forallb (self_valid true) ts
  end.

Definition sv_res (b : bool) (r : fres) : Prop := match snd r with Some t' => self_valid b t' = true | None => True end.

Lemma group_loop_self_valid : forall mac l,
  Forall (fun t => forall b, self_valid b t = true -> sv_res b (fsu mac t)) l ->
  forallb (self_valid true) l = true ->
  forallb (self_valid true) (snd (group_loop mac l)) = true.
Proof.
  intros mac l F. induction F as [|x r Hx Fr IH]; intros V; [reflexivity|].
  cbn [forallb] in V. apply andb_prop in V. destruct V as [Vx Vr].
  cbn [group_loop]. destruct (group_loop mac r) as [[path ps] items] eqn:Eg. cbn [snd] in IH.
  specialize (Hx true Vx). destruct (fsu mac x) as [[p ps'] t'] eqn:Ef. unfold sv_res in Hx. cbn [snd] in *.
  rewrite forallb_app. rewrite (IH Vr). destruct t' as [t'|]; cbn [opt_list forallb]; [rewrite Hx|]; reflexivity.
Qed.

Theorem fsu_self_valid : forall mac t b, self_valid b t = true -> sv_res b (fsu mac t).
Proof.
  intros mac t. induction t as [id s IH|id|id al| |ts IH] using utree_ind'; intros b V; unfold sv_res.
  - cbn [fsu]. destruct (id =? INTERTHREAD).
    + cbn [self_valid] in V. specialize (IH false V). unfold sv_res in IH.
      destruct (fsu mac s) as [[[p|] ps] [t'|]]; cbn [snd] in *; try exact I; exact IH.
    + cbn [snd]. exact V.
  - cbn [fsu]. destruct (id =? mac); cbn [snd]; [exact I|exact V].
  - cbn [fsu]. destruct (id =? mac); cbn [snd]; [exact I|exact V].
  - cbn [fsu snd]. reflexivity.
  - rewrite fsu_group. cbn [self_valid] in V. pose proof (group_loop_self_valid mac ts IH V) as G.
    destruct (group_loop mac ts) as [[[p|] ps] items]; cbn [snd] in *.
    + destruct items; cbn [snd]; [exact I|exact G].
    + exact V.
Qed.

Example fsu_self_valid_ex :
  snd (fsu "actor" (UPath INTERTHREAD (UGroup [UName "self"; UName "actor"]))) = Some (UPath INTERTHREAD (UGroup [UName "self"]))
  /\ self_valid false (UPath INTERTHREAD (UGroup [UName "self"])) = true /\ self_valid false (UPath INTERTHREAD (UName "self")) = false.
Proof. repeat split. Qed.

Theorem fsu_keeps_other_macro : forall mac1 mac2 t, (mac2 =? mac1) = false ->
  filter (imports_mac mac2) (oleaves (snd (fsu mac1 t))) = filter (imports_mac mac2) (leaves t).
Proof.
  intros mac1 mac2 t D. destruct (fsu_spec mac1 t) as (_ & F & _). rewrite F. clear F.
  induction (leaves t) as [|pl l IH]; simpl; auto.
  destruct (keep mac1 pl) eqn:K; simpl; rewrite IH; [reflexivity|].
  destruct (imports_mac mac2 pl) eqn:I; auto. exfalso.
  unfold keep in K. apply orb_false_iff in K. destruct K as [K1 K2]. apply negb_false_iff in K1.
  unfold imports_mac in I. apply andb_true_iff in I. destruct I as [_ I]. unfold vis in K1. apply andb_true_iff in K1. destruct K1 as [_ K1].
  destruct (snd pl); simpl in *; try discriminate.
  - apply String.eqb_eq in I. apply String.eqb_eq in K1. subst. rewrite String.eqb_refl in D. discriminate.
  - apply String.eqb_eq in I. apply String.eqb_eq in K1. subst. rewrite String.eqb_refl in D. discriminate.
Qed.

(* ---- UseMacro: state, update, is ----------------------------------------------------------- *)

Record apath : Type := { lead : bool; segs : list string }.       (* attribute path: leading `::`, segments *)

Record um : Type := { um_mac : string; um_imp : list string; um_alias : list string }.

Definition um_new (mac : string) : um := {| um_mac := mac; um_imp := []; um_alias := [] |}.

Fixpoint list_eqb (a b : list string) : bool :=
  match a, b with
  | [], [] => true
  | x :: a', y :: b' => (x =? y) && list_eqb a' b'
  | _, _ => false
  end.

Lemma list_eqb_eq : forall a b, list_eqb a b = true <-> a = b.
Proof.
  induction a as [|x a IH]; destruct b as [|y b]; simpl; split; intros H; try discriminate; auto.
  - apply andb_true_iff in H. destruct H as [H1 H2]. apply String.eqb_eq in H1. apply IH in H2. subst. reflexivity.
  - inversion H; subst. rewrite String.eqb_refl. simpl. apply IH. reflexivity.
Qed.

(* `::interthread::mac` : the leading colon is dropped and the path compared with mac_path only;
   otherwise mac_path or any of the remembered imports: the names `n` and the alias paths `it::mac` *)
Definition is_mac (u : um) (p : apath) : bool :=
  if lead p then list_eqb [INTERTHREAD; um_mac u] (segs p)
  else list_eqb [INTERTHREAD; um_mac u] (segs p) || existsb (fun n => list_eqb [n] (segs p)) (um_imp u)
       || existsb (fun a => list_eqb [a; um_mac u] (segs p)) (um_alias u).

(* `is` before the crate-alias repair: the alias paths were not remembered *)
Definition is_mac_old (u : um) (p : apath) : bool :=
  if lead p then list_eqb [INTERTHREAD; um_mac u] (segs p)
  else list_eqb [INTERTHREAD; um_mac u] (segs p) || existsb (fun n => list_eqb [n] (segs p)) (um_imp u).

Definition update (u : um) (t : utree) : um * option utree :=
  match fsu (um_mac u) t with
  | (Some p, ps, r) => ({| um_mac := um_mac u; um_imp := um_imp u ++ ps ++ [p]; um_alias := um_alias u ++ aliases (um_mac u) t |}, r)
  | (None, ps, r) => ({| um_mac := um_mac u; um_imp := um_imp u ++ ps; um_alias := um_alias u ++ aliases (um_mac u) t |}, r)
  end.

Definition upd_names (mac : string) (t : utree) : list string := names (fsu mac t).

Lemma update_eq : forall u t,
  update u t = ({| um_mac := um_mac u; um_imp := um_imp u ++ upd_names (um_mac u) t; um_alias := um_alias u ++ aliases (um_mac u) t |},
                snd (fsu (um_mac u) t)).
Proof. intros u t. unfold update, upd_names, names. destruct (fsu (um_mac u) t) as [[[p|] ps] r]; simpl; rewrite ?app_nil_r; reflexivity. Qed.

(* the import state after the `use` items seen so far *)
Definition track (mac : string) (uses : list utree) : um :=
  fold_left (fun u t => fst (update u t)) uses (um_new mac).

Lemma track_gen : forall uses u,
  fold_left (fun u t => fst (update u t)) uses u =
  {| um_mac := um_mac u; um_imp := um_imp u ++ flat_map (upd_names (um_mac u)) uses;
     um_alias := um_alias u ++ flat_map (aliases (um_mac u)) uses |}.
Proof.
  induction uses as [|t r IH]; intros u; simpl.
  - rewrite !app_nil_r. destruct u; reflexivity.
  - rewrite IH, update_eq. simpl. rewrite !app_assoc. reflexivity.
Qed.

Lemma upd_names_flat : forall mac uses, seteq (flat_map (upd_names mac) uses) (vis_binds mac (flat_map leaves uses)).
Proof.
  intros mac uses. induction uses as [|t r IH]; simpl.
  - split; intros ? ?; assumption.
  - rewrite vis_binds_app. destruct (fsu_spec mac t) as (S & _ & _). unfold upd_names. destruct IH as [I1 I2]. destruct S as [S1 S2].
    split; intros n I; apply in_app_or in I; apply in_or_app; destruct I as [I|I]; auto.
Qed.

(* every import is remembered *)
Theorem track_all : forall mac uses,
  um_mac (track mac uses) = mac /\ seteq (um_imp (track mac uses)) (vis_binds mac (flat_map leaves uses)).
Proof. intros mac uses. unfold track. rewrite track_gen. simpl. split; auto. apply upd_names_flat. Qed.

(* every alias of the crate met by file_self_use is remembered, and nothing else *)
Theorem track_alias : forall mac uses, um_alias (track mac uses) = flat_map (aliases mac) uses.
Proof. intros mac uses. unfold track. rewrite track_gen. reflexivity. Qed.

Lemma existsb_seteq : forall (f : string -> bool) a b, incl a b -> existsb f a = true -> existsb f b = true.
Proof. intros f a b I H. apply existsb_exists in H. destruct H as (x & X & F). apply existsb_exists. exists x. auto. Qed.

(* exactly which attribute paths `is` accepts after the `use` items seen so far *)
Theorem is_exact : forall mac uses p,
  is_mac (track mac uses) p = true <->
  segs p = [INTERTHREAD; mac] \/ (lead p = false /\ exists n, In n (vis_binds mac (flat_map leaves uses)) /\ segs p = [n])
  \/ (lead p = false /\ exists a, In a (flat_map (aliases mac) uses) /\ segs p = [a; mac]).
Proof.
  intros mac uses p. destruct (track_all mac uses) as [M [I1 I2]]. pose proof (track_alias mac uses) as TA.
  unfold is_mac. rewrite M, TA. split.
  - destruct (lead p).
    + intros H. left. apply list_eqb_eq in H. auto.
    + intros H. apply orb_true_iff in H. destruct H as [H|H]; [apply orb_true_iff in H; destruct H as [H|H]|].
      * left. apply list_eqb_eq in H. auto.
      * right. left. split; auto. apply existsb_exists in H. destruct H as (n & In_ & E). exists n. split; auto. apply list_eqb_eq in E. auto.
      * right. right. split; auto. apply existsb_exists in H. destruct H as (a & Ia & E). exists a. split; auto. apply list_eqb_eq in E. auto.
  - intros [H|[(L & n & In_ & H)|(L & a & Ia & H)]].
    + assert (R : list_eqb [INTERTHREAD; mac] (segs p) = true) by (apply list_eqb_eq; auto).
      rewrite R. destruct (lead p); reflexivity.
    + rewrite L. apply orb_true_iff. left. apply orb_true_iff. right. apply existsb_exists. exists n. split; auto. rewrite H. apply list_eqb_eq. reflexivity.
    + rewrite L. apply orb_true_iff. right. apply existsb_exists. exists a. split; auto. rewrite H. apply list_eqb_eq. reflexivity.
Qed.

(* the old `is` ignores the aliases: exactly the first two alternatives *)
Theorem is_old_exact : forall mac uses p,
  is_mac_old (track mac uses) p = true <->
  segs p = [INTERTHREAD; mac] \/ (lead p = false /\ exists n, In n (vis_binds mac (flat_map leaves uses)) /\ segs p = [n]).
Proof.
  intros mac uses p. destruct (track_all mac uses) as [M [I1 I2]]. unfold is_mac_old. rewrite M. split.
  - destruct (lead p).
    + intros H. left. apply list_eqb_eq in H. auto.
    + intros H. apply orb_true_iff in H. destruct H as [H|H].
      * left. apply list_eqb_eq in H. auto.
      * right. split; auto. apply existsb_exists in H. destruct H as (n & In_ & E). exists n. split; auto. apply list_eqb_eq in E. auto.
  - intros [H|(L & n & In_ & H)].
    + assert (R : list_eqb [INTERTHREAD; mac] (segs p) = true) by (apply list_eqb_eq; auto).
      rewrite R. destruct (lead p); reflexivity.
    + rewrite L. apply orb_true_iff. right. apply existsb_exists. exists n. split; auto. rewrite H. apply list_eqb_eq. reflexivity.
Qed.

(* the repair only adds accepted paths *)
Corollary is_mac_old_incl : forall mac uses p, is_mac_old (track mac uses) p = true -> is_mac (track mac uses) p = true.
Proof. intros mac uses p H. apply is_exact. apply is_old_exact in H. destruct H as [H|H]; [left|right; left]; exact H. Qed.

(* ---- what the paths SHOULD denote (Rust name resolution restricted to the documented forms) -------- *)

(* names bound to the macro by the use items of the file: interthread::mac, interthread::mac as n, interthread::* *)
Definition mac_names (mac : string) (ls : list pleaf) : list string :=
  map (fun pl => bind mac (snd pl)) (filter (imports_mac mac) ls).

(* names bound to the crate: `use interthread as it;`  `use interthread::{self as it}` *)
Definition crate_alias (pl : pleaf) : option string :=
  match pl with
  | ([], LRename id al) => if id =? INTERTHREAD then Some al else None
  | ([c], LRename id al) => if (c =? INTERTHREAD) && (id =? "self") then Some al else None
  | _ => None
  end.

Definition crate_aliases (ls : list pleaf) : list string := flat_map (fun pl => opt_list (crate_alias pl)) ls.

Definition mem (s : string) (l : list string) : bool := existsb (fun x => x =? s) l.

Definition denotes (mac : string) (uses : list utree) (p : apath) : bool :=
  let ls := flat_map leaves uses in
  match segs p with
  | [n] => negb (lead p) && mem n (mac_names mac ls)
  | [c; m] => (m =? mac) && ((c =? INTERTHREAD) || (negb (lead p) && mem c (crate_aliases ls)))
  | _ => false
  end.

(* every macro-importing leaf the code sees is a genuine `interthread::..` import (no `use actor;`,
   no `use interthread::interthread::actor`) *)
Definition well_imported (mac : string) (uses : list utree) : bool :=
  forallb (fun pl => negb (vis mac pl) || imports_mac mac pl) (flat_map leaves uses).

Lemma imports_vis : forall mac pl, imports_mac mac pl = true -> vis mac pl = true.
Proof.
  intros mac [p l] H. unfold imports_mac, vis in *. cbn [fst snd] in *. apply andb_true_iff in H. destruct H as [H1 H2].
  destruct p as [|c [|c' r]]; try discriminate. cbn [forallb]. rewrite H1, H2. reflexivity.
Qed.

Lemma mem_In : forall s l, mem s l = true <-> In s l.
Proof.
  intros s l. unfold mem. rewrite existsb_exists. split.
  - intros (x & I & E). apply String.eqb_eq in E. subst. exact I.
  - intros I. exists s. split; auto. apply String.eqb_refl.
Qed.

Lemma mac_names_incl : forall mac ls, incl (mac_names mac ls) (vis_binds mac ls).
Proof.
  intros mac ls n I. unfold mac_names in I. apply in_map_iff in I. destruct I as (pl & E & F). apply filter_In in F. destruct F as [F1 F2].
  unfold vis_binds. apply in_map_iff. exists pl. split; auto. apply filter_In. split; auto. apply imports_vis. exact F2.
Qed.

Lemma vis_binds_sub : forall mac ls, forallb (fun pl => negb (vis mac pl) || imports_mac mac pl) ls = true ->
  vis_binds mac ls = mac_names mac ls.
Proof.
  intros mac ls. unfold vis_binds, mac_names. induction ls as [|pl ls IH]; simpl; auto.
  intros H. apply andb_true_iff in H. destruct H as [H1 H2].
  destruct (vis mac pl) eqn:V; simpl in H1.
  - rewrite H1. simpl. rewrite IH; auto.
  - destruct (imports_mac mac pl) eqn:I.
    + apply imports_vis in I. congruence.
    + apply IH. exact H2.
Qed.

(* every alias the code records is a genuine alias of the crate (no top-level `use self as x;`, no
   `use interthread::{interthread as x}`, no `use interthread::interthread::{self as x}`: none of them is Rust for the crate) *)
Definition well_aliased (mac : string) (uses : list utree) : bool :=
  forallb (fun a => mem a (crate_aliases (flat_map leaves uses))) (flat_map (aliases mac) uses).

(* soundness: whatever `is` accepts does denote the macro *)
Theorem is_sound : forall mac uses p, well_imported mac uses = true -> well_aliased mac uses = true ->
  is_mac (track mac uses) p = true -> denotes mac uses p = true.
Proof.
  intros mac uses p W WA H. apply is_exact in H. destruct H as [H|[(L & n & I & H)|(L & a & I & H)]]; unfold denotes; rewrite H.
  - rewrite !String.eqb_refl. reflexivity.
  - rewrite L. simpl. apply mem_In. rewrite <- (vis_binds_sub mac _ W). exact I.
  - rewrite L, String.eqb_refl. cbn [negb andb]. apply orb_true_iff. right.
    unfold well_aliased in WA. rewrite forallb_forall in WA. apply WA. exact I.
Qed.

(* the paths whose first segment is an alias of the crate: before the crate-alias repair recognition was incomplete on them *)
Definition alias_path (p : apath) : bool := match segs p with [c; _] => negb (c =? INTERTHREAD) | _ => false end.

(* ---- completeness: every alias of the crate is recorded -------------------------------------------- *)

(* a leaf directly below `interthread::` (or at top level) that renames the crate or `self` *)
Definition crate_alias0 (pl : pleaf) : option string :=
  match pl with
  | ([], LRename id al) => if (id =? INTERTHREAD) || (id =? "self") then Some al else None
  | _ => None
  end.

Lemma aliases_alias0 : forall mac t a, (mac =? INTERTHREAD) = false -> (mac =? "self") = false ->
  In a (flat_map (fun pl => opt_list (crate_alias0 pl)) (leaves t)) -> In a (aliases mac t).
Proof.
  intros mac t a NI NS. induction t as [id s IH | id | id al | | ts IH] using utree_ind'; intros H.
  - (* path: every leaf has a non-empty prefix *) exfalso. cbn [leaves] in H. apply in_flat_map in H. destruct H as (pl & Ipl & Ia).
    apply in_map_iff in Ipl. destruct Ipl as ([q l] & E & _). subst pl. unfold push in Ia. cbn [fst snd crate_alias0 opt_list] in Ia. exact Ia.
  - cbn in H. destruct H as [].
  - cbn [leaves flat_map crate_alias0] in H. rewrite app_nil_r in H. cbn [aliases].
    destruct ((id =? INTERTHREAD) || (id =? "self")) eqn:E; [|destruct H].
    destruct (id =? mac) eqn:Em; [|exact H]. exfalso. apply String.eqb_eq in Em. subst id. rewrite NI, NS in E. discriminate.
  - cbn in H. destruct H as [].
  - cbn [leaves aliases] in *. induction IH as [|x r Hx Hr IHr]; cbn [flat_map] in *; [exact H|].
    rewrite flat_map_app' in H. apply in_app_or in H. apply in_or_app. destruct H as [H|H]; [left; apply Hx; exact H|right; apply IHr; exact H].
Qed.

(* key lemma: when the macro is called neither `interthread` nor `self`, file_self_use records every alias of the crate *)
Lemma aliases_complete_tree : forall mac t a, (mac =? INTERTHREAD) = false -> (mac =? "self") = false ->
  In a (crate_aliases (leaves t)) -> In a (aliases mac t).
Proof.
  intros mac t a NI NS. unfold crate_aliases. induction t as [id s IH | id | id al | | ts IH] using utree_ind'; intros H.
  - cbn [leaves] in H. apply in_flat_map in H. destruct H as (pl & Ipl & Ia).
    apply in_map_iff in Ipl. destruct Ipl as ([q l] & E & Iq). subst pl. unfold push in Ia. cbn [fst snd] in Ia.
    destruct q as [|c q]; [|destruct l; destruct Ia]. destruct l as [id'|id' al'|]; try destruct Ia. cbn [crate_alias] in Ia.
    destruct (id =? INTERTHREAD) eqn:Ei; [|destruct Ia]. destruct (id' =? "self") eqn:Es; [|destruct Ia].
    cbn [andb opt_list] in Ia. cbn [aliases]. rewrite Ei. apply (aliases_alias0 mac s a NI NS).
    apply in_flat_map. exists ([], LRename id' al'). split; [exact Iq|]. cbn [crate_alias0]. rewrite Es, orb_true_r. exact Ia.
  - cbn in H. destruct H as [].
  - cbn [leaves flat_map crate_alias] in H. rewrite app_nil_r in H. cbn [aliases].
    destruct (id =? INTERTHREAD) eqn:Ei; [|destruct H]. cbn [orb].
    destruct (id =? mac) eqn:Em; [|exact H]. exfalso. apply String.eqb_eq in Em. subst id. rewrite NI in Ei. discriminate.
  - cbn in H. destruct H as [].
  - cbn [leaves aliases] in *. induction IH as [|x r Hx Hr IHr]; cbn [flat_map] in *; [exact H|].
    rewrite flat_map_app' in H. apply in_app_or in H. apply in_or_app. destruct H as [H|H]; [left; apply Hx; exact H|right; apply IHr; exact H].
Qed.

Lemma aliases_complete : forall mac uses a, (mac =? INTERTHREAD) = false -> (mac =? "self") = false ->
  In a (crate_aliases (flat_map leaves uses)) -> In a (flat_map (aliases mac) uses).
Proof.
  intros mac uses a NI NS. unfold crate_aliases. induction uses as [|t r IH]; cbn [flat_map]; intros H; [exact H|].
  rewrite flat_map_app' in H. apply in_app_or in H. apply in_or_app. destruct H as [H|H].
  - left. apply aliases_complete_tree; assumption.
  - right. apply IH. exact H.
Qed.

(* completeness (was FALSE, see is_crate_alias_old_refuted): whatever denotes the macro is accepted.
   The two inequations are needed: with mac = "interthread", `use interthread as it;` is taken for an import of the macro
   (the test `ident == mac_name` comes first) and `it::interthread` is not remembered. *)
Theorem is_complete : forall mac uses p, (mac =? INTERTHREAD) = false -> (mac =? "self") = false ->
  denotes mac uses p = true -> is_mac (track mac uses) p = true.
Proof.
  intros mac uses p NI NS D. apply is_exact. unfold denotes in D.
  destruct (segs p) as [|a [|b [|c r]]] eqn:S; try discriminate.
  - right. left. apply andb_true_iff in D. destruct D as [L D]. apply negb_true_iff in L. split; auto.
    exists a. split; auto. apply mac_names_incl. apply mem_In. exact D.
  - apply andb_true_iff in D. destruct D as [Eb D]. apply String.eqb_eq in Eb. subst b.
    apply orb_true_iff in D. destruct D as [D|D].
    + left. apply String.eqb_eq in D. subst a. reflexivity.
    + right. right. apply andb_true_iff in D. destruct D as [L D]. apply negb_true_iff in L. split; auto.
      exists a. split; auto. apply aliases_complete; auto. apply mem_In. exact D.
Qed.

(* the former guarded statement (no hypothesis on mac): a corollary of is_exact alone *)
Corollary is_complete_guarded : forall mac uses p,
  alias_path p = false -> denotes mac uses p = true -> is_mac (track mac uses) p = true.
Proof.
  intros mac uses p K D. apply is_exact. unfold denotes in D. unfold alias_path in K.
  destruct (segs p) as [|a [|b [|c r]]] eqn:S; try discriminate.
  - right. left. apply andb_true_iff in D. destruct D as [L D]. apply negb_true_iff in L. split; auto.
    exists a. split; auto. apply mac_names_incl. apply mem_In. exact D.
  - left. apply negb_false_iff in K. apply String.eqb_eq in K. subst a.
    apply andb_true_iff in D. destruct D as [D _]. apply String.eqb_eq in D. subst b. reflexivity.
Qed.

Definition ap (l : bool) (s : list string) : apath := {| lead := l; segs := s |}.

(* #[::interthread::actor] is recognised, whatever was imported (was: is_abs_path_refuted) *)
Theorem is_abs_path : forall mac uses, is_mac (track mac uses) (ap true [INTERTHREAD; mac]) = true.
Proof. intros. apply is_exact. left. reflexivity. Qed.

(* every name under which the macro was imported is recognised, however many there are and wherever in the
   `use` items they stand (was: is_reimport_refuted) *)
Theorem is_every_import : forall mac uses n, In n (mac_names mac (flat_map leaves uses)) ->
  is_mac (track mac uses) (ap false [n]) = true.
Proof. intros mac uses n I. apply is_exact. right. left. split; auto. exists n. split; auto. apply mac_names_incl. exact I. Qed.

(* every alias of the crate is recognised in front of the macro name *)
Theorem is_every_alias : forall mac uses a, (mac =? INTERTHREAD) = false -> (mac =? "self") = false ->
  In a (crate_aliases (flat_map leaves uses)) -> is_mac (track mac uses) (ap false [a; mac]) = true.
Proof. intros mac uses a NI NS I. apply is_exact. right. right. split; auto. exists a. split; auto. apply aliases_complete; assumption. Qed.

(* use interthread as it;  #[it::actor]      use interthread::{self as it};  #[it::actor]    (was: is_crate_alias_refuted)
   recognised; `it::family` is not (in the actor pass), nor is `::it::actor` *)
Example is_crate_alias :
  let p := ap false ["it"; "actor"] in
  let uses1 := [URename "interthread" "it"] in
  let uses2 := [UPath "interthread" (UGroup [URename "self" "it"])] in
  alias_path p = true
  /\ (well_imported "actor" uses1 = true /\ well_aliased "actor" uses1 = true /\ denotes "actor" uses1 p = true
      /\ is_mac (track "actor" uses1) p = true
      /\ is_mac (track "actor" uses1) (ap false ["it"; "family"]) = false
      /\ is_mac (track "actor" uses1) (ap true ["it"; "actor"]) = false
      /\ snd (update (um_new "actor") (URename "interthread" "it")) = Some (URename "interthread" "it"))
  /\ (well_imported "actor" uses2 = true /\ well_aliased "actor" uses2 = true /\ denotes "actor" uses2 p = true
      /\ is_mac (track "actor" uses2) p = true
      /\ is_mac (track "actor" uses2) (ap false ["it"; "family"]) = false
      /\ is_mac (track "actor" uses2) (ap true ["it"; "actor"]) = false
      /\ snd (update (um_new "actor") (UPath "interthread" (UGroup [URename "self" "it"]))) = Some (UPath "interthread" (UGroup [URename "self" "it"]))).
Proof. vm_compute. repeat split. Qed.

(* before the repair: use interthread as it;  #[it::actor]  was not recognised (the former is_crate_alias_refuted, same witness) *)
Lemma is_crate_alias_old_refuted : exists mac uses p, well_imported mac uses = true /\ alias_path p = true /\
  denotes mac uses p = true /\ is_mac_old (track mac uses) p = false.
Proof. exists "actor", [URename "interthread" "it"], (ap false ["it"; "actor"]). vm_compute. auto. Qed.

(* the alias guard of is_sound is needed: the code also records aliases that are not Rust for the crate *)
Example well_aliased_needed :
  well_imported "actor" [URename "self" "x"] = true /\ well_aliased "actor" [URename "self" "x"] = false
  /\ is_mac (track "actor" [URename "self" "x"]) (ap false ["x"; "actor"]) = true
  /\ denotes "actor" [URename "self" "x"] (ap false ["x"; "actor"]) = false.
Proof. vm_compute. repeat split. Qed.

(* the guards are satisfiable on non-trivial inputs:
   use std::{fmt, io::*}; use interthread::{family, {actor as act, example}, actor, *};   #[act] #[actor] #[::interthread::actor] *)
Example is_complete_example :
  let uses := [UPath "std" (UGroup [UName "fmt"; UPath "io" UGlob]);
               UPath "interthread" (UGroup [UName "family"; UGroup [URename "actor" "act"; UName "example"]; UName "actor"; UGlob])] in
  well_imported "actor" uses = true /\ well_aliased "actor" uses = true
  /\ alias_path (ap false ["act"]) = false /\ denotes "actor" uses (ap false ["act"]) = true /\ is_mac (track "actor" uses) (ap false ["act"]) = true
  /\ is_mac (track "actor" uses) (ap false ["actor"]) = true /\ is_mac (track "actor" uses) (ap true ["interthread"; "actor"]) = true
  /\ is_mac (track "actor" uses) (ap false ["family"]) = false
  /\ snd (update (um_new "actor") (nth 1 uses UGlob)) = Some (UPath "interthread" (UGroup [UName "family"; UGroup [UName "example"]; UGlob])).
Proof. vm_compute. repeat split. Qed.

(* ... also with aliases of the crate among the imports:
   use std::fmt as f; use interthread::{self as it, actor as act, family}; use interthread as it2;   #[it::actor] #[it2::actor] #[act] *)
Example is_complete_alias_example :
  let uses := [UPath "std" (URename "fmt" "f");
               UPath "interthread" (UGroup [URename "self" "it"; URename "actor" "act"; UName "family"]);
               URename "interthread" "it2"] in
  well_imported "actor" uses = true /\ well_aliased "actor" uses = true
  /\ flat_map (aliases "actor") uses = ["it"; "it2"] /\ crate_aliases (flat_map leaves uses) = ["it"; "it2"]
  /\ is_mac (track "actor" uses) (ap false ["it"; "actor"]) = true /\ is_mac (track "actor" uses) (ap false ["it2"; "actor"]) = true
  /\ is_mac (track "actor" uses) (ap false ["act"]) = true /\ is_mac (track "actor" uses) (ap false ["f"; "actor"]) = false
  /\ is_mac (track "family" uses) (ap false ["it2"; "family"]) = true /\ is_mac (track "family" uses) (ap false ["it"; "actor"]) = false
  /\ snd (update (um_new "actor") (nth 1 uses UGlob)) = Some (UPath "interthread" (UGroup [URename "self" "it"; UName "family"])).
Proof. vm_compute. repeat split. Qed.

(* printing, for the correspondence with the real `file_self_use` *)
Fixpoint show_tree (t : utree) : string :=
  match t with
  | UPath id s => (id ++ "::" ++ show_tree s)%string
  | UName id => id
  | URename id al => (id ++ " as " ++ al)%string
  | UGlob => "*"
  | UGroup ts => ("{" ++ String.concat "," (map show_tree ts) ++ "}")%string
  end.

Definition show_fsu (r : fres) : string :=
  ((match fst (fst r) with Some p => p | None => "-" end) ++ "|" ++ (match snd r with Some t => show_tree t | None => "-" end))%string.
