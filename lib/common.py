"""Shared machinery of ./check: Coq runner, evidence writer, known findings, violation reports."""
import os, sys, json, time, subprocess, re, hashlib, random, shutil

VERIF = os.path.dirname(os.path.dirname(os.path.abspath(__file__)))
COQ = os.path.join(VERIF, "coq")
GEN = os.path.join(COQ, "generated")
CACHE = os.path.join(VERIF, ".cache")
REPLAYS = os.path.join(VERIF, "replays")
EVID = os.path.join(VERIF, "evidence")

ALLOWED_ASSUMPTIONS = ("Closed under the global context",)

TRUSTED_BASE = [
    "Coq 8.16.1 kernel via coqc (full .vo builds); vm_compute for instance premises; no native_compute",
    "axioms: none (every property theorem prints 'Closed under the global context')",
    "translator: verif hook (__verif_batch in /repo behind feature `verif`), lib/rs.py lexer + whole-statement template matcher, lib/ir.py recogniser, lib/coqgen.py renderer",
    "modelled not verified: mpsc channels are bounded/unbounded FIFO queues with blocking send and close-on-last-drop, oneshot delivers at most one value and reports a dropped peer, spawn starts one thread/task (Runtime/Actor.v definitions)",
]


class Infra(Exception):
    pass


def sh(cmd, timeout=None, cwd=None, env=None):
    try:
        r = subprocess.run(cmd, stdout=subprocess.PIPE, stderr=subprocess.STDOUT, text=True, timeout=timeout, cwd=cwd, env=env)
        return r.returncode, r.stdout
    except subprocess.TimeoutExpired as e:
        return 124, (e.stdout or "") if isinstance(e.stdout, str) else ""


_made = [False]


def coq_make(targets=()):
    """build the Coq project (incremental)"""
    if not os.path.exists(os.path.join(COQ, "Makefile")):
        rc, out = sh(["coq_makefile", "-f", "_CoqProject", "-o", "Makefile"], cwd=COQ)
        if rc != 0:
            raise Infra("coq_makefile failed: " + out)
    rc, out = sh(["timeout", "1800", "make", "-j16"] + list(targets), cwd=COQ)
    return rc, out


def coqc(path, timeout=600):
    """compile one generated file against the built project; returns (rc, output)"""
    return sh(["timeout", str(timeout), "coqc", "-noglob", "-Q", "theories", "IT", "-Q", "generated", "ITG", path], cwd=COQ)


def hygiene():
    """no Admitted / admit / Axiom / Parameter / ... anywhere in the development"""
    rc, out = sh(["grep", "-rnE", r"\b(Admitted|admit|Axiom|Axioms|Parameter|Parameters|Conjecture)\b|Unset Guard|bypass_check|Admit Obligations|type-in-type|Unset Universe|Unset Positivity",
                  "--include=*.v", "theories"], cwd=COQ)
    bad = [l for l in out.splitlines() if l.strip() and not re.search(r"\(\*.*\b(Admitted|admit|Axiom|Parameter)\b.*\*\)", l)]
    return bad


def property_theorems(pid):
    """recompile theories/Properties/<pid>.v and check Print Assumptions output; returns (n_theorems, problems)"""
    f = os.path.join("theories", "Properties", pid + ".v")
    vo = os.path.join(COQ, f + "o")
    if os.path.exists(vo):
        os.remove(vo)
    rc, out = coq_make([f + "o"])
    problems = []
    if rc != 0:
        problems.append("theorem file does not compile: " + out[-1500:])
        return 0, problems, out
    # Print Assumptions output: either "Closed under the global context" or "Axioms:\n name : type"
    n_closed = out.count("Closed under the global context")
    if "Axioms:" in out:
        problems.append("axioms reported: " + out[out.index("Axioms:"):][:800])
    src = open(os.path.join(COQ, f)).read()
    n_thm = len(re.findall(r"^\s*(Theorem|Corollary)\s", src, re.M))
    n_pa = len(re.findall(r"^Print Assumptions", src, re.M))
    if n_pa < n_thm:
        problems.append("%d theorems but only %d Print Assumptions" % (n_thm, n_pa))
    if n_closed < n_pa:
        problems.append("only %d of %d Print Assumptions are closed" % (n_closed, n_pa))
    return n_thm, problems, out


def coqchk(pid, timeout=1200):
    """independent re-check of the compiled property file and everything it depends on (thorough tier)"""
    rc, out = sh(["timeout", str(timeout), "coqchk", "-o", "-silent", "-Q", "theories", "IT", "IT.Properties." + pid], cwd=COQ)
    ok = rc == 0 and "* Axioms: <none>" in out and "type-in-type: <none>" in out and "unsafe (co)fixpoints: <none>" in out and "positivity is assumed: <none>" in out
    return ok, out[-1200:]


def known_findings():
    out = {"finding": [], "fixed": []}
    p = os.path.join(VERIF, "known_findings.txt")
    if not os.path.exists(p):
        return out
    for l in open(p):
        l = l.strip()
        if not l or l.startswith("#"):
            continue
        kind, rest = l.split(":", 1)
        kv = dict(re.findall(r"(\w+)=(\S+)", rest))
        out.setdefault(kind.strip(), []).append({"text": rest.strip(), **kv})
    return out


class Report(object):
    """collects obligations, violations and coverage of one check run; writes evidence; decides exit code"""

    def __init__(self, pid, tier, seed, level="proof"):
        self.pid, self.tier, self.seed, self.level = pid, tier, seed, level
        self.t0 = time.time()
        self.obligations = 0
        self.discharged = 0
        self.evaluations = 0
        self.nontrivial = set()
        self.samples = []
        self.violations = []       # (replay_path, searched_found)
        self.known = []
        self.notes = []
        self.dist = {}
        self.traces = 0
        self.assumptions = []
        self.checker_cmds = []
        self.extra = {}

    def oblige(self, ok, what=None):
        self.obligations += 1
        if ok:
            self.discharged += 1
        return ok

    def count(self, key, sub):
        d = self.dist.setdefault(key, {})
        d[sub] = d.get(sub, 0) + 1

    def sample(self, x, limit=6):
        if len(self.samples) < limit:
            self.samples.append(x)

    def violation(self, name, data, found=True):
        os.makedirs(REPLAYS, exist_ok=True)
        base = "%s_%s" % (self.pid, re.sub(r"\W+", "_", name)[:60])
        path = os.path.join(REPLAYS, base + ".json")
        n = 1
        while any(p == path for p, _ in self.violations):
            n += 1
            path = os.path.join(REPLAYS, "%s_%d.json" % (base, n))
        data = dict(data)
        data["property"] = self.pid
        data["failing_input_found"] = found
        json.dump(data, open(path, "w"), indent=1, default=str)
        self.violations.append((path, found))
        return path

    def known_finding(self, text):
        self.known.append(text)

    def finish(self):
        cov = {
            "obligations": self.obligations, "discharged": self.discharged,
            "checker_cmd": "; ".join(self.checker_cmds) or "make -C coq; coqc generated/*.v",
            "trusted_base": TRUSTED_BASE,
            "evaluations": self.evaluations, "distinct_nontrivial": len(self.nontrivial),
            "rule": self.extra.pop("rule", "see DESIGN.md section of this property"),
            "samples": self.samples or ["(none)"],
            "traces_validated_against_impl": self.traces,
            "input_distribution": self.dist,
            "known_findings_replayed": self.known,
            "notes": self.notes,
        }
        cov.update(self.extra)
        ev = {"property_id": self.pid, "tier": self.tier, "seed": self.seed, "level": self.level, "coverage": cov,
              "assumptions": self.assumptions, "wall_s": round(time.time() - self.t0, 2), "violations": len(self.violations)}
        if not getattr(self, "no_evidence", False):
            os.makedirs(EVID, exist_ok=True)
            json.dump(ev, open(os.path.join(EVID, self.pid + ".json"), "w"), indent=1, default=str)
        for k in self.known:
            print("KNOWN-FINDING: property=%s %s" % (self.pid, k))
        seen = set()
        for path, found in self.violations:
            if path in seen:
                continue
            seen.add(path)
            print("VIOLATION property=%s replay=%s%s" % (self.pid, path, "" if found else " no-failing-input-found"))
        print("%s: obligations %d/%d, evaluations %d, violations %d, %.1fs" % (
            self.pid, self.discharged, self.obligations, self.evaluations, len(self.violations), time.time() - self.t0))
        return 1 if self.violations else 0
