(* C14 premises over the SDPL-IR of a real expansion, and the instantiation of the runtime theorems of Gen/InteractRt.v
   at the resolved form of its handle methods. *)
From Coq Require Import List String NArith Arith Bool Lia.
Import ListNotations.
From IT Require Import Sdpl.IR Sdpl.Elab Sdpl.Wf Gen.InteractRt.
Open Scope string_scope.

Definition bnd_of (b : lbind) : bnd string :=
  match b with BTx => BdTx _ | BRx => BdRx _ | BGetter g => BdGet _ g | BParam i => BdArg _ i | BNone => BdNone _ end.

(* resolved form of one messaging method: what each message field and the tail expression are bound to *)
Definition elab14 (lm : lmethod) : imeth string :=
  match lm_body lm with
  | BRef rb =>
      let params := names_of (lm_params lm) in
      let fields := match rb_msg rb with MVariant _ _ fs => map (fun f => bnd_of (resolve_live_src params (rb_pre rb) (snd f))) fs | _ => [] end in
      {| im_fields := fields;
         im_ret := match rb_tail rb with TRet e => bnd_of (resolve_live_src params (rb_pre rb) e) | _ => BdNone _ end |}
  | _ => {| im_fields := []; im_ret := BdNone _ |}
  end.
Definition meths14 (m : model) : list (imeth string) := map elab14 (m_methods m).

Definition n_oneshots (pre : list pre_stmt) : nat := List.length (filter (fun p => match p with POneshot _ _ _ _ => true | _ => false end) pre).
Definition has_prefix (p s : string) : bool := String.prefix p s.
Fixpoint sdrop (n : nat) (s : string) : string :=
  match n, s with 0, _ => s | S k, String _ t => sdrop k t | S _, EmptyString => EmptyString end.
Definition scontains (sub s : string) : bool := match String.index 0 sub s with Some _ => true | None => false end.

(* per method:
   - at most one oneshot statement, so `tx` / `rx` name the two ends of one channel created inside the call;
   - every getter statement `let inter_x = self.inter_get_x()` fills the message field named inter_x, and inter_x is not a parameter;
   - a returned end: the oneshot carries a turbofish type, the message field named like the end parameter is filled with
     that oneshot's matching end, the tail returns the OPPOSITE end, the declared return type names it, and the arm hands
     the field to the user method *)
Definition field_bnd (lm : lmethod) (rb : ref_body) (f : string) : bnd string :=
  match rb_msg rb with
  | MVariant _ _ fs => match find (fun x => String.eqb (fst x) f) fs with
                       | Some x => bnd_of (resolve_live_src (names_of (lm_params lm)) (rb_pre rb) (snd x))
                       | None => BdNone _ end
  | _ => BdNone _ end.
Definition is_get (b : bnd string) (g : string) : bool := match b with BdGet _ g' => String.eqb g g' | _ => false end.
Definition is_tx (b : bnd string) : bool := match b with BdTx _ => true | _ => false end.
Definition is_rx (b : bnd string) : bool := match b with BdRx _ => true | _ => false end.
Definition arm_passes (m : model) (rb : ref_body) (f : string) : bool :=
  match rb_msg rb with
  | MVariant _ v _ => match find_arm v (m_arms m) with
                      | Some (ArmStruct _ binds ab) => mem f binds && existsb (fun a => src_eqb a (SVar f)) (user_args (ab_call ab))
                      | _ => false end
  | _ => false end.
Definition turbo_ok (pre : list pre_stmt) : bool :=
  existsb (fun p => match p with POneshot _ _ _ t => negb (String.eqb t "") | _ => false end) pre.

Definition method_ok14 (m : model) (lm : lmethod) : bool :=
  match lm_body lm with
  | BRef rb =>
      Nat.leb (n_oneshots (rb_pre rb)) 1
      && forallb (fun p => match p with
                           | PGetter x g => has_prefix "inter_" x && String.eqb g ("inter_get_" ++ sdrop 6 x)
                                            && is_get (field_bnd lm rb x) g && negb (mem x (names_of (lm_params lm)))
                           | _ => true end) (rb_pre rb)
      && im_ok _ (elab14 lm)
      && match rb_tail rb with
         | TRet e =>
             turbo_ok (rb_pre rb)
             && match bnd_of (resolve_live_src (names_of (lm_params lm)) (rb_pre rb) e) with
                | BdRx _ => is_tx (field_bnd lm rb "inter_send") && scontains "Receiver <" (lm_ret lm) && arm_passes m rb "inter_send"
                            && negb (mem "inter_send" (names_of (lm_params lm)))
                | BdTx _ => is_rx (field_bnd lm rb "inter_recv") && scontains "Sender <" (lm_ret lm) && arm_passes m rb "inter_recv"
                            && negb (mem "inter_recv" (names_of (lm_params lm)))
                | _ => false end
         | _ => true end
  | _ => true end.

Definition is_nil_str (l : list string) : bool := match l with [] => true | _ => false end.
(* await_ok: the dispatch arm awaits an `async fn` user method (otherwise its body, and the channel end it was given, never run) *)
Definition wf_C14 (m : model) : bool := await_ok m && is_nil_str (m_unknown m) && forallb (method_ok14 m) (m_methods m).

Lemma wf_C14_im_ok : forall m, wf_C14 m = true -> forallb (im_ok string) (meths14 m) = true.
Proof.
  intros m H. unfold wf_C14 in H. apply andb_true_iff in H. destruct H as [_ H].
  unfold meths14. rewrite forallb_forall in *. intros im HI. apply in_map_iff in HI. destruct HI as (lm & <- & HI).
  specialize (H lm HI). unfold method_ok14 in H. unfold elab14 in *. destruct (lm_body lm); try reflexivity.
  apply andb_true_iff in H. destruct H as [H _]. apply andb_true_iff in H. destruct H as [_ H]. exact H.
Qed.

(* the runtime theorems at a real expansion: every interleaving of calls, renames, deliveries, sends and receives *)
Theorem pairing_of_instance : forall m, wf_C14 m = true -> forall gv s, reach string gv (meths14 m) s ->
  forall r v w, In (r, v, w) (got s) -> match r with WClient c => w = WActor c | WActor c => w = WClient c end.
Proof. intros m H gv s R. eapply no_crosstalk; eauto. apply wf_C14_im_ok; exact H. Qed.

(* static reading of the premise: a method that returns an end puts the opposite end of the same statement in the field *)
Theorem returned_end_is_opposite : forall m lm rb e, wf_C14 m = true -> In lm (m_methods m) -> lm_body lm = BRef rb -> rb_tail rb = TRet e ->
  (im_ret _ (elab14 lm) = BdRx _ /\ field_bnd lm rb "inter_send" = BdTx _) \/
  (im_ret _ (elab14 lm) = BdTx _ /\ field_bnd lm rb "inter_recv" = BdRx _).
Proof.
  intros m lm rb e H HI HB HT. unfold wf_C14 in H. apply andb_true_iff in H. destruct H as [_ H].
  rewrite forallb_forall in H. specialize (H lm HI). unfold method_ok14 in H. unfold elab14. rewrite HB in *. rewrite HT in *.
  apply andb_true_iff in H. destruct H as [_ H]. apply andb_true_iff in H. destruct H as [_ H].
  destruct (bnd_of (resolve_live_src (names_of (lm_params lm)) (rb_pre rb) e)); try discriminate.
  - right. split; [reflexivity|]. repeat (apply andb_true_iff in H; destruct H as [H ?]).
    destruct (field_bnd lm rb "inter_recv"); try discriminate; reflexivity.
  - left. split; [reflexivity|]. repeat (apply andb_true_iff in H; destruct H as [H ?]).
    destruct (field_bnd lm rb "inter_send"); try discriminate; reflexivity.
Qed.
