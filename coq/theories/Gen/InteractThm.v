(* Theorems about the generator model of `interact` (Gen/Interact.v): all parameter lists, by induction. *)
From Coq Require Import List String Ascii Bool Arith Lia.
Import ListNotations.
From IT Require Import Gen.Interact.
Open Scope string_scope.

(* ---- strings ---- *)
Lemma prefix_drop : forall p s, prefix p s = true -> s = p ++ drop (String.length p) s.
Proof.
  induction p as [|a p IH]; intros s H.
  - reflexivity.
  - destruct s as [|b s]; simpl in H; [discriminate|].
    destruct (ascii_dec a b) as [->|]; [|discriminate].
    simpl. f_equal. apply IH; exact H.
Qed.

Lemma contains_prefix : forall p s, prefix p s = true -> contains p s = true.
Proof.
  intros p s H.
  assert (U : contains p s = prefix p s || match s with EmptyString => false | String _ t => contains p t end) by (destruct s; reflexivity).
  rewrite U, H. reflexivity.
Qed.

Lemma reserved_prefix : forall x, reserved x = true -> prefix "inter_" x = true.
Proof.
  intros x H. unfold reserved in H. apply orb_true_iff in H. destruct H as [H|H]; apply String.eqb_eq in H; subst; reflexivity.
Qed.

Lemma reserved_second : forall x, prefix "inter_" x = true ->
  reserved x = String.eqb (drop 6 x) "send" || String.eqb (drop 6 x) "recv".
Proof.
  intros x H. apply prefix_drop in H. simpl String.length in H.
  remember (drop 6 x) as d. rewrite H. unfold reserved. cbn. reflexivity.
Qed.

(* ---- what a successful scan says ---- *)
Definition ends (vs : list ivar) : list (endk * string) :=
  flat_map (fun v => match v with IEnd k a => [(k, a)] | _ => [] end) vs.
Definition gets (vs : list ivar) : list (string * string) :=
  flat_map (fun v => match v with IGet x g => [(x, g)] | _ => [] end) vs.

Lemma scan_kept : forall ps ret kept vs, scan ps ret = inr (kept, vs) ->
  kept = filter (fun q => negb (is_ivar q)) ps.
Proof.
  induction ps as [|q t IH]; intros ret kept vs H; simpl in H.
  - inversion H; reflexivity.
  - simpl. destruct (is_ivar q) eqn:E; simpl.
    + destruct (fst q) eqn:F.
      * destruct (some_inter_var x (snd q) ret); [discriminate|].
        destruct (scan t ret) as [|[k v]] eqn:S; [discriminate|]. inversion H; subst. eapply IH; eauto.
      * unfold is_ivar in E; rewrite F in E; discriminate.
      * unfold is_ivar in E; rewrite F in E; discriminate.
    + destruct (scan t ret) as [|[k v]] eqn:S; [discriminate|]. inversion H; subst. f_equal. eapply IH; eauto.
Qed.

(* every candidate of a successful scan is prefixed, and classified as the documentation says *)
Lemma scan_in : forall ps ret kept vs, scan ps ret = inr (kept, vs) ->
  forall x t, In (PId x, t) ps -> contains "inter_" x = true ->
    prefix "inter_" x = true /\
    (reserved x = true -> ret = false /\ exists k a, x = end_name k /\ oneshot_get_type t (end_type_name k) = Some a /\ In (IEnd k a) vs).
Proof.
  induction ps as [|q ps IH]; intros ret kept vs H x t HI HC; [destruct HI|].
  simpl in H. destruct HI as [->|HI].
  - unfold is_ivar in H; simpl in H. rewrite HC in H. unfold some_inter_var in H.
    destruct (prefix "inter_" x) eqn:P; [|discriminate]. split; [reflexivity|].
    intro R. rewrite (reserved_second x P) in R.
    destruct (String.eqb (drop 6 x) "send") eqn:E1.
    + destruct ret; [discriminate|]. destruct (oneshot_get_type t "Sender") eqn:O; [|discriminate].
      destruct (scan ps false) as [|[k v]]; [discriminate|]. inversion H; subst.
      split; [reflexivity|]. exists ESend, s. split; [|split; [exact O|left; reflexivity]].
      apply prefix_drop in P. apply String.eqb_eq in E1. simpl String.length in P. rewrite E1 in P. exact P.
    + rewrite orb_false_l in R. rewrite R in H.
      destruct ret; [discriminate|]. destruct (oneshot_get_type t "Receiver") eqn:O; [|discriminate].
      destruct (scan ps false) as [|[k v]]; [discriminate|]. inversion H; subst.
      split; [reflexivity|]. exists ERecv, s. split; [|split; [exact O|left; reflexivity]].
      apply prefix_drop in P. apply String.eqb_eq in R. simpl String.length in P. rewrite R in P. exact P.
  - assert (exists kept' vs', scan ps ret = inr (kept', vs') /\ incl vs' vs) as (kept' & vs' & S & INC).
    { destruct (is_ivar q).
      - destruct (fst q).
        + destruct (some_inter_var x0 (snd q) ret); [discriminate|].
          destruct (scan ps ret) as [|[k v]]; [discriminate|]. inversion H; subst. do 2 eexists; split; [reflexivity|].
          intros z Hz; right; exact Hz.
        + destruct (scan ps ret) as [|[k v]]; [discriminate|]. inversion H; subst. do 2 eexists; split; [reflexivity|apply incl_refl].
        + destruct (scan ps ret) as [|[k v]]; [discriminate|]. inversion H; subst. do 2 eexists; split; [reflexivity|apply incl_refl].
      - destruct (scan ps ret) as [|[k v]]; [discriminate|]. inversion H; subst. do 2 eexists; split; [reflexivity|apply incl_refl]. }
    destruct (IH _ _ _ S x t HI HC) as [P Q]. split; [exact P|].
    intro R. destruct (Q R) as (Hr & k & a & E1 & E2 & E3). split; [exact Hr|]. exists k, a. repeat split; auto.
Qed.

Lemma some_inter_var_getter : forall x t ret v, some_inter_var x t ret = inr v -> reserved x = false ->
  v = IGet x ("inter_get_" ++ drop 6 x) /\ prefix "inter_" x = true.
Proof.
  intros x t ret v H R. unfold some_inter_var in H. destruct (prefix "inter_" x) eqn:P; [|discriminate].
  rewrite (reserved_second x P) in R. apply orb_false_iff in R. destruct R as [R1 R2]. rewrite R1, R2 in H.
  inversion H; auto.
Qed.

Lemma some_inter_var_end : forall x t ret v, some_inter_var x t ret = inr v -> reserved x = true -> exists k a, v = IEnd k a.
Proof.
  intros x t ret v H R. unfold some_inter_var in H. destruct (prefix "inter_" x) eqn:P; [|discriminate].
  rewrite (reserved_second x P) in R.
  destruct (String.eqb (drop 6 x) "send").
  - destruct ret; [discriminate|]. destruct (oneshot_get_type t "Sender"); [|discriminate]. inversion H; eauto.
  - rewrite orb_false_l in R. rewrite R in H. destruct ret; [discriminate|]. destruct (oneshot_get_type t "Receiver"); [|discriminate]. inversion H; eauto.
Qed.

Lemma is_ivar_reserved : forall x t, reserved x = true -> is_ivar (PId x, t) = true.
Proof. intros. unfold is_ivar; simpl. apply contains_prefix, reserved_prefix; assumption. Qed.

(* getters and ends collected by the scan, as lists *)
Lemma scan_lists : forall ps ret kept vs, scan ps ret = inr (kept, vs) ->
  gets vs = getters_of ps /\ List.length (ends vs) = List.length (filter is_end_param ps).
Proof.
  induction ps as [|q ps IH]; intros ret kept vs H; simpl in H.
  - inversion H; subst; split; reflexivity.
  - destruct q as [p t]. unfold getters_of. simpl flat_map. fold (getters_of ps). simpl filter.
    destruct p as [x| |l]; simpl in H.
    + unfold is_ivar in H; simpl in H. unfold is_end_param at 1; simpl.
      destruct (contains "inter_" x) eqn:C.
      * destruct (some_inter_var x t ret) as [|v] eqn:SV; [discriminate|].
        destruct (scan ps ret) as [|[k w]] eqn:S; [discriminate|]. inversion H; subst.
        destruct (IH _ _ _ S) as [G E].
        destruct (reserved x) eqn:R.
        -- destruct (some_inter_var_end _ _ _ _ SV R) as (k0 & a & ->).
           rewrite andb_false_r. simpl. rewrite G, E. split; reflexivity.
        -- destruct (some_inter_var_getter _ _ _ _ SV R) as [-> P]. rewrite P. simpl. rewrite G, E. split; reflexivity.
      * destruct (scan ps ret) as [|[k w]] eqn:S; [discriminate|]. inversion H; subst.
        destruct (IH _ _ _ S) as [G E].
        assert (P : prefix "inter_" x = false).
        { destruct (prefix "inter_" x) eqn:P; [|reflexivity]. apply contains_prefix in P; congruence. }
        assert (R : reserved x = false).
        { destruct (reserved x) eqn:R; [|reflexivity]. apply reserved_prefix in R; congruence. }
        rewrite P, R. simpl. split; assumption.
    + destruct (scan ps ret) as [|[k w]] eqn:S; [discriminate|]. inversion H; subst.
      destruct (IH _ _ _ S) as [G E]. split; assumption.
    + destruct (scan ps ret) as [|[k w]] eqn:S; [discriminate|]. inversion H; subst.
      destruct (IH _ _ _ S) as [G E]. split; assumption.
Qed.

Lemma scan_nil : forall ps ret kept, scan ps ret = inr (kept, []) -> kept = ps /\ forallb (fun q => negb (is_ivar q)) ps = true.
Proof.
  induction ps as [|q ps IH]; intros ret kept H; simpl in H.
  - inversion H; split; reflexivity.
  - destruct q as [p t]. destruct p as [x| |l]; unfold is_ivar in *; simpl in *.
    + destruct (contains "inter_" x).
      * destruct (some_inter_var x t ret); [discriminate|]. destruct (scan ps ret) as [|[k v]]; [discriminate|]. inversion H.
      * destruct (scan ps ret) as [|[k v]] eqn:S; [discriminate|]. inversion H; subst.
        destruct (IH _ _ S) as [-> F]. split; [reflexivity|exact F].
    + destruct (scan ps ret) as [|[k v]] eqn:S; [discriminate|]. inversion H; subst.
      destruct (IH _ _ S) as [-> F]. split; [reflexivity|exact F].
    + destruct (scan ps ret) as [|[k v]] eqn:S; [discriminate|]. inversion H; subst.
      destruct (IH _ _ S) as [-> F]. split; [reflexivity|exact F].
Qed.

(* ---- InterVars::insert ---- *)
Lemma insert_some : forall vs c gs ch' gs', insert vs (Some c) gs = inr (ch', gs') ->
  ch' = Some c /\ ends vs = [] /\ gs' = (gs ++ gets vs)%list.
Proof.
  induction vs as [|v vs IH]; intros c gs ch' gs' H; simpl in H.
  - inversion H; subst. rewrite app_nil_r. auto.
  - destruct v; [discriminate|]. destruct (IH _ _ _ _ H) as (A & B & C). simpl. rewrite <- app_assoc in C. auto.
Qed.

Lemma insert_none : forall vs gs ch' gs', insert vs None gs = inr (ch', gs') ->
  gs' = (gs ++ gets vs)%list /\
  ((ends vs = [] /\ ch' = None) \/ (exists e, ends vs = [e] /\ ch' = Some e)).
Proof.
  induction vs as [|v vs IH]; intros gs ch' gs' H; simpl in H.
  - inversion H; subst. rewrite app_nil_r. auto.
  - destruct v as [k a|x g].
    + destruct (insert_some _ _ _ _ _ H) as (A & B & C). simpl. split; [exact C|]. right. exists (k, a). rewrite B. auto.
    + destruct (IH _ _ _ H) as [A B]. simpl. rewrite <- app_assoc in A. split; [exact A|exact B].
Qed.

Lemma in_ends : forall vs k a, In (IEnd k a) vs -> In (k, a) (ends vs).
Proof. intros. unfold ends. apply in_flat_map. exists (IEnd k a). split; [assumption|left; reflexivity]. Qed.

(* ---- structure of a successful generation ---- *)
Definition pre_gets (l : list pre) : list (string * string) :=
  flat_map (fun p => match p with PreGet x g => [(x, g)] | _ => [] end) l.
Definition pre_chans (l : list pre) : list (option string) :=
  flat_map (fun p => match p with PreChan t => [t] | _ => [] end) l.

Lemma pre_gets_map : forall gs, pre_gets (map (fun g => PreGet (fst g) (snd g)) gs) = gs.
Proof. induction gs as [|[x g] gs IH]; simpl; [reflexivity|]. f_equal. exact IH. Qed.
Lemma pre_chans_map : forall gs : list (string * string), pre_chans (map (fun g => PreGet (fst g) (snd g)) gs) = [].
Proof. induction gs; simpl; auto. Qed.

Lemma gen_ok_inv : forall ret ps o, gen_inter true ret ps = Ok o ->
  exists kept vs ch gs, scan ps ret = inr (kept, vs) /\ insert vs None [] = inr (ch, gs) /\
    (vs <> [] -> check_kept kept = false) /\
    lo_params o = flat_params kept /\ lo_fields o = flat_params ps /\
    lo_ret o = match ch with Some (k, a) => Some (opp k, a) | None => None end /\
    lo_tail o = match ch with Some (k, _) => Some (opp k) | None => None end /\
    pre_gets (lo_pre o) = gs /\
    pre_chans (lo_pre o) = (if ret then [None] else match ch with Some (_, a) => [Some a] | None => [] end).
Proof.
  intros ret ps o H. unfold gen_inter in H.
  destruct (scan ps ret) as [|[kept vs]] eqn:S; [discriminate|].
  destruct vs as [|v vs].
  - inversion H; subst. destruct (scan_nil _ _ _ S) as [-> _].
    exists ps, [], None, []. simpl. repeat split; try reflexivity; try congruence.
    + destruct ret; reflexivity.
    + destruct ret; reflexivity.
  - destruct (insert (v :: vs) None []) as [|[ch gs]] eqn:I; [discriminate|].
    destruct (check_kept kept) eqn:K; [discriminate|]. inversion H; subst; clear H.
    exists kept, (v :: vs), ch, gs. simpl. repeat split; auto.
    + destruct ret; simpl.
      * apply pre_gets_map.
      * unfold pre_gets. rewrite flat_map_app. fold (pre_gets (map (fun g => PreGet (fst g) (snd g)) gs)).
        rewrite pre_gets_map. destruct ch as [[k a]|]; simpl; rewrite app_nil_r; reflexivity.
    + destruct ret; simpl.
      * f_equal. apply pre_chans_map.
      * unfold pre_chans. rewrite flat_map_app. fold (pre_chans (map (fun g => PreGet (fst g) (snd g)) gs)).
        rewrite pre_chans_map. destruct ch as [[k a]|]; reflexivity.
Qed.

(* ---- T1: inter variables vanish from the handle signature, the rest keep order and types ---- *)
Theorem live_params_i : forall ret ps o, gen_inter true ret ps = Ok o ->
  lo_params o = flat_params (filter (fun q => negb (is_ivar q)) ps).
Proof.
  intros ret ps o H. destruct (gen_ok_inv _ _ _ H) as (kept & vs & ch & gs & S & _ & _ & P & _).
  rewrite P. f_equal. eapply scan_kept; eauto.
Qed.

(* in an accepted method, "is a candidate" coincides with the documented notion: an identifier prefixed `inter_` *)
Theorem ivar_is_prefixed_i : forall ret ps o, gen_inter true ret ps = Ok o ->
  forall q, In q ps -> is_ivar q = is_end_param q || is_getter_param q.
Proof.
  intros ret ps o H q HI. destruct (gen_ok_inv _ _ _ H) as (kept & vs & ch & gs & S & _).
  destruct q as [p t]. unfold is_ivar, is_end_param, is_getter_param. simpl. destruct p as [x| |l]; try reflexivity.
  destruct (contains "inter_" x) eqn:C.
  - destruct (scan_in _ _ _ _ S x t HI C) as [P _]. rewrite P. simpl. destruct (reserved x); reflexivity.
  - assert (P : prefix "inter_" x = false).
    { destruct (prefix "inter_" x) eqn:P; [|reflexivity]. apply contains_prefix in P; congruence. }
    assert (R : reserved x = false).
    { destruct (reserved x) eqn:R; [|reflexivity]. apply reserved_prefix in R; congruence. }
    rewrite P, R. reflexivity.
Qed.

(* ---- T2: message fields = every parameter, flattened, in the original order (inter variables included) ---- *)
Theorem variant_fields_i : forall interact ret ps o, gen_inter interact ret ps = Ok o -> lo_fields o = flat_params ps.
Proof.
  intros [|] ret ps o H.
  - destruct (gen_ok_inv _ _ _ H) as (kept & vs & ch & gs & _ & _ & _ & _ & F & _). exact F.
  - unfold gen_inter in H. destruct (check_plain ps); [discriminate|]. inversion H; reflexivity.
Qed.

(* ---- T3: a declared end: typed channel, the field gets that end, the handle returns the opposite end over the same type ---- *)
Theorem end_returns_opposite_i : forall ret ps o, gen_inter true ret ps = Ok o ->
  forall k t, In (PId (end_name k), t) ps ->
    ret = false /\ exists a, oneshot_get_type t (end_type_name k) = Some a /\
      lo_ret o = Some (opp k, a) /\ lo_tail o = Some (opp k) /\ pre_chans (lo_pre o) = [Some a] /\
      In (end_name k, t) (lo_fields o) /\ ~ In (end_name k) (map fst (lo_params o)).
Proof.
  intros ret ps o H k t HI.
  pose proof (live_params_i _ _ _ H) as LP.
  destruct (gen_ok_inv _ _ _ H) as (kept & vs & ch & gs & S & I & _ & _ & F & R & T & _ & PC).
  assert (RS : reserved (end_name k) = true) by (destruct k; reflexivity).
  assert (C : contains "inter_" (end_name k) = true) by (destruct k; reflexivity).
  destruct (scan_in _ _ _ _ S _ _ HI C) as [_ Q]. destruct (Q RS) as (-> & k' & a & E & O & IN).
  assert (k' = k) by (destruct k, k'; simpl in E; congruence). subst k'.
  assert (VS : vs <> []) by (intro; subst; destruct IN).
  split; [reflexivity|]. exists a. split; [exact O|].
  destruct (insert_none _ _ _ _ I) as [_ [[EN _]|(e & EN & ->)]].
  - apply in_ends in IN. rewrite EN in IN. destruct IN.
  - apply in_ends in IN. rewrite EN in IN. destruct IN as [->|[]]. simpl in R, T, PC.
    rewrite R, T, PC, F. repeat split; auto.
    + unfold flat_params. apply in_map_iff. exists (PId (end_name k), t). split; [reflexivity|exact HI].
    + rewrite LP. unfold flat_params. rewrite map_map. intro HM. apply in_map_iff in HM. destruct HM as (q & E1 & E2).
      apply filter_In in E2. destruct E2 as [E2 E3]. destruct q as [p t']. simpl in E1.
      (* a kept parameter that flattens to a reserved name would have been refused by `check` *)
      destruct (gen_ok_inv _ _ _ H) as (kept2 & vs2 & ch2 & gs2 & S2 & _ & CK & _).
      rewrite S in S2. inversion S2; subst kept2 vs2. specialize (CK VS).
      unfold check_kept in CK. assert (existsb (fun q => reserved (flat_name (fst q))) kept = true); [|congruence].
      apply existsb_exists. exists (p, t'). split.
      * rewrite (scan_kept _ _ _ _ S). apply filter_In. split; assumption.
      * simpl. rewrite E1. exact RS.
Qed.

(* no end declared: signature output and tail untouched, no typed channel *)
Theorem no_end_no_change_i : forall ret ps o, gen_inter true ret ps = Ok o ->
  (forall q, In q ps -> is_end_param q = false) -> lo_ret o = None /\ lo_tail o = None /\ pre_chans (lo_pre o) = (if ret then [None] else []).
Proof.
  intros ret ps o H NE.
  destruct (gen_ok_inv _ _ _ H) as (kept & vs & ch & gs & S & I & _ & _ & _ & R & T & _ & PC).
  destruct (scan_lists _ _ _ _ S) as [_ L].
  assert (filter is_end_param ps = []) as Z.
  { clear -NE. induction ps as [|q ps IH]; [reflexivity|]. simpl. rewrite (NE q (or_introl eq_refl)). apply IH. intros; apply NE; right; assumption. }
  rewrite Z in L. simpl in L.
  destruct (insert_none _ _ _ _ I) as [_ [[_ ->]|(e & EN & _)]].
  - rewrite R, T, PC. auto.
  - rewrite EN in L. discriminate.
Qed.

(* ---- T4: getters: one `let inter_x = self.inter_get_x()` per getter parameter, in declaration order ---- *)
Theorem getters_read_i : forall ret ps o, gen_inter true ret ps = Ok o -> pre_gets (lo_pre o) = getters_of ps.
Proof.
  intros ret ps o H.
  destruct (gen_ok_inv _ _ _ H) as (kept & vs & ch & gs & S & I & _ & _ & _ & _ & _ & G & _).
  destruct (scan_lists _ _ _ _ S) as [GS _]. destruct (insert_none _ _ _ _ I) as [E _]. simpl in E. congruence.
Qed.

(* ---- T5: rules ---- *)
Lemma not_ok_diag_i : forall r, (forall o, r <> Ok o) -> exists d, r = Diag d.
Proof. intros [o|d] H; [exfalso; eapply H; reflexivity|eauto]. Qed.

Theorem rule_both_ends_i : forall ret ps, 2 <= List.length (filter is_end_param ps) -> exists d, gen_inter true ret ps = Diag d.
Proof.
  intros ret ps L. apply not_ok_diag_i. intros o H.
  destruct (gen_ok_inv _ _ _ H) as (kept & vs & ch & gs & S & I & _).
  destruct (scan_lists _ _ _ _ S) as [_ E]. destruct (insert_none _ _ _ _ I) as [_ [[EN _]|(e & EN & _)]]; rewrite EN in E; simpl in E; lia.
Qed.

Theorem rule_end_in_returning_method_i : forall ps, existsb is_end_param ps = true -> exists d, gen_inter true true ps = Diag d.
Proof.
  intros ps EX. apply not_ok_diag_i. intros o H.
  destruct (gen_ok_inv _ _ _ H) as (kept & vs & ch & gs & S & _).
  apply existsb_exists in EX. destruct EX as ([p t] & HI & E). unfold is_end_param in E; simpl in E.
  destruct p as [x| |l]; try discriminate.
  assert (C : contains "inter_" x = true) by (apply contains_prefix, reserved_prefix; exact E).
  destruct (scan_in _ _ _ _ S x t HI C) as [_ Q]. destruct (Q E) as [? _]. discriminate.
Qed.

Theorem rule_without_interact_i : forall ret ps q x, In q ps -> In x (leaves (fst q)) -> reserved x = true ->
  gen_inter false ret ps = Diag DNoInteract.
Proof.
  intros ret ps q x HI HL R. unfold gen_inter.
  assert (check_plain ps = true) as ->; [|reflexivity].
  unfold check_plain. apply existsb_exists. exists q. split; [exact HI|]. apply existsb_exists. exists x. auto.
Qed.

Theorem rule_reserved_from_pattern_i : forall ret ps q, In q ps -> (forall x, fst q <> PId x) -> reserved (flat_name (fst q)) = true ->
  existsb is_ivar ps = true -> exists d, gen_inter true ret ps = Diag d.
Proof.
  intros ret ps q HI NP R EX. apply not_ok_diag_i. intros o H.
  destruct (gen_ok_inv _ _ _ H) as (kept & vs & ch & gs & S & _ & CK & _).
  assert (VS : vs <> []).
  { intro; subst. destruct (scan_nil _ _ _ S) as [_ F]. apply existsb_exists in EX. destruct EX as (z & Z1 & Z2).
    rewrite forallb_forall in F. specialize (F z Z1). rewrite Z2 in F. discriminate. }
  specialize (CK VS). unfold check_kept in CK.
  assert (existsb (fun q => reserved (flat_name (fst q))) kept = true); [|congruence].
  apply existsb_exists. exists q. split; [|exact R].
  rewrite (scan_kept _ _ _ _ S). apply filter_In. split; [exact HI|].
  unfold is_ivar. destruct (fst q) eqn:F; try reflexivity. exfalso; eapply NP; eauto.
Qed.

Theorem rule_mixed_identifier_i : forall ret ps x t, In (PId x, t) ps -> contains "inter_" x = true -> prefix "inter_" x = false ->
  exists d, gen_inter true ret ps = Diag d.
Proof.
  intros ret ps x t HI C P. apply not_ok_diag_i. intros o H.
  destruct (gen_ok_inv _ _ _ H) as (kept & vs & ch & gs & S & _).
  destruct (scan_in _ _ _ _ S x t HI C) as [P' _]. congruence.
Qed.

(* ---- T6: the declared end type is the type of the end the handle puts there ---- *)
Definition coherent (ps : list param) (o : live_out) : Prop :=
  forall k t, declared_end ps = Some (k, t) ->
    exists txt a, t = TPath txt (end_type_name k) (ATy a) /\ lo_ret o = Some (opp k, a) /\ pre_chans (lo_pre o) = [Some a].

Lemma declared_end_in : forall ps k t, declared_end ps = Some (k, t) -> In (PId (end_name k), t) ps.
Proof.
  induction ps as [|q ps IH]; intros k t H; simpl in H; [discriminate|].
  destruct (end_of q) as [e|] eqn:E.
  - inversion H; subst. left. destruct q as [p t']. unfold end_of in E. simpl in E. destruct p as [x| |l]; try discriminate.
    destruct (String.eqb x "inter_send") eqn:E1; [apply String.eqb_eq in E1; inversion E; subst; reflexivity|].
    destruct (String.eqb x "inter_recv") eqn:E2; [apply String.eqb_eq in E2; inversion E; subst; reflexivity|discriminate].
  - right. apply IH; exact H.
Qed.

Lemma oneshot_get_type_inv : forall t target a, oneshot_get_type t target = Some a -> exists txt, t = TPath txt target (ATy a).
Proof.
  intros t target a H. destruct t as [txt last arg|txt]; [|discriminate]. simpl in H. destruct arg; try discriminate.
  destruct (String.eqb last target) eqn:E; [|discriminate]. apply String.eqb_eq in E. inversion H; subst. eauto.
Qed.

(* full strength: every accepted method *)
Theorem end_type_coherent_i : forall ret ps o, gen_inter true ret ps = Ok o -> coherent ps o.
Proof.
  intros ret ps o H k t D. pose proof (declared_end_in _ _ _ D) as HI.
  destruct (end_returns_opposite_i _ _ _ H _ _ HI) as (_ & a & O & R & _ & PC & _).
  destruct (oneshot_get_type_inv _ _ _ O) as (txt & ->). exists txt, a. auto.
Qed.

(* rule: an end parameter whose type does not name the end it asks for (`inter_send: Vec<u8>`, `inter_recv: ..::Sender<u8>`) is refused *)
Theorem rule_wrong_end_type_i : forall ret ps q, In q ps -> is_end_param q = true -> end_type_named q = false ->
  exists d, gen_inter true ret ps = Diag d.
Proof.
  intros ret ps [p t] HI E N. apply not_ok_diag_i. intros o H.
  unfold is_end_param in E. simpl in E. destruct p as [x| |l]; try discriminate.
  assert (exists k, x = end_name k) as (k & ->).
  { unfold reserved in E. apply orb_true_iff in E. destruct E as [E|E]; apply String.eqb_eq in E; [exists ESend|exists ERecv]; exact E. }
  destruct (end_returns_opposite_i _ _ _ H _ _ HI) as (_ & a & O & _).
  destruct (oneshot_get_type_inv _ _ _ O) as (txt & ->).
  unfold end_type_named, end_of in N. simpl in N. destruct k; simpl in N; discriminate.
Qed.

(* ================= the whole generator: naming checks first, then the interact rules ================= *)
Lemma gen_ok : forall i r ps o, gen i r ps = Ok o -> gen_inter i r ps = Ok o /\ check_actor ps = false /\ flat_check ps [] = false.
Proof. intros i r ps o H. unfold gen in H. destruct (check_actor ps); [discriminate|]. destruct (flat_check ps []); [discriminate|]. auto. Qed.
Lemma gen_diag : forall i r ps, (exists d, gen_inter i r ps = Diag d) -> exists d, gen i r ps = Diag d.
Proof. intros i r ps [d H]. unfold gen. destruct (check_actor ps); [eauto|]. destruct (flat_check ps []); eauto. Qed.

Theorem live_params : forall ret ps o, gen true ret ps = Ok o -> lo_params o = flat_params (filter (fun q => negb (is_ivar q)) ps).
Proof. intros ret ps o H. apply gen_ok in H. eapply live_params_i; apply H. Qed.
Theorem ivar_is_prefixed : forall ret ps o, gen true ret ps = Ok o -> forall q, In q ps -> is_ivar q = is_end_param q || is_getter_param q.
Proof. intros ret ps o H. apply gen_ok in H. eapply ivar_is_prefixed_i; apply H. Qed.
Theorem variant_fields : forall interact ret ps o, gen interact ret ps = Ok o -> lo_fields o = flat_params ps.
Proof. intros i ret ps o H. apply gen_ok in H. eapply variant_fields_i; apply H. Qed.
Theorem end_returns_opposite : forall ret ps o, gen true ret ps = Ok o ->
  forall k t, In (PId (end_name k), t) ps ->
    ret = false /\ exists a, oneshot_get_type t (end_type_name k) = Some a /\
      lo_ret o = Some (opp k, a) /\ lo_tail o = Some (opp k) /\ pre_chans (lo_pre o) = [Some a] /\
      In (end_name k, t) (lo_fields o) /\ ~ In (end_name k) (map fst (lo_params o)).
Proof. intros ret ps o H. apply gen_ok in H. eapply end_returns_opposite_i; apply H. Qed.
Theorem no_end_no_change : forall ret ps o, gen true ret ps = Ok o ->
  (forall q, In q ps -> is_end_param q = false) -> lo_ret o = None /\ lo_tail o = None /\ pre_chans (lo_pre o) = (if ret then [None] else []).
Proof. intros ret ps o H. apply gen_ok in H. eapply no_end_no_change_i; apply H. Qed.
Theorem getters_read : forall ret ps o, gen true ret ps = Ok o -> pre_gets (lo_pre o) = getters_of ps.
Proof. intros ret ps o H. apply gen_ok in H. eapply getters_read_i; apply H. Qed.
Theorem end_type_coherent : forall ret ps o, gen true ret ps = Ok o -> coherent ps o.
Proof. intros ret ps o H. apply gen_ok in H. eapply end_type_coherent_i; apply H. Qed.

Theorem rule_both_ends : forall ret ps, 2 <= List.length (filter is_end_param ps) -> exists d, gen true ret ps = Diag d.
Proof. intros. apply gen_diag. apply rule_both_ends_i; assumption. Qed.
Theorem rule_end_in_returning_method : forall ps, existsb is_end_param ps = true -> exists d, gen true true ps = Diag d.
Proof. intros. apply gen_diag. apply rule_end_in_returning_method_i; assumption. Qed.
Theorem rule_without_interact : forall ret ps q x, In q ps -> In x (leaves (fst q)) -> reserved x = true -> exists d, gen false ret ps = Diag d.
Proof. intros. apply gen_diag. eexists. eapply rule_without_interact_i; eauto. Qed.
Theorem rule_mixed_identifier : forall ret ps x t, In (PId x, t) ps -> contains "inter_" x = true -> prefix "inter_" x = false ->
  exists d, gen true ret ps = Diag d.
Proof. intros. apply gen_diag. eapply rule_mixed_identifier_i; eauto. Qed.
Theorem rule_wrong_end_type : forall ret ps q, In q ps -> is_end_param q = true -> end_type_named q = false -> exists d, gen true ret ps = Diag d.
Proof. intros. apply gen_diag. eapply rule_wrong_end_type_i; eauto. Qed.

(* ---- naming rules (check_inter_actor, check_flat_ident) ---- *)
Definition fname (q : param) : string := flat_name (fst q).

Lemma mem_In : forall x l, mem x l = true <-> In x l.
Proof.
  intros x l. unfold mem. rewrite existsb_exists. split.
  - intros (y & A & B). apply String.eqb_eq in B. subst; exact A.
  - intro A. exists x. split; [exact A|apply String.eqb_refl].
Qed.

Lemma flat_check_ok : forall ps seen, flat_check ps seen = false ->
  NoDup (map fname ps) /\ (forall x, In x (map fname ps) -> ~ In x seen) /\
  (forall q, In q ps -> composite (fst q) = true -> model_reserved (fname q) = false).
Proof.
  induction ps as [|q ps IH]; intros seen H; simpl in H.
  - repeat split; [constructor|intros x []|intros q []].
  - destruct (mem (flat_name (fst q)) seen) eqn:M; [discriminate|].
    destruct (composite (fst q) && model_reserved (flat_name (fst q))) eqn:C; [discriminate|].
    destruct (IH _ H) as (ND & DJ & RS). simpl. repeat split.
    + constructor; [|exact ND]. intro HI. apply (DJ _ HI). left; reflexivity.
    + intros x [<-|HI] HS.
      * apply mem_In in HS. unfold fname in HS. congruence.
      * apply (DJ _ HI). right; exact HS.
    + intros q' [<-|HI] CP; [|apply RS; assumption]. rewrite CP in C. exact C.
Qed.

(* two parameters that flatten to the same identifier are refused *)
Theorem rule_duplicate_flat_names : forall interact ret ps, ~ NoDup (map fname ps) -> exists d, gen interact ret ps = Diag d.
Proof.
  intros i r ps ND. apply not_ok_diag_i. intros o H. apply gen_ok in H. destruct H as (_ & _ & F).
  apply flat_check_ok in F. apply ND. apply F.
Qed.

(* a composite pattern that flattens to a name the model binds itself (`(inter, send)`, `(inter_recv,)`, `(inter, actor)`) is refused,
   with or without `interact`, whatever the other parameters *)
Theorem rule_reserved_from_pattern : forall interact ret ps q, In q ps -> composite (fst q) = true -> model_reserved (fname q) = true ->
  exists d, gen interact ret ps = Diag d.
Proof.
  intros i r ps q HI CP R. apply not_ok_diag_i. intros o H. apply gen_ok in H. destruct H as (_ & _ & F).
  apply flat_check_ok in F. destruct F as (_ & _ & RS). rewrite (RS q HI CP) in R. discriminate.
Qed.

(* `inter_actor` anywhere in a pattern is refused *)
Theorem rule_inter_actor : forall interact ret ps q, In q ps -> In "inter_actor" (leaves (fst q)) -> gen interact ret ps = Diag DInterActor.
Proof.
  intros i r ps q HI HL. unfold gen. assert (check_actor ps = true) as ->; [|reflexivity].
  unfold check_actor. apply existsb_exists. exists q. split; [exact HI|]. apply existsb_exists. exists "inter_actor". split; [exact HL|reflexivity].
Qed.

(* accepted: the message fields (and so the handle parameters) carry pairwise distinct names *)
Theorem field_names_distinct : forall interact ret ps o, gen interact ret ps = Ok o -> NoDup (map fst (lo_fields o)).
Proof.
  intros i r ps o H. pose proof (variant_fields _ _ _ _ H) as F. apply gen_ok in H. destruct H as (_ & _ & FC).
  apply flat_check_ok in FC. destruct FC as (ND & _). rewrite F. unfold flat_params. rewrite map_map. exact ND.
Qed.

(* the full-strength reading "an `inter_send` anywhere inside a pattern is refused" is false of the faithful model *)
Lemma rule_inside_pattern_refuted : exists ps o, In "inter_send" (leaves (fst (hd (PRest, TOther "") ps))) /\ gen true false ps = Ok o.
Proof.
  exists [(PNode [PId "inter_send"; PId "b"], TOther "(oneshot::Sender<u8>, u8)")]. eexists. split; [left; reflexivity|]. vm_compute. reflexivity.
Qed.

(* hypotheses are satisfiable: a method with an ordinary, a pattern, a getter and an end parameter *)
Example ex_ps : list param :=
  [(PId "a", TPath "u8" "u8" ANone); (PId "inter_send", TPath "oneshot::Sender<u8>" "Sender" (ATy "u8"));
   (PNode [PId "b"; PId "c"], TOther "(u8, u8)"); (PId "inter_name", TPath "String" "String" ANone)].
Example ex_ok : exists o, gen true false ex_ps = Ok o
  /\ lo_params o = [("a", TPath "u8" "u8" ANone); ("b_c", TOther "(u8, u8)")]
  /\ lo_ret o = Some (ERecv, "u8") /\ pre_gets (lo_pre o) = [("inter_name", "inter_get_name")].
Proof. eexists. split; [vm_compute; reflexivity|]. repeat split. Qed.
Example ex_wrong : is_end_param (PId "inter_send", TPath "Vec<u8>" "Vec" (ATy "u8")) = true
  /\ end_type_named (PId "inter_send", TPath "Vec<u8>" "Vec" (ATy "u8")) = false
  /\ gen true false [(PId "inter_send", TPath "Vec<u8>" "Vec" (ATy "u8"))] = Diag DEndType
  /\ gen true false [(PId "inter_recv", TPath "oneshot::Sender<u8>" "Sender" (ATy "u8"))] = Diag DEndType.
Proof. vm_compute. repeat split. Qed.
Example ex_naming : gen true false [(PNode [PId "inter"; PId "send"], TOther "(u8,u8)"); (PId "inter_name", TPath "String" "String" ANone)] = Diag DFlatName
  /\ gen true false [(PNode [PId "inter"; PId "count"], TOther "(u8,u8)"); (PId "inter_count", TPath "usize" "usize" ANone)] = Diag DFlatName
  /\ gen true false [(PId "inter_recv", TPath "R<u8>" "Receiver" (ATy "u8")); (PId "inter_recv", TPath "R<u8>" "Receiver" (ATy "u8"))] = Diag DFlatName
  /\ gen true false [(PId "inter_send", TPath "S<u8>" "Sender" (ATy "u8")); (PId "inter_recv", TPath "R<u8>" "Receiver" (ATy "u8"))] = Diag DBothEnds
  /\ gen false true [(PId "inter_actor", TPath "u8" "u8" ANone)] = Diag DInterActor.
Proof. vm_compute. repeat split. Qed.
Example ex_both : 2 <= List.length (filter is_end_param
  [(PId "inter_send", TPath "S<u8>" "S" (ATy "u8")); (PId "inter_recv", TPath "R<u8>" "R" (ATy "u8"))]).
Proof. vm_compute. lia. Qed.
