(* Gen/Paths.v -- C12: which crates the generated code refers to, and the import check.

   Model of (a) the per-runtime path tables of the generator
        src/model/argument/channel.rs   OneshotChannel::{get_decl,get_send_type,get_recv_type,recv_call}, MpscChannel::new
        src/model/argument/mod.rs       Lib::method_new_spawn
        src/model/argument/receiver.rs  ModelReceiver::{get_model_type,get_model_wrap}
        src/model/argument/debut.rs     Debut::{impl_debut,get_method_debut,get_path}
        src/model/generate.rs           generate_actor / generate_family (Arc, String, SystemTime, Option/Result, fmt)
        src/model/method/cont.rs        to_raw_parts (Box / Pin / Future of the closure message, inter_play_stop)
        src/model/method/vars.rs        get_gen_msg_script (Box::new / Box::pin)
        src/model/method/mod.rs         ModelPhantomData (PhantomData)
        src/error.rs                    direct_send (core::panic!)
   as finite functions  lib x options -> list of paths,  and
   (b) src/check.rs  channels_import / is_imported  as a function  lib x manifest -> Accept | Diag crate.

   This file holds definitions only (it still evaluates when a proof breaks); proofs are in PathsThm.v. *)
From Coq Require Import List String Ascii Bool.
Import ListNotations.
Open Scope string_scope.

(* ---------- runtimes and crates ---------- *)
Inductive plib := LStd | LTokio | LAsyncStd | LSmol.
Inductive crate := COneshot | CTokio | CAsyncStd | CSmol | CAsyncChannel.

Definition all_libs : list plib := [LStd; LTokio; LAsyncStd; LSmol].
Definition all_crates : list crate := [COneshot; CTokio; CAsyncStd; CSmol; CAsyncChannel].

Definition crate_eqb (a b : crate) : bool :=
  match a, b with
  | COneshot, COneshot | CTokio, CTokio | CAsyncStd, CAsyncStd | CSmol, CSmol | CAsyncChannel, CAsyncChannel => true
  | _, _ => false
  end.

(* the name under which the crate is declared in Cargo.toml (and named in the diagnostic) *)
Definition crate_name (c : crate) : string :=
  match c with COneshot => "oneshot" | CTokio => "tokio" | CAsyncStd => "async-std" | CSmol => "smol" | CAsyncChannel => "async-channel" end.
(* the leading path segment under which rustc makes it available *)
Definition crate_root (c : crate) : string :=
  match c with COneshot => "oneshot" | CTokio => "tokio" | CAsyncStd => "async_std" | CSmol => "smol" | CAsyncChannel => "async_channel" end.

(* `format_ident!("{lib}")` *)
Definition lib_ident (l : plib) : string :=
  match l with LStd => "std" | LTokio => "tokio" | LAsyncStd => "async_std" | LSmol => "smol" end.
Definition is_std (l : plib) : bool := match l with LStd => true | _ => false end.

(* ---------- SPEC: the compatibility table of the documentation (property text) ---------- *)
Definition documented (l : plib) : list crate :=
  match l with
  | LStd => [COneshot]
  | LTokio => [CTokio]
  | LAsyncStd => [CAsyncStd; COneshot]
  | LSmol => [CSmol; CAsyncChannel; COneshot]
  end.

(* roots that need no declaration *)
Definition base_roots : list string := ["std"; "core"].
Definition allowed_roots (l : plib) : list string := map crate_root (documented l) ++ base_roots.

(* ---------- manifests ---------- *)
(* the using crate's Cargo.toml, restricted to the five crates the macro may need:
   what is listed under [dependencies] and under [dev-dependencies] (any lists: order, repetition, overlap are allowed) *)
Record manifest := { deps : list crate; dev_deps : list crate }.
Definition mem (c : crate) (cs : list crate) : bool := existsb (crate_eqb c) cs.
Definition declared (m : manifest) (c : crate) : bool := mem c (deps m) || mem c (dev_deps m).

(* ---------- src/check.rs ---------- *)
Inductive outcome := Accept | Diag (c : crate).

(* the sequence of `is_imported(..)` calls of `channels_import`, per arm *)
Definition check_order (l : plib) : list crate :=
  match l with
  | LTokio => [CTokio]
  | LStd => [COneshot]
  | LAsyncStd => [CAsyncStd; COneshot]
  | LSmol => [CSmol; CAsyncChannel; COneshot]
  end.

(* `is_imported` aborts at the first crate `proc_macro_crate::crate_name` does not find *)
Fixpoint first_missing (m : manifest) (cs : list crate) : outcome :=
  match cs with
  | [] => Accept
  | c :: r => if declared m c then first_missing m r else Diag c
  end.

Definition channels_import (l : plib) (m : manifest) : outcome := first_missing m (check_order l).

(* text of the diagnostic (first line) *)
Definition diag_message (c : crate) : string := "Crate '" ++ crate_name c ++ "' not found!".

(* ---------- paths ---------- *)
Record path := P { p_global : bool (* leading `::` *); p_segs : list string }.
Definition rel (segs : list string) : path := P false segs.
Definition glob (segs : list string) : path := P true segs.
Definition root (p : path) : string := hd "" (p_segs p).
Definition ext (p : path) (more : list string) : path := P (p_global p) (p_segs p ++ more).

(* OneshotChannel *)
Definition oneshot_mod (l : plib) : path :=
  match l with LTokio => rel ["tokio"; "sync"; "oneshot"] | _ => rel ["oneshot"] end.
Definition oneshot_decl (l : plib) : path := ext (oneshot_mod l) ["channel"].
Definition oneshot_send_type (l : plib) : path := ext (oneshot_mod l) ["Sender"].
Definition oneshot_recv_type (l : plib) : path := ext (oneshot_mod l) ["Receiver"].
Definition panic_path : path := rel ["core"; "panic"].          (* recv_call, error::direct_send *)

(* MpscChannel::new *)
Definition mpsc_type_sender (l : plib) (bounded : bool) : path :=
  match l, bounded with
  | LStd, false => rel ["std"; "sync"; "mpsc"; "Sender"]
  | LStd, true => rel ["std"; "sync"; "mpsc"; "SyncSender"]
  | LTokio, false => rel ["tokio"; "sync"; "mpsc"; "UnboundedSender"]
  | LTokio, true => rel ["tokio"; "sync"; "mpsc"; "Sender"]
  | LAsyncStd, _ => rel ["async_std"; "channel"; "Sender"]
  | LSmol, _ => rel ["async_channel"; "Sender"]
  end.
Definition mpsc_type_receiver (l : plib) (bounded : bool) : path :=
  match l, bounded with
  | LStd, _ => rel ["std"; "sync"; "mpsc"; "Receiver"]
  | LTokio, false => rel ["tokio"; "sync"; "mpsc"; "UnboundedReceiver"]
  | LTokio, true => rel ["tokio"; "sync"; "mpsc"; "Receiver"]
  | LAsyncStd, _ => rel ["async_std"; "channel"; "Receiver"]
  | LSmol, _ => rel ["async_channel"; "Receiver"]
  end.
Definition mpsc_decl_call (l : plib) (bounded : bool) : path :=
  match l, bounded with
  | LStd, false => rel ["std"; "sync"; "mpsc"; "channel"]
  | LStd, true => rel ["std"; "sync"; "mpsc"; "sync_channel"]
  | LTokio, false => rel ["tokio"; "sync"; "mpsc"; "unbounded_channel"]
  | LTokio, true => rel ["tokio"; "sync"; "mpsc"; "channel"]
  | LAsyncStd, false => rel ["async_std"; "channel"; "unbounded"]
  | LAsyncStd, true => rel ["async_std"; "channel"; "bounded"]
  | LSmol, false => rel ["async_channel"; "unbounded"]
  | LSmol, true => rel ["async_channel"; "bounded"]
  end.

(* Lib::method_new_spawn *)
Definition spawn_path (l : plib) : path :=
  match l with
  | LStd => rel ["std"; "thread"; "spawn"]
  | LSmol => rel ["smol"; "spawn"]
  | LTokio => rel ["tokio"; "spawn"]
  | LAsyncStd => rel ["async_std"; "task"; "spawn"]
  end.

(* ModelReceiver *)
Inductive rcvr := RSlf | RMutex | RRwLock.
Definition lock_name (r : rcvr) : string := match r with RMutex => "Mutex" | _ => "RwLock" end.
Definition arc_path : path := glob ["std"; "sync"; "Arc"].
Definition lock_path (r : rcvr) (l : plib) : path := P (is_std l) [lib_ident l; "sync"; lock_name r].
Definition model_type_paths (r : rcvr) (l : plib) : list path :=       (* get_model_type *)
  match r with RSlf => [] | _ => [arc_path; lock_path r l] end.
Definition model_wrap_paths (r : rcvr) (l : plib) : list path :=       (* get_model_wrap *)
  match r with RSlf => [] | _ => [ext arc_path ["new"]; ext (lock_path r l) ["new"]] end.

(* Debut *)
Definition system_time : path := glob ["std"; "time"; "SystemTime"].
Definition debut_path : list path := [arc_path; system_time].          (* Debut::get_path *)
Definition debut_fn_paths : list path :=                              (* get_method_debut *)
  [system_time; glob ["std"; "sync"; "Mutex"]; ext (glob ["std"; "sync"; "Mutex"]) ["new"]; ext system_time ["UNIX_EPOCH"];
   ext system_time ["now"]; glob ["std"; "time"; "Duration"; "new"]].
Definition debut_live_paths : list path :=                            (* impl_debut, Mac::Actor only *)
  [rel ["std"; "time"; "SystemTime"]; rel ["std"; "sync"; "Arc"; "strong_count"]; rel ["std"; "string"; "ToString"];
   glob ["std"; "string"; "String"]; glob ["std"; "cmp"; "PartialEq"]; glob ["std"; "cmp"; "Eq"];
   glob ["std"; "cmp"; "PartialOrd"]; glob ["std"; "cmp"; "Ordering"]; glob ["std"; "cmp"; "Ord"]].
Definition debut_field_paths : list path := [arc_path; system_time; glob ["std"; "string"; "String"]].
Definition debut_init_paths : list path := [ext arc_path ["new"]; glob ["std"; "string"; "String"; "new"]].

(* generate_actor: play loop pattern, Debug, PhantomData; cont.rs / vars.rs: closure message *)
Definition ok_or_some (l : plib) : path :=
  match l with LTokio => glob ["std"; "option"; "Option"; "Some"] | _ => glob ["std"; "result"; "Result"; "Ok"] end.
Definition debug_paths : list path := [rel ["std"; "fmt"; "Debug"]; rel ["std"; "fmt"; "Formatter"]; rel ["std"; "fmt"; "Result"]].
Definition phantom_path : path := glob ["std"; "marker"; "PhantomData"].
Definition box_path : path := rel ["std"; "boxed"; "Box"].
Definition gen_msg_type_paths (async_model : bool) : list path :=
  if async_model then [box_path; glob ["std"; "pin"; "Pin"]; box_path; rel ["std"; "future"; "Future"]] else [box_path].
Definition gen_msg_build_paths (async_method : bool) : list path :=
  ext box_path ["new"] :: (if async_method then [ext box_path ["pin"]] else []).

(* ---------- options that select table entries ---------- *)
Record opts := {
  o_bounded : bool;        (* channel = n, n > 0 *)
  o_debut : bool;          (* debut *)
  o_debug : bool;          (* Debug *)
  o_rcvr : rcvr;           (* actor: RSlf; family member: RMutex / RRwLock *)
  o_reply : bool;          (* some messaging method returns a value (Io / O) *)
  o_generic : bool;        (* some messaging method has its own generic parameters (closure message) *)
  o_async_model : bool;    (* play/direct are async (lib <> std) *)
  o_async_generic : bool;  (* some generic method is itself async *)
  o_slf : bool;            (* some self-consuming method (inter_play_stop); ignored by family members *)
  o_phantom : bool;        (* the handle needs PhantomData fields *)
  o_chan_end : bool        (* interact: some method takes inter_send / inter_recv *)
}.

Definition when {A} (b : bool) (l : list A) : list A := if b then l else [].

(* every path one generated actor model (script enum, its impl, Debug, handle struct, its impl, debut traits) contains *)
Definition model_paths (l : plib) (o : opts) : list path :=
  let r := o_rcvr o in
  let b := o_bounded o in
  let slf := o_slf o && match r with RSlf => true | _ => false end in
  (* script enum *)
  when (o_reply o) [oneshot_send_type l]
  ++ when (o_generic o) (gen_msg_type_paths (o_async_model o) ++ model_type_paths r l)
  ++ when slf [oneshot_send_type l; mpsc_type_receiver l b]
  (* impl script: debut, direct, play *)
  ++ when (o_debut o && match r with RSlf => true | _ => false end) debut_fn_paths
  ++ model_type_paths r l
  ++ when (o_reply o) [panic_path]
  ++ [mpsc_type_receiver l b] ++ model_type_paths r l ++ when (o_debut o) [system_time] ++ [ok_or_some l]
  ++ when slf [panic_path]
  ++ when (o_debug o) debug_paths
  (* handle struct *)
  ++ [mpsc_type_sender l b] ++ when (o_debut o) debut_field_paths ++ when (o_phantom o) [phantom_path]
  (* handle: new *)
  ++ model_type_paths r l ++ when (o_debut o) [system_time]
  ++ when (o_phantom o) [phantom_path] ++ [mpsc_decl_call l b; spawn_path l] ++ when (o_debut o) debut_init_paths
  (* handle: methods *)
  ++ when (o_reply o) [oneshot_decl l; panic_path]
  ++ when (o_chan_end o) [oneshot_decl l; oneshot_send_type l; oneshot_recv_type l]
  ++ when (o_generic o) (gen_msg_build_paths (o_async_generic o) ++ model_type_paths r l)
  ++ when slf ([mpsc_type_receiver l b; mpsc_type_sender l b] ++ when (o_debut o) debut_path ++ [oneshot_decl l; panic_path])
  ++ when (o_debut o) debut_live_paths.

(* what `generate_family` adds around its members *)
Definition family_paths (l : plib) (o : opts) : list path :=
  model_wrap_paths (o_rcvr o) l ++ when (o_debut o) debut_fn_paths.

Definition all_paths (family : bool) (l : plib) (o : opts) : list path :=
  model_paths l o ++ when family (family_paths l o).

Definition roots (family : bool) (l : plib) (o : opts) : list string := map root (all_paths family l o).

(* ---------- projections used by the tie ---------- *)
Definition str_mem (s : string) (l : list string) : bool := existsb (String.eqb s) l.

(* crates whose root occurs among a list of roots, in the fixed order of all_crates *)
Definition crates_of (rs : list string) : list crate := filter (fun c => str_mem (crate_root c) rs) all_crates.
Definition model_crates (family : bool) (l : plib) (o : opts) : list crate := crates_of (roots family l o).

(* names every Rust 2021 program has in scope without a declaration *)
Definition prelude_names : list string :=
  ["Self"; "Option"; "Result"; "Box"; "String"; "Vec"; "Some"; "None"; "Ok"; "Err"; "Default"; "Clone"; "Into"; "From";
   "Iterator"; "ToString"; "Send"; "Sync"; "Sized"; "Copy"; "Drop"; "Fn"; "FnMut"; "FnOnce"].

(* instance premise evaluated on the leading path segments of a REAL expansion:
   `own` = roots the user wrote in the annotated item + names of the user's and the generated items *)
Definition root_ok (l : plib) (own : list string) (r : string) : bool :=
  str_mem r (allowed_roots l) || str_mem r prelude_names || str_mem r own.
Definition inst_ok (l : plib) (own : list string) (rs : list string) : bool := forallb (root_ok l own) rs.

Definition opts_of_bools (bounded debut debug : bool) (r : rcvr) (reply generic amodel agen slf phantom chan_end : bool) : opts :=
  {| o_bounded := bounded; o_debut := debut; o_debug := debug; o_rcvr := r; o_reply := reply; o_generic := generic;
     o_async_model := amodel; o_async_generic := agen; o_slf := slf; o_phantom := phantom; o_chan_end := chan_end |}.
