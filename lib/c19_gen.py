"""C19: option-grammar corpus.  Meta trees -> Rust attribute text and Coq `meta` terms (Gen/Attr.v), seeded generators
of valid option lists and of single-rule mutations, exhaustive small scopes.

tree := ("P", path) | ("L", path, [tree]) | ("R", path, raw_text) | ("NV", path, value)
path := [segment, ...]            (a leading "" renders the leading `::`)
value := ("S", str) | ("I", int) | ("O", text)  -- other literal (float / bool / char)
       | ("E", text)                              -- not a literal (identifier, arithmetic)
"""
import os, random

USIZE_MAX = 18446744073709551615


def P(*segs):
    return ("P", list(segs))


def L(name, *kids):
    return ("L", [name], list(kids))


def NV(name, v):
    return ("NV", [name], v)


def S(s):
    return ("S", s)


def I(n):
    return ("I", n)


# ---------- renderers ----------
def rust_path(p):
    return "::".join(p)


def rust_value(v):
    k = v[0]
    if k == "S":
        return '"%s"' % v[1].replace("\\", "\\\\").replace('"', '\\"')
    if k == "I":
        return str(v[1])
    return v[1]


def rust(t):
    k = t[0]
    if k == "P":
        return rust_path(t[1])
    if k == "L":
        return "%s(%s)" % (rust_path(t[1]), ", ".join(rust(x) for x in t[2]))
    if k == "R":
        return "%s(%s)" % (rust_path(t[1]), t[2])
    return "%s = %s" % (rust_path(t[1]), rust_value(t[2]))


def rust_list(ts):
    return ", ".join(rust(t) for t in ts)


def cs(s):
    return '"' + s.replace('"', '""') + '"'


def coq_path(p):
    return "[" + "; ".join(cs(x) for x in p) + "]"


def coq_value(v):
    k = v[0]
    if k == "S":
        return "(VStr %s)" % cs(v[1])
    if k == "I":
        return "(VInt (%d)%%Z)" % v[1]
    if k == "O":
        return "VLit"
    return "VExpr"


def coq(t):
    k = t[0]
    if k == "P":
        return "(MPath %s)" % coq_path(t[1])
    if k == "L":
        return "(MList %s [%s])" % (coq_path(t[1]), "; ".join(coq(x) for x in t[2]))
    if k == "R":
        return "(MRaw %s)" % coq_path(t[1])
    return "(MNV %s %s)" % (coq_path(t[1]), coq_value(t[2]))


def coq_list(ts):
    return "[" + "; ".join(coq(t) for t in ts) + "]"


def key(t):
    return t[1][0] if len(t[1]) == 1 else "::".join(t[1])


# ---------- sandbox files for `file = ..` / `path = ..` ----------
def sandbox(root):
    """three source files with one / two / zero file-active macros; returns dict name -> absolute path"""
    os.makedirs(root, exist_ok=True)
    files = {}
    body = "impl %s {\n    pub fn new() -> Self { Self }\n    pub fn inc(&mut self) {}\n}\n"
    act = '#[interthread::actor(file = "%s", edit(file))]\n'
    for nm, n_active in (("one", 1), ("two", 2), ("none", 0)):
        p = os.path.join(root, nm + ".rs")
        txt = "pub struct A;\npub struct B;\npub struct C;\n"
        for i, ty in enumerate("AB"):
            if i < n_active:
                txt += act % p + body % ty
            else:
                txt += "#[interthread::actor(edit(live(imp(inc))))]\n" + body % ty
        if not os.path.exists(p) or open(p).read() != txt:
            open(p, "w").write(txt)
        files[nm] = p
    files["missing"] = os.path.join(root, "does_not_exist.rs")
    return files


def coq_fs(files):
    """Coq definitions fx / fc describing the sandbox"""
    ex = "; ".join(cs(files[k]) for k in ("one", "two", "none"))
    return ("Definition fx (s : string) : bool := existsb (String.eqb s) [%s].\n" % ex +
            "Definition fc (s : string) : fcnt := if String.eqb s %s then FOne else if String.eqb s %s then FMany else FZero.\n" % (cs(files["one"]), cs(files["two"])))


# ---------- pools ----------
METHODS = ["inc", "add", "get", "io"]                 # public non-constructor methods of the fixed impl block
GOOD_NAMES = ["B", "Other", "my_actor", "X1", "Abc_d"]
BAD_NAMES = ["1x", "a b", "a-b", "x.y", "9"]
FIRST_NAMES = ["User", "Admin", "U", "V", "W9"]
LIBS = ["std", "smol", "tokio", "async_std"]
FAM_LIBS = ["std", "tokio", "async_std"]
UNKNOWN_KEYS = ["bogus", "chanel", "Name", "libs", "mutex", "rwlock", "first", "files", "includes", "Show", "assoc", "id"]


def gen_names(rng, pool, kmax=3):
    k = rng.randint(0, min(kmax, len(pool)))
    return rng.sample(pool, k)


def gen_tuple_items(rng, in_file, allow_file=True, names_pool=("new", "inc", "get", "play", "direct", "Clone", "Debug")):
    """children of script(..) / live(..): def | imp[(names)] | trt[(names)], each at most once, optional file(..) wrappers"""
    parts = rng.sample(["def", "imp", "trt"], rng.randint(1, 3))
    out, wrapped = [], []
    for p in parts:
        if p == "def":
            t = P("def")
        else:
            r = rng.random()
            if r < 0.4:
                t = P(p)
            else:
                ns = rng.sample(list(names_pool), rng.randint(1, 3))
                kids = []
                fl = []
                for n in ns:
                    if allow_file and not in_file and rng.random() < 0.25:
                        fl.append(P(n))
                    else:
                        kids.append(P(n))
                if fl:
                    kids.insert(rng.randint(0, len(kids)), L("file", *fl))
                t = L(p, *kids)
        nested_file = any(x[0] == "L" and x[1] == ["file"] for x in (t[2] if t[0] == "L" else []))
        if allow_file and not in_file and not nested_file and rng.random() < 0.2:
            wrapped.append(t)
        else:
            out.append(t)
    if wrapped:
        out.insert(rng.randint(0, len(out)), L("file", *wrapped))
    return out


def gen_edit_actor(rng, active_ok):
    """a valid `edit` meta of the actor macro; returns (tree, has_file_marker)"""
    r = rng.random()
    if r < 0.15:
        return P("edit")
    if active_ok and r < 0.25:
        return L("edit", P("file"))
    sols = rng.sample(["script", "live"], rng.randint(1, 2))
    items, wrapped = [], []
    for s in sols:
        in_file = active_ok and rng.random() < 0.2
        if rng.random() < 0.3:
            t = P(s)
        else:
            t = L(s, *gen_tuple_items(rng, in_file, allow_file=active_ok))
        (wrapped if in_file else items).append(t)
    if wrapped:
        items.insert(rng.randint(0, len(items)), L("file", *wrapped))
    return L("edit", *items)


def has_file_marker(t):
    if t[0] in ("P", "NV", "R"):
        return t[1] == ["file"] and False
    if t[1] == ["file"]:
        return True
    return any((x[1] == ["file"]) or has_file_marker(x) for x in t[2])


def gen_edit_family(rng, active_ok):
    """a valid `edit` meta of the macro `family` itself: edit | edit(file) | edit(part, .., file(part, ..)) with part := def | imp[(..)] | trt[(..)]"""
    r = rng.random()
    if r < 0.2:
        return P("edit")
    if active_ok and r < 0.3:
        return L("edit", P("file"))
    return L("edit", *gen_tuple_items(rng, False, allow_file=active_ok))


def gen_actor_opts(rng, files, member=False, allow_edit=True, fam_lib=None):
    """valid option list of `actor` (or of a family member `actor(..)` when member=True)"""
    opts = []
    if member:
        opts.append(NV("first_name", S(rng.choice(FIRST_NAMES))))
    if not member and rng.random() < 0.35:
        opts.append(NV("name", S(rng.choice(GOOD_NAMES))))
    if not member and rng.random() < 0.5:
        opts.append(NV("lib", S(rng.choice(LIBS))))
    if rng.random() < 0.5:
        opts.append(NV("channel", I(rng.choice([0, 0, 1, 2, 3, 7, 64]))))
    if rng.random() < 0.3:
        opts.append(P("show"))
    if not member and rng.random() < 0.35:
        opts.append(P("debut"))
    if rng.random() < 0.35:
        opts.append(P("interact"))
    if rng.random() < 0.15:
        opts.append(P("Debug"))
    r = rng.random()
    if r < 0.25:
        opts.append(L("include", *[P(n) for n in gen_names(rng, METHODS)]))
    elif r < 0.5:
        opts.append(L("exclude", *[P(n) for n in gen_names(rng, METHODS)]))
    if allow_edit and rng.random() < 0.3:
        with_file = (not member) and rng.random() < 0.5
        if with_file:
            opts.append(NV("file", S(files["one"])))
        opts.append(gen_edit_actor(rng, with_file))
    elif not member and rng.random() < 0.1:
        opts.append(NV("file", S(files[rng.choice(["one", "two", "none"])])))
    rng.shuffle(opts)
    return opts


def gen_family_opts(rng, files, allow_edit=True):
    opts = []
    if rng.random() < 0.4:
        opts.append(NV("name", S(rng.choice(GOOD_NAMES))))
    if rng.random() < 0.5:
        opts.append(NV("lib", S(rng.choice(FAM_LIBS))))
    if rng.random() < 0.5:
        opts.append(NV("channel", I(rng.choice([0, 1, 2, 5]))))
    if rng.random() < 0.3:
        opts.append(P("show"))
    if rng.random() < 0.4:
        opts.append(P("debut"))
    r = rng.random()
    if r < 0.3:
        opts.append(P("Mutex"))
    elif r < 0.5:
        opts.append(P("RwLock"))
    with_file = allow_edit and rng.random() < 0.3
    if with_file:
        opts.append(NV("file", S(files["one"])))
    if allow_edit and rng.random() < 0.25:
        opts.append(gen_edit_family(rng, with_file))
    firsts = rng.sample(FIRST_NAMES, rng.randint(1, 3))
    for fn in firsts:
        m = gen_actor_opts(rng, files, member=True, allow_edit=allow_edit)
        if with_file and rng.random() < 0.4:
            m = [x for x in m if key(x) != "edit"] + [gen_edit_actor(rng, True)]
        m = [x for x in m if key(x) != "first_name"] + [NV("first_name", S(fn))]
        rng.shuffle(m)
        opts.append(L("actor", *m))
    rng.shuffle(opts)
    return opts


def gen_example_opts(rng, files):
    opts = [NV("path", S(files[rng.choice(["one", "none", "two"])]))]
    if rng.random() < 0.5:
        opts.append(P("main"))
    if rng.random() < 0.5:
        opts.append(L("expand", *[P(x) for x in rng.sample(["actor", "family"], rng.randint(0, 2))]))
    rng.shuffle(opts)
    return opts


# ---------- single-rule mutations ----------
WRONG_VALUES = {
    "name": [lambda: P("name"), lambda: L("name", P("x")), lambda: NV("name", I(3)), lambda: NV("name", S("")), lambda: NV("name", ("E", "foo")), lambda: NV("name", ("O", "true"))],
    "first_name": [lambda: P("first_name"), lambda: NV("first_name", I(1)), lambda: NV("first_name", S("")), lambda: L("first_name", P("U"))],
    "lib": [lambda: P("lib"), lambda: NV("lib", S("Tokio")), lambda: NV("lib", S("async-std")), lambda: NV("lib", I(0)), lambda: L("lib", P("std")), lambda: NV("lib", S("")), lambda: NV("lib", ("E", "tokio"))],
    "channel": [lambda: P("channel"), lambda: NV("channel", S("2")), lambda: NV("channel", ("O", "1.5")), lambda: NV("channel", I(-1)), lambda: NV("channel", I(USIZE_MAX + 1)),
                lambda: L("channel", P("x")), lambda: NV("channel", ("O", "true")), lambda: NV("channel", ("E", "N")), lambda: NV("channel", ("E", "1 + 1"))],
    "show": [lambda: NV("show", ("O", "true")), lambda: L("show", P("x")), lambda: NV("show", I(1))],
    "debut": [lambda: NV("debut", ("O", "true")), lambda: L("debut", P("legacy")), lambda: NV("debut", S("x"))],
    "interact": [lambda: NV("interact", ("O", "true")), lambda: L("interact", P("x"))],
    "include": [lambda: L("include", NV("inc", I(1))), lambda: L("include", L("inc", P("x"))), lambda: P("include"), lambda: NV("include", S("inc")), lambda: ("R", ["include"], '"inc"'), lambda: ("R", ["include"], "1, 2"), lambda: L("include", ("P", ["a", "b"]))],
    "exclude": [lambda: L("exclude", P("get"), NV("inc", S("x"))), lambda: P("exclude"), lambda: NV("exclude", S("inc")), lambda: ("R", ["exclude"], "inc get")],
    "file": [lambda: P("file"), lambda: NV("file", I(1)), lambda: NV("file", S("")), lambda: L("file", P("x"))],
    "Debug": [lambda: L("Debug", P("foo")), lambda: NV("Debug", S("x")), lambda: L("Debug")],
    "Mutex": [lambda: NV("Mutex", I(1)), lambda: L("Mutex", P("x"))],
    "RwLock": [lambda: NV("RwLock", ("O", "true")), lambda: L("RwLock")],
    "edit": [lambda: L("edit"), lambda: L("edit", L("script")), lambda: L("edit", L("live", L("imp"))), lambda: L("edit", L("file")), lambda: L("edit", L("live", L("def", P("x")))),
             lambda: L("edit", L("live", L("imp", NV("inc", I(1))))), lambda: L("edit", L("live", L("trt", L("Clone", P("x"))))), lambda: NV("edit", S("live")), lambda: ("R", ["edit"], '"x"'), lambda: L("edit", P("bogus")), lambda: L("edit", L("script", P("bogus"))), lambda: L("edit", NV("script", I(1))),
             lambda: L("edit", L("live", NV("imp", I(1)))), lambda: L("edit", L("live", ("P", ["a", "b"])))],
}


def replace_key(opts, k, new):
    out, done = [], False
    for o in opts:
        if key(o) == k and not done:
            out.append(new)
            done = True
        else:
            out.append(o)
    if not done:
        out.insert(0, new)
    return out
