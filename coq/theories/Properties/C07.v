(* C07 -- arguments reach the user method unchanged for any parameter shape or name; no capture.
   Statements only; proofs live in Gen/FlattenThm.v, Sdpl/WfC07.v, Runtime/Combined.v.

   The model follows the repaired generator: the internal binder of the actor is `inter_actor` (a parameter named `actor` is an
   ordinary identifier), two parameters flattened to one identifier / a flattened reserved name are a naming-conflict diagnostic
   (`AConflict`), so "distinct binders give distinct identifiers" now holds of every successful flattening without a guard. *)
From Coq Require Import List String Arith Bool.
Import ListNotations.
From IT Require Import Sdpl.IR Sdpl.Elab Sdpl.Wf Sdpl.WfC07 Runtime.Actor Runtime.ActorInv Runtime.Combined Gen.Flatten Gen.FlattenThm.

(* ---- generator: pattern flattening, for all parameter lists (types T opaque) ---- *)

(* one identifier per parameter, in the same position, with the same type; an identifier pattern keeps its name whatever its ref / mut *)
Theorem C07_flatten_positions : forall (T : Type) (ps : list (pat * T)) qs, live_args ps = AOk qs ->
  List.length qs = List.length ps /\ map snd qs = map snd ps /\
  (forall i r m x t, nth_error ps i = Some (PIdent r m x, t) -> nth_error qs i = Some (x, t)).
Proof.
  intros T ps qs H. apply live_args_ok in H. destruct (flat_from_positions ps [] qs H) as (L & M & N). repeat split; auto.
  intros i r m x t Hn. destruct (N i _ _ Hn) as (s & E & Hq). cbn in E. injection E as <-. exact Hq.
Qed.

(* the identifier of a flattened pattern is its binders joined by `_` (`__` for a composite pattern that binds nothing), when no
   binder is a raw identifier; for raw binders see C07_flat_pat_spec_raw / C07_flatten_names_raw *)
Theorem C07_flatten_names : forall (T : Type) (ps : list (pat * T)) qs,
  forallb no_raw (flat_map binders (map fst ps)) = true -> live_args ps = AOk qs ->
  map fst qs = map (fun q => join (words (fst q))) ps.
Proof. intros T ps qs G H. apply live_args_ok in H. exact (flat_from_names ps [] qs G H). Qed.

(* raw binders (`r#type`, each with at most one `r#`): a pattern with a single word keeps it as it is, raw or not; two or more
   words lose their `r#` (format_ident! with explicit arguments), nested patterns included *)
Theorem C07_flat_pat_spec_raw : forall p, forallb ident_like (binders p) = true ->
  flat_pat p = if supported p then (if is_rest p then FSkip else FName (spec_words (words p))) else FAbort.
Proof. exact flat_pat_spec_raw. Qed.

Theorem C07_flatten_names_raw : forall (T : Type) (ps : list (pat * T)) qs,
  forallb ident_like (flat_map binders (map fst ps)) = true -> live_args ps = AOk qs ->
  map fst qs = map (fun q => spec_words (words (fst q))) ps.
Proof. intros T ps qs G H. apply live_args_ok in H. exact (flat_from_names_raw ps [] qs G H). Qed.

(* the macro expands exactly when every parameter is of a documented pattern form, the identifiers are pairwise distinct and no
   flattened pattern produces a name the generated code binds itself; in every other case it answers with a diagnostic
   (no raw binders: the identifiers are then the plain names; FlattenThm.raw_guard_needed shows the guard is needed) *)
Theorem C07_flatten_total : forall (T : Type) (ps : list (pat * T)), forallb no_raw (flat_map binders (map fst ps)) = true ->
  ((exists qs, live_args ps = AOk qs) <->
   forallb (fun q => supported_param (fst q)) ps = true /\ NoDup (names ps) /\ no_flat_reserved ps).
Proof.
  intros T ps G. split.
  - intros (qs & H). apply live_args_ok in H. destruct (proj1 (flat_from_ok_iff ps [] G) (ex_intro _ qs H)) as (A & B & _ & C). auto.
  - intros (A & B & C). destruct (proj2 (flat_from_ok_iff ps [] G)) as (qs & H); [repeat split; auto|]. exists qs. apply live_args_ok, H.
Qed.

(* `ref` / `mut` anywhere in a pattern never changes the generated identifier *)
Theorem C07_ref_mut_irrelevant : forall p, flat_pat (strip_all p) = flat_pat p.
Proof. exact strip_all_flat. Qed.

(* distinct identifiers OR a diagnostic: whenever the flattening succeeds the handle parameters are pairwise distinct and none
   of the flattened ones is reserved - no guard on the binders any more, raw binders included *)
Theorem C07_distinct_or_diag : forall (T : Type) (ps : list (pat * T)),
  match live_args ps with
  | AOk qs => NoDup (map fst qs) /\ no_flat_reserved ps
  | AAbort | AConflict _ => True
  end.
Proof.
  intros T ps. destruct (live_args ps) as [qs| |] eqn:H; auto. apply live_args_ok in H. exact (flat_distinct ps qs H).
Qed.

(* the diagnostic is not spurious: documented patterns with distinct `_`-free binders none of which is raw (`(r#a, b)` and
   `(a, r#b)` are both flattened to `a_b`), no empty composite pattern and no flattened reserved name always expand *)
Theorem C07_no_spurious_diag : forall (T : Type) (ps : list (pat * T)), forallb no_raw (flat_map binders (map fst ps)) = true ->
  forallb (fun q => supported_param (fst q)) ps = true ->
  plain_words (map fst ps) = true -> NoDup (flat_map binders (map fst ps)) -> no_flat_reserved ps ->
  exists qs, live_args ps = AOk qs.
Proof. intros T ps G S P N R. destruct (flat_no_spurious ps G S P N R) as (qs & H). exists qs. apply live_args_ok, H. Qed.

(* the former counterexamples (`(a, b)` with `a_b`; `(..)` with `[..]`; `(inter, send)`) are naming-conflict diagnostics *)
Theorem C07_collision_diag : live_args collide_witness = AConflict "a_b"%string /\ NoDup (flat_map binders (map fst collide_witness))
  /\ live_args collide_witness2 = AConflict "__"%string /\ live_args collide_witness3 = AConflict "inter_send"%string.
Proof. exact collide_diag. Qed.

(* ---- the real expansion (named IR), for all instances that satisfy the decidable premise ---- *)
Section C07.
Context {A V : Type} (sem : nat -> A -> list V -> option (A * V)) (sem_slf : nat -> A -> list V -> V) (dv : V).

(* in every reachable state of every schedule of every client program: each execution of a user method belongs to an issued
   call of the handle method of the same index and receives exactly the supplied values, position by position *)
Theorem C07_arguments_unchanged : forall (m : model), wf_C07 m = true ->
  forall a0 progs sched, let s := run sem sem_slf dv (elab m) a0 progs sched in
  forall c callee args r, In (c, callee, args, r) (applied s) ->
  exists k vs lm, In (c, k, vs) (issued s) /\ nth_error (m_methods m) k = Some lm /\ callee = k
    /\ (forall rb, lm_body lm = BRef rb -> List.length vs = List.length (lm_params lm) -> args = vs).
Proof. intros m W. exact (arguments_unchanged sem sem_slf dv m W). Qed.

(* the result is handed back unchanged, to the caller of that very call *)
Theorem C07_result_unchanged : forall (m : model), wf_C07 m = true ->
  forall a0 progs sched, let s := run sem sem_slf dv (elab m) a0 progs sched in
  forall t cl c v, nth_error (clients s) t = Some cl -> In (c, Returned v) (c_rets cl) ->
  fst c = t /\ exists callee args, In (c, callee, args, v) (applied s).
Proof.
  intros m W a0 progs sched. apply own_reply.
  apply wf_C07_C01 in W. unfold wf_C01 in W. apply andb_prop in W. exact (proj2 W).
Qed.
End C07.

(* static methods delegate directly to the user's function with their own parameters in order *)
Theorem C07_static_delegates : forall m, wf_C07 m = true ->
  forall k lm path f args aw, nth_error (m_methods m) k = Some lm -> lm_body lm = BStat path f args aw ->
  f = lm_name lm /\ last_seg path = last_seg (m_actor_ty m) /\ args = map SVar (pnames lm) /\
  forall (X : Type) (vs : list X), List.length vs = List.length (lm_params lm) ->
    map (eval_src (combine (pnames lm) vs)) args = map Some vs.
Proof. exact static_delegates. Qed.

(* self-consuming methods bind only the actor (under a name that is no parameter) and pass their own parameters in order *)
Theorem C07_slf_delegates : forall m, wf_C07 m = true ->
  forall k lm sb, nth_error (m_methods m) k = Some lm -> lm_body lm = BSlf sb ->
  exists a rest f args, sb_binds sb = a :: rest /\ Forall (eq "_"%string) rest /\ a <> "_"%string /\ ~ In a (pnames lm)
    /\ (sb_call sb = UMethod (SVar a) f args \/ exists p, sb_call sb = UStatic p f (SVar a :: args))
    /\ f = lm_name lm /\ args = map SVar (pnames lm)
    /\ forall (X : Type) (act : X) (vs : list X), List.length vs = List.length (lm_params lm) ->
         let env := (a, act) :: combine (pnames lm) vs in
         eval_src env (SVar a) = Some act /\ map (eval_src env) args = map Some vs.
Proof. exact slf_delegates. Qed.

(* capture: a message field named like the `direct` parameter takes the receiver position; no such arm passes the premise *)
Theorem C07_capture_rejected : forall dp binds lk f args, mem dp binds = true ->
  recv_ok dp binds lk (UMethod (SVar dp) f args) = false.
Proof. exact capture_rejected. Qed.

Print Assumptions C07_flatten_positions.
Print Assumptions C07_flatten_names.
Print Assumptions C07_flat_pat_spec_raw.
Print Assumptions C07_flatten_names_raw.
Print Assumptions C07_flatten_total.
Print Assumptions C07_ref_mut_irrelevant.
Print Assumptions C07_distinct_or_diag.
Print Assumptions C07_no_spurious_diag.
Print Assumptions C07_collision_diag.
Print Assumptions C07_arguments_unchanged.
Print Assumptions C07_result_unchanged.
Print Assumptions C07_static_delegates.
Print Assumptions C07_slf_delegates.
Print Assumptions C07_capture_rejected.
