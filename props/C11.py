"""C11 -- handles are clonable and sendable; all clones address the same actor.

Static half: T-tie (the handle struct of every real expansion -> Gen/Generics.live_desc, premises wf_send / clone requirement set /
recognised async bodies evaluated and kernel-checked) + rustc as the oracle for the trait facts (harness/typecheck: the real macro
applied to generated actors next to type-level probes).  Dynamic half: theorems over the runtime LTS + probe scenarios with clones."""
import random, json, os
import hook, inst, gen_impl, c11_gen, c11_xlate, typecheck
from common import *

PID = "C11"
RULE = ("instances = real expansions over lib x debut x channel x generic shape (0-3 type parameters used in arguments / results / nowhere (phantom), const parameter, "
        "inline / where / full user bounds) x self-consuming method (none / compliant / non-compliant) x method generics, + family members; "
        "each instance: translated handle struct evaluated in Coq (wf_send, clone requirement set, recognised async bodies) and the same input compiled "
        "by rustc next to probes (Send + 'static, Clone, future Send per method, spawn on the lib's executor / std::thread) for instantiations with "
        "plain, non-Clone and non-Sync type arguments; non-trivial = distinct (lib, debut, roles, const, slf, mgen, bounds) classes")
F5_CLASS = "derive-clone-bounds"
F5_ITEM = "impl<T> A<T> {\n    pub fn new() -> Self { todo!() }\n    pub fn put(&mut self, t: T) {}\n}"
IMPORTS = "From Coq Require Import List String Bool.\nImport ListNotations.\nFrom IT Require Import Gen.Generics.\nOpen Scope string_scope.\n"


def family_configs():
    cs = []
    item = gen_impl.probe_impl("std")["item"]
    gitem = "impl<T, U> A<T, U> {\n pub fn new() -> Self { todo!() }\n pub fn put(&mut self, t: T) {}\n pub fn get(&self) -> u8 { 0 }\n}"
    for lib in ("std", "tokio", "async_std"):
        for debut in (False, True):
            fam = (['lib = "%s"' % lib] if lib != "std" else []) + (["debut"] if debut else [])
            for it, nm in ((item, "plain"),):
                cs.append({"kind": "family", "lib": lib, "attr": ", ".join(fam + ['actor(first_name = "U")', 'actor(first_name = "V", channel = 2)']),
                           "item": it, "label": "family %s lib=%s debut=%s" % (nm, lib, debut), "shape": None, "noncompliant": False})
    return cs


def run(rep):
    rng = random.Random(rep.seed)
    rep.extra["rule"] = RULE
    # ---- 1. universal theorems
    nthm, problems, _ = property_theorems(PID)
    rep.checker_cmds.append("make -C coq theories/Properties/C11.vo (Print Assumptions must be closed)")
    for _ in range(nthm):
        rep.oblige(not problems)
    bad = hygiene()
    rep.oblige(not bad)
    if problems or bad:
        rep.violation("theorems", {"what": "property theorem file no longer checks", "problems": problems, "hygiene": bad}, found=False)

    # ---- 2. corpus: the same inputs go to the T-tie (hook) and to rustc (typecheck)
    shapes = c11_gen.corpus(rng, rep.tier)
    configs = [{"kind": sh["kind"], "lib": sh["lib"], "attr": sh["attr"], "item": sh["item"], "label": sh["label"], "shape": k, "noncompliant": sh["noncompliant"]}
               for k, sh in enumerate(shapes)]
    configs += family_configs()
    configs.append({"kind": "actor", "lib": "std", "attr": "", "item": F5_ITEM, "label": "F5 witness", "shape": None, "noncompliant": False, "witness": True})
    progs, index = c11_gen.programs(shapes, rng, rep.tier)
    # the known-finding witness as its own program (replayed every run)
    W = typecheck.Program()
    W.add(c11_gen.PRELUDE)
    W.add("pub struct A<T>(pub Option<T>);\n#[interthread::actor]\n" + F5_ITEM)
    W.probe("w.send", "fn w_send() { assert_send::<ALive<NoClone>>(); }")
    W.probe("w.clone", "fn w_clone() { assert_clone::<ALive<NoClone>>(); }")
    W.probe("w.clone_ok", "fn w_clone_ok() { assert_clone::<ALive<u8>>(); }")
    from concurrent.futures import ThreadPoolExecutor
    with ThreadPoolExecutor(2) as ex:
        f_tc = ex.submit(typecheck.run_programs, progs + [W], 12)
        cs = inst.expand_configs(configs, tag="c11")
        tc = f_tc.result()
    wres, wstray = tc[-1]
    tc = tc[:-1]
    rep.checker_cmds.append("rustc --emit metadata on %d generated programs (harness/typecheck)" % (len(progs) + 1))

    # rustc verdicts per shape
    by_shape = {}
    for (res, stray), mods, P in zip(tc, index, progs):
        for md in mods:
            lo, hi = md["lines"]
            by_shape[md["shape"]] = {"res": res, "probes": md["probes"], "stray": [d for d in stray if d["line"] is None or lo <= d["line"] <= hi], "program": P}

    # ---- 3. T-tie
    items, owners = [], []
    for ci, c in enumerate(cs):
        rep.evaluations += 1
        rep.count("lib", c["lib"])
        rep.count("kind", c["kind"])
        if c["class"] != "TOKENS" or c["ex"] is None:
            rep.oblige(False)
            rep.violation("expansion_%d" % ci, {"what": "valid configuration not expanded / not recognised", "class": c["class"], "attr": c["attr"], "item": c["item"],
                                                "output": c["text"][:2000], "parse_error": c.get("parse_error")}, found=(c["class"] != "TOKENS"))
            continue
        want_models = 2 if c["kind"] == "family" else 1
        if len(c["ex"]["models"]) != want_models:
            rep.oblige(False)
            rep.violation("shape_%d" % ci, {"what": "expansion not recognised as %d model(s)" % want_models, "attr": c["attr"], "item": c["item"]}, found=False)
            continue
        for j, mdl in enumerate(c["ex"]["models"]):
            try:
                term, d = c11_xlate.live_desc(mdl)
            except ValueError as e:
                rep.oblige(False)
                rep.violation("nolive_%d" % ci, {"what": str(e), "attr": c["attr"], "item": c["item"]}, found=False)
                continue
            futs = c11_xlate.fut_descs(mdl)
            k = len(owners)
            owners.append((c, j, d, futs))
            items += [("i%d_wf" % k, "wf_send (%s)" % term),
                      ("i%d_parts" % k, "let ld := %s in (fields_known ld, live_auto_ok ld Send, live_auto_ok ld Sync, live_static_ok ld)" % term),
                      ("i%d_unknown" % k, "let ld := %s in filter (fun x => negb (known x)) (fields_ty ld)" % term),
                      ("i%d_clone" % k, "let ld := %s in (derives_clone ld, clone_requirements ld, clone_unconditional ld, f5_class ld)" % term),
                      ("i%d_futs" % k, "forallb fd_recognised [%s]" % "; ".join(t for _, t, _ in futs))]
    vals = inst.coq_values("C11_inst", IMPORTS, items, defs="")
    rep.checker_cmds.append("coqc generated/C11_inst.v; coqc generated/C11_oblig.v")
    good, f5_instances = [], 0
    for k, (c, j, d, futs) in enumerate(owners):
        sh = shapes[c["shape"]] if c["shape"] is not None else None
        wf = vals["i%d_wf" % k] == "true"
        cl = vals["i%d_clone" % k]        # (derives, requirements, unconditional, f5)
        derives, uncond, f5 = cl.startswith("(true"), cl.split(",")[-2].strip() == "true", cl.rstrip(")").split(",")[-1].strip() == "true"
        futs_ok = vals["i%d_futs" % k] == "true"
        if sh is not None:
            rep.nontrivial.add((sh["lib"], sh["debut"], tuple(r for _, r in sh["tparams"]), sh["const"], sh["slf"], sh["mgen"], sh["bounds"]))
            rep.count("type_params", str(len(sh["tparams"])))
            rep.count("slf", sh["slf"])
            for _, r in sh["tparams"]:
                rep.count("param_role", r)
        for n, t in d["fields"]:
            rep.count("field_type", t[1].lstrip(":") if t[0] == "app" else "other")
        if k % 29 == 0:
            rep.sample({"config": c["label"], "attr": c["attr"], "handle": d["name"], "attrs": d["attrs"], "type_params": d["tparams"], "bounds": d["bounds"],
                        "fields": [(n, t[1]) for n, t in d["fields"]], "wf_send": vals["i%d_wf" % k], "clone": cl, "async_methods": [f[0] for f in futs]})
        # (a) Send / Sync / 'static premise
        ok_a = rep.oblige(wf)
        # (b) Clone clause: derive(Clone) present unless a non-compliant self-consuming method; requirement set empty or the known class
        if c["noncompliant"]:
            ok_b = rep.oblige(not derives and "None" in cl)
            what_b = "a non-compliant self-consuming method is present but the handle still provides Clone (documentation: Clone is disallowed)"
        else:
            ok_b = rep.oblige(uncond or f5)
            what_b = "the handle does not implement Clone (no derive / manual impl, or a field that is not Clone)"
            if f5 and not uncond:
                f5_instances += 1
        # (c) async bodies
        ok_c = rep.oblige(futs_ok)
        if ok_a and ok_b and ok_c:
            good.append(k)
            continue
        # ---- a premise broke: the oracle is rustc on the same input
        failing = []
        if sh is not None:
            failing = judge_shape(rep, c["shape"], sh, by_shape.get(c["shape"]), collect_only=True)
        what = []
        if not ok_a:
            what.append("wf_send = false: (fields_known, Send, Sync, 'static) = %s, field types outside the table: %s" % (vals["i%d_parts" % k], vals["i%d_unknown" % k]))
        if not ok_b:
            what.append(what_b + " -- Coq (derives_clone, clone_requirements, clone_unconditional, f5_class) = " + cl)
        if not ok_c:
            what.append("an async method body of the handle is not one of the template's statement sequences: %s" % [f[2] for f in futs if not f[2]["recognised"]])
        rep.violation("inst_%d_%d" % (k, j), {"what": what, "theorem": "premise of C11_send_sync_static / C11_future_send / C11_clone_guarded at the translated real handle struct",
                                              "attr": c["attr"], "item": c["item"], "kind": c["kind"], "handle": d,
                                              "rustc_on_same_input": failing[:6] if failing else "no failing probe on this input"}, found=bool(failing))
    # kernel-checked instance obligations: the universal theorems instantiated at what the macro emitted now
    lines = [IMPORTS, "From IT Require Import Properties.C11."]
    for k in good:
        term = items[5 * k][1][len("wf_send ("):-1]
        lines.append("Definition inst_%d : live_desc := %s." % (k, term))
        lines.append("Lemma inst_%d_wf : wf_send inst_%d = true. Proof. vm_compute. reflexivity. Qed." % (k, k))
        lines.append("Definition inst_%d_send := fun h l hs fs ps facts => C11_send_sync_static h l hs fs ps facts inst_%d inst_%d_wf." % (k, k, k))
        c, j, d, futs = owners[k]
        if c.get("witness"):
            lines.append("Lemma witness_is_real : inst_%d = f5_witness. Proof. reflexivity. Qed." % k)
    ok, out = inst.coq_check_file("C11_oblig", "\n".join(lines) + "\n")
    for _ in good:
        rep.oblige(ok)
    if not ok:
        rep.violation("obligations", {"what": "kernel rejected the instance lemmas (the Coq witness of F5 must equal the translated real expansion)", "output": out[-2000:]}, found=False)

    # ---- 4. rustc oracle on every shape
    for k, sh in enumerate(shapes):
        judge_shape(rep, k, sh, by_shape.get(k))

    # ---- 5. known finding F5: replay the witness
    kf = [f for f in known_findings()["finding"] if f.get("property") == PID and f.get("class") == F5_CLASS]
    if wstray or wres["w.send"] is not None or wres["w.clone_ok"] is not None:
        rep.oblige(False)
        rep.violation("witness_program", {"what": "the F5 witness program no longer compiles apart from the Clone probe", "program": W.source(), "diagnostics": [wstray, wres]}, found=True)
    elif wres["w.clone"] is not None:
        if kf:
            rep.known_finding("%s: `%s` on `%s` (lib std) is rejected by rustc: %s -- #[derive(Clone)] on the handle requires every type parameter to be Clone "
                              "(%d corpus instances in the class, %d failing Clone probes)" % (F5_CLASS, "assert_clone::<ALive<NoClone>>()", F5_ITEM.replace("\n", " "), wres["w.clone"]["message"],
                                                                                             f5_instances, rep.dist.get("known_f5_probe", {}).get("fails", 0)))
        else:
            rep.violation("f5_unlisted", {"what": "Clone is not implemented for a handle instantiated with a non-Clone type argument and the finding is not listed in known_findings.txt",
                                          "program": W.source(), "diagnostic": wres["w.clone"]}, found=True)
    else:
        rep.notes.append("F5 witness no longer fails: the handle is Clone for non-Clone type arguments (finding fixed?)")

    # ---- 6. dynamic half on the real runtimes: clones on several clients, clone + drop against queued calls
    import rt_common, probe
    use_repo_copy(probe)
    runs = []
    for lib in gen_impl.LIBS:
        # clones used from tasks of the runtime's own executor: more clients in flight than worker threads (the harness runs 4)
        runs += [["mixed", lib, 2, "clients=8", "calls=40"], ["mixed", lib, 0, "clients=6", "calls=30"], ["lifecycle", lib, 0, "queued=3"], ["consume", lib, 2, "handles=2"]]
        if rep.tier != "quick":
            runs += [["mixed", lib, 0], ["mixed", lib, 1], ["lifecycle", lib, 2, "queued=2"], ["consume", lib, 0, "handles=4"]]
    judge = {"mixed": lambda d: probe.oracle_mixed(d), "lifecycle": lambda d: probe.oracle_lifecycle(d), "consume": lambda d: probe.oracle_consume(d)}
    rt_common.impl_side(rep, PID, runs, lambda a, d: judge[a[0]](d))

    rep.assumptions += [
        "auto_trait_facts (Gen/Generics.v): the Send/Sync/'static/Clone rules of std::sync::mpsc::{Sender (Sync since Rust 1.72), SyncSender}, tokio::sync::mpsc::{Sender, UnboundedSender}, "
        "async_channel::Sender, Arc, PhantomData, String, SystemTime, struct auto traits, #[derive(Clone)], references, oneshot receivers and async-fn futures "
        "are a hypothesis record over an abstract relation; rustc (the installed toolchain) is the oracle for them on the generated programs",
        "call payloads (parameter and return types) are Send + 'static; the user's actor type is Send + 'static (needed by the generated spawn in any case)",
        "type arguments of a generic actor that are not Sync: the handle's own where-clause (`P: Send + Sync + 'static`, added by the macro) rejects them; the documentation is silent, "
        "so such instantiations are compiled and counted (input_distribution.nosync_instantiation) but decide nothing unless rustc accepts the handle type",
        "no lifetime parameters on the actor type (the macro adds `'a: 'static`), no typed self receivers, no cfg attributes on methods",
        "family bundle struct (`AFamily`) is not a handle: only the member handles are checked",
    ]


def use_repo_copy(probe):
    """when $VERIF_REPO names another working tree than /repo, build the probe harness against THAT tree (a copy of harness/probe
    whose path dependency is rewritten), so that the dynamic half observes the same code as the static half"""
    import shutil
    repo = os.environ.get("VERIF_REPO", "/repo")
    if os.path.realpath(repo) == "/repo":
        return
    dst = os.path.join(CACHE, "probe_src")
    src = os.path.join(VERIF, "harness", "probe")
    if os.path.exists(dst):
        shutil.rmtree(dst)
    shutil.copytree(src, dst)
    toml = open(os.path.join(dst, "Cargo.toml")).read().replace('path = "/repo"', 'path = "%s"' % repo)
    open(os.path.join(dst, "Cargo.toml"), "w").write(toml)
    probe.PROBE_DIR = dst
    probe.PROBE_TARGET = os.path.join(CACHE, "probe_target_copy")
    probe._bin.clear()


def in_f5_class(sh, inst):
    """decidable known class on inputs: a generic actor instantiated with a type argument that is not Clone"""
    return len(sh["tparams"]) > 0 and any(k == "noclone" for k in inst)


def judge_shape(rep, k, sh, entry, collect_only=False):
    """oracle = the property text evaluated on rustc's verdicts. Returns the list of failing required probes."""
    failing = []
    if entry is None:
        return failing
    res, probes, stray, P = entry["res"], entry["probes"], entry["stray"], entry["program"]
    inp = {"attr": sh["attr"], "item": sh["item"], "struct": sh["struct"]}
    if stray:
        failing.append({"probe": "(generated code)", "diagnostic": stray[0]})
        if not collect_only:
            rep.oblige(False)
            rep.violation("rustc_generated_%d" % k, dict(inp, what="the expansion of an accepted actor does not compile (so its handle can be neither cloned nor sent)",
                                                         diagnostics=stray[:3], program=P.source()), found=True)
        return failing
    insts = {}
    for pr in probes:
        insts.setdefault(tuple(pr["inst"]), []).append(pr)
    for inst_k, prs in insts.items():
        has_nosync = "nosync" in inst_k
        wf = [p for p in prs if p["kind"] == "wf"][0]
        if res[wf["id"]] is not None:
            if has_nosync:
                if not collect_only:
                    rep.count("nosync_instantiation", "rejected by the handle's own bounds")
                continue
            failing.append({"probe": wf["line"], "diagnostic": res[wf["id"]]})
            if not collect_only:
                rep.oblige(False)
                rep.violation("rustc_wf_%d" % k, dict(inp, what="the handle type cannot be formed for Send + Sync + 'static type arguments", probe=wf["line"], diagnostic=res[wf["id"]]), found=True)
            continue
        if has_nosync and not collect_only:
            rep.count("nosync_instantiation", "accepted")
        for pr in prs:
            r = res[pr["id"]]
            kind = pr["kind"]
            if kind == "wf":
                continue
            if kind == "sync":
                if not collect_only:
                    rep.count("sync_probe", "holds" if r is None else "fails")
                continue
            if not collect_only:
                rep.evaluations += 1
                rep.count("probe", kind)
            if kind in ("clone", "clone_use"):
                if sh["noncompliant"]:
                    ok = r is not None          # documentation: Clone is disallowed
                    what = "the handle is Clone although a non-compliant self-consuming method is present (documentation: the model disallows Clone)"
                else:
                    ok = r is None
                    what = "the handle is not Clone (property: Clone for every accepted actor type, whether or not its type parameters are Clone)"
                    if not ok and in_f5_class(sh, inst_k):
                        if not collect_only:
                            rep.count("known_f5_probe", "fails")
                        continue
                    if ok and in_f5_class(sh, inst_k) and not collect_only:
                        rep.count("known_f5_probe", "holds")
            else:
                ok = r is None
                what = {"send": "the handle is not Send + 'static although every payload is",
                        "fut": "the future returned by async method `%s` is not Send" % pr["method"],
                        "spawn": "a handle moved into a task / thread of the lib's executor is rejected (not Send + 'static, or a method future is not Send)"}[kind]
            if collect_only:
                if not ok:
                    failing.append({"probe": pr["line"], "diagnostic": r})
                continue
            rep.oblige(ok)
            if not ok:
                failing.append({"probe": pr["line"], "diagnostic": r})
                rep.violation("rustc_%s" % pr["id"].replace(".", "_"), dict(inp, what=what, probe=pr["line"], handle=pr["live"], type_arguments=list(inst_k),
                                                                            expected="accepted by rustc" if r is not None else "rejected by rustc",
                                                                            observed=(r or {}).get("rendered", "accepted"), program=P.source()), found=True)
    return failing


def replay(rep, path):
    d = json.load(open(path))
    P = typecheck.Program()
    P.add(d.get("program", ""))
    ok, diags = typecheck.compile_program(P.source(), "replay")
    print(json.dumps({"compiles": ok, "diagnostics": diags[:5]}, indent=1))
    return 0 if ok else 1
