"""C12 -- generated code needs only the crates documented for the chosen runtime; a missing one is reported by name."""
import os, re, random, shutil, subprocess
import hook, inst, ir, gen_c12 as g
from coqgen import s as cs_, lst
from common import *

PID = "C12"
IMPORTS = ("From Coq Require Import List String Bool.\nImport ListNotations.\nFrom IT Require Import Gen.Paths Gen.PathsThm Properties.C12.\n"
           "Open Scope string_scope.\n")
RULE = ("H-tie: src/check.rs on all 4 libs x 2^5 declared crate sets x placements ([dependencies] / [dev-dependencies] / split), through the helper and "
        "through the real actor/family entry points, vs Gen/Paths.v channels_import; T-tie: leading path segments of real expansions over "
        "lib x bounded x debut x Debug x interact (channel ends, getters) x method-generic x async x self-consuming x generic actor x include/exclude "
        "x family Mutex/RwLock, premise inst_ok kernel-checked per instance, crate set vs the table model; "
        "non-trivial = distinct (lib, outcome, missing set) and (lib, kind, option flags, crate set) classes")


_seen = {}
CAP = 8


def viol(rep, cls, name, data, found=True):
    """at most CAP replay files per class of failure (every failure still counts as an undischarged obligation)"""
    _seen[cls] = _seen.get(cls, 0) + 1
    if _seen[cls] <= CAP:
        rep.violation(name, data, found=found)
    elif _seen[cls] == CAP + 1:
        rep.notes.append("further failures of class %r are counted in obligations but not written as replay files" % cls)


# ------------------------------------------------------------------------------------------------------------
# oracle: written from the property text (compatibility table), independent of the model
# ------------------------------------------------------------------------------------------------------------
def oracle_check(lib, declared, outcome):
    """outcome = ("accept",) | ("diag", crate name or None). Returns None when fine, else a reason."""
    need = g.DOCUMENTED[lib]
    missing = [c for c in need if c not in declared]
    if outcome[0] == "accept":
        return None if not missing else "accepted although the documented crate(s) %s are not declared" % missing
    if outcome[0] == "diag":
        if not missing:
            return "rejected a project that declares every documented crate %s" % need
        if outcome[1] is None:
            return "rejected without naming a crate (missing: %s)" % missing
        if outcome[1] not in missing:
            return "names crate %r which is not a missing documented crate (missing: %s)" % (outcome[1], missing)
        return None
    return "neither accepted nor rejected with a diagnostic: %r" % (outcome,)


def oracle_roots(lib, roots, own):
    """roots of the generated code that are neither std/core, prelude names, the user's / generated items, nor documented crates"""
    ok = set(g.ROOT[c] for c in g.DOCUMENTED[lib]) | set(g.BASE_ROOTS) | set(g.PRELUDE) | set(own)
    return sorted(r for r in roots if r not in ok)


# ------------------------------------------------------------------------------------------------------------
def real_outcome(cls, fields):
    txt = fields[0] if fields else ""
    if cls == "VALUE" and txt == "accept":
        return ("accept",)
    if cls == "TOKENS":
        return ("accept",)
    if cls == "DIAG":
        m = re.search(r"Crate '([^']*)' not found", txt)
        if m:
            return ("diag", m.group(1))
        # every documented crate name mentioned anywhere in the diagnostic counts as "named"
        named = [c for c in g.CRATES if re.search(r"(?<![\w-])%s(?![\w-])" % re.escape(c), txt)]
        return ("diag", named[0] if len(named) == 1 else None, txt[:300])
    return (cls.lower(), None, txt[:300])


def model_outcome(v):
    v = v.strip()
    if v == "Accept":
        return ("accept",)
    m = re.match(r"Diag (\w+)", v)
    return ("diag", g.CRATE_OF_COQ[m.group(1)])


def h_tie(rep, rng):
    cases = []
    for lib in g.LIBS:
        for sub in g.subsets():
            for deps, dev in g.placements(rng, sub):
                cases.append({"lib": lib, "declared": sub, "deps": deps, "dev": dev, "via": "helper"})
    # through the real entry points (the place where the check is wired in): lib option given to actor / family
    item = "impl A {\n pub fn new() -> Self { todo!() }\n pub fn inc(&mut self) {}\n pub fn get(&self) -> u8 { 0 }\n}"
    for lib in g.LIBS:
        for sub in g.subsets():
            deps, dev = rng.choice(g.placements(rng, sub))
            cases.append({"lib": lib, "declared": sub, "deps": deps, "dev": dev, "via": "actor", "attr": 'lib = "%s", channel = 2' % lib, "item": item})
            # impl blocks whose only replies are hidden ones (the hand-over of a self-consuming method, a method in `actor: &Type` notation)
            for it2 in ("impl A {\n pub fn new() -> Self { todo!() }\n pub fn inc(&mut self) {}\n pub fn demolish(self) {}\n}",
                        "impl A {\n pub fn new() -> Self { todo!() }\n pub fn inc(&mut self) {}\n pub fn is_open(actor: &A) -> bool { true }\n}",
                        "impl A {\n pub fn new() -> Self { todo!() }\n pub fn inc(&mut self) {}\n}"):
                cases.append({"lib": lib, "declared": sub, "deps": deps, "dev": dev, "via": "actor", "attr": 'lib = "%s"' % lib, "item": it2})
            if lib != "smol":
                cases.append({"lib": lib, "declared": sub, "deps": deps, "dev": dev, "via": "family",
                              "attr": 'lib = "%s", actor(first_name = "U"), actor(first_name = "V")' % lib, "item": item})
    jobs = []
    for c in cases:
        md = hook.manifest_dir(c["deps"], dev=c["dev"])
        if c["via"] == "helper":
            jobs.append(("fn:channels_import", [md, c["lib"]]))
        else:
            jobs.append((c["via"], [c["attr"], c["item"], md]))
    res = hook.run_parallel(jobs, tag="c12h", shards=8)
    if res is None:
        raise Infra("import-check batch timed out")
    vals = inst.coq_values("C12_check", IMPORTS, [("k%d" % i, "channels_import %s %s" % (g.COQ_LIB[c["lib"]], g.coq_manifest(c["deps"], c["dev"])))
                                                  for i, c in enumerate(cases)])
    rep.checker_cmds.append("coqc generated/C12_check.v (channels_import on %d manifests)" % len(cases))
    for i, (c, (cls, fields)) in enumerate(zip(cases, res)):
        rep.evaluations += 1
        real = real_outcome(cls, fields)
        model = model_outcome(vals["k%d" % i])
        missing = tuple(x for x in g.DOCUMENTED[c["lib"]] if x not in c["declared"])
        rep.count("check_via", c["via"])
        rep.count("check_outcome", real[0])
        rep.count("placement", "deps" if not c["dev"] else ("dev" if not c["deps"] else "split"))
        rep.nontrivial.add(("check", c["lib"], real[0], missing))
        why = oracle_check(c["lib"], c["declared"], real)
        harmless = False
        if why is not None and real[0] == "accept" and cls == "TOKENS" and c["via"] != "helper":
            # accepted without a documented crate: a violation of the property only if the emitted code really refers to that crate
            try:
                roots = set(analyse_expansion(fields[0])[0])
            except Exception:
                roots = None
            if roots is not None and not (roots & set(g.ROOT[x] for x in missing)):
                harmless, why = True, None
        # projection: accept / reject; for a rejection only "names a missing documented crate" (which of several is unspecified)
        agree = real[0] == model[0]
        rep.oblige(why is None and agree and not harmless)
        if i % 211 == 0:
            rep.sample({"lib": c["lib"], "dependencies": c["deps"], "dev-dependencies": c["dev"], "via": c["via"], "real": real[:2], "model": model})
        if why is not None:
            data = {"what": "import check: " + why, "lib": c["lib"], "dependencies": c["deps"], "dev-dependencies": c["dev"], "via": c["via"],
                    "expected": "accept" if not missing else "diagnostic naming one of %s" % list(missing), "observed": real, "model": model,
                    "manifest": open(os.path.join(hook.manifest_dir(c["deps"], dev=c["dev"]), "Cargo.toml")).read()}
            if c["via"] != "helper":
                data.update({"attr": c["attr"], "item": c["item"]})
            viol(rep, "check:" + c["via"] + ":" + c["lib"], "check_%d_%s_%s_%s" % (i, c["via"], c["lib"], "+".join(c["declared"]) or "none"), data, found=True)
        elif not agree:
            viol(rep, "check_model", "check_model_%d_%s_%s" % (i, c["via"], c["lib"]), {
                "what": "correspondence Gen/Paths.v channels_import vs src/check.rs no longer holds (the property's oracle is satisfied by the real output)",
                "lib": c["lib"], "dependencies": c["deps"], "dev-dependencies": c["dev"], "real": real, "model": model}, found=False)


# ------------------------------------------------------------------------------------------------------------
def analyse_expansion(text):
    """-> (roots of the generated part, own names: roots written by the user + names of the user's and of the generated items)"""
    toks = ir.parse(text)
    items = ir.split_items(toks)
    user, gen = items[:1], items[1:]
    roots = sorted(ir.collect_roots(ir.flat_tree(gen), set()))
    own = set(ir.collect_roots(ir.flat_tree(user), set()))
    def idents(ts):
        for t in ts:
            if t.k == "g":
                idents(t.sub)
            elif t.k == "id" and t.s not in ir.KEYWORDS:
                own.add(t.s)
    idents(user[0]["header"])
    generated_names = []
    for it in gen:
        if it["kw"] in ("enum", "struct") and len(it["header"]) > 1:
            generated_names.append(it["header"][1].s)
    return roots, sorted(own), generated_names


def coq_strs(xs):
    return lst(xs, cs_)


def t_tie(rep, rng):
    cfgs = g.corpus(rng, rep.tier)
    # every configuration is expanded under a manifest that declares EXACTLY the crates documented for its runtime
    res = hook.run_parallel([(c["kind"], [c["attr"], c["item"], hook.manifest_dir(g.DOCUMENTED[c["lib"]])]) for c in cfgs], tag="c12t", shards=12)
    if res is None:
        raise Infra("expansion batch timed out")
    live = []
    for c, (cls, fields) in zip(cfgs, res):
        rep.evaluations += 1
        rep.count("lib", c["lib"])
        rep.count("kind", c["kind"])
        rep.count("expansion", cls)
        for k, v in c["flags"].items():
            if v is True:
                rep.count("option", k)
        if c["family"]:
            rep.count("option", c["flags"]["rcvr"])
        if cls != "TOKENS" and fields and "not found!" in fields[0]:
            # the macro asks for a crate although the manifest declares every crate documented for the runtime
            rep.oblige(False)
            viol(rep, "accept:" + c["lib"], "accept_%s_%d" % (c["lib"], rep.evaluations), {
                "what": "a project declaring exactly the crates documented for lib=%s %s is rejected: %s" % (c["lib"], g.DOCUMENTED[c["lib"]], fields[0][:200]),
                "kind": c["kind"], "attr": c["attr"], "item": c["item"], "lib": c["lib"], "manifest dependencies": g.DOCUMENTED[c["lib"]],
                "expected": "expansion (the documented crates suffice)", "observed": fields[0][:600], "theorem": "C12_accept_resolves / C12_check_exact"}, found=True)
            continue
        if cls != "TOKENS":
            # a rejected configuration generates no code: nothing for C12 to say (C19 / C06 own the question whether it should be accepted)
            rep.notes.append("configuration rejected by the macro (%s): %s | %s" % (cls, c["attr"], (fields[0] if fields else "")[:160].replace("\n", " ")))
            continue
        try:
            c["roots"], c["own"], c["gen_names"] = analyse_expansion(fields[0])
        except Exception as e:
            rep.oblige(False)
            viol(rep, "lex", "lex_" + c["label"], {"what": "expansion could not be tokenised: %r" % (e,), "attr": c["attr"], "item": c["item"]}, found=False)
            continue
        c["text"] = fields[0]
        live.append(c)
    if len(live) < 0.9 * len(cfgs):
        rep.oblige(False)
        rep.violation("corpus", {"what": "more than 10%% of the generated configurations were rejected by the macro (%d of %d): the corpus no longer exercises the path tables"
                                         % (len(cfgs) - len(live), len(cfgs)), "examples": rep.notes[:5]}, found=False)
    items = []
    for k, c in enumerate(live):
        L = g.COQ_LIB[c["lib"]]
        items.append(("i%d" % k, "inst_ok %s %s %s" % (L, coq_strs(c["own"] + c["gen_names"]), coq_strs(c["roots"]))))
        items.append(("r%d" % k, "crates_of %s" % coq_strs(c["roots"])))
        items.append(("m%d" % k, "model_crates %s %s %s" % ("true" if c["family"] else "false", L, g.coq_opts(c["flags"]))))
    vals = {}
    for b in range(0, len(items), 900):
        vals.update(inst.coq_values("C12_inst_%d" % (b // 900), IMPORTS, items[b:b + 900]))
    rep.checker_cmds.append("coqc generated/C12_inst_*.v (inst_ok, crates_of, model_crates per real expansion); coqc generated/C12_oblig.v")
    good = []
    for k, c in enumerate(live):
        own = c["own"] + c["gen_names"]
        ok_inst = vals["i%d" % k] == "true"
        real_crates, model_crates = vals["r%d" % k], vals["m%d" % k]
        stray = oracle_roots(c["lib"], c["roots"], own)
        rep.nontrivial.add(("roots", c["lib"], c["kind"], tuple(sorted(kk for kk, v in c["flags"].items() if v is True)), c["flags"]["rcvr"], real_crates))
        if k % 41 == 0:
            rep.sample({"config": c["label"], "attr": c["attr"], "roots": c["roots"], "own": own, "inst_ok": vals["i%d" % k], "crates": real_crates, "model_crates": model_crates})
        rep.oblige(ok_inst and not stray)
        if stray or not ok_inst:
            need = g.DOCUMENTED[c["lib"]]
            viol(rep, "roots:" + c["lib"], "roots_%s_%d" % (c["lib"], k), {
                "what": "generated code refers to %s, which is neither std/core, the user's own items nor a crate documented for lib=%s %s"
                        % (stray or "(model premise inst_ok = false)", c["lib"], need),
                "kind": c["kind"], "attr": c["attr"], "item": c["item"], "lib": c["lib"],
                "manifest that must suffice": need, "expected roots within": sorted(set(g.ROOT[x] for x in need) | set(g.BASE_ROOTS)),
                "observed roots": c["roots"], "offending roots": stray, "own names": own,
                "offending context": [m.group(0) for r in stray for m in list(re.finditer(r".{0,60}\b%s ::.{0,60}" % re.escape(r), c["text"].replace("\n", " ")))[:2]],
                "theorem": "C12_instance premise inst_ok"}, found=bool(stray))
            continue
        good.append(k)
        # table correspondence through the projection "set of runtime crates referred to"
        ok_tab = rep.oblige(real_crates == model_crates)
        if not ok_tab:
            viol(rep, "tables", "tables_%s_%d" % (c["lib"], k), {
                "what": "correspondence Gen/Paths.v path tables vs real expansion no longer holds: crates referred to = %s, model = %s "
                        "(all are documented for the runtime, so the property's oracle is satisfied on this output)" % (real_crates, model_crates),
                "kind": c["kind"], "attr": c["attr"], "item": c["item"], "flags": c["flags"], "roots": c["roots"]}, found=False)
    # kernel-checked instance lemmas + the universal theorem applied to them
    lines = [IMPORTS]
    for k in good:
        c = live[k]
        args = "%s %s %s" % (g.COQ_LIB[c["lib"]], coq_strs(c["own"] + c["gen_names"]), coq_strs(c["roots"]))
        lines.append("Lemma inst_%d_ok : inst_ok %s = true. Proof. vm_compute. reflexivity. Qed." % (k, args))
        lines.append("Definition inst_%d_holds := C12_instance %s inst_%d_ok." % (k, args, k))
        lines.append("Definition inst_%d_nofc := C12_instance_no_foreign_crate %s." % (k, args))
    ok, out = inst.coq_check_file("C12_oblig", "\n".join(lines) + "\n")
    for _ in good:
        rep.oblige(ok)
    if not ok:
        rep.violation("obligations", {"what": "kernel rejected the instance lemmas", "output": out[-2000:]}, found=False)
    return live


# ------------------------------------------------------------------------------------------------------------
# rustc oracle (thorough): a user crate declaring exactly the documented crates compiles; with one removed the
# build stops at the macro's diagnostic, not at an unresolved path
# ------------------------------------------------------------------------------------------------------------
DEP_LINE = {"oneshot": 'oneshot = "0.1"', "tokio": 'tokio = { version = "1", features = ["full"] }', "async-std": 'async-std = "1"',
            "smol": 'smol = "2"', "async-channel": 'async-channel = "2"'}


def user_crate_source(rng, lib):
    mods = []
    cfgs = []
    for bounded, debut in ((False, False), (True, True)):
        kinds = ["void", "in", "out", "io", "gvoid", "gout", "stat", "priv", "upath"] + (["asy"] if lib != "std" else []) + \
                (["cs", "getter"] if debut else []) + (["slf_ok"] if debut else ["slf_raw"])
        cfgs.append(g.actor_config(rng, lib, bounded, debut, debug=debut, interact=debut, generic_actor=False, kinds=kinds, use_filter=False))
    if lib != "smol":
        for lock in ("Mutex", "RwLock"):
            c = g.family_config(rng, lib, lock, debut=(lock == "Mutex"), nmem=2, plain=True)
            cfgs.append(c)
    return render_user_crate(lib, cfgs, True), render_user_crate(lib, cfgs, False), cfgs


def render_user_crate(lib, cfgs, lock_use):
    """lock_use=False: the user's own `use <runtime>::sync::..` line is left out (used when that crate is deliberately not declared:
    the macro aborts, the impl block disappears, and the only paths left to resolve are the user's own)"""
    mods = []
    for i, c in enumerate(cfgs):
        generic = c["item"].startswith("impl<Q")
        struct = "pub struct A<Q>(pub Q);" if generic else "pub struct A;"
        uses = ""
        if c["kind"] == "family":
            uses = "#[allow(unused_imports)] use std::sync::Arc;\n    "
            if lock_use or lib == "std":
                uses += "#[allow(unused_imports)] use %s::sync::{Mutex, RwLock};\n" % ("std" if lib == "std" else lib)
        mods.append("pub mod m%d {\n    %s    %s\n    #[interthread::%s(%s)]\n    %s\n}\n" % (i, uses, struct, c["kind"], c["attr"], c["item"].replace("\n", "\n    ")))
    return "#![allow(dead_code, unused_variables, unused_mut)]\n" + "\n".join(mods)


def cargo_check(name, lib, crates, src):
    d = os.path.join(CACHE, "c12_rustc", name)
    os.makedirs(os.path.join(d, "src"), exist_ok=True)
    toml = ('[package]\nname = "c12_user_%s"\nversion = "0.1.0"\nedition = "2021"\n\n[workspace]\n\n[dependencies]\ninterthread = { path = "%s" }\n'
            % (re.sub(r"\W", "_", name), hook.REPO)) + "".join(DEP_LINE[c] + "\n" for c in crates)
    open(os.path.join(d, "Cargo.toml"), "w").write(toml)
    open(os.path.join(d, "src", "lib.rs"), "w").write(src)
    shutil.copy(os.path.join(hook.REPO, "Cargo.lock"), os.path.join(d, "Cargo.lock"))
    env = dict(hook.ENV, CARGO_TARGET_DIR=os.path.join(CACHE, "c12_rustc", "target"))
    r = subprocess.run(["cargo", "check", "--offline", "--message-format=short", "--manifest-path", os.path.join(d, "Cargo.toml")],
                       stdout=subprocess.PIPE, stderr=subprocess.STDOUT, text=True, env=env, timeout=1500)
    return r.returncode, r.stdout, toml


UNRESOLVED = re.compile(r"E0433|E0432|E0463|undeclared crate or module|unresolved import|can't find crate|use of unresolved module")


def rustc_oracle(rep, rng):
    for lib in g.LIBS:
        src, src_bare, cfgs = user_crate_source(rng, lib)
        need = g.DOCUMENTED[lib]
        rc, out, toml = cargo_check(lib + "_exact", lib, need, src)
        rep.evaluations += 1
        rep.traces += 1
        rep.count("rustc", "exact:" + lib)
        if "error: no matching package" in out or "failed to select a version" in out or "error: failed to" in out and "could not compile" not in out:
            raise Infra("cargo could not resolve the user crate offline:\n" + out[-1500:])
        unresolved = [l for l in out.splitlines() if UNRESOLVED.search(l)]
        notfound = [l for l in out.splitlines() if "not found!" in l]
        rep.oblige(not unresolved and not notfound)
        rep.nontrivial.add(("rustc", lib, "exact"))
        if unresolved or notfound:
            rep.violation("rustc_exact_" + lib, {
                "what": "a user crate declaring exactly the documented crates %s for lib=%s does not build: %s" % (need, lib, (unresolved + notfound)[:4]),
                "Cargo.toml": toml, "src/lib.rs": src, "expected": "no unresolved path, no 'Crate .. not found!' diagnostic", "observed": (unresolved + notfound)[:10]}, found=True)
        elif rc != 0:
            rep.notes.append("rustc oracle lib=%s: the user crate has errors unrelated to crate resolution (not a C12 matter): %s"
                             % (lib, [l for l in out.splitlines() if "error" in l][:3]))
        for miss in need:
            rest = [c for c in need if c != miss]
            rc, out, toml = cargo_check("%s_minus_%s" % (lib, miss), lib, rest, src_bare)
            rep.evaluations += 1
            rep.traces += 1
            rep.count("rustc", "minus:" + lib)
            named = ("Crate '%s' not found!" % miss) in out
            unresolved = [l for l in out.splitlines() if UNRESOLVED.search(l)]
            rep.oblige(named and not unresolved)
            rep.nontrivial.add(("rustc", lib, "minus", miss))
            if not named or unresolved:
                rep.violation("rustc_minus_%s_%s" % (lib, miss), {
                    "what": "lib=%s with crate %s not declared: expected the diagnostic \"Crate '%s' not found!\" and no unresolved path; named=%s unresolved=%s"
                            % (lib, miss, miss, named, unresolved[:4]),
                    "Cargo.toml": toml, "src/lib.rs": src_bare, "observed": [l for l in out.splitlines() if "error" in l][:10]}, found=True)


# ------------------------------------------------------------------------------------------------------------
def import_check_sites():
    """where the crate decides about imports: every call of `is_imported(..)` outside src/check.rs::channels_import and every `check::<f>(..)`
    call of the crate (hook excluded) -> (calls of is_imported by enclosing fn, [(file, callee, argument text)])"""
    import rs
    inside, calls = {}, []

    def walk(ts, rel, fn):
        i = 0
        while i < len(ts):
            t = ts[i]
            if t.k == "id" and t.s == "fn" and i + 1 < len(ts) and ts[i + 1].k == "id":
                name = ts[i + 1].s
                j = i + 2
                while j < len(ts) and not (ts[j].k == "g" and ts[j].s == "{") and not rs.is_p(ts[j], ";"):
                    j += 1
                if j < len(ts) and ts[j].k == "g":
                    walk(ts[j].sub, rel, name)
                i = j + 1
                continue
            if t.k == "id" and t.s == "is_imported" and i + 1 < len(ts) and ts[i + 1].k == "g" and ts[i + 1].s == "(" and fn != "is_imported":
                inside.setdefault("%s::%s" % (rel, fn), []).append(rs.render(ts[i + 1].sub))
            if (t.k == "id" and t.s == "check" and i + 3 < len(ts) and rs.is_p(ts[i + 1], "::") and ts[i + 2].k == "id" and ts[i + 3].k == "g" and ts[i + 3].s == "("):
                calls.append((rel, ts[i + 2].s, rs.render(ts[i + 3].sub)))
            if t.k == "g":
                walk(t.sub, rel, fn)
            i += 1
    root = os.path.join(hook.REPO, "src")
    for dp, _, fs in os.walk(root):
        for f in sorted(fs):
            rel = os.path.relpath(os.path.join(dp, f), hook.REPO)
            if f.endswith(".rs") and rel != "src/verif_hook.rs":
                walk(rs.parse(open(os.path.join(dp, f), errors="replace").read()), rel, "<top>")
    return inside, calls


def replay_known(rep):
    """fixed findings are replayed as ordinary obligations (they must pass now): F6"""
    jobs, want = [], []
    for lib, deps in (("async_std", ["oneshot"]), ("smol", ["oneshot", "async-channel"])):
        jobs.append(("fn:channels_import", [hook.manifest_dir(deps), lib]))
        want.append((lib, deps))
    for (lib, deps), (cls, fields) in zip(want, hook.run_batch(jobs, tag="c12k")):
        real = real_outcome(cls, fields)
        why = oracle_check(lib, deps, real)
        rep.oblige(why is None)
        if why is not None:
            rep.violation("F6_%s" % lib, {"what": "import check (fixed finding F6 is back): " + why, "lib": lib, "dependencies": deps, "observed": real}, found=True)


def replay(rep, path):
    """./check C12 --replay <file>: re-run the recorded input on the real code and evaluate the property's oracle"""
    import json
    d = json.load(open(path))
    rep.extra["rule"] = "replay of " + path
    if "dependencies" in d:
        md = hook.manifest_dir(d["dependencies"], dev=d.get("dev-dependencies", []))
        job = ("fn:channels_import", [md, d["lib"]]) if d.get("via", "helper") == "helper" else (d["via"], [d["attr"], d["item"], md])
        cls, fields = hook.run_batch([job], tag="c12r")[0]
        real = real_outcome(cls, fields)
        why = oracle_check(d["lib"], d["dependencies"] + d.get("dev-dependencies", []), real)
        rep.evaluations += 1
        if not rep.oblige(why is None):
            rep.violation("replay_check", dict(d, what="import check: " + why, observed=real), found=True)
    elif "attr" in d and "item" in d:
        cls, fields = hook.run_batch([(d.get("kind", "actor"), [d["attr"], d["item"], hook.manifest_dir(g.DOCUMENTED[d["lib"]])])], tag="c12r")[0]
        rep.evaluations += 1
        if cls != "TOKENS" and fields and "not found!" in fields[0]:
            rep.oblige(False)
            rep.violation("replay_accept", dict(d, what="a project declaring exactly the documented crates %s is rejected: %s" % (g.DOCUMENTED[d["lib"]], fields[0][:200])), found=True)
        elif cls == "TOKENS":
            roots, own, names = analyse_expansion(fields[0])
            stray = oracle_roots(d["lib"], roots, own + names)
            if not rep.oblige(not stray):
                rep.violation("replay_roots", dict(d, what="generated code refers to %s, not documented for lib=%s" % (stray, d["lib"]), **{"observed roots": roots}), found=True)
        else:
            rep.notes.append("replayed configuration is rejected by the macro now: " + cls)
    else:
        rep.notes.append("nothing to replay in " + path)
    return rep.finish()


def run(rep):
    _seen.clear()
    rng = random.Random(rep.seed)
    rep.extra["rule"] = RULE
    nthm, problems, _ = property_theorems(PID)
    rep.checker_cmds.append("make -C coq theories/Properties/C12.vo (Print Assumptions must be closed)")
    for _ in range(nthm):
        rep.oblige(not problems)
    bad = hygiene()
    rep.oblige(not bad)
    if problems or bad:
        rep.violation("theorems", {"what": "property theorem file no longer checks", "problems": problems, "hygiene": bad}, found=False)
    replay_known(rep)
    # the model's acceptance function IS `channels_import lib manifest`: the entry points must decide about imports there and nowhere else
    inside, calls = import_check_sites()
    rep.extra["import_check_sites"] = {"is_imported called in": inside, "check:: calls": calls}
    sole = (set(inside) == {"src/check.rs::channels_import"} and bool(calls)
            and all(c[1] == "channels_import" and re.sub(r"\s+", "", c[2]) == "&aaa.lib" for c in calls) and sorted(set(c[0] for c in calls)) == ["src/lib.rs"] and len(calls) == 2)
    if not rep.oblige(sole):
        rep.violation("import_sites", {"what": "the import decision of the entry points is no longer `check::channels_import(&aaa.lib)` alone (premise of C12_check_exact / C12_accept_resolves, "
                                               "whose acceptance function is Gen/Paths.v `channels_import`): is_imported is called in %s, check:: calls %s" % (sorted(inside), calls),
                                       "searched": "the corpus expanded under manifests declaring exactly the documented crates (accept_* violations, if any, are the failing inputs)"}, found=False)
    h_tie(rep, rng)
    t_tie(rep, rng)
    if rep.tier == "thorough":
        rustc_oracle(rep, rng)
    seen = set()
    rep.notes = [n for n in rep.notes if not (n in seen or seen.add(n))][:40]
    rep.assumptions += [
        "the five runtime crates are declared under their own names (no `package = ..` renames) and the using crate is not itself named like one of them",
        "a crate listed under [dev-dependencies] counts as declared (the property's quantifier); rustc makes it available to tests/examples only",
        "manifests are abstracted to the subset of {oneshot, tokio, async-std, smol, async-channel} they declare; workspace inheritance and target-specific sections are not generated",
        "paths written by the user inside the annotated impl block (parameter / return types, interact channel ends) are the user's own items",
        "impl blocks inside the documented envelope (no typed self receivers other than the family receiver forms, no cfg attributes on methods); family members use the documented member options only (no per-member lib)",
        "leading path segments are read off the token stream (identifier followed by `::` that is not itself preceded by a path separator or `.`); rustc's name resolution is the thorough-tier oracle",
    ]
