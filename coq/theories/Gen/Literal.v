(* Gen/Literal.v -- the value of the integer literal written after `channel =` (C08).

   `channel = n` takes a Rust integer literal.  What bounds the queue is the literal's VALUE: `0x2`, `0b10`, `0o2`, `2usize`
   and `2` all ask for a queue of two messages, `0x0` and `0_0` for an unbounded one.  The generator decides bounded / unbounded
   from `to_usize(literal) > 0` (src/model/attribute/mod.rs) and passes the literal on verbatim as the capacity argument; both
   must agree with the value defined here.

   lit_value : the value of a literal text (None: not an integer literal)
     - radix prefixes 0x / 0o / 0b, decimal otherwise;
     - `_` separators anywhere after the first digit (after the prefix for the prefixed forms);
     - an optional integer type suffix. *)
From Coq Require Import List String Ascii NArith Bool Lia.
Import ListNotations.
From IT Require Import Gen.Channel.
Local Open Scope string_scope.
Local Open Scope N_scope.

Definition digit_of (c : ascii) : option N :=
  let n := N_of_ascii c in
  if (48 <=? n) && (n <=? 57) then Some (n - 48)
  else if (97 <=? n) && (n <=? 102) then Some (n - 87)
  else if (65 <=? n) && (n <=? 70) then Some (n - 55)
  else None.

Definition digit_in (base : N) (c : ascii) : option N :=
  match digit_of c with Some d => if d <? base then Some d else None | None => None end.

Definition is_us (c : ascii) : bool := Ascii.eqb c "_"%char.

(* scan digits and separators: (value so far, number of digits seen, rest of the text) *)
Fixpoint scan (base : N) (cs : list ascii) (acc : N) (nd : nat) : N * nat * list ascii :=
  match cs with
  | [] => (acc, nd, [])
  | c :: r =>
      if is_us c then scan base r acc nd
      else match digit_in base c with
           | Some d => scan base r (acc * base + d) (S nd)
           | None => (acc, nd, cs)
           end
  end.

Definition suffixes : list string :=
  ["u8"; "u16"; "u32"; "u64"; "u128"; "usize"; "i8"; "i16"; "i32"; "i64"; "i128"; "isize"].

Definition suffix_ok (rest : list ascii) : bool :=
  match rest with [] => true | _ => existsb (String.eqb (string_of_list_ascii rest)) suffixes end.

Definition finish (r : N * nat * list ascii) : option N :=
  let '(v, nd, rest) := r in
  match nd with O => None | S _ => if suffix_ok rest then Some v else None end.

Definition lit_value (s : string) : option N :=
  match list_ascii_of_string s with
  | "0"%char :: "x"%char :: body => finish (scan 16 body 0 0)
  | "0"%char :: "o"%char :: body => finish (scan 8 body 0 0)
  | "0"%char :: "b"%char :: body => finish (scan 2 body 0 0)
  | c :: body => if is_us c then None else finish (scan 10 (c :: body) 0 0)
  | [] => None
  end.

(* the channel a literal asks for *)
Definition literal_chan (cur : chan) (s : string) : option chan :=
  match lit_value s with Some k => Some (apply_channel_option cur (Some k)) | None => None end.

(* ------------------------------------------------------------------------------------------ *)
(* laws                                                                                         *)
(* ------------------------------------------------------------------------------------------ *)
(* separators do not change the value *)
Lemma scan_separators : forall base cs acc nd,
  (forall c, In c cs -> is_us c = true \/ digit_in base c <> None) ->
  scan base cs acc nd = scan base (filter (fun c => negb (is_us c)) cs) acc nd.
Proof.
  intros base cs. induction cs as [|c r IH]; intros acc nd H; [reflexivity|].
  cbn [scan filter]. destruct (is_us c) eqn:U; cbn [negb].
  - apply IH. intros x Hx. apply H. right. exact Hx.
  - cbn [scan]. rewrite U. destruct (H c (or_introl eq_refl)) as [E|E]; [congruence|].
    destruct (digit_in base c) as [d|]; [|congruence]. apply IH. intros x Hx. apply H. right. exact Hx.
Qed.

(* all-digit texts: the value is the positional value, whatever follows a non-digit is left as the rest *)
Lemma scan_app_rest : forall base ds rest acc nd,
  (forall c, In c ds -> is_us c = true \/ digit_in base c <> None) ->
  match rest with [] => True | c :: _ => is_us c = false /\ digit_in base c = None end ->
  let '(v, n, _) := scan base ds acc nd in scan base (ds ++ rest) acc nd = (v, n, rest).
Proof.
  intros base ds. induction ds as [|c r IH]; intros rest acc nd H R.
  - cbn [scan app]. destruct rest as [|x xs]; [reflexivity|]. destruct R as [R1 R2]. cbn [scan]. rewrite R1, R2. reflexivity.
  - cbn [scan app]. destruct (is_us c) eqn:U.
    + apply IH; [intros x Hx; apply H; right; exact Hx | exact R].
    + destruct (H c (or_introl eq_refl)) as [E|E]; [congruence|].
      destruct (digit_in base c) as [d|]; [|congruence].
      apply IH; [intros x Hx; apply H; right; exact Hx | exact R].
Qed.

(* a type suffix does not change the value *)
Theorem suffix_irrelevant : forall base ds sfx acc,
  (forall c, In c ds -> is_us c = true \/ digit_in base c <> None) ->
  In sfx suffixes ->
  match list_ascii_of_string sfx with c :: _ => is_us c = false /\ digit_in base c = None | [] => False end ->
  finish (scan base (ds ++ list_ascii_of_string sfx) acc 0) = finish (scan base ds acc 0).
Proof.
  intros base ds sfx acc H Hin Hc.
  pose proof (scan_app_rest base ds (list_ascii_of_string sfx) acc 0%nat H) as S.
  destruct (list_ascii_of_string sfx) as [|c r] eqn:L; [contradiction|].
  specialize (S Hc). destruct (scan base ds acc 0) as [[v n] rest0] eqn:E. rewrite S.
  assert (R0 : rest0 = []).
  { clear S. revert acc E. generalize 0%nat. induction ds as [|x xs IH]; intros k acc E.
    - cbn in E. inversion E. reflexivity.
    - cbn [scan] in E. destruct (is_us x) eqn:U.
      + eapply IH; [intros y Hy; apply H; right; exact Hy | exact E].
      + destruct (H x (or_introl eq_refl)) as [F|F]; [congruence|].
        destruct (digit_in base x) as [d|]; [|congruence].
        eapply IH; [intros y Hy; apply H; right; exact Hy | exact E]. }
  subst rest0. unfold finish. destruct n as [|n]; [reflexivity|].
  cbn [suffix_ok]. rewrite <- L. rewrite string_of_list_ascii_of_string.
  assert (X : existsb (String.eqb sfx) suffixes = true).
  { apply existsb_exists. exists sfx. split; [exact Hin | apply String.eqb_refl]. }
  rewrite X. reflexivity.
Qed.

(* bounded exactly for a positive value, unbounded exactly for zero: nothing else about the text matters *)
Theorem literal_chan_by_value : forall cur s k, lit_value s = Some k ->
  literal_chan cur s = Some (if 0 <? k then Buffer k else Unbounded).
Proof. intros cur s k H. unfold literal_chan. rewrite H. reflexivity. Qed.

Theorem same_value_same_chan : forall cur s t, lit_value s <> None -> lit_value s = lit_value t -> literal_chan cur s = literal_chan cur t.
Proof. intros cur s t _ H. unfold literal_chan. rewrite H. reflexivity. Qed.

(* the capacity a literal asks for, as the property states it *)
Definition literal_cap (s : string) : option (option N) :=
  match lit_value s with Some k => Some (if 0 <? k then Some k else None) | None => None end.

Theorem literal_cap_chan : forall s, option_map cap_of_chan (literal_chan Unbounded s) = literal_cap s.
Proof. intros s. unfold literal_chan, literal_cap. destruct (lit_value s) as [k|]; [|reflexivity]. cbn. destruct (0 <? k); reflexivity. Qed.

(* ------------------------------------------------------------------------------------------ *)
(* the reading "leading decimal digits of the text" is a different function                     *)
(* ------------------------------------------------------------------------------------------ *)
Fixpoint leading_dec (cs : list ascii) (acc : N) : N :=
  match cs with
  | c :: r => let n := N_of_ascii c in if (48 <=? n) && (n <=? 57) then leading_dec r (acc * 10 + (n - 48)) else acc
  | [] => acc
  end.
Definition leading_decimal (s : string) : N := leading_dec (list_ascii_of_string s) 0.

Theorem leading_decimal_refuted : exists s k, lit_value s = Some k /\ 0 < k /\ leading_decimal s = 0.
Proof. exists "0x2", 2. repeat split; reflexivity. Qed.

(* ------------------------------------------------------------------------------------------ *)
(* examples                                                                                     *)
(* ------------------------------------------------------------------------------------------ *)
Example ex_values :
  map lit_value ["2"; "0x2"; "0b10"; "0o2"; "2usize"; "2_usize"; "0x1_0"; "1_000"; "0x0"; "0_0"; "0xff"; "0b11"; "65536"; "0xFFu32"]
  = [Some 2; Some 2; Some 2; Some 2; Some 2; Some 2; Some 16; Some 1000; Some 0; Some 0; Some 255; Some 3; Some 65536; Some 255].
Proof. reflexivity. Qed.

Example ex_rejected : map lit_value [""; "_1"; "0x"; "0b2"; "12abc"; "1e3"; "two"; "0x_"; "1.5"] = repeat None 9.
Proof. reflexivity. Qed.

Example ex_caps : map literal_cap ["0x2"; "0b11"; "0o2"; "3usize"; "0x0"; "0_0"; "1_0"]
  = [Some (Some 2); Some (Some 3); Some (Some 2); Some (Some 3); Some None; Some None; Some (Some 10)].
Proof. reflexivity. Qed.

(* the tie: the constructor of a real expansion is the one the literal TEXTS of the options ask for *)
Definition ctor_matches_lit (m : Sdpl.IR.model) (family_txt member_txt : option string) : bool :=
  let val (o : option string) : option (option N) := match o with None => Some None | Some s => option_map Some (lit_value s) end in
  match val family_txt, val member_txt with
  | Some f, Some mm => ctor_matches m f mm
  | _, _ => false
  end.
