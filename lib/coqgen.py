"""Render recognised expansions (ir.py dicts) as Coq terms of IT.Sdpl.IR."""


def s(x):
    """Coq string literal"""
    out = []
    for ch in x:
        o = ord(ch)
        if ch == '"':
            out.append('""')
        elif o < 32 or o > 126:
            out.append("?")
        else:
            out.append(ch)
    return '"' + "".join(out) + '"'


def b(x):
    return "true" if x else "false"


def lst(xs, f=lambda x: x):
    return "[" + "; ".join(f(x) for x in xs) + "]"


def opt(x, f=lambda x: x):
    return "None" if x is None else "(Some " + f(x) + ")"


def pair(a, c):
    return "(" + a + ", " + c + ")"


def src(x):
    return "(%s %s)" % (x[0], s(x[1]))


def onclosed(x):
    if x[0] == "ClosedPanic":
        return "(ClosedPanic %s)" % b(x[1])
    return x[0]


def lock(l):
    return "{| lk_binder := %s; lk_mut := %s; lk_on := %s; lk_kind := %s; lk_wait := %s |}" % (
        s(l["binder"]), b(l["mut"]), src(l["on"]), l["kind"], s(l["wait"]))


def ucall(c):
    if c[0] == "UMethod":
        return "(UMethod %s %s %s)" % (src(c[1]), s(c[2]), lst(c[3], src))
    if c[0] == "UStatic":
        return "(UStatic %s %s %s)" % (s(c[1]), s(c[2]), lst(c[3], src))
    return "(UOtherCall %s)" % s(c[1])


def arm_body(a):
    return "{| ab_lock := %s; ab_call := %s; ab_await := %s; ab_reply := %s |}" % (
        opt(a["lock"], lock), ucall(a["call"]), b(a["await"]),
        opt(a["reply"], lambda r: pair(src(r[0]), onclosed(r[1]))))


def arm(a):
    if a[0] == "ArmStruct":
        return "(ArmStruct %s %s %s)" % (s(a[1]), lst(a[2], s), arm_body(a[3]))
    if a[0] == "ArmClosure":
        return "(ArmClosure %s %s %s %s)" % (s(a[1]), s(a[2]), src(a[3]), b(a[4]))
    if a[0] == "ArmSkip":
        return "(ArmSkip %s)" % s(a[1])
    return "(ArmUnknown %s)" % s(a[1])


def msgb(m):
    if m[0] == "MVariant":
        return "(MVariant %s %s %s)" % (s(m[1]), s(m[2]), lst(m[3], lambda f: pair(s(f[0]), src(f[1]))))
    if m[0] == "MClosure":
        return "(MClosure %s %s %s %s %s %s)" % (s(m[1]), s(m[2]), s(m[3]), s(m[4]), arm_body(m[5]), b(m[6]))
    return "(MUnknown %s)" % s(m[1])


def tail(t):
    if t[0] == "TWait":
        return "(TWait %s %s %s)" % (src(t[1]), s(t[2]), onclosed(t[3]))
    if t[0] == "TRet":
        return "(TRet %s)" % src(t[1])
    if t[0] == "TNone":
        return "TNone"
    return "(TUnknown %s)" % s(t[1])


def send(sd):
    return "{| sd_chan := %s; sd_msg := %s; sd_kind := %s; sd_await := %s; sd_closed := %s |}" % (
        src(sd["chan"]), src(sd["msg"]), sd["kind"], b(sd["await"]), onclosed(sd["closed"]))


def pre(p):
    if p[0] == "POneshot":
        return "(POneshot %s %s %s %s)" % (s(p[1]), s(p[2]), s(p[3]), s(p[4]))
    return "(PGetter %s %s)" % (s(p[1]), s(p[2]))


def ref_body(r):
    return "{| rb_pre := %s; rb_msgvar := %s; rb_msg := %s; rb_send := %s; rb_tail := %s |}" % (
        lst(r["pre"], pre), s(r["msgvar"]), msgb(r["msg"]), send(r["send"]), tail(r["tail"]))


def chan(c):
    if c is None:
        return "None"
    if c[0] == "ChUnbounded":
        return "(Some (ChUnbounded %s))" % s(c[1])
    if c[0] == "ChBounded":
        return "(Some (ChBounded %d%%N %s))" % (c[1], s(c[2]))
    return "(Some (ChOther %s))" % s(c[1])


def ctor(c):
    uc = c["user_call"]
    return ("{| cb_user := %s; cb_debut := %s; cb_phantoms := %s; cb_chan := %s; cb_chan_binds := %s; cb_spawns := %s; "
            "cb_wrap := %s; cb_fields := %s; cb_wrapped := %s; cb_members := %s; cb_extra := %s; cb_order := %s; cb_ret := %s |}") % (
        opt(uc, lambda u: "{| uc_bind := %s; uc_path := %s; uc_method := %s; uc_args := %s; uc_try := %s |}" % (
            s(u["bind"]), s(u["path"]), s(u["method"]), lst(u["args"], src), b(u["try"]))),
        opt(c["debut_call"], lambda d: pair(s(d[0]), s(d[1]))),
        lst(c["phantoms"], s), chan(c["chan"]), opt(c["chan_binds"], lambda x: pair(s(x[0]), s(x[1]))),
        lst(c["spawns"], lambda sp: "{| sp_via := %s; sp_callee := %s; sp_args := %s |}" % (s(sp["via"]), s(sp["callee"]), lst(sp["args"], src))),
        s(c["wrap"]), lst(c["fields"], lambda f: pair(s(f[0]), src(f[1]))),
        opt(c["wrapped"], lambda w: "(%s, %s, %s)" % (s(w["bind"]), s(w["lock"]), s(w["inner"]))),
        lst(c["members"], lambda mn: "{| mn_bind := %s; mn_live := %s; mn_args := %s |}" % (s(mn["bind"]), s(mn["live"]), lst(mn["args"], s))),
        lst([x for x in c["extra"] if x.strip() != ";"], s), lst(c["order"], s), s(c.get("ret", "")))


_ret = ""


def body(x, ret=""):
    global _ret
    _ret = ret
    k = x[0]
    if k == "BRef":
        return "(BRef %s)" % ref_body(x[1])
    if k == "BStat":
        return "(BStat %s %s %s %s)" % (s(x[1]), s(x[2]), lst(x[3], src), b(x[4]))
    if k == "BSlf":
        d = x[1]
        return ("(BSlf {| sb_guard := %s; sb_binds := %s; sb_stop_on := %s; sb_stop_await := %s; sb_call := %s; sb_await := %s; sb_else := %s |})" % (
            opt(d["guard"], lambda g: "(%s, %s, %s)" % (s(g[0]), s(g[1]), s(g[2]))), lst(d["binds"], s), s(d["stop_on"]), b(d["stop_await"]),
            ucall(d["call"]), b(d["await"]), opt(d["else"], s)))
    if k == "BCtor":
        return "(BCtor %s)" % ctor(dict(x[1], ret=_ret))
    if k == "BStop":
        return "(BStop %s %s %s)" % (ref_body(x[1]), lst(x[2], s), lst(x[3], src))
    if k == "BInter":
        return "(BInter %s %s)" % (s(x[1]), s(x[2]))
    return "(BUnknown %s)" % s(x[1])


def lmethod(m):
    if "body_ir" not in m:
        raise KeyError("method without body_ir")
    return ("{| lm_name := %s; lm_vis := %s; lm_async := %s; lm_generics := %s; lm_self := %s; lm_params := %s; lm_ret := %s; "
            "lm_where := %s; lm_docs := %s; lm_body := %s |}") % (
        s(m.get("name", "?")), s(m.get("vis", "")), b(m.get("async", False)), s(m.get("generics", "")), s(m.get("self", "")),
        lst(m.get("params", []), lambda p: pair(s(p[0]), s(p[1]))), s(m.get("ret", "")), s(m.get("where", "")),
        lst(m.get("docs", []), s), body(m["body_ir"], m.get("ret", "")))


def play(p):
    if p is None:
        return "None"
    sh = p["shape"]
    if isinstance(sh, tuple):
        shape = "(inr %s)" % s(sh[1])
    else:
        st = sh["stop"]
        shape = ("(inl {| pl_pat := %s; pl_msg := %s; pl_rx := %s; pl_recv := %s; pl_await := %s; pl_stop := %s; pl_disp_on := %s; "
                 "pl_disp_arg := %s; pl_disp_mut := %s; pl_disp_await := %s; pl_drain := %s |})") % (
            s(sh["pat"]), s(sh["msg"]), s(sh["rx"]), s(sh["recv"]), b(sh["await"]),
            opt(st, lambda t: "{| stp_variant := %s; stp_tx := %s; stp_scrut := %s; stp_send_on := %s; stp_payload := %s; stp_closed := %s; stp_returns := %s |}" % (
                s(t["variant"]), s(t["tx"]), s(t["scrut"]), s(t["send_on"]), lst(t["payload"], src), onclosed(t["closed"]), b(t["returns"]))),
            s(sh["disp_on"]), s(sh["disp_arg"]), b(sh["disp_mut"]), b(sh["disp_await"]),
            opt(sh.get("drain"), lambda g: pair(s(g["rx"]), LIBS.get(g["lib"], "LibOther"))))
    return "(Some {| pl_params := %s; pl_async := %s; pl_shape := %s |})" % (
        lst(p["params"], lambda q: pair(s(q[0][4:] if q[0].startswith("mut ") else q[0]), s(q[1]))), b(p["async"]), shape)


LIBS = {"std": "Std", "tokio": "Tokio", "async_std": "AsyncStd", "smol": "Smol"}


def model(mdl, lib, actor_ty, roots, extra_unknown=()):
    d = mdl["direct"] or {"param": "", "param_ty": "", "async": False, "arms": [("Unknown", "no direct")]}
    live = mdl["live"] or {"attrs": [], "vis": "", "fields": [], "name": ""}
    unknown = list(extra_unknown) + list(mdl.get("script_other", []))
    if mdl["live"] is None:
        unknown.append("no live struct")
    if mdl["direct"] is None:
        unknown.append("no direct fn")
    return ("{| m_lib := %s; m_actor_ty := %s; m_script := %s; m_live := %s; m_variants := %s; m_direct_param := %s; m_direct_param_ty := %s; "
            "m_direct_async := %s; m_arms := %s; m_play := %s; m_methods := %s; m_live_attrs := %s; m_live_vis := %s; m_live_fields := %s; "
            "m_traits := %s; m_script_fns := %s; m_roots := %s; m_unknown := %s; m_user_async := %s; m_user_ret := %s |}") % (
        LIBS.get(lib, "LibOther"), s(actor_ty), s(mdl["script"]["name"]), s(live["name"]),
        lst(mdl["script"]["variants"], lambda v: "{| v_name := %s; v_tuple := %s; v_fields := %s |}" % (s(v["name"]), b(v["tuple"]), lst(v["fields"], lambda f: pair(s(f[0]), s(f[1]))))),
        s(d["param"] or ""), s(d["param_ty"] or ""), b(d["async"]), lst(d["arms"], arm), play(mdl["play"]),
        lst(mdl["methods"], lmethod), lst(live["attrs"], s), s(live["vis"]), lst(live["fields"], lambda f: pair(s(f[0]), s(f[1]))),
        lst([t["trait"] for t in mdl["traits"]], s),
        lst([m["name"] for m in (mdl["script_impl"]["methods"] if mdl["script_impl"] else [])], s),
        lst(roots, s), lst(unknown, s), lst(mdl.get("user_async", []), s), lst(mdl.get("user_ret", []), s))


def family(ex, lib, actor_ty="A"):
    """Coq term of IT.Sdpl.IR.family for a recognised family expansion"""
    import ir as _ir
    fam = ex["family"]
    unknown = list(ex["unknown"])
    ctor = None
    others = []
    if fam is None or fam["impl"] is None:
        unknown.append("no family struct / impl")
        fdef = {"name": "", "fields": []}
    else:
        fdef = fam["def"]
        for mm in fam["impl"]["methods"]:
            if "unknown" in mm:
                unknown.append(mm["unknown"])
                continue
            m2 = dict(mm)
            m2["body_ir"] = _ir.parse_live_method(mm) if mm["name"] in ("new", "try_new") else ("BInter", mm["name"], "")
            if mm["name"] in ("new", "try_new"):
                ctor = m2
            else:
                others.append(m2)
    members = [model(mdl, lib, actor_ty, ex["roots"]) for mdl in ex["models"]]
    return "{| fa_name := %s; fa_fields := %s; fa_ctor := %s; fa_methods := %s; fa_members := %s; fa_unknown := %s |}" % (
        s(fdef["name"]), lst(fdef["fields"], lambda f: pair(s(f[0]), s(f[1]))), opt(ctor, lmethod), lst(others, lmethod),
        lst(members), lst(unknown, s))
