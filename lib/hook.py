"""Build /repo with the `verif` feature and push job batches through the real macro."""
import os, subprocess, hashlib, shutil, time, sys

VERIF = os.path.dirname(os.path.dirname(os.path.abspath(__file__)))
REPO = os.environ.get("VERIF_REPO", "/repo")
CACHE = os.path.join(VERIF, ".cache")
TARGET = os.path.join(CACHE, "target")
WORK = os.path.join(CACHE, "work")

ENV = dict(os.environ, CARGO_NET_OFFLINE="true", CARGO_TARGET_DIR=TARGET)
ENV.pop("CARGO", None)

ALL_CRATES = ["oneshot", "tokio", "async-std", "smol", "async-channel"]


class InfraError(Exception):
    pass


def sh(cmd, **kw):
    return subprocess.run(cmd, stdout=subprocess.PIPE, stderr=subprocess.STDOUT, text=True, **kw)


_built = {}


def build_hook():
    """cargo build --features verif of /repo's current working tree; returns path of the dylib."""
    if "so" in _built:
        return _built["so"]
    os.makedirs(WORK, exist_ok=True)
    r = sh(["cargo", "build", "--offline", "--features", "verif", "--manifest-path", os.path.join(REPO, "Cargo.toml")], env=ENV)
    if r.returncode != 0:
        raise InfraError("hook build failed:\n" + r.stdout[-4000:])
    so = os.path.join(TARGET, "debug", "libinterthread.so")
    if not os.path.exists(so):
        raise InfraError("no libinterthread.so")
    _built["so"] = so
    return so


def manifest_dir(crates, name=None, dev=()):
    """a directory holding a Cargo.toml that declares exactly `crates` (+ `dev` as dev-dependencies)"""
    key = name or ("mf_" + hashlib.sha1((",".join(sorted(crates)) + "|" + ",".join(sorted(dev))).encode()).hexdigest()[:10])
    d = os.path.join(WORK, "manifests", key)
    os.makedirs(d, exist_ok=True)
    txt = '[package]\nname = "user_crate"\nversion = "0.1.0"\nedition = "2021"\n\n[dependencies]\n'
    for c in crates:
        txt += '%s = "*"\n' % c
    if dev:
        txt += "\n[dev-dependencies]\n"
        for c in dev:
            txt += '%s = "*"\n' % c
    p = os.path.join(d, "Cargo.toml")
    if not os.path.exists(p) or open(p).read() != txt:
        open(p, "w").write(txt)
    return d


def enc_records(recs):
    out = bytearray()
    for tag, fields in recs:
        out += ("%s %d\n" % (tag, len(fields))).encode()
        for f in fields:
            if isinstance(f, str):
                f = f.encode()
            out += ("%d\n" % len(f)).encode() + f + b"\n"
    return bytes(out)


def dec_records(data):
    pos = 0
    out = []
    n = len(data)
    while pos < n:
        e = data.index(b"\n", pos)
        head = data[pos:e].decode()
        pos = e + 1
        if not head.strip():
            continue
        tag, k = head.split()
        fields = []
        for _ in range(int(k)):
            e = data.index(b"\n", pos)
            ln = int(data[pos:e])
            pos = e + 1
            fields.append(data[pos:pos + ln].decode("utf-8", "replace"))
            pos += ln + 1
        out.append((tag, fields))
    return out


_counter = [0]


def run_batch(jobs, tag="batch", timeout=600):
    """jobs: list of (kind, [fields]).  Returns list of (class, [fields]) in the same order."""
    so = build_hook()
    _counter[0] += 1
    d = os.path.join(WORK, "%s_%d_%d" % (tag, os.getpid(), _counter[0]))
    os.makedirs(d, exist_ok=True)
    jf = os.path.join(d, "jobs")
    open(jf, "wb").write(enc_records(jobs))
    drv = os.path.join(d, "driver.rs")
    open(drv, "w").write('interthread::__verif_batch!("%s");\n' % jf)
    env = dict(ENV, CARGO_MANIFEST_DIR=manifest_dir(ALL_CRATES, "all"))
    cmd = ["rustc", "--edition", "2021", "--crate-type", "lib", "--emit", "metadata", "--out-dir", d,
           "--extern", "interthread=" + so, "-L", "dependency=" + os.path.join(TARGET, "debug", "deps"), drv]
    try:
        r = sh(cmd, env=env, timeout=timeout, cwd=d)
    except subprocess.TimeoutExpired:
        return None  # caller decides (hang)
    outp = jf + ".out"
    if r.returncode != 0 or not os.path.exists(outp):
        raise InfraError("driver failed:\n" + r.stdout[-4000:])
    res = dec_records(open(outp, "rb").read())
    if len(res) != len(jobs):
        raise InfraError("result count mismatch %d vs %d" % (len(res), len(jobs)))
    shutil.rmtree(d, ignore_errors=True)
    return res


def run_parallel(jobs, tag="batch", shards=8, timeout=600):
    """split into shards, each its own rustc process"""
    from concurrent.futures import ThreadPoolExecutor
    if len(jobs) <= 8:
        return run_batch(jobs, tag, timeout)
    k = min(shards, len(jobs))
    parts = [jobs[i::k] for i in range(k)]
    with ThreadPoolExecutor(k) as ex:
        rs = list(ex.map(lambda p: run_batch(p, tag, timeout), parts))
    if any(r is None for r in rs):
        return None
    out = [None] * len(jobs)
    for i, r in enumerate(rs):
        for j, x in enumerate(r):
            out[i + j * k] = x
    return out


if __name__ == "__main__":
    attr = 'channel = 2'
    item = 'impl A { pub fn new(v:i8)->Self{Self(v)} pub fn inc(&mut self){} pub fn get(&self, n:i8)->i8{n} }'
    t = time.time()
    for r in run_batch([("actor", [attr, item]), ("actor", ["bogus", item]), ("fn:script_field", ["", "foo_"]),
                        ("fn:script_field", ["", "foo_bar"]), ("fn:channels_import", [manifest_dir(["oneshot"]), "tokio"])]):
        print(r[0], [f[:300] for f in r[1]])
    print(time.time() - t)
