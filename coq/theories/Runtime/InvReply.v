(* Replies: a filled oneshot holds the result of the execution of that very call; a value returned
   to a client is the one of its own call (or the default of a quiet wait). *)
From Coq Require Import List Arith Bool Lia.
Import ListNotations.
From IT Require Import Runtime.Actor Runtime.Lists Runtime.ActorInv Runtime.InvDefs.

Section Inv.
Context {A V : Type}.
Variable sem : nat -> A -> list V -> option (A * V).
Variable sem_slf : nat -> A -> list V -> V.
Variable dv : V.
Notation st := (@st A V).
Notation step := (step sem sem_slf dv).
Notation step' := (step' sem sem_slf dv).
Notation run_from := (run_from sem sem_slf dv).
Notation run := (run sem sem_slf dv).

(* case analysis of one step: one goal per transition *)
Ltac step_cases H :=
  unfold Actor.step, step_client, step_actor in H;
  repeat match type of H with
  | context [match ?x with _ => _ end] => destruct x eqn:?; try discriminate H
  end;
  try (injection H as <-).

Local Arguments drop_tx : simpl never.

(* ---- the association list of oneshot slots ---- *)
Lemma callid_eqb_eq (a b : callid) : callid_eqb a b = true <-> a = b.
Proof.
  unfold callid_eqb. destruct a as [a1 a2], b as [b1 b2]. cbn.
  rewrite andb_true_iff, !Nat.eqb_eq. split; [intros [-> ->]; reflexivity|intros E; injection E; auto].
Qed.

Lemma callid_eqb_refl (a : callid) : callid_eqb a a = true.
Proof. apply callid_eqb_eq. reflexivity. Qed.

Lemma callid_eqb_neq (a b : callid) : a <> b -> callid_eqb a b = false.
Proof. intros N. destruct (callid_eqb a b) eqn:E; [|reflexivity]. apply callid_eqb_eq in E. contradiction. Qed.

Lemma callid_eq_dec (a b : callid) : {a = b} + {a <> b}.
Proof. decide equality; apply Nat.eq_dec. Qed.

Notation slot := (@slot A V).

Lemma slot_get_set_same (l : list (callid * slot)) c x : slot_get (slot_set l c x) c = Some x.
Proof.
  induction l as [|[c' y] l IH]; cbn.
  - rewrite callid_eqb_refl. reflexivity.
  - destruct (callid_eqb c' c) eqn:E; cbn; rewrite E; [reflexivity|exact IH].
Qed.

Lemma slot_get_set_other (l : list (callid * slot)) c c' x : c <> c' -> slot_get (slot_set l c x) c' = slot_get l c'.
Proof.
  intros N. induction l as [|[c1 y] l IH]; cbn.
  - rewrite (callid_eqb_neq _ _ N). reflexivity.
  - destruct (callid_eqb c1 c) eqn:E; cbn.
    + apply callid_eqb_eq in E. subst c1. rewrite (callid_eqb_neq _ _ N). reflexivity.
    + destruct (callid_eqb c1 c'); [reflexivity|exact IH].
Qed.

Lemma slot_get_set_full (l : list (callid * slot)) c c' x v :
  slot_get (slot_set l c x) c' = Some (SFull v) -> (c = c' /\ x = SFull v) \/ slot_get l c' = Some (SFull v).
Proof.
  intros H. destruct (callid_eq_dec c c') as [<-|N].
  - rewrite slot_get_set_same in H. injection H as ->. left. auto.
  - rewrite slot_get_set_other in H by exact N. right. exact H.
Qed.

Lemma drop_tx_full (l : list (callid * slot)) cs c v :
  slot_get (drop_tx l cs) c = Some (SFull v) -> slot_get l c = Some (SFull v).
Proof.
  unfold drop_tx. revert l. induction cs as [|c1 cs IH]; intros l H; cbn in H; [exact H|].
  apply IH in H. destruct (slot_get l c1) as [[| | | |]|] eqn:E; try exact H.
  apply slot_get_set_full in H. destruct H as [[_ D]|H]; [discriminate D|exact H].
Qed.

(* ---- the three clauses ---- *)
Definition full_ok (s : st) :=
  forall c v, slot_get (slots s) c = Some (SFull v) -> exists callee args, In (c, callee, args, v) (applied s).
Definition cid_ok (s : st) :=
  forall t cl c, nth_error (clients s) t = Some cl -> In c (pc_cids (c_pc cl)) -> fst c = t.
Definition ret_ok (m : rmodel) (s : st) :=
  forall t cl c v, nth_error (clients s) t = Some cl -> In (c, Returned v) (c_rets cl) ->
     fst c = t /\ ((exists callee args, In (c, callee, args, v) (applied s))
                   \/ (exists k rm, meth m k = Some rm /\ rm_loud_wait rm = false)).

Lemma reply_ok_split m s : reply_ok m s <-> full_ok s /\ cid_ok s /\ ret_ok m s.
Proof. unfold reply_ok, full_ok, cid_ok, ret_ok. tauto. Qed.

Ltac full_slots Hs :=
  repeat (apply drop_tx_full in Hs);
  try (apply slot_get_set_full in Hs; destruct Hs as [[<- Hx]|Hs]; [try discriminate Hx|]);
  repeat (apply drop_tx_full in Hs).

Lemma full_step m s ch s' : full_ok s -> step m s ch = Some s' -> full_ok s'.
Proof.
  intros I H. destruct ch as [t|]; cbn [Actor.step] in H.
  - step_cases H; intros qc qv Hs; cbn in *; try (exact (I _ _ Hs));
      repeat (match type of Hs with context [if ?b then _ else _] => destruct b end);
      try (exact (I _ _ Hs)); full_slots Hs; exact (I _ _ Hs).
  - step_cases H; intros qc qv Hs; cbn in *; try (exact (I _ _ Hs)); full_slots Hs.
    all: try (injection Hx as <-; exists (rm_callee r), (route dv (rm_args r) fs); rewrite in_app_iff; right; left; reflexivity).
    all: destruct (I _ _ Hs) as (callee & args & HI); exists callee, args; rewrite ?in_app_iff; auto.
Qed.

Lemma cid_step m s ch s' : cid_ok s -> step m s ch = Some s' -> cid_ok s'.
Proof.
  intros I H. destruct ch as [t|]; cbn [Actor.step] in H.
  - step_cases H; intros qt qcl qc Hn Hin; cbn in Hn;
      (apply upd_nth in Hn; destruct Hn as [(<- & -> & _)|(N & Hn)]; [|exact (I _ _ _ Hn Hin)]);
      repeat (match type of Hin with context [if ?b then _ else _] => destruct b end);
      cbn in Hin; try contradiction; (destruct Hin as [<-|[]]); try reflexivity;
      (eapply I; [eassumption|]);
      match goal with E : c_pc _ = _ |- _ => rewrite E end; cbn; auto.
  - step_cases H; cbn in *; exact I.
Qed.

Lemma ret_step m s ch s' : reply_ok m s -> step m s ch = Some s' -> ret_ok m s'.
Proof.
  intros I H. apply reply_ok_split in I. destruct I as (I1 & I2 & I3).
  destruct ch as [t|]; cbn [Actor.step] in H.
  - step_cases H; intros qt qcl qc qv Hn Hin; cbn in Hn;
      (apply upd_nth in Hn; destruct Hn as [(<- & -> & _)|(N & Hn)]; [|exact (I3 _ _ _ _ Hn Hin)]);
      repeat (match type of Hin with context [if ?b then _ else _] => destruct b end);
      cbn in Hin; rewrite ?in_app_iff in Hin; cbn in Hin;
      try (exact (I3 _ _ _ _ ltac:(eassumption) Hin));
      (destruct Hin as [Hin|[Hin|[]]]; [exact (I3 _ _ _ _ ltac:(eassumption) Hin)|]);
      try discriminate Hin; injection Hin as <- <-;
      (split; [eapply I2; [eassumption|]; match goal with E : c_pc _ = _ |- _ => rewrite E end; cbn; auto|]).
    all: first [left; apply I1; assumption | right; eauto].
  - step_cases H; intros qt qcl qc qv Hn Hin; cbn in *;
      destruct (I3 _ _ _ _ Hn Hin) as [E [(callee & args & HI)|R]]; (split; [exact E|]); auto;
      left; exists callee, args; rewrite ?in_app_iff; auto.
Qed.

Lemma reply_init m (a0 : A) (progs : list (list (@op V) * nat)) : reply_ok m (Actor.init a0 progs).
Proof.
  apply reply_ok_split. split; [|split].
  - intros c v H. cbn in H. discriminate H.
  - intros t cl c Hn Hin. cbn in Hn. apply nth_error_In in Hn. apply in_map_iff in Hn.
    destruct Hn as (p & <- & _). cbn in Hin. contradiction.
  - intros t cl c v Hn Hin. cbn in Hn. apply nth_error_In in Hn. apply in_map_iff in Hn.
    destruct Hn as (p & <- & _). cbn in Hin. contradiction.
Qed.

Lemma reply_step m s ch s' : reply_ok m s -> step m s ch = Some s' -> reply_ok m s'.
Proof.
  intros I H. apply reply_ok_split. pose proof (proj1 (reply_ok_split m s) I) as (I1 & I2 & _).
  split; [|split].
  - exact (full_step m s ch s' I1 H).
  - exact (cid_step m s ch s' I2 H).
  - exact (ret_step m s ch s' I H).
Qed.

Theorem reply_reachable m (a0 : A) (progs : list (list (@op V) * nat)) sched : reply_ok m (run m a0 progs sched).
Proof. unfold Actor.run. apply (inv_run sem sem_slf dv (reply_ok m) m (reply_step m)). apply reply_init. Qed.
End Inv.
